"""lsv.py — the check driver (see ../check and DESIGN.md §2.3, §6)."""
import sys, os, json, time, subprocess, hashlib, fcntl, re, shutil, glob

REPO = os.environ.get('VERIF_REPO', '/repo')
NCPU = os.cpu_count() or 4

FORBIDDEN = re.compile(r'\b(Admitted|admit|Axiom|Axioms|Parameter|Parameters|Conjecture|Conjectures|Hypothesis|Hypotheses|Variable|Variables|Abort)\b|Unset\s+Guard|bypass_check|Unset\s+Positivity|Unset\s+Universe|Admit\s+Obligations|-type-in-type|-impredicative-set')

def sh(cmd, timeout, cwd=None, env=None, stdin=None):
    e = dict(os.environ)
    e.update({'CARGO_NET_OFFLINE': 'true'})
    if env:
        e.update(env)
    try:
        p = subprocess.run(cmd, cwd=cwd, env=e, stdout=subprocess.PIPE, stderr=subprocess.STDOUT,
                           timeout=timeout, input=stdin, shell=isinstance(cmd, str))
        return p.returncode, p.stdout.decode('utf-8', 'replace')
    except subprocess.TimeoutExpired as ex:
        return 124, (ex.stdout or b'').decode('utf-8', 'replace') + '\n[timeout]'

def harness_dir(root, sub=''):
    """The harness crates name the crate under test by the path /repo.  When the checks are pointed at another copy of the
    repository (VERIF_REPO, used for background regression runs on a snapshot), build from a copy of harness/ in which
    that path is rewritten."""
    src = os.path.join(root, 'harness')
    if REPO == '/repo':
        return os.path.join(src, sub) if sub else src
    dst = os.path.join(root, '.cache', 'harness-src')
    os.makedirs(dst, exist_ok=True)
    sh(['rsync', '-a', '--delete', '--exclude', 'target', src + '/', dst + '/'], 120)
    for d, _, fs in os.walk(dst):
        for f in fs:
            if f == 'Cargo.toml':
                q = os.path.join(d, f)
                t = open(q).read()
                if 'path = "/repo"' in t:
                    open(q, 'w').write(t.replace('path = "/repo"', 'path = "%s"' % REPO))
    return os.path.join(dst, sub) if sub else dst

def sha_files(paths):
    h = hashlib.sha256()
    for p in sorted(paths):
        if os.path.isfile(p):
            h.update(p.encode()); h.update(b'\0')
            with open(p, 'rb') as f:
                h.update(f.read())
    return h.hexdigest()

def repo_files():
    out = []
    for d, _, fs in os.walk(os.path.join(REPO, 'src')):
        out += [os.path.join(d, f) for f in fs]
    out += [os.path.join(REPO, x) for x in ('Cargo.toml', 'Cargo.lock')]
    return out

def verif_files(root):
    out = []
    for pat in ('coq/theories/*.v', 'coq/theories/conc/*.v', 'coq/props/*.v', 'coq/_CoqProject', 'tools/*.py', 'model/*.ml',
                'harness/src/*.rs', 'harness/src/bin/*.rs', 'harness/Cargo.toml', 'harness/conv/src/*.rs', 'harness/conv/Cargo.toml',
                'harness/loomh/src/*.rs', 'harness/loomh/Cargo.toml'):
        out += glob.glob(os.path.join(root, pat))
    return out

# ------------------------------------------------------------------------------------------------ build
class Build:
    def __init__(self, root):
        self.root = root
        self.cache = os.path.join(root, '.cache')
        os.makedirs(self.cache, exist_ok=True)
        self.state_path = os.path.join(self.cache, 'build_state.json')

    def key(self):
        return sha_files(repo_files()) + ':' + sha_files(verif_files(self.root))

    def run(self, force=False):
        lock = open(os.path.join(self.cache, 'build.lock'), 'w')
        fcntl.flock(lock, fcntl.LOCK_EX)
        try:
            k = self.key()
            if not force and os.path.exists(self.state_path):
                st = json.load(open(self.state_path))
                if st.get('key') == k:
                    return st
            st = self._build(k)
            json.dump(st, open(self.state_path, 'w'), indent=1)
            return st
        finally:
            fcntl.flock(lock, fcntl.LOCK_UN)
            lock.close()

    def _build(self, k):
        t0 = time.time()
        root, cache = self.root, self.cache
        st = {'key': k, 'translate': None, 'coq_theories': None, 'props': {}, 'model': None, 'harness': None, 'log': {}}
        coq = os.path.join(root, 'coq')
        # 1. tie A: regenerate coq/gen/GenSrc.v from the source
        os.makedirs(os.path.join(coq, 'gen'), exist_ok=True)
        rc, out = sh([sys.executable, os.path.join(root, 'tools', 'translate.py'), REPO, os.path.join(coq, 'gen', 'GenSrc.v')], 60)
        st['translate'] = {'ok': rc == 0, 'msg': out.strip()[-2000:]}
        # 2. the development (full .vo build; never -vos)
        if rc == 0:
            rc1, out1 = sh('coq_makefile -f _CoqProject -o Makefile.gen > /dev/null 2>&1 && timeout 1500 make -f Makefile.gen -k -j%d 2>&1 | tail -60' % NCPU, 1600, cwd=coq)
            missing = []
            for line in open(os.path.join(coq, '_CoqProject')):
                line = line.strip()
                if line.endswith('.v') and not os.path.exists(os.path.join(coq, line[:-2] + '.vo')):
                    missing.append(line)
            # a .vo older than its .v means the rebuild failed
            stale = []
            for line in open(os.path.join(coq, '_CoqProject')):
                line = line.strip()
                if line.endswith('.v'):
                    v, vo = os.path.join(coq, line), os.path.join(coq, line[:-2] + '.vo')
                    if os.path.exists(vo) and os.path.getmtime(vo) < os.path.getmtime(v):
                        stale.append(line)
            ok = not missing and not stale and 'Error' not in out1
            st['coq_theories'] = {'ok': ok, 'missing': missing + stale, 'msg': out1[-3000:] if not ok else ''}
            # 3. property files: compiled one by one so that Print Assumptions output is attributed
            pout = os.path.join(cache, 'props_out')
            os.makedirs(pout, exist_ok=True)
            def launch(pid):
                return subprocess.Popen(
                    'timeout 900 coqc -Q theories LS -Q gen LSGen -Q props LSProps -Q theories/conc LSConc props/%s.v > %s 2>&1' % (pid, os.path.join(pout, pid + '.out')),
                    shell=True, cwd=coq)
            def collect(pid, p):
                rcp = p.wait()
                txt = open(os.path.join(pout, pid + '.out')).read()
                st['props'][pid] = {'ok': rcp == 0, 'closed': txt.count('Closed under the global context'),
                                    'axioms': re.findall(r'^Axioms:\s*\n((?:.+\n)+)', txt, re.M), 'msg': txt[-1500:] if rcp != 0 else ''}
            pids = [os.path.basename(pv)[:-2] for pv in sorted(glob.glob(os.path.join(coq, 'props', 'C*.v')))]
            for f in glob.glob(os.path.join(coq, 'props', '*.vo')):
                os.remove(f)
            # C01 first: the other property files import it (C01_step / C01_histories / C01_gen_ok)
            if 'C01' in pids:
                collect('C01', launch('C01'))
            procs = [(pid, launch(pid)) for pid in pids if pid != 'C01']
            for pid, p in procs:
                collect(pid, p)
            # 4. extraction + OCaml driver
            mdir = os.path.join(cache, 'model')
            os.makedirs(mdir, exist_ok=True)
            rc2, out2 = sh('cd %s && rm -f model_ex.ml model_ex.mli && timeout 300 coqc -Q %s/theories LS -Q %s/gen LSGen %s/theories/Extract.v 2>&1 | grep -v "^Warning\\|unknown-option\\|There is no flag\\|Extraction Output" ; '
                           'cp %s/model/driver.ml . && timeout 300 ocamlfind ocamlopt -O2 -w -a model_ex.mli model_ex.ml driver.ml -o model_driver.new 2>&1 && mv model_driver.new model_driver'
                           % (mdir, coq, coq, coq, root), 700)
            st['model'] = {'ok': rc2 == 0 and os.path.exists(os.path.join(mdir, 'model_driver')), 'msg': out2[-2000:] if rc2 != 0 else ''}
            sh('rm -f %s/theories/Extract.vo %s/theories/Extract.glob %s/theories/.Extract.aux' % (coq, coq, coq), 10)
        else:
            st['coq_theories'] = {'ok': False, 'missing': [], 'msg': 'translation failed'}
            st['model'] = {'ok': False, 'msg': 'translation failed'}
        # 5. the harness against /repo's working tree, hooks on
        hdir = harness_dir(root)
        lock_src = os.path.join(REPO, 'Cargo.lock')
        if os.path.exists(lock_src):
            shutil.copy(lock_src, os.path.join(hdir, 'Cargo.lock'))
        tgt = os.path.join(cache, 'harness-target')
        rc3, out3 = sh(['cargo', 'build', '--release', '--offline', '--target-dir', tgt], 1200, cwd=hdir,
                       env={'RUSTFLAGS': '--cfg lean_string_verif'})
        st['harness'] = {'ok': rc3 == 0, 'msg': out3[-3000:] if rc3 != 0 else ''}
        st['build_s'] = round(time.time() - t0, 1)
        return st

# ------------------------------------------------------------------------------------------------ traces
def split_cases(text):
    """case file text -> {id: text of that case}"""
    cases, cur, cid = {}, [], None
    order = []
    for line in text.splitlines():
        s = line.strip()
        if s.startswith('case '):
            cid = s.split()[1]; cur = [line]
        elif cid is not None:
            cur.append(line)
            if s == 'end':
                cases[cid] = '\n'.join(cur) + '\n'; order.append(cid); cid = None
    return cases, order

def parse_trace(text):
    """-> (steps: {(case, step): (outcome, events, slots)}, ends: {case: n}, monitors: [(case, step, name, props, detail)])"""
    steps, ends, mons = {}, {}, []
    for line in text.splitlines():
        if line.startswith('R '):
            p = line.split(' ', 5)
            if len(p) < 6: continue
            steps[(p[1], int(p[2]))] = (p[3], p[4], p[5].strip())
        elif line.startswith('E '):
            p = line.split()
            ends[p[1]] = int(p[2])
        elif line.startswith('M '):
            p = line.split(' ', 5)
            mons.append((p[1], int(p[2]), p[3], p[4].split(','), p[5] if len(p) > 5 else ''))
    return steps, ends, mons

def parse_slots(s):
    out = []
    if s == '-':
        return out
    for e in s.split(';'):
        if e == 'N':
            out.append(None)
        else:
            f = e[1:].split('/')
            out.append({'kind': e[0], 'text': f[0], 'cap': f[1], 'id': f[2] if len(f) > 2 else '-', 'rc': f[3] if len(f) > 3 else '-'})
    return out

def case_ops(case_text):
    ops = [l.split('#')[0].split() for l in case_text.splitlines() if l.strip().startswith('op ')]
    for o in ops:                      # `<name>:<item type>` -> name (the item type only selects the trait impl the runner uses)
        if len(o) > 2 and ':' in o[2]:
            o[2] = o[2].split(':')[0]
    return ops

BIG = 1 << 20

def op_target(op):
    """slot index the op mutates (None for constructor-like ops)"""
    name = op[2]
    try:
        if name in ('push', 'pop', 'remove', 'insert', 'insert_str', 'truncate', 'clear', 'retain', 'reserve', 'shrink_to',
                    'shrink_to_fit', 'extend_chars', 'extend_strs', 'write_fmt', 'clone_from', 'drop'):
            return int(op[3])
        if name == 'push_str':
            return int(op[4])
    except (ValueError, IndexError):
        return None
    return None

def op_has_big_arg(op):
    for t in op[3:]:
        if t.isdigit() and int(t) >= BIG:
            return True
    return False

def project(pid, op, prev_m, prev_i, sm, si):
    """property-specific projection of one step; returns (proj_model, proj_impl) or None when the step is outside
    what the property talks about.  sm/si = (outcome, events, slots string)"""
    om, em, slm = sm[0], sm[1], parse_slots(sm[2])
    oi, ei, sli = si[0], si[1], parse_slots(si[2])
    name = op[2] if len(op) > 2 else ''
    tgt = op_target(op)
    def texts(sl): return [None if x is None else x['text'] for x in sl]
    def fields(sl, keys): return [None if x is None else tuple(x[k] for k in keys) for x in sl]
    full = lambda o, e, sl: (o, e, fields(sl, ('kind', 'text', 'cap', 'id', 'rc')))
    if pid in ('C01', 'C20', 'C14'):
        return (om, texts(slm)), (oi, texts(sli))
    if pid == 'C02':
        sel = lambda sl: [x for k, x in enumerate(fields(sl, ('kind', 'text', 'id'))) if k != tgt and k < len(sl) - (0 if tgt is not None else 1)]
        return sel(slm), sel(sli)
    if pid == 'C03':
        return (em, fields(slm, ('id', 'rc'))), (ei, fields(sli, ('id', 'rc')))
    if pid == 'C05':
        if 'reserve' in om or 'reserve' in oi or 'A' in em + ei or 'R' in em + ei:
            return full(om, em, slm), full(oi, ei, sli)
        return None
    if pid == 'C06':
        if op_has_big_arg(op):
            return full(om, em, slm), full(oi, ei, sli)
        return None
    if pid == 'C07':
        if name in ('insert', 'insert_str', 'remove', 'truncate'):
            if om == 'panic_index' or oi == 'panic_index':
                return full(om, em, slm), full(oi, ei, sli)
            return (om, texts(slm)), (oi, texts(sli))
        return None
    if pid == 'C08':
        if name in ('clone', 'clone_from'):
            return (om, em, fields(slm, ('kind', 'text', 'id', 'rc'))), (oi, ei, fields(sli, ('kind', 'text', 'id', 'rc')))
        return None
    if pid == 'C09':
        pm = parse_slots(prev_m[2]) if prev_m else []
        was_inline = tgt is not None and tgt < len(pm) and pm[tgt] is not None and pm[tgt]['kind'] == 'I'
        if tgt is None or was_inline:
            return (om, em, fields(slm, ('kind', 'text'))), (oi, ei, fields(sli, ('kind', 'text')))
        return None
    if pid == 'C10':
        pm = parse_slots(prev_m[2]) if prev_m else []
        was_s = tgt is not None and tgt < len(pm) and pm[tgt] is not None and pm[tgt]['kind'] == 'S'
        any_s = any(x is not None and x['kind'] == 'S' for x in slm + sli)
        if name == 'from_static' or was_s or any_s:
            return (om, em, fields(slm, ('kind', 'text', 'id'))), (oi, ei, fields(sli, ('kind', 'text', 'id')))
        return None
    if pid == 'C11':
        return (om, fields(slm, ('kind', 'cap')), em), (oi, fields(sli, ('kind', 'cap')), ei)
    if pid == 'C12':
        if re.search(r'[ar]\d', em + ' ' + ei):
            return (om, em, fields(slm, ('kind', 'cap'))), (oi, ei, fields(sli, ('kind', 'cap')))
        return None
    if pid == 'C13':
        if name in ('shrink_to', 'shrink_to_fit'):
            return (om, em, fields(slm, ('kind', 'text', 'cap'))), (oi, ei, fields(sli, ('kind', 'text', 'cap')))
        return None
    if pid == 'C15':
        if name in ('display', 'from_bool', 'from_char', 'from_str', 'clone'):
            return (om, texts(slm)), (oi, texts(sli))
        return None
    if pid == 'C17':
        return texts(slm), texts(sli)
    if pid == 'C18':
        if om == 'panic_user' or oi == 'panic_user':
            return full(om, em, slm), full(oi, ei, sli)
        return None
    return full(om, em, slm), full(oi, ei, sli)

def extra_props(op, name):
    """monitors speak for further properties depending on the operation they fired on"""
    if op is None or len(op) < 3:
        return []
    n = op[2]
    out = []
    if name in ('text_mismatch', 'ret_mismatch', 'utf8_invalid', 'panic_other', 'process_abort'):
        if n == 'from_int':
            out += ['C15'] if op[3] in ('f32', 'f64') else ['C14']
        if n in ('display', 'from_bool', 'from_char') or (n in ('from_str', 'clone') and len(op) > 3 and op[3] == 'tls'):
            out += ['C15']
        if n in ('collect_chars', 'collect_strs', 'extend_chars', 'extend_strs', 'retain', 'display', 'write_fmt'):
            out += ['C18']
    if name in ('inline_alloc', 'ctor_alloc') and n == 'from_int':
        out += ['C14']
    if name in ('index_panic_mismatch', 'fail_changed', 'fail_not_prefix', 'panic_state', 'frame_changed'):
        out += ['C01']      # the outcome / resulting value differs from what String does
    if op_has_big_arg(op) and name in ('out_of_bounds', 'guard_damaged', 'text_mismatch', 'utf8_invalid', 'cap_lt_len', 'refcount_mismatch',
                                       'use_after_free', 'process_abort', 'panic_other', 'bad_layout', 'frame_changed', 'reserve_small',
                                       'with_capacity_small', 'orphan_block', 'leak', 'double_free'):
        out += ['C06']      # a size argument >= 2^20 corrupted something
    return out

def attributed(pid, cid, step, name, props, ops_c, isteps):
    """the properties a monitor failure speaks for (monitor tags + operation- and state-dependent ones)"""
    op_c = ops_c[step] if step < len(ops_c) else None
    props = list(props) + extra_props(op_c, name)
    # a wrong value / unexpected panic on a step whose target was a borrowed static also speaks for C10
    if op_c is not None and name in ('text_mismatch', 'panic_other', 'utf8_invalid', 'ret_mismatch', 'out_of_bounds', 'process_abort'):
        tg = op_target(op_c)
        prev = isteps.get((cid, step - 1))
        if tg is not None and prev is not None:
            ps = parse_slots(prev[2])
            if tg < len(ps) and ps[tg] is not None and ps[tg]['kind'] == 'S':
                props.append('C10')
    if pid == 'C20' and any(x in props for x in ('C01', 'C02', 'C03')):
        props.append('C20')
    return props

def still_fails(root, pid, text, name):
    rn = os.path.join(root, '.cache', 'harness-target', 'release', 'runner')
    tmp = os.path.join(root, '.cache', 'tmp', 'shrink_%d.cases' % os.getpid())
    open(tmp, 'w').write(text)
    rc, out = sh([rn, tmp], 120)
    os.remove(tmp)
    isteps, _, mons = parse_trace(out)
    cases, order = split_cases(text)
    for (cid, step, n, props, detail) in mons:
        if n == name and pid in attributed(pid, cid, step, n, props, case_ops(cases.get(cid, '')), isteps):
            return True
    return False

def shrink_case(root, pid, case_text, name, budget=150):
    """minimise a failing case: cut the tail, then delete in-place ops / neutralise constructors one at a time,
    keeping only changes after which the same monitor still fires for this property"""
    lines = [l for l in case_text.splitlines() if l.strip()]
    head = [l for l in lines if not l.strip().startswith('op ') and l.strip() != 'end']
    ops = [l for l in lines if l.strip().startswith('op ')]
    def build(o): return '\n'.join(head + o + ['end']) + '\n'
    if not still_fails(root, pid, build(ops), name):
        return case_text
    trials = [0]
    def ok(o):
        trials[0] += 1
        return trials[0] <= budget and still_fails(root, pid, build(o), name)
    lo, hi = 1, len(ops)                       # smallest failing prefix
    while lo < hi:
        mid = (lo + hi) // 2
        if ok(ops[:mid]): hi = mid
        else: lo = mid + 1
    ops = ops[:hi]
    i = len(ops) - 1
    while i >= 0 and trials[0] < budget:
        t = ops[i].split()
        ctor = t[2].split(':')[0] in ('new', 'from_str', 'from_static', 'with_capacity', 'from_char', 'from_bool', 'from_int', 'clone',
                        'collect_chars', 'collect_strs', 'display')
        cand = ops[:i] + (['op plain new'] if ctor else []) + ops[i + 1:]
        if cand != ops and ok(cand):
            ops = cand
        i -= 1
    # drop a trailing run of neutral constructors
    while len(ops) > 1 and ops[-1] == 'op plain new' and ok(ops[:-1]):
        ops = ops[:-1]
    return '# minimised from %d to %d operations by tools/lsv.py shrink_case\n' % (len([l for l in lines if l.strip().startswith('op ')]), len(ops)) + build(ops)

# ------------------------------------------------------------------------------------------------ property table
# profile mix, number of generated cases (quick, thorough), the monitors that speak for the property
PROPS = {
    'C01': dict(profiles=['valid', 'valid', 'hostile', 'faults'], n=(3000, 120000), large=['large', 'steered', 'huge']),
    'C02': dict(profiles=['valid', 'hostile', 'faults'], n=(3000, 120000), large=['large', 'steered', 'steered_faults']),
    'C03': dict(profiles=['valid', 'hostile', 'faults', 'faults_hostile'], n=(3000, 120000), large=['large', 'large_faults', 'steered', 'steered_faults', 'huge', 'huge_faults']),
    'C05': dict(profiles=['faults', 'faults_hostile'], n=(3000, 120000), large=['large_faults', 'steered_faults', 'huge_faults']),
    'C06': dict(profiles=['hostile', 'faults_hostile'], n=(3000, 100000), large=['large', 'large_faults', 'steered', 'huge', 'huge_faults']),
    'C07': dict(profiles=['hostile', 'hostile', 'valid'], n=(3000, 100000), large=['large']),
    'C08': dict(profiles=['valid', 'hostile'], n=(2000, 80000), large=['large', 'steered']),
    'C09': dict(profiles=['valid', 'hostile', 'faults'], n=(3000, 90000), large=['large', 'steered', 'huge']),
    'C10': dict(profiles=['valid', 'hostile', 'faults'], n=(2000, 80000), large=['large', 'steered']),
    'C11': dict(profiles=['valid', 'hostile', 'faults'], n=(3000, 90000), large=['large', 'steered', 'huge']),
    'C12': dict(profiles=['valid', 'hostile', 'faults'], n=(3000, 90000), large=['large', 'steered', 'huge']),
    'C13': dict(profiles=['valid', 'hostile', 'faults'], n=(2000, 80000), large=['large', 'steered', 'huge']),
    'C15': dict(profiles=['valid', 'hostile', 'faults'], n=(1500, 60000), large=['steered']),
    'C17': dict(profiles=['valid', 'hostile'], n=(1500, 60000), large=['large']),
    'C18': dict(profiles=['hostile', 'faults'], n=(3000, 100000), large=['large', 'steered', 'steered_faults']),
    'C20': dict(profiles=['valid', 'hostile', 'faults'], n=(1500, 60000), large=['large']),
}

class Result:
    def __init__(self, pid, tier, seed):
        self.pid, self.tier, self.seed = pid, tier, seed
        self.obligations = []      # (name, ok, detail)
        self.violations = []       # (what, replay_path, found_input: bool)
        self.known = []
        self.cov = {}
        self.samples = []
        self.t0 = time.time()
    def oblige(self, name, ok, detail=''):
        self.obligations.append((name, bool(ok), detail))
        return ok

def write_replay(root, pid, tag, text):
    d = os.path.join(root, 'evidence', 'replays')
    os.makedirs(d, exist_ok=True)
    p = os.path.join(d, '%s_%s.cases' % (pid, re.sub(r'[^A-Za-z0-9_.-]', '_', str(tag))))
    open(p, 'w').write(text)
    return p

def load_known(root):
    p = os.path.join(root, 'known_findings.json')
    return json.load(open(p)).get('findings', []) if os.path.exists(p) else []

def audit_sources(root):
    """forbidden declarations anywhere in the development (comments stripped)"""
    bad = []
    for pv in sorted(glob.glob(os.path.join(root, 'coq', 'theories', '*.v')) + glob.glob(os.path.join(root, 'coq', 'props', '*.v'))
                     + glob.glob(os.path.join(root, 'coq', 'gen', '*.v'))):
        src = open(pv).read()
        src = re.sub(r'\(\*.*?\*\)', ' ', src, flags=re.S)
        for m in FORBIDDEN.finditer(src):
            # `Variable`/`Hypothesis` are allowed inside a Section only
            w = m.group(0)
            if w.split()[0] in ('Variable', 'Variables', 'Hypothesis', 'Hypotheses'):
                pre = src[:m.start()]
                if len(re.findall(r'\bSection\s+\w+', pre)) > len(re.findall(r'\bEnd\s+\w+\s*\.', pre)):
                    continue
            bad.append('%s: %s' % (os.path.relpath(pv, root), w))
    return bad

def theorem_statements(path):
    src = open(path).read()
    src = re.sub(r'\(\*.*?\*\)', ' ', src, flags=re.S)
    out = {}
    for m in re.finditer(r'\b(?:Theorem|Lemma|Example|Corollary)\s+(\w+)\s*(.*?)\.\s*Proof\.', src, re.S):
        out[m.group(1)] = re.sub(r'\s+', ' ', m.group(2)).strip()
    return out

def check_pins(root, pid):
    pins_path = os.path.join(root, 'coq', 'pins.json')
    pins = json.load(open(pins_path)) if os.path.exists(pins_path) else {}
    pv = os.path.join(root, 'coq', 'props', pid + '.v')
    if not os.path.exists(pv):
        return False, 'props/%s.v missing' % pid, 0
    cur = theorem_statements(pv)
    want = pins.get(pid, {})
    diffs = [n for n in want if cur.get(n) != want[n]] + [n for n in cur if n not in want]
    return (not diffs and len(cur) > 0), ('statements differ from coq/pins.json: %s' % diffs if diffs else ''), len(cur)

def run_cases(root, case_text, timeout):
    """-> (model_trace_text or None, impl_trace_text or None, errors)"""
    cache = os.path.join(root, '.cache')
    tmp = os.path.join(cache, 'tmp')
    os.makedirs(tmp, exist_ok=True)
    cf = os.path.join(tmp, 'cases_%d_%d.cases' % (os.getpid(), int(time.time() * 1000) % 100000))
    open(cf, 'w').write(case_text)
    errs = []
    mtxt = itxt = None
    md = os.path.join(cache, 'model', 'model_driver')
    if os.path.exists(md):
        # the extracted model recurses over lists (a megabyte of text is a million cells): no stack limit; big inputs are
        # split over several processes, case by case
        if len(case_text) > (4 << 20):
            import concurrent.futures
            cases, order = split_cases(case_text)
            nsh = min(16, max(1, len(order)))
            shards = [''.join(cases[c] for c in order[k::nsh]) for k in range(nsh)]
            def one(k):
                f = cf + '.m%d' % k
                open(f, 'w').write(shards[k])
                r = sh('ulimit -s unlimited; exec %s %s' % (md, f), timeout)
                os.remove(f)
                return r
            with concurrent.futures.ThreadPoolExecutor(nsh) as ex:
                rs = list(ex.map(one, range(nsh)))
            bad = [r for r in rs if r[0] != 0]
            if bad:
                errs.append('model driver exit %d: %s' % (bad[0][0], bad[0][1][-300:])); mtxt = None
            else:
                # back into the order of the input (the traces are compared case by case anyway)
                per = {}
                for r in rs:
                    cur = None
                    for line in r[1].splitlines(True):
                        parts = line.split(' ', 2)
                        if len(parts) >= 2 and parts[0] in ('R', 'E', 'M', 'X', 'P'):
                            cur = parts[1].strip()
                        per.setdefault(cur, []).append(line)
                mtxt = ''.join(''.join(per.get(c, [])) for c in order)
        else:
            rc, mtxt = sh('ulimit -s unlimited; exec %s %s' % (md, cf), timeout)
            if rc != 0:
                errs.append('model driver exit %d: %s' % (rc, mtxt[-300:])); mtxt = None
    rn = os.path.join(cache, 'harness-target', 'release', 'runner')
    if os.path.exists(rn):
        rc, itxt = sh([rn, cf], timeout)
        if rc != 0:
            errs.append('runner exit %d: %s' % (rc, itxt[-300:])); itxt = None
    os.remove(cf)
    return mtxt, itxt, errs

def gen_text(root, seed, count, profile, start):
    rc, out = sh([sys.executable, os.path.join(root, 'tools', 'gen_cases.py'), '--seed', str(seed), '--count', str(count),
                  '--profile', profile, '--start', str(start)], 600)
    if rc != 0:
        raise RuntimeError('generator failed: ' + out[-500:])
    return out

def corpus_text(root):
    txt = ''
    for f in sorted(glob.glob(os.path.join(root, 'corpus', '*.cases'))):
        txt += open(f).read() + '\n'
    return txt

def explore(root, pid, res, case_text, label, stats):
    """run one batch; record monitor failures tagged with pid and projection disagreements"""
    cases, order = split_cases(case_text)
    mtxt, itxt, errs = run_cases(root, case_text, 1800)
    for e in errs:
        res.oblige('run:' + label, False, e)
    if itxt is None:
        return
    isteps, iends, mons = parse_trace(itxt)
    stats['cases'] += len(order)
    stats['steps'] += len(isteps)
    for (_, _), (o, e, s) in isteps.items():
        stats['outcomes'][o.split(':')[0]] = stats['outcomes'].get(o.split(':')[0], 0) + 1
    # monitors: the property predicate evaluated on the real run
    seen = set()
    opcache = {}
    for (cid, step, name, props, detail) in mons:
        if cid in cases and cid not in opcache:
            opcache[cid] = case_ops(cases[cid])
        props = attributed(pid, cid, step, name, props, opcache.get(cid, []), isteps)
        if pid in props and cid not in seen:
            seen.add(cid)
            stats['monitor_failures'] += 1
            if len(res.violations) < 5:
                ctext = cases.get(cid, '')
                try:
                    if len(res.violations) < 2 and ctext:
                        ctext = shrink_case(root, pid, ctext, name)
                except Exception:
                    pass
                rp = write_replay(root, pid, '%s_%s' % (label, cid), ctext)
                res.violations.append(('monitor %s at case %s step %d: %s' % (name, cid, step, detail[:200]), rp, True, name))
    # correspondence on the property's projection
    if mtxt is None:
        return
    msteps, mends, _ = parse_trace(mtxt)
    for cid in order:
        ops = case_ops(cases[cid])
        stats['nontrivial'].add(hashlib.md5(('\n'.join(' '.join(o) for o in ops)).encode()).hexdigest()) if len(ops) >= 3 else None
        prev_m = prev_i = None
        for k, op in enumerate(ops):
            sm, si = msteps.get((cid, k)), isteps.get((cid, k))
            if sm is None or si is None:
                if (sm is None) != (si is None) and cid not in seen:
                    stats['disagreements'] += 1
                    if len(stats['disagree_samples']) < 3:
                        stats['disagree_samples'].append((cid, k, 'missing step on one side', cases[cid]))
                break
            pr = project(pid, op, prev_m, prev_i, sm, si)
            if pr is not None:
                stats['compared'] += 1
                stats['ops'][op[2]] = stats['ops'].get(op[2], 0) + 1
                if pr[0] != pr[1]:
                    stats['disagreements'] += 1
                    if len(stats['disagree_samples']) < 3:
                        stats['disagree_samples'].append((cid, k, 'model %r\nimpl  %r' % (pr[0], pr[1]), cases[cid]))
                    break
            prev_m, prev_i = sm, si
        if pid in ('C03', 'C05', 'C18') and mends.get(cid) != iends.get(cid) and cid in mends and cid in iends:
            stats['disagreements'] += 1
    if not res.samples and order:
        res.samples.append(cases[order[len(order) // 2]].strip().splitlines()[:14])

def base_obligations(root, pid, res, st):
    res.oblige('tieA:translate', st['translate']['ok'], st['translate']['msg'] if not st['translate']['ok'] else '')
    res.oblige('coq:theories', st['coq_theories']['ok'], st['coq_theories'].get('msg', '')[-800:])
    ps = st['props'].get(pid)
    pinned_ok, pin_msg, nthm = check_pins(root, pid)
    if ps is None:
        res.oblige('coq:props/%s.v' % pid, False, 'not built')
    else:
        res.oblige('coq:props/%s.v compiles' % pid, ps['ok'], ps.get('msg', '')[-800:])
        res.oblige('coq:Print Assumptions closed (%d theorems)' % nthm, ps['ok'] and ps['closed'] >= nthm and not ps['axioms'],
                   'closed=%d axioms=%s' % (ps['closed'], ps['axioms']))
    res.oblige('coq:pinned statements', pinned_ok, pin_msg)
    bad = audit_sources(root)
    res.oblige('coq:no Admitted/Axiom/Parameter/unsafe flags', not bad, '; '.join(bad[:8]))
    res.oblige('model:extraction+ocaml build', st['model']['ok'], st['model'].get('msg', '')[-500:])
    res.oblige('harness:cargo build (hooks on)', st['harness']['ok'], st['harness'].get('msg', '')[-800:])
    res.cov['theorems'] = nthm
    if res.tier == 'thorough' and ps is not None and ps['ok']:
        # the independent checker re-checks props/<pid>.vo and everything it depends on, and lists the axioms
        rc, out = sh('timeout 2400 coqchk -o -silent -Q theories LS -Q gen LSGen -Q props LSProps -Q theories/conc LSConc LSProps.%s 2>&1' % pid,
                     2500, cwd=os.path.join(root, 'coq'))
        ok = rc == 0 and '* Axioms: <none>' in out and 'type-in-type: <none>' in out and 'unsafe (co)fixpoints: <none>' in out \
             and 'positivity is assumed: <none>' in out
        res.oblige('coqchk -o: independent re-check of props/%s.vo and its dependencies; axioms <none>' % pid, ok, out[-600:])

# ------------------------------------------------------------------------------------------------ C12 push loops
def push_loop_specs(tier):
    totals = [1, 15, 16, 17, 24, 25, 100, 4096, 65536, 1 << 20] if tier == 'quick' else \
             [1, 15, 16, 17, 24, 25, 36, 37, 100, 1000, 4096, 65535, 65536, 1 << 20, 3 << 20, 1 << 23]
    pats = ['1', '2', '3', '4', '1234', '41', '1113'] if tier == 'quick' else \
           ['1', '2', '3', '4', '1234', '4321', '41', '14', '1113', '22221', '333', '1421312']
    return [(t, p) for t in totals for p in pats]

def push_loop_one(root, total, pat, with_model=True):
    """runs `runner --pushloop` (real crate) and `model_driver --pushloop` (extracted GrowSim.gstep); returns
    (property_violation or None, correspondence_difference or None, growth_events)"""
    rn = os.path.join(root, '.cache', 'harness-target', 'release', 'runner')
    md = os.path.join(root, '.cache', 'model', 'model_driver')
    rc1, o1 = sh([rn, '--pushloop', str(total), pat], 600)
    rc2, o2 = sh([md, '--pushloop', str(total), pat], 600) if with_model else (0, '')
    real = [l.split() for l in o1.splitlines() if l and not l.startswith('WARNING')]
    mod = [l.split() for l in o2.splitlines() if l and not l.startswith('WARNING')]
    viol = None
    if rc1 != 0 or not real or real[-1][0] != 'END':
        return ('runner --pushloop %d %s failed (exit %s): %s' % (total, pat, rc1, o1[-300:]), None, 0)
    cap = 16
    ws = [int(c) for c in pat]
    for l in real:
        if l[0] == 'M':
            viol = viol or ('monitor: ' + ' '.join(l[1:]))
        if l[0] == 'G':
            before, after = int(l[1]), int(l[2])
            asks = [e for e in l[3].split(',') if e and e[0] != 'd']
            # which piece was being appended: recompute from the pattern
            w = None
            acc, i = 0, 0
            # (pattern sums are periodic: find the piece at offset `before`)
            per = sum(ws)
            acc = (before // per) * per
            i = 0
            while acc < before:
                acc += ws[i % len(ws)]; i += 1
            w = ws[i % len(ws)]
            if before + w <= cap:
                viol = viol or ('allocator asked (%s) although %d + %d fits the capacity %d' % (l[3], before, w, cap))
            if len(asks) != 1:
                viol = viol or ('%d allocator requests in one append at length %d (%s)' % (len(asks), before, l[3]))
            if after < before + before // 2:
                viol = viol or ('growth at length %d gave capacity %d < %d = len + len/2' % (before, after, before + before // 2))
            if after > max(before + before // 2, before + w):
                viol = viol or ('growth at length %d (+%d) gave capacity %d > max(len + len/2, need) = %d' % (before, w, after, max(before + before // 2, before + w)))
            cap = after
    end = dict(kv.split('=') for kv in real[-1][1:])
    n, k, cp = int(end['len']), int(end['requests']), int(end['copied'])
    if k >= 1:
        h = (k - 1) // 2
        if 3 ** h > 2 ** h * n:
            viol = viol or ('%d allocator requests for %d bytes: more than the logarithmic bound 3^((k-1)/2) <= 2^((k-1)/2) * n' % (k, n))
    if cp > 6 * n:
        viol = viol or ('%d bytes copied by reallocations for a final length of %d (> 6n)' % (cp, n))
    diff = None
    a = [' '.join(l[:3]) if l[0] == 'G' else ' '.join(l) for l in real if l[0] in ('G', 'END')]
    b = [' '.join(l[:3]) if l[0] == 'G' else ' '.join(l) for l in mod if l[0] in ('G', 'END')]
    if with_model and a != b:
        j = next((x for x in range(min(len(a), len(b))) if a[x] != b[x]), min(len(a), len(b)))
        diff = 'real: %s | GrowSim.gstep: %s' % (a[j] if j < len(a) else '(end)', b[j] if j < len(b) else '(end)')
    return (viol, diff, k)

def push_loops(root, pid, res, tier, stats, only=None, with_model=True):
    specs = [only] if only else push_loop_specs(tier)
    import concurrent.futures as cf
    bad_corr = []
    nloops = 0
    nevents = 0
    with cf.ThreadPoolExecutor(max_workers=8) as ex:
        outs = list(ex.map(lambda tp: (tp, push_loop_one(root, tp[0], tp[1], with_model)), specs))
    for (total, pat), (viol, diff, k) in outs:
        nloops += 1; nevents += k
        if viol and len(res.violations) < 5:
            rp = write_replay(root, pid, 'pushloop_%d_%s' % (total, pat), 'pushloop %d %s\n# %s\n' % (total, pat, viol))
            res.violations.append(('push loop of %d bytes (widths %s): %s' % (total, pat, viol), rp, True, 'push_loop'))
        if diff:
            bad_corr.append('pushloop %d %s: %s' % (total, pat, diff))
    if with_model:
        res.oblige('push loops: real crate follows the extracted GrowSim.gstep (capacity at every growth, requests, copied) on %d loops' % nloops,
                   not bad_corr, '\n'.join(bad_corr[:5]))
    res.cov['push_loops'] = nloops
    res.cov['push_loop_growth_events'] = nevents
    stats['cases'] += nloops

def new_stats():
    return dict(cases=0, steps=0, compared=0, disagreements=0, monitor_failures=0, outcomes={}, ops={}, nontrivial=set(), disagree_samples=[])

def finish_without_search(root, pid, res, stats):
    failed_obl = [o for o in res.obligations if not o[1]]
    if not res.violations:
        if failed_obl:
            txt = 'property %s: obligations that no longer check on this tree\n' % pid
            for n, ok, d in failed_obl:
                txt += '- %s\n    %s\n' % (n, d.replace('\n', '\n    '))
            txt += '\nno failing input found by the monitors in %d cases / %d steps\n' % (stats['cases'], stats['steps'])
            rp = write_replay(root, pid, 'obligation', txt)
            res.violations.append(('obligation failed: ' + failed_obl[0][0], rp, False, 'obligation'))
        elif stats['disagreements']:
            cid, k, d, ctext = stats['disagree_samples'][0]
            txt = ('# property %s: correspondence (projection pi-%s) between the Coq model and the implementation broke at case %s step %d\n# %s\n'
                   % (pid, pid, cid, k, d.replace('\n', '\n# ')) + ctext)
            rp = write_replay(root, pid, 'correspondence_%s' % cid, txt)
            res.violations.append(('correspondence pi-%s disagrees at case %s step %d' % (pid, cid, k), rp, False, 'correspondence'))

def decide(root, pid, tier, seed, replay=None):
    res = Result(pid, tier, seed)
    b = Build(root)
    st = b.run()
    # ---- proof obligations
    base_obligations(root, pid, res, st)
    # ---- correspondence + monitors
    stats = new_stats()
    if pid in PROPS or replay:
        cfg = PROPS.get(pid, dict(profiles=['valid'], n=(500, 5000)))
        if replay and open(replay).read().startswith('pushloop '):
            t = open(replay).read().split()
            push_loops(root, pid, res, tier, stats, only=(int(t[1]), t[2]), with_model=st['model']['ok'])
        elif replay:
            explore(root, pid, res, open(replay).read(), 'replay', stats)
        else:
            explore(root, pid, res, corpus_text(root), 'corpus', stats)
            n = cfg['n'][0 if tier == 'quick' else 1]
            per = max(1, n // len(cfg['profiles']))
            chunk = 4000
            start = 0
            for pi, prof in enumerate(cfg['profiles']):
                done = 0
                while done < per:
                    c = min(chunk, per - done)
                    explore(root, pid, res, gen_text(root, seed * 1000 + pi, c, prof, start), '%s_s%d' % (prof, seed), stats)
                    done += c; start += c
                    if len(res.violations) >= 5:
                        break
            # extra passes: texts and capacities of a page or more (few operations each), of 100 KiB .. 3 MiB (a handful of
            # cases), and steered histories (sharers of
            # different lengths, appends into reserved room with exact size hints, refused reservations on sharers)
            for li, prof in enumerate(cfg.get('large', [])):
                nl = (16 if tier == 'quick' else 300) if prof.startswith('huge') else (240 if tier == 'quick' else 4000)
                explore(root, pid, res, gen_text(root, seed * 1000 + 70 + li, nl, prof, 8 * 10 ** 6 + li * 10 ** 5), '%s_s%d' % (prof, seed), stats)
    if pid == 'C12' and not replay and st['harness']['ok']:
        # (without a model — e.g. the translator rejected the source — the loops are still checked against the property's bounds)
        push_loops(root, pid, res, tier, stats, with_model=st['model']['ok'])
    # ---- extraction cross-check: the OCaml run of the extracted model against vm_compute inside Coq
    if pid in ('C01', 'C03', 'C05', 'C09', 'C13') and not replay and st['model']['ok'] and st['coq_theories']['ok']:
        import coqcases
        ctext = corpus_text(root) + gen_text(root, seed * 1000 + 991, 30 if tier == 'quick' else 300, 'mix', 5 * 10 ** 6)
        mtxt, _, _ = run_cases(root, ctext, 600)
        if mtxt is not None:
            nchk, nbad, detail = coqcases.cross_check(root, ctext, mtxt, 40 if tier == 'quick' else 300)
            res.oblige('extraction: OCaml model == vm_compute inside Coq on %d cases' % nchk, nbad == 0 and nchk > 0, detail)
            res.cov['extraction_cross_check_cases'] = nchk
    # ---- disagreement without a monitor failure: directed search, then report
    failed_obl = [o for o in res.obligations if not o[1]]
    if (stats['disagreements'] or failed_obl) and not res.violations and not replay and pid in PROPS:
        cfg = PROPS[pid]
        for extra in range(3):
            for pi, prof in enumerate(cfg['profiles']):
                explore(root, pid, res, gen_text(root, (seed + 7919 * (extra + 1)) * 1000 + pi, 3000, prof, 10 ** 6 * (extra + 1)), 'search%d_%s' % (extra, prof), stats)
            for li, prof in enumerate(cfg.get('large', [])):
                explore(root, pid, res, gen_text(root, (seed + 7919 * (extra + 1)) * 1000 + 70 + li, 48 if prof.startswith('huge') else 1500, prof, 10 ** 6 * (extra + 1) + 5 * 10 ** 5 + li * 10 ** 5),
                        'search%d_%s' % (extra, prof), stats)
            if res.violations:
                break
    # ---- still nothing concrete: the same inputs through an UNOPTIMISED build of the runner (debug assertions and
    #      overflow checks on) — a change may misbehave only there
    failed_obl = [o for o in res.obligations if not o[1]]
    if (stats['disagreements'] or failed_obl) and not res.violations and not replay and pid in PROPS and st['harness']['ok']:
        dev_search(root, pid, res, seed, stats)
    finish_without_search(root, pid, res, stats)
    res.stats = stats
    return res, st

def dev_search(root, pid, res, seed, stats):
    tgt = os.path.join(root, '.cache', 'harness-target-default-dev')
    rc, out = sh(['cargo', 'build', '--offline', '--target-dir', tgt, '--bin', 'runner'], 1500, cwd=harness_dir(root),
                 env={'RUSTFLAGS': '--cfg lean_string_verif'})
    rn = os.path.join(tgt, 'debug', 'runner')
    if rc != 0 or not os.path.exists(rn):
        return
    cfg = PROPS[pid]
    txt = corpus_text(root)
    for pi, prof in enumerate(cfg['profiles']):
        txt += gen_text(root, seed * 1000 + pi, 1500, prof, 7 * 10 ** 6 + pi * 10 ** 5)
    cases, order = split_cases(txt)
    cf = os.path.join(root, '.cache', 'tmp', 'dev_%d.cases' % os.getpid())
    os.makedirs(os.path.dirname(cf), exist_ok=True)
    open(cf, 'w').write(txt)
    rc, itxt = sh([rn, cf], 1800)
    os.remove(cf)
    isteps, iends, mons = parse_trace(itxt)
    seen = set(); opcache = {}
    for (cid, step, name, props, detail) in mons:
        if cid in cases and cid not in opcache:
            opcache[cid] = case_ops(cases[cid])
        props = attributed(pid, cid, step, name, props, opcache.get(cid, []), isteps)
        if pid in props and cid not in seen:
            seen.add(cid)
            stats['monitor_failures'] += 1
            if len(res.violations) < 5:
                rp = write_replay(root, pid, 'dev_%s' % cid, '# unoptimised build of the runner (cargo build without --release)\n' + cases.get(cid, ''))
                res.violations.append(('unoptimised build: monitor %s at case %s step %d: %s' % (name, cid, step, detail[:160]), rp, True, name))
    res.cov['dev_build_search_cases'] = len(order)

def emit(root, res, st):
    pid = res.pid
    # an obligation added after decide() (configuration builds, loom build, coqchk, ...) that failed, with nothing else
    # reported: the property is no longer shown to hold
    if not res.violations and any(not o[1] for o in res.obligations):
        finish_without_search(root, pid, res, res.stats)
    known = load_known(root)
    out_lines = []
    viol = 0
    # a broken obligation whose search found nothing, when a later part of the same check did find a failing input: the
    # failing input is the report, the broken obligation becomes a remark under it
    remarks = []
    def is_known(v):
        return any(f.get('status') == 'known' and f.get('property') == pid and f.get('monitor') == v[3]
                   and f.get('signature', '') in v[0] for f in known)
    if any(v[2] and not is_known(v) for v in res.violations):
        remarks = [v[0] for v in res.violations if not v[2]]
        res.violations = [v for v in res.violations if v[2]]
    for what, rp, found, mon in res.violations:
        k = next((f for f in known if f.get('status') == 'known' and f.get('property') == pid and f.get('monitor') == mon
                  and f.get('signature', '') in what), None)
        if k:
            out_lines.append('KNOWN-FINDING: property=%s %s' % (pid, k.get('what', what)))
        else:
            viol += 1
            out_lines.append('VIOLATION property=%s replay=%s%s' % (pid, rp, '' if found else ' no-failing-input-found'))
            out_lines.append('  # ' + what)
    for r in remarks:
        out_lines.append('  # also: ' + r)
    s = res.stats
    nobl = len(res.obligations)
    ndis = sum(1 for o in res.obligations if o[1])
    ev = {
        'property_id': pid, 'tier': res.tier, 'seed': res.seed, 'level': 'proof',
        'coverage': {
            'obligations': nobl, 'discharged': ndis,
            'checker_cmd': 'coq_makefile -f _CoqProject && make (coqc 8.16.1, full .vo) ; coqc props/%s.v ; Print Assumptions' % pid,
            'trusted_base': ['Coq 8.16.1 kernel + vm_compute (no native_compute)', 'tools/translate.py (tie A)',
                             'extraction: ExtrOcamlBasic only; OCaml 4.13.1', 'harness runner + shim allocator + monitors (tie B)',
                             'rustc/cargo 1.95', 'axioms: none (every property theorem prints Closed under the global context)'],
            'obligation_list': [{'name': n, 'ok': ok, **({'detail': d[:400]} if not ok else {})} for n, ok, d in res.obligations],
            'theorems_in_props_file': res.cov.get('theorems', 0),
            'evaluations': s['steps'], 'distinct_nontrivial': len(s['nontrivial']),
            'rule': 'histories from tools/gen_cases.py (SplitMix64 from VERIF_SEED) plus corpus/*.cases; a case is non-trivial if it has >= 3 operations; distinct by md5 of its op list',
            'cases': s['cases'], 'steps_compared_on_projection': s['compared'], 'projection_disagreements': s['disagreements'],
            'monitor_failures': s['monitor_failures'], 'outcome_distribution': s['outcomes'], 'ops_compared': s['ops'],
            'traces_validated_against_impl': s['cases'],
            'samples': res.samples or [['(no generated cases for this property)']],
            'extra': {k: v for k, v in res.cov.items() if k != 'theorems'},
        },
        'assumptions': ['64-bit little-endian target', 'the hand-written model (coq/theories/Impl.v, Exec.v) is tied to the code by differential execution, not by proof',
                        'build_s=%s' % st.get('build_s')],
        'wall_s': round(time.time() - res.t0, 2), 'violations': viol,
    }
    os.makedirs(os.path.join(root, 'evidence'), exist_ok=True)
    json.dump(ev, open(os.path.join(root, 'evidence', pid + '.json'), 'w'), indent=1)
    for l in out_lines:
        print(l)
    print('%s %s: %d/%d obligations, %d cases, %d steps, %d compared, %d disagreements, %d monitor failures, %.1fs'
          % (pid, 'FAIL' if viol else 'ok', ndis, nobl, s['cases'], s['steps'], s['compared'], s['disagreements'], s['monitor_failures'], time.time() - res.t0))
    return 1 if viol else 0

def main(root, argv):
    import argparse
    ap = argparse.ArgumentParser()
    ap.add_argument('pid', nargs='?')
    ap.add_argument('--tier', default=os.environ.get('VERIF_TIER', 'quick'))
    ap.add_argument('--replay')
    ap.add_argument('--setup', action='store_true')
    ap.add_argument('--force', action='store_true')
    a = ap.parse_args(argv)
    seed = int(os.environ.get('VERIF_SEED', '1'))
    if a.setup:
        st = Build(root).run(force=a.force)
        ok = st['translate']['ok'] and st['coq_theories']['ok'] and st['model']['ok'] and st['harness']['ok'] and all(p['ok'] for p in st['props'].values())
        print('setup: translate=%s coq=%s props=%s model=%s harness=%s (%.0fs)' % (
            st['translate']['ok'], st['coq_theories']['ok'], {k: v['ok'] for k, v in st['props'].items()}, st['model']['ok'], st['harness']['ok'], st.get('build_s', 0)))
        if not ok:
            print(json.dumps({k: st[k] for k in ('translate', 'coq_theories', 'model', 'harness')}, indent=1)[:4000])
            for k, v in st['props'].items():
                if not v['ok']: print(k, v['msg'])
        return 0 if ok else 1
    from lsv_special import SPECIAL
    if a.pid in SPECIAL:
        return SPECIAL[a.pid](root, a.pid, a.tier, seed, a.replay)
    res, st = decide(root, a.pid, a.tier, seed, a.replay)
    return emit(root, res, st)
