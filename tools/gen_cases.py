#!/usr/bin/env python3
"""gen_cases.py — structured generator of operation histories (harness/FORMAT.md).

Every random choice derives from one SplitMix64 state (seed, stream).  The generator keeps a light
shadow of the pool (text of each slot as Python bytes + a storage-kind guess) so that it can aim
indices/sizes at boundaries and steer histories through storage transitions.  The shadow is only a
steering aid: nothing it believes is used as an oracle.
"""
import sys

MASK = (1 << 64) - 1

class Rng:
    def __init__(self, seed):
        self.s = seed & MASK
    def next(self):
        self.s = (self.s + 0x9E3779B97F4A7C15) & MASK
        z = self.s
        z = ((z ^ (z >> 30)) * 0xBF58476D1CE4E5B9) & MASK
        z = ((z ^ (z >> 27)) * 0x94D049BB133111EB) & MASK
        return z ^ (z >> 31)
    def below(self, n):
        return self.next() % n if n > 0 else 0
    def pick(self, xs):
        return xs[self.below(len(xs))]
    def chance(self, num, den):
        return self.below(den) < num
    def weighted(self, pairs):
        tot = sum(w for _, w in pairs)
        k = self.below(tot)
        for x, w in pairs:
            if k < w:
                return x
            k -= w
        return pairs[-1][0]

# characters of every UTF-8 width, incl. ones whose last byte is 0x80 / 0xBF
CHARS1 = [0x61, 0x7a, 0x30, 0x20, 0x7f, 0x00, 0x41]
CHARS2 = [0xe9, 0x80, 0x7ff, 0x3b1, 0xbf, 0x440]
CHARS3 = [0x800, 0x20ac, 0xffff, 0x4e2d, 0xd7ff, 0xe000, 0x303f]
CHARS4 = [0x10000, 0x1f600, 0x10ffff, 0x1f9ff]
# characters whose FINAL byte takes every value of the low six bits that an inline length tag can take (0..=16), in every
# width (a full 16-byte inline text ends in such a byte where shorter ones keep their length tag), line feed, the byte
# order mark, and characters ending in 0x80
WILD = [0x0a] + list(range(0x40, 0x51)) + list(range(0xc0, 0xd1)) + [0xfeff, 0x2000, 0x100, 0x4e00, 0x1f3ff, 0x10000 + 0x40, 0x10fffd]
ALLCH = CHARS1 * 4 + CHARS2 * 2 + CHARS3 * 2 + CHARS4 + WILD

LENS = [0, 1, 2, 7, 8, 9, 14, 15, 16, 16, 16, 17, 18, 23, 24, 25, 31, 32, 33, 40, 64]

def enc(cp):
    return chr(cp).encode('utf-8')

def hexs(b):
    return b.hex() if b else '-'

def gen_text(rng, target=None, maxlen=None):
    """valid UTF-8 of (about) `target` bytes; exact when possible."""
    if target is None:
        target = rng.pick(LENS) if not rng.chance(1, 12) else rng.below(300)
    if maxlen is not None:
        target = min(target, maxlen)
    out = b''
    while len(out) < target:
        room = target - len(out)
        c = enc(rng.pick(ALLCH))
        if len(c) > room:
            c = enc(rng.pick(CHARS1)) if room < 2 or rng.chance(1, 2) else enc(rng.pick([x for x in (CHARS2 if room == 2 else CHARS3 if room == 3 else CHARS2)]))
            if len(c) > room:
                c = b'x'
        out += c
    return out

def boundaries(t):
    return [i for i in range(len(t) + 1) if i == 0 or i == len(t) or (t[i] & 0xC0) != 0x80]

SIZES_BIG = ([1 << k for k in range(5, 64)] + [(1 << 56) - 2, (1 << 56) - 1, 1 << 56, (1 << 56) + 1, (1 << 56) + 2,
             (1 << 63) - 3, (1 << 63) - 2, (1 << 63) - 1, 1 << 63, (1 << 63) + 1, (1 << 64) - 3, (1 << 64) - 2, (1 << 64) - 1,
             (1 << 56) - 17, (1 << 56) - 16, (1 << 56) - 15, (1 << 63) - 24, (1 << 63) - 16, (1 << 63) - 8])

# lengths and sizes around whole 4 KiB pages (header included: 16 bytes) and a few other large ones: thresholds a change
# may hide behind ("only for big buffers", "only when both sizes fall on the same page")
PAGEISH = sorted({4096 * k - 16 + d for k in (1, 2, 3) for d in (-65, -64, -63, -17, -16, -15, -1, 0, 1, 15, 16, 17, 63, 64, 65)}
                 | {3000, 4097, 4104, 4900, 5000, 5001, 7500, 8176, 8191, 8192, 8193, 9096})

# sizes of 100 KiB and more (thresholds such as 128 KiB, 200 000, 1 MiB): used by the `huge` profile only
HUGE = sorted({102400, 102401, 131056, 131072, 131073, 150000, 150010, 199000, 200000, 200016, 300000, (1 << 20) - 16, (1 << 20) - 1,
               1 << 20, (1 << 20) + 1, (1 << 20) + 1000, (1 << 20) + 4321, 1500000, 1572864, (3 << 20) + 17})
def huge_text(rng, n):
    """n bytes of valid UTF-8 built from a short repeating chunk (cheap to generate)"""
    chunk = b''.join(enc(rng.pick(ALLCH)) for _ in range(13)) or b'x'
    out = (chunk * (n // len(chunk) + 1))[:n]
    while out and (out[-1] & 0xC0) == 0x80: out = out[:-1]
    while out and out[-1] >= 0xC0: out = out[:-1]
    return out + b'x' * (n - len(out))

class Slot:
    __slots__ = ('text', 'kind', 'cap', 'grp')   # kind guess: 'I','H','S'; capacity guess; sharing group (steering only)
    def __init__(self, text, kind, cap=None, grp=None):
        self.text = text; self.kind = kind; self.cap = cap if cap is not None else len(text); self.grp = grp

class CaseGen:
    def __init__(self, rng, profile):
        self.r = rng; self.p = profile
        self.lines = []
        self.slots = []        # Slot or None
        self.statics = []
        self.nops = 0

    def live(self):
        return [i for i, s in enumerate(self.slots) if s is not None]

    def emit(self, mode, *toks):
        self.lines.append('op ' + mode + ' ' + ' '.join(str(t) for t in toks))
        self.nops += 1

    def mode(self):
        return 'try' if self.r.chance(1, 3) else 'plain'

    def kind_for(self, n, cap_hint=None):
        return 'I' if n <= 16 else 'H'

    # ---- constructors
    def op_ctor(self):
        r = self.r
        c = r.weighted([('from_str', 10), ('static', 5), ('with_capacity', 4), ('new', 2), ('char', 1), ('bool', 1),
                        ('collect_chars', 2), ('collect_strs', 1), ('display', 2), ('int', 2)])
        if self.p.get('steer') and r.chance(1, 4): c = r.pick(['with_capacity', 'with_capacity', 'display'])
        if self.p.get('huge') and c in ('from_str', 'with_capacity', 'static', 'new'):
            if r.chance(1, 2):
                n = r.pick(HUGE) + r.pick([0, 0, 10, 1000]); self.emit(self.mode(), 'with_capacity', n)
                self.slots.append(Slot(b'', 'H', cap=n)); return
            t = huge_text(r, r.pick(HUGE)); self.emit('plain', 'from_str', r.pick(['from', 'string', 'box']), hexs(t))
            self.slots.append(Slot(t, 'H')); return
        if c == 'from_str':
            t = gen_text(r, r.pick(PAGEISH)) if self.p.get('large') and r.chance(1, 2) else gen_text(r)
            route = r.pick(['from', 'from', 'string', 'refstring', 'box', 'cowb', 'cowo', 'parse', 'tls', 'utf8', 'collect1'])
            self.emit(self.mode(), 'from_str', route, hexs(t)); self.slots.append(Slot(t, self.kind_for(len(t))))
        elif c == 'static' and self.statics:
            sid = r.below(len(self.statics)); t = self.statics[sid]
            self.emit('plain', 'from_static', sid); self.slots.append(Slot(t, 'S' if len(t) > 16 else 'I'))
        elif c == 'with_capacity':
            n = r.pick([0, 1, 15, 16, 17, 18, 30, 40, 64, 100, 1000]) if not r.chance(1, 6) else r.pick(SIZES_BIG)
            if self.p.get('large') and r.chance(1, 2): n = r.pick(PAGEISH)
            if self.p.get('steer') and r.chance(1, 2): n = r.pick([64, 100, 128, 200, 1000])
            self.emit(self.mode(), 'with_capacity', n)
            self.slots.append(Slot(b'', 'H' if 16 < n < (1 << 20) else 'I', cap=n) if n < (1 << 20) else None)
        elif c == 'int':
            ty = r.pick(['i8', 'u8', 'i16', 'u16', 'i32', 'u32', 'i64', 'u64', 'isize', 'usize', 'nz_i64', 'nz_u64', 'nz_i32'])
            base = ty[3:] if ty.startswith('nz_') else ty
            bits = {'i8': 8, 'u8': 8, 'i16': 16, 'u16': 16, 'i32': 32, 'u32': 32}.get(base, 64)
            lo, hi = (-(1 << (bits - 1)), (1 << (bits - 1)) - 1) if base[0] == 'i' else (0, (1 << bits) - 1)
            k = r.below(20)
            v = r.pick([10 ** k, 10 ** k - 1, -(10 ** k), -(10 ** k) + 1, -(10 ** k - 1), lo, hi, r.next() % (hi - lo + 1) + lo, 1, -1])
            v = max(lo, min(hi, v))
            if ty.startswith('nz_') and v == 0: v = 1
            self.emit(self.mode(), 'from_int', ty, v); t = str(v).encode(); self.slots.append(Slot(t, self.kind_for(len(t))))
        elif c == 'char':
            cp = r.pick(ALLCH); self.emit('plain', 'from_char', r.pick(['from', 'tls']), cp); self.slots.append(Slot(enc(cp), 'I'))
        elif c == 'bool':
            b = r.below(2); self.emit('plain', 'from_bool', b); self.slots.append(Slot(b'true' if b else b'false', 'I'))
        elif c == 'collect_chars':
            cs = [r.pick(ALLCH) for _ in range(r.pick([0, 1, 3, 6, 12, 20, 30]))]
            hint = r.pick([0, 0, len(cs), 16, 17, 40]) if not r.chance(1, 8) else r.pick(SIZES_BIG)
            pa = r.below(len(cs)) if cs and self.p.get('user_panics') and r.chance(1, 3) else -1
            self.emit('plain', 'collect_chars' + r.pick(['', '', ':ref']), hint, pa, *cs)
            self.slots.append(None if pa >= 0 else Slot(b''.join(enc(c) for c in cs), 'H'))
        elif c == 'collect_strs':
            ss = [gen_text(r, r.pick([0, 1, 5, 9, 16, 20])) for _ in range(r.pick([0, 1, 2, 4]))]
            pa = r.below(len(ss)) if ss and self.p.get('user_panics') and r.chance(1, 3) else -1
            self.emit('plain', 'collect_strs' + r.pick(['', '', ':string', ':box', ':cow', ':lean']), pa, *[hexs(s) for s in ss])
            self.slots.append(None if pa >= 0 else Slot(b''.join(ss), 'H'))
        elif c == 'display':
            ps = [gen_text(r, r.pick([0, 1, 5, 9, 16, 20])) for _ in range(r.pick([0, 1, 2, 3, 5]))]
            if self.p.get('steer') and ps and r.chance(1, 2):
                # a long piece among short ones (buffering adapters have thresholds: 32, 64, 128, 256 bytes)
                ps[r.below(len(ps))] = gen_text(r, r.pick([31, 32, 33, 63, 64, 65, 100, 127, 128, 129, 255, 256, 257, 300]))
            ea, pa = -1, -1
            if ps and r.chance(1, 4):
                ea = r.below(len(ps))
            elif ps and self.p.get('user_panics') and r.chance(1, 4):
                pa = r.below(len(ps))
            self.emit(self.mode(), 'display', ea, pa, *[hexs(s) for s in ps])
            self.slots.append(None if (ea >= 0 or pa >= 0) else Slot(b''.join(ps), 'H'))
        else:
            self.emit('plain', 'new'); self.slots.append(Slot(b'', 'I'))

    # ---- ops on an existing slot
    def op_on(self, i):
        r = self.r; s = self.slots[i]; t = s.text; L = len(t)
        bs = boundaries(t); bset = set(bs)
        large = self.p.get('large')
        c = r.weighted([('push', 8), ('push_str', 8), ('pop', 5), ('remove', 5), ('insert', 5), ('insert_str', 5),
                        ('truncate', 6), ('clear', 2), ('retain', 4), ('reserve', 5), ('shrink_to', 5), ('shrink_to_fit', 2),
                        ('extend_chars', 3), ('extend_strs', 2), ('write_fmt', 2), ('clone', 10), ('clone_from', 3), ('drop', 4)])
        if self.p.get('huge'):
            return self.op_huge(i)
        steer = self.p.get('steer')
        spare = max(0, (s.cap or 0) - L)
        shares = s.grp is not None and sum(1 for x in self.slots if x is not None and x.grp == s.grp) > 1
        if steer and r.chance(1, 3):
            # states a plain random walk rarely builds: an append into reserved room with an exact size hint, a refused
            # reservation on a handle that shares its buffer at a shorter length
            if spare >= 64: c = r.pick(['extend_chars', 'extend_strs', 'push_str', 'insert_str'])
            elif shares: c = r.pick(['extend_chars', 'reserve', 'push_str', 'shrink_to', 'retain', 'remove', 'insert_str', 'extend_strs'])
        if large and L > 600:
            # the model's retain and pop are quadratic / slow on long texts (they decode from the front): keep them rare here
            if c == 'retain' and not r.chance(1, 5): c = 'shrink_to'
            elif c == 'pop' and not r.chance(1, 4): c = 'truncate'
        bad = self.p.get('bad_indices') and r.chance(1, 5)
        if c == 'push':
            cp = r.pick(ALLCH); self.emit(self.mode(), 'push', i, cp); s.text = t + enc(cp)
        elif c == 'push_str':
            # aim at capacity boundaries: 16 - L, etc.
            tgt = r.pick([0, 1, 2, max(0, 16 - L), max(0, 17 - L), 5, 9, 20, 33])
            if large and r.chance(1, 4): tgt = min(6000, max(0, r.pick(PAGEISH) - L))
            x = gen_text(r, tgt)
            route = r.pick(['push_str', 'push_str', 'push_str', 'add_assign', 'add', 'write_str', 'extend1'])
            self.emit(self.mode(), 'push_str', route, i, hexs(x)); s.text = t + x
        elif c == 'pop':
            self.emit(self.mode(), 'pop', i)
            if L: s.text = t[:bs[-2]] if len(bs) >= 2 else b''
        elif c == 'remove':
            if bad or L == 0:
                idx = r.pick([L, L + 1, L + 2] + [k for k in range(L) if k not in bset][:3] + [r.pick(SIZES_BIG)])
                self.emit(self.mode(), 'remove', i, idx)
            else:
                k = r.below(len(bs) - 1); idx = bs[k]
                self.emit(self.mode(), 'remove', i, idx); s.text = t[:idx] + t[bs[k + 1]:]
        elif c in ('insert', 'insert_str'):
            if bad:
                cand = [L + 1, L + 2] + [k for k in range(L) if k not in bset][:4] + [r.pick(SIZES_BIG)]
                idx = r.pick(cand); x = gen_text(r, r.pick([0, 1, 3]))
                if c == 'insert': self.emit(self.mode(), 'insert', i, idx, r.pick(ALLCH))
                else: self.emit(self.mode(), 'insert_str', i, idx, hexs(x))
            else:
                idx = r.pick(bs)
                if c == 'insert':
                    cp = r.pick(ALLCH); self.emit(self.mode(), 'insert', i, idx, cp); s.text = t[:idx] + enc(cp) + t[idx:]
                else:
                    x = gen_text(r, r.pick([0, 1, 2, max(0, 16 - L), max(0, 17 - L), 5, 20]) if not (large and r.chance(1, 5)) else min(6000, max(0, r.pick(PAGEISH) - L)))
                    if large and r.chance(1, 2): idx = r.pick([b for b in bs if b <= 64] + [bs[len(bs) // 2]])
                    self.emit(self.mode(), 'insert_str', i, idx, hexs(x)); s.text = t[:idx] + x + t[idx:]
        elif c == 'truncate':
            if bad and [k for k in range(L) if k not in bset]:
                self.emit(self.mode(), 'truncate', i, r.pick([k for k in range(L) if k not in bset]))
            else:
                n = r.pick(bs + [L + 1, L + 5] + ([r.pick(SIZES_BIG)] if r.chance(1, 6) else []))
                self.emit(self.mode(), 'truncate', i, n)
                if n < L: s.text = t[:n]
        elif c == 'clear':
            self.emit('plain', 'clear', i); s.text = b''
        elif c == 'retain':
            nbits = r.pick([1, 2, 3, 5]); bits = ''.join(r.pick('01') for _ in range(nbits))
            nch = len(bs) - 1
            pa = r.below(nch) if nch and self.p.get('user_panics') and r.chance(1, 3) else -1
            self.emit(self.mode(), 'retain', i, pa, bits)
            kept = b''
            for k in range(nch):
                if pa == k: break
                if bits[k % nbits] == '1': kept += t[bs[k]:bs[k + 1]]
            s.text = kept
        elif c == 'reserve':
            if self.p.get('big_sizes') and r.chance(1, 3):
                # the interesting region: len + additional just below / at the 56-bit limit, isize::MAX and usize::MAX
                edge = r.pick([(1 << 56) - 1, 1 << 56, (1 << 63) - 1, (1 << 63) - 8, (1 << 64) - 1, (1 << 64) - 16, (1 << 64) - 17])
                n = r.pick(SIZES_BIG + [(edge - L - k) & MASK for k in (0, 1, 2, 7, 8, 15, 16)] + [(edge - L + 1) & MASK])
            else:
                n = r.pick([0, 1, 2, max(0, 16 - L), max(0, 17 - L), 8, 30, 100])
                if large and r.chance(1, 2): n = r.pick([max(0, q - L) for q in PAGEISH] + [4034, 4096, 4097, 5000])
            self.emit(self.mode(), 'reserve', i, n)
            if n < (1 << 20): s.cap = max(s.cap or 0, L + n); s.grp = None if L + n > (s.cap or 0) else s.grp
        elif c == 'shrink_to':
            n = r.pick([0, L, L + 1, max(0, L - 1), 16, 17, L + L // 2, L + L // 2 + 1, 2 * L, 100]) if not (self.p.get('big_sizes') and r.chance(1, 6)) else r.pick(SIZES_BIG)
            if large and r.chance(2, 3):
                # just below a likely capacity (with_capacity / from_str / reserve of a page-ish size give exactly that)
                n = r.pick([L + 1, L + 10, L + 50, L + 63, L + 64, L + 100] + PAGEISH + [max(0, q - d) for q in PAGEISH if q >= L for d in (1, 7, 32, 63, 64, 100)])
            self.emit(self.mode(), 'shrink_to', i, n)
        elif c == 'shrink_to_fit':
            self.emit(self.mode(), 'shrink_to_fit', i)
        elif c == 'extend_chars':
            cs = [r.pick(ALLCH) for _ in range(r.pick([0, 1, 2, 5, 10, 20]))]
            hint = r.pick([0, len(cs), 2 * len(cs), 16]) if not (self.p.get('big_sizes') and r.chance(1, 5)) else r.pick(SIZES_BIG)
            if steer and spare >= 64 and r.chance(1, 2):
                # an exact size hint of 16 or more items, with room for four bytes each when there is that much
                k = r.pick([16, 17, 20, 24]); k = max(16, min(k, spare // 4))
                cs = [r.pick(ALLCH) for _ in range(k)]; hint = len(cs)
            elif steer and shares and r.chance(1, 2):
                hint = r.pick(SIZES_BIG)
            pa = r.below(len(cs)) if cs and self.p.get('user_panics') and r.chance(1, 3) else -1
            if steer and len(cs) >= 16 and self.p.get('user_panics') and r.chance(1, 3): pa = 1 + r.below(len(cs) - 1)
            self.emit('plain', 'extend_chars' + r.pick(['', '', ':ref']), i, hint, pa, *cs)
            s.text = t + b''.join(enc(c) for k, c in enumerate(cs) if pa < 0 or k < pa)
        elif c == 'extend_strs':
            ss = [gen_text(r, r.pick([0, 1, 5, 9, 16])) for _ in range(r.pick([0, 1, 2, 4]))]
            pa = r.below(len(ss)) if ss and self.p.get('user_panics') and r.chance(1, 3) else -1
            self.emit('plain', 'extend_strs' + r.pick(['', '', ':string', ':box', ':cow', ':lean']), i, pa, *[hexs(x) for x in ss])
            s.text = t + b''.join(x for k, x in enumerate(ss) if pa < 0 or k < pa)
        elif c == 'write_fmt':
            ps = [gen_text(r, r.pick([0, 1, 5, 9, 16])) for _ in range(r.pick([0, 1, 2, 4]))]
            if steer and ps and r.chance(1, 2):
                ps[r.below(len(ps))] = gen_text(r, r.pick([31, 32, 33, 63, 64, 65, 100, 127, 128, 129, 255, 256, 257, 300]))
            ea, pa = -1, -1
            if ps and r.chance(1, 4): ea = r.below(len(ps))
            elif ps and self.p.get('user_panics') and r.chance(1, 4): pa = r.below(len(ps))
            self.emit('plain', 'write_fmt', i, ea, pa, *[hexs(x) for x in ps])
            stop = ea if ea >= 0 else pa if pa >= 0 else len(ps)
            s.text = t + b''.join(ps[:stop])
        elif c == 'clone':
            self.emit('plain', 'clone', r.pick(['clone', 'clone', 'fromref', 'tls']), i)
            if s.grp is None: s.grp = self.nops
            self.slots.append(Slot(s.text, s.kind, cap=s.cap, grp=s.grp))
            if steer and L > 17 and r.chance(1, 2):
                # handles of one buffer with different lengths: shorten the new one (no copy is made)
                j = len(self.slots) - 1; n = r.pick([b for b in bs if 0 < b < L] or [0])
                self.emit(self.mode(), 'truncate', j, n); self.slots[j].text = t[:n]
        elif c == 'clone_from':
            others = [j for j in self.live() if j != i]
            if others:
                j = r.pick(others); self.emit('plain', 'clone_from', i, j); s.text = self.slots[j].text
            else:
                self.emit('plain', 'clone', 'clone', i); self.slots.append(Slot(s.text, s.kind))
        elif c == 'drop':
            self.emit('plain', 'drop', i); self.slots[i] = None

    def op_huge(self, i):
        """few, cheap operations on very large buffers: growth, shrinking by a sliver, emptied buffers, sharers"""
        r = self.r; s = self.slots[i]; t = s.text; L = len(t); cap = max(s.cap or 0, L)
        c = r.weighted([('push', 4), ('push_str', 5), ('reserve', 6), ('shrink_to', 8), ('shrink_to_fit', 3), ('clear', 2), ('truncate', 3),
                        ('clone', 4), ('drop', 2), ('insert_str', 2), ('remove', 2), ('extend_strs', 1)])
        if L == 0 and cap >= 100000 and r.chance(1, 2):
            # an emptied big buffer asked for more than any allocator gives (but below the 2^56 limit of the crate)
            c = 'reserve_refused'
        elif L > 0 and r.chance(1, 8):
            c = 'clear'
        if c == 'reserve_refused':
            self.emit(self.mode(), 'reserve', i, r.pick([1 << 50, 1 << 40, (1 << 56) - 17, cap + (1 << 30)]))
        elif c == 'push':
            self.emit(self.mode(), 'push', i, 97); s.text = t + b'a'; s.cap = max(cap, L + 1)
        elif c == 'push_str':
            n = r.pick([1, 10, 1000, max(1, cap - L), max(1, cap - L + 1), (1 << 20) + 1]); x = huge_text(r, n)
            self.emit(self.mode(), 'push_str', r.pick(['push_str', 'add_assign', 'extend1']), i, hexs(x)); s.text = t + x; s.cap = max(cap, L + n)
        elif c == 'reserve':
            n = r.pick([0, 1, 10, max(0, cap - L), max(0, cap - L) + 1, (1 << 20), (1 << 20) + 1, 1 << 50, (1 << 56) - 17 - L, (1 << 64) - 1 - L // 2])
            self.emit(self.mode(), 'reserve', i, n)
            if n < (1 << 24): s.cap = max(cap, L + n)
        elif c == 'shrink_to':
            n = r.pick([0, L, L + 1, max(0, cap - 1), max(0, cap - 100), max(0, cap - 1000), max(0, cap - cap // 200), max(0, cap - 4000), max(0, cap - 5000), cap, cap + 1])
            self.emit(self.mode(), 'shrink_to', i, n); s.cap = min(cap, max(L, n))
        elif c == 'shrink_to_fit':
            self.emit(self.mode(), 'shrink_to_fit', i); s.cap = L
        elif c == 'clear':
            self.emit('plain', 'clear', i); s.text = b''
        elif c == 'truncate':
            n = r.pick([0, 1, 5, 16, 17, L // 2, max(0, L - 1)]); n = min(n, L)
            while 0 < n < L and (t[n] & 0xC0) == 0x80: n -= 1
            self.emit(self.mode(), 'truncate', i, n); s.text = t[:n]
        elif c == 'clone':
            self.emit('plain', 'clone', 'clone', i); self.slots.append(Slot(s.text, s.kind, cap=s.cap))
        elif c == 'drop':
            self.emit('plain', 'drop', i); self.slots[i] = None
        elif c == 'insert_str':
            x = huge_text(r, r.pick([1, 3, 1000])); idx = r.pick([0, L])
            self.emit(self.mode(), 'insert_str', i, idx, hexs(x)); s.text = t[:idx] + x + t[idx:]
        elif c == 'remove':
            if L == 0: self.emit(self.mode(), 'pop', i)
            else:
                k = 1
                while k < L and (t[k] & 0xC0) == 0x80: k += 1
                self.emit(self.mode(), 'remove', i, 0); s.text = t[k:]
        elif c == 'extend_strs':
            ss = [huge_text(r, r.pick([1, 20, 1000])) for _ in range(r.pick([1, 2]))]
            self.emit('plain', 'extend_strs' + r.pick(['', ':string', ':lean']), i, -1, *[hexs(x) for x in ss]); s.text = t + b''.join(ss)

    def run(self, nsteps):
        r = self.r
        for _ in range(r.pick([0, 1, 1, 2, 3])):
            self.statics.append(gen_text(r, r.pick([0, 5, 16, 17, 18, 24, 33, 60]) if not (self.p.get('large') and r.chance(1, 2)) else r.pick(PAGEISH)))
        # steer: start from 1-2 constructors, then favour ops on slots that share with others
        self.op_ctor()
        while self.nops < nsteps:
            lv = self.live()
            if not lv or (len(lv) < 5 and r.chance(1, 6)):
                self.op_ctor(); continue
            self.op_on(r.pick(lv))
        out = [f"static {hexs(t)}" for t in self.statics]
        return out, self.lines

def gen_case(cid, seed, profile):
    rng = Rng((seed * 0x9E3779B97F4A7C15 + cid * 0xD1B54A32D192ED03 + 0x1234567) & MASK)
    g = CaseGen(rng, profile)
    nsteps = rng.pick(profile.get('steps', [8, 12, 20, 30]))
    statics, ops = g.run(nsteps)
    head = [f"case {cid}"] + statics
    if profile.get('faults'):
        nf = rng.pick([1, 1, 1, 2, 2, 3])
        head.append('fail ' + ' '.join(str(rng.below(profile.get('fault_range', 12))) for _ in range(nf)))
    head.append(f"limit {profile.get('limit', 65536)}")
    return "\n".join(head + ops + ['end'])

PROFILES = {
    # mostly valid histories
    'valid': dict(steps=[8, 12, 20, 30, 40]),
    # malformed stream: bad indices, giant sizes, panicking callbacks
    'hostile': dict(steps=[6, 10, 16, 24], bad_indices=True, big_sizes=True, user_panics=True),
    # allocation faults
    'faults': dict(steps=[6, 10, 16, 24], faults=True, user_panics=True, fault_range=14),
    # few operations on texts and capacities of a page or more
    'large': dict(steps=[4, 6, 8, 12], large=True, user_panics=True, limit=1 << 20),
    'large_faults': dict(steps=[4, 6, 8], large=True, faults=True, fault_range=8, limit=1 << 20),
    # states a random walk rarely reaches: sharers of different lengths, appends into reserved room with exact hints
    'steered': dict(steps=[6, 10, 16], steer=True, big_sizes=True, user_panics=True, bad_indices=True),
    'steered_faults': dict(steps=[6, 10, 16], steer=True, faults=True, user_panics=True, fault_range=10),
    # a handful of cheap operations on buffers of 100 KiB .. 3 MiB
    'huge': dict(steps=[3, 4, 5, 6], huge=True, limit=1 << 26),
    'huge_faults': dict(steps=[3, 4, 5], huge=True, faults=True, fault_range=6, limit=1 << 26),
    'faults_hostile': dict(steps=[6, 10, 16], faults=True, bad_indices=True, big_sizes=True, user_panics=True, fault_range=10),
}

def main():
    import argparse
    ap = argparse.ArgumentParser()
    ap.add_argument('--seed', type=int, default=1)
    ap.add_argument('--count', type=int, default=100)
    ap.add_argument('--profile', default='mix')
    ap.add_argument('--start', type=int, default=0)
    ap.add_argument('--out', default='-')
    a = ap.parse_args()
    out = sys.stdout if a.out == '-' else open(a.out, 'w')
    names = ['valid', 'valid', 'hostile', 'faults', 'faults_hostile', 'hostile'] if a.profile == 'mix' else [a.profile]
    for k in range(a.count):
        cid = a.start + k
        out.write(gen_case(cid, a.seed, PROFILES[names[cid % len(names)]]) + "\n")
    if out is not sys.stdout:
        out.close()

if __name__ == '__main__':
    main()
