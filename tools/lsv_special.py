"""property-specific check routines that do not (only) use the pool-history explorer."""
import os, sys, json, time, re, random
import lsv

INT_TYPES = {'i8': (-2**7, 2**7 - 1), 'u8': (0, 2**8 - 1), 'i16': (-2**15, 2**15 - 1), 'u16': (0, 2**16 - 1),
             'i32': (-2**31, 2**31 - 1), 'u32': (0, 2**32 - 1), 'i64': (-2**63, 2**63 - 1), 'u64': (0, 2**64 - 1),
             'isize': (-2**63, 2**63 - 1), 'usize': (0, 2**64 - 1), 'i128': (-2**127, 2**127 - 1), 'u128': (0, 2**128 - 1)}

class Sm:
    def __init__(self, seed): self.s = seed & (2**64 - 1)
    def next(self):
        self.s = (self.s + 0x9E3779B97F4A7C15) & (2**64 - 1)
        z = self.s
        z = ((z ^ (z >> 30)) * 0xBF58476D1CE4E5B9) & (2**64 - 1)
        z = ((z ^ (z >> 27)) * 0x94D049BB133111EB) & (2**64 - 1)
        return z ^ (z >> 31)

def int_values(ty, rng, nrand):
    lo, hi = INT_TYPES[ty]
    vals = set([lo, hi, lo + 1, hi - 1, 0, 1, 2, 9, 10, 11])
    for k in range(0, 40):
        for d in (-3, -2, -1, 0, 1, 2, 3):
            for sgn in (1, -1):
                vals.add(sgn * (10 ** k) + d); vals.add(sgn * (10 ** k - 1) + d)
    for k in range(0, 129):
        for d in (-3, -2, -1, 0, 1, 2, 3):
            for sgn in (1, -1):
                vals.add(sgn * (2 ** k) + d)
    # dense random sampling of every digit count
    maxd = len(str(max(abs(lo), hi)))
    for dcount in range(1, maxd + 1):
        for _ in range(nrand):
            v = (rng.next() | (rng.next() << 64)) % (10 ** dcount - 10 ** (dcount - 1) + 1) + 10 ** (dcount - 1) - (1 if dcount == 1 else 0)
            vals.add(v); vals.add(-v)
    return sorted(v for v in vals if lo <= v <= hi)

def int_cases(seed, nrand):
    rng = Sm(seed * 7919 + 13)
    lines = []
    cid = 0
    nvals = 0
    for ty in INT_TYPES:
        vs = int_values(ty, rng, nrand)
        nvals += len(vs)
        for variant in (ty, 'nz_' + ty):
            vv = [v for v in vs if not (variant.startswith('nz_') and v == 0)]
            for i in range(0, len(vv), 6):
                lines.append('case int%d' % cid); cid += 1
                lines.append('limit 65536')
                for v in vv[i:i + 6]:
                    lines.append('op %s from_int %s %d' % ('try' if (v & 1) else 'plain', variant, v))
                lines.append('end')
    return '\n'.join(lines) + '\n', nvals

def run_sweep(root, args, timeout):
    rn = os.path.join(root, '.cache', 'harness-target', 'release', 'sweep')
    rc, out = lsv.sh([rn] + [str(a) for a in args], timeout)
    m = re.search(r'checked (\d+) mismatches (\d+)', out)
    mism = [l for l in out.splitlines() if l.startswith('MISMATCH')]
    if not m and not mism and args and args[0] in ('utf8', 'utf16'):
        # the whole process died (a constructor returned a value that cannot be read or dropped): run again with every input
        # logged before it is checked, then confirm the last ones one at a time
        tf = os.path.join(root, '.cache', 'tmp', 'sweep_trace_%d.txt' % os.getpid())
        os.makedirs(os.path.dirname(tf), exist_ok=True)
        if os.path.exists(tf): os.remove(tf)
        lsv.sh([rn] + [str(a) for a in args], timeout, env={'SWEEP_TRACE': tf})
        last = open(tf).read().splitlines()[-8:] if os.path.exists(tf) else []
        if os.path.exists(tf): os.remove(tf)
        for l in reversed(last):
            kind, h = l.split()
            rc1, out1 = lsv.sh([rn, kind + 'one', h], 60)
            m1 = re.search(r'checked (\d+) mismatches (\d+)', out1)
            if not m1 or m1.group(2) != '0':
                first = [x for x in out1.splitlines() if x.startswith('MISMATCH')]
                mism = [first[0] if first else 'MISMATCH %s input %s: the process dies (%s)' % (kind, h, out1.strip().splitlines()[-1][:120] if out1.strip() else 'rc=%d' % rc1)]
                break
    return (int(m.group(1)) if m else 0), (int(m.group(2)) if m else -1), mism, out

def check_c14(root, pid, tier, seed, replay):
    res = lsv.Result(pid, tier, seed)
    st = lsv.Build(root).run()
    lsv.base_obligations(root, pid, res, st)
    stats = lsv.new_stats()
    if replay:
        lsv.explore(root, pid, res, open(replay).read(), 'replay', stats)
    else:
        txt, nvals = int_cases(seed, 8 if tier == 'quick' else 120)
        lsv.explore(root, pid, res, txt, 'ints_s%d' % seed, stats)
        res.cov['int_values_through_model_and_impl'] = nvals
        # the same values through an UNOPTIMISED build (overflow checks and debug assertions on): every value of every
        # type includes the ones on which a debug build would panic where a release build wraps
        okd, rnd, msgd = build_config(root, 'default-dev')
        res.oblige('build:default-dev (integer values in an unoptimised build)', okd, msgd if not okd else '')
        if okd:
            cfd = os.path.join(root, '.cache', 'tmp', 'c14_dev_%d.cases' % os.getpid())
            os.makedirs(os.path.dirname(cfd), exist_ok=True)
            open(cfd, 'w').write(txt)
            rc, outd = lsv.sh([rnd, cfd], 1800)
            os.remove(cfd)
            casesd, _ = lsv.split_cases(txt)
            _, _, monsd = lsv.parse_trace(outd)
            for (cid, step, mname, props, detail) in monsd:
                stats['monitor_failures'] += 1
                if len(res.violations) < 5:
                    rp = lsv.write_replay(root, pid, 'dev_%s' % cid, '# unoptimised build (cargo build without --release)\n' + casesd.get(cid, ''))
                    res.violations.append(('unoptimised build: monitor %s at case %s step %d: %s' % (mname, cid, step, detail[:160]), rp, True, mname))
            res.cov['int_values_in_unoptimised_build'] = nvals
        # sweeps on the implementation alone (monitor: to_lean_string() == to_string())
        plan = [('i8', -128, 256, 1), ('u8', 0, 256, 1), ('i16', -32768, 65536, 1), ('u16', 0, 65536, 1)]
        if tier == 'thorough':
            plan += [('i32', -2**31, 2**32, 1), ('u32', 0, 2**32, 1)]
            plan += [('i64', -2**63, 50_000_000, 368934881474191), ('u64', 0, 50_000_000, 368934881474191),
                     ('isize', -2**63, 20_000_000, 922337203685477), ('usize', 0, 20_000_000, 922337203685477),
                     ('i128', -2**127, 20_000_000, 17014118346046923173168730371588410), ('u128', 0, 20_000_000, 17014118346046923173168730371588410)]
        else:
            plan += [('i32', -2**31, 2**16 + 1, 65521), ('u32', 0, 2**16 + 1, 65521),
                     ('i64', -2**63, 200_000, 92233720368547758 + seed), ('u64', 0, 200_000, 92233720368547758 + seed),
                     ('i128', -2**127, 100_000, 3402823669209384634633746074317682 + seed), ('u128', 0, 100_000, 3402823669209384634633746074317682 + seed)]
        sweeps = []
        for ty, start, count, step in plan:
            n, mm, lines, out = run_sweep(root, ['int', ty, start, count, step], 3000)
            sweeps.append({'type': ty, 'start': str(start), 'count': count, 'step': str(step), 'checked': n, 'mismatches': mm})
            stats['steps'] += n
            if mm != 0:
                stats['monitor_failures'] += 1
                v = lines[0].split()[2] if lines else '0'
                case = 'case sweep_%s\nop plain from_int %s %s\nend\n' % (ty, ty, v)
                rp = lsv.write_replay(root, pid, 'sweep_%s' % ty, case)
                res.violations.append(('sweep %s: %s' % (ty, lines[0] if lines else out[-200:]), rp, bool(lines), 'text_mismatch'))
        res.cov['sweeps'] = sweeps
        res.cov['exhaustive_types'] = [s['type'] for s in sweeps if s['step'] == '1']
    lsv.finish_without_search(root, pid, res, stats)
    res.stats = stats
    return lsv.emit(root, res, st)

SPECIAL = {'C14': check_c14}

# ------------------------------------------------------------------------------------------------ C15
def check_c15(root, pid, tier, seed, replay):
    res, st = lsv.decide(root, pid, tier, seed, replay)
    stats = res.stats
    if not replay:
        # floats: round trip of to_lean_string() through parse() on the real crate (ryu is an oracle for the model)
        plan = [('f32', [0, 2 ** 32, 1]) if tier == 'thorough' else ('f32', [seed % 4099, (2 ** 32) // 4099, 4099]),
                ('f64', [seed, 20_000_000 if tier == 'thorough' else 1_000_000])]
        specials = [0x7fc00000, 0xffc00000, 0x7f800000, 0xff800000, 0, 0x80000000, 1, 0x80000001, 0x007fffff, 0x00800000, 0x7f7fffff, 0x3f800000]
        txt = 'case floats\n' + ''.join('op plain from_int f32 %d\n' % b for b in specials) + \
              ''.join('op try from_int f64 %d\n' % b for b in [0x7ff8000000000000, 0x7ff0000000000000, 0xfff0000000000000, 0, 0x8000000000000000, 1, 0x000fffffffffffff, 0x0010000000000000, 0x7fefffffffffffff]) + 'end\n'
        mtxt, itxt, errs = lsv.run_cases(root, txt, 300)
        if itxt:
            _, _, mons = lsv.parse_trace(itxt)
            for (cid, step, name, props, detail) in mons:
                if name == 'float_roundtrip':
                    rp = lsv.write_replay(root, pid, 'float_special', txt)
                    res.violations.append(('monitor float_roundtrip step %d: %s' % (step, detail), rp, True, name))
        sweeps = []
        for kind, args in plan:
            n, mm, lines, out = run_sweep(root, [kind] + args, 3000)
            sweeps.append({'kind': kind, 'args': [str(a) for a in args], 'checked': n, 'mismatches': mm})
            stats['steps'] += n
            if mm != 0:
                stats['monitor_failures'] += 1
                bits = re.search(r'bits=(\d+)', lines[0]).group(1) if lines else '0'
                case = 'case sweep_%s\nop plain from_int %s %s\nend\n' % (kind, kind, bits)
                rp = lsv.write_replay(root, pid, 'sweep_%s' % kind, case)
                res.violations.append(('sweep %s: %s' % (kind, lines[0] if lines else out[-200:]), rp, bool(lines), 'float_roundtrip'))
        res.cov['float_sweeps'] = sweeps
    return lsv.emit(root, res, st)

# ------------------------------------------------------------------------------------------------ C20
CONFIGS = {
    'default-release': (['--release'], 'release'),
    'default-dev': ([], 'debug'),
    'no-default-features-release': (['--release', '--no-default-features'], 'release'),
    'no-default-features-dev': (['--no-default-features'], 'debug'),
    'all-features-release': (['--release', '--features', 'ls-all'], 'release'),
    'all-features-dev': (['--features', 'ls-all'], 'debug'),
}

def build_config(root, name):
    flags, prof = CONFIGS[name]
    tgt = os.path.join(root, '.cache', 'harness-target-' + name)
    rc, out = lsv.sh(['cargo', 'build', '--offline', '--target-dir', tgt, '--bin', 'runner'] + flags, 1500,
                     cwd=lsv.harness_dir(root), env={'RUSTFLAGS': '--cfg lean_string_verif'})
    return rc == 0, os.path.join(tgt, prof, 'runner'), out[-1500:]

def check_c20(root, pid, tier, seed, replay):
    res, st = lsv.decide(root, pid, tier, seed, replay)
    stats = res.stats
    if not replay:
        names = ['default-dev', 'all-features-dev', 'no-default-features-release'] if tier == 'quick' else \
                ['default-dev', 'no-default-features-release', 'no-default-features-dev', 'all-features-release', 'all-features-dev']
        ncases = 1500 if tier == 'quick' else 20000
        txt = lsv.corpus_text(root) + lsv.gen_text(root, seed * 1000 + 77, ncases // 2, 'valid', 0) + \
              lsv.gen_text(root, seed * 1000 + 78, ncases // 4, 'hostile', 10 ** 6) + lsv.gen_text(root, seed * 1000 + 79, ncases // 4, 'faults', 2 * 10 ** 6)
        cases, order = lsv.split_cases(txt)
        cf = os.path.join(root, '.cache', 'tmp', 'c20_%d.cases' % os.getpid())
        os.makedirs(os.path.dirname(cf), exist_ok=True)
        open(cf, 'w').write(txt)
        ref_rn = os.path.join(root, '.cache', 'harness-target', 'release', 'runner')
        rc, ref = lsv.sh([ref_rn, cf], 1800)
        ref_lines = [l for l in ref.splitlines() if l[:2] in ('R ', 'E ')]
        cfgs = []
        for name in names:
            ok, rn, msg = build_config(root, name)
            res.oblige('build:' + name, ok, msg if not ok else '')
            if not ok:
                continue
            rc, out = lsv.sh([rn, cf], 1800)
            lines = [l for l in out.splitlines() if l[:2] in ('R ', 'E ')]
            _, _, mons = lsv.parse_trace(out)
            nm = 0
            for (cid, step, mname, props, detail) in mons:
                nm += 1
                if len(res.violations) < 5:
                    rp = lsv.write_replay(root, pid, '%s_%s' % (name, cid), cases.get(cid, ''))
                    res.violations.append(('config %s: monitor %s at case %s step %d: %s' % (name, mname, cid, step, detail[:160]), rp, True, mname))
            same = (lines == ref_lines)
            if not same and len(res.violations) < 5:
                k = next((i for i, (a, b) in enumerate(zip(lines, ref_lines)) if a != b), min(len(lines), len(ref_lines)))
                cid = (lines[k] if k < len(lines) else ref_lines[k]).split()[1]
                rp = lsv.write_replay(root, pid, '%s_diff_%s' % (name, cid), '# trace of configuration %s differs from default-release\n' % name + cases.get(cid, ''))
                res.violations.append(('config %s behaves differently from default-release at case %s' % (name, cid), rp, True, 'config_diff'))
            stats['steps'] += len(lines)
            cfgs.append({'config': name, 'trace_lines': len(lines), 'identical_to_default_release': same, 'monitor_failures': nm})
        os.remove(cf)
        # the library itself (not the harness, whose dev-style dependencies could hide a missing feature gate), hooks off,
        # under every combination of its features: "builds without std and with every combination of its optional features"
        lib = []
        for mask in range(8):
            feats = [f for k, f in enumerate(('std', 'serde', 'arbitrary')) if mask >> k & 1]
            cmd = ['cargo', 'build', '--offline', '--lib', '--no-default-features', '--target-dir', os.path.join(root, '.cache', 'libmatrix')]
            if feats:
                cmd += ['--features', ','.join(feats)]
            rc, out = lsv.sh(cmd, 900, cwd=lsv.REPO)
            res.oblige('build: library, hooks off, features [%s]' % ','.join(feats), rc == 0, out[-1200:] if rc != 0 else '')
            lib.append({'features': feats, 'built': rc == 0})
            if rc != 0 and len(res.violations) < 5:
                # the feature combination is the failing input: the crate does not build in it
                errs = [l for l in out.splitlines() if l.startswith('error')][:3]
                rp = lsv.write_replay(root, pid, 'libbuild_%s' % ('_'.join(feats) or 'none'),
                                      '# C20: the library does not build with --no-default-features --features "%s"\n# replay: cd %s && %s\n%s\n'
                                      % (','.join(feats), lsv.REPO, ' '.join(cmd), out[-1500:]))
                res.violations.append(('the library does not build with features [%s]: %s' % (','.join(feats), (errs or [''])[0][:160]), rp, True, 'config_build'))
        res.cov['library_feature_matrix'] = lib
        # the niche: a value the decoding constructors return for input String rejects may carry any last byte, the one that
        # encodes None included (asked without reading the value)
        n, mm, lines, out = run_sweep(root, ['utf8', 2], 900)
        niche = [l for l in lines if 'NICHE' in l] or [l for l in lines if 'got=Ok want=Err' in l]
        res.cov['niche_probe_inputs'] = n
        stats['steps'] += n
        if niche and len(res.violations) < 5:
            rp = lsv.write_replay(root, pid, 'niche', '# C20: from_utf8 accepts input String rejects; the value is not a reachable LeanString\n# replay: sweep utf8one <hex>\n%s\n' % '\n'.join(niche[:5]))
            res.violations.append(('niche: %s' % niche[0][:200], rp, True, 'niche'))
        res.cov['configurations'] = cfgs
        res.cov['size_of_checks'] = 'const assertions of src/lib.rs:39-44 and src/repr.rs:35-40 hold in every configuration that built'
    return lsv.emit(root, res, st)

# ------------------------------------------------------------------------------------------------ C11 / C02
def check_with_leanitems(root, pid, tier, seed, replay):
    """the generic check plus a direct sweep of Extend<LeanString> / FromIterator<LeanString> with items that own heap buffers
    (the runner's LeanString items own none, so that they add no allocator traffic to a step)"""
    res, st = lsv.decide(root, pid, tier, seed, replay)
    if not replay and st['harness']['ok']:
        n, mm, lines, out = run_sweep(root, ['leanitems'], 600)
        res.cov['lean_item_sweep'] = {'checked': n, 'mismatches': mm}
        res.stats['steps'] += n
        mine = [l for l in lines if ('within-capacity' in l) == (pid == 'C11') or 'text' in l or 'collect' in l]
        if mm != 0 and (mine or not lines):
            res.stats['monitor_failures'] += 1
            rp = lsv.write_replay(root, pid, 'leanitems', '# sweep leanitems: Extend<LeanString> with heap-backed items\n%s\n' % '\n'.join((mine or [out[-300:]])[:5]))
            res.violations.append(('sweep leanitems: %s' % ((mine[0] if mine else out[-200:])[:220]), rp, bool(mine), 'lean_items'))
    return lsv.emit(root, res, st)
SPECIAL['C11'] = check_with_leanitems
SPECIAL['C02'] = check_with_leanitems

SPECIAL['C15'] = check_c15
SPECIAL['C20'] = check_c20

# ------------------------------------------------------------------------------------------------ C04
def build_loomh(root):
    hdir = lsv.harness_dir(root, 'loomh')
    lock_src = os.path.join(lsv.REPO, 'Cargo.lock')
    if os.path.exists(lock_src):
        import shutil
        shutil.copy(lock_src, os.path.join(hdir, 'Cargo.lock'))
    tgt = os.path.join(root, '.cache', 'loomh-target')
    rc, out = lsv.sh(['cargo', 'build', '--release', '--offline', '--target-dir', tgt], 1800, cwd=hdir,
                     env={'RUSTFLAGS': '--cfg loom --cfg lean_string_verif'})
    return rc == 0, os.path.join(tgt, 'release', 'lsv-loomh'), out[-1500:]

def check_c04(root, pid, tier, seed, replay):
    res = lsv.Result(pid, tier, seed)
    st = lsv.Build(root).run()
    lsv.base_obligations(root, pid, res, st)
    stats = lsv.new_stats()
    ok, exe, msg = build_loomh(root)
    res.oblige('build: real crate under --cfg loom --cfg lean_string_verif', ok, msg if not ok else '')
    results = {}
    if ok:
        rc, out = lsv.sh([exe, 'list'], 60)
        total = int(out.strip().splitlines()[-1])
        env = {'LSV_LOOM_PREEMPTIONS': '2' if tier == 'quick' else '4'}
        if replay:
            m = re.search(r'program (\d+)', open(replay).read())
            todo = [int(m.group(1))] if m else list(range(total))
        else:
            todo = list(range(total))
        i = 0
        while i < len(todo):
            # run a contiguous chunk; an abort (non-unwinding panic inside loom) loses the rest of the chunk
            j = i
            while j + 1 < len(todo) and todo[j + 1] == todo[j] + 1 and j - i < 63:
                j += 1
            rc, out = lsv.sh([exe, 'run', str(todo[i]), str(todo[j] + 1)], 1800, env=env)
            seen = -1
            for line in out.splitlines():
                p = line.split(' ', 4)
                if len(p) >= 4 and p[0] == 'P':
                    results[int(p[1])] = (p[2], p[3], p[4] if len(p) > 4 else '')
                    seen = int(p[1])
            if seen < todo[j]:
                nxt = seen + 1 if seen >= todo[i] else todo[i]
                results[nxt] = ('?', 'FAIL', 'process aborted (non-unwinding panic): ' + out.strip().splitlines()[-1][:200] if out.strip() else 'process aborted')
                i = todo.index(nxt) + 1
            else:
                i = j + 1
        execs = 0
        for idx, (name, verdict, detail) in sorted(results.items()):
            stats['cases'] += 1
            if verdict == 'ok':
                try: execs += int(detail.split()[0])
                except Exception: pass
            else:
                stats['monitor_failures'] += 1
                if len(res.violations) < 5:
                    txt = ('# C04: the real crate under loom, program %d (%s): %s\n# replay: ./check C04 --replay <this file>   '
                           '(threads A and B each own a handle to one shared 30-byte heap buffer; vN: 0 = both moved, 1 = main keeps a third handle, '
                           '2 = B\'s handle truncated to 17 bytes first, 3 = to 5 bytes; &op programs: both threads borrow &base, clone through it and run op on the clone, 10 = base is the only handle, 11 = main keeps a second one)\nprogram %d\n' % (idx, name, detail, idx))
                    rp = lsv.write_replay(root, pid, 'loom_%d' % idx, txt)
                    res.violations.append(('loom program %d %s: %s' % (idx, name, detail[:200]), rp, True, 'loom'))
        stats['steps'] = execs
        for n in list(results)[:3]:
            pass
        res.cov['loom_programs'] = len(results)
        res.cov['loom_executions'] = execs
        res.cov['loom_preemption_bound'] = int(env['LSV_LOOM_PREEMPTIONS'])
        res.samples = [['program %d: %s -> %s %s' % (k, v[0], v[1], v[2][:40]) for k, v in sorted(results.items())[:6]]]
        stats['nontrivial'] = set(v[0] for v in results.values())
    lsv.finish_without_search(root, pid, res, stats)
    res.stats = stats
    return lsv.emit(root, res, st)

SPECIAL['C04'] = check_c04

# ------------------------------------------------------------------------------------------------ C16
def check_c16(root, pid, tier, seed, replay):
    res = lsv.Result(pid, tier, seed)
    st = lsv.Build(root).run()
    lsv.base_obligations(root, pid, res, st)
    stats = lsv.new_stats()
    # the op-sequence form of the decoders is exercised by the explorer's push/push_str/with_capacity ops (C01);
    # here: the real decoders against String's, and the model's acceptance automaton against std's
    u8len, u16len = (5, 6) if tier == 'quick' else (6, 7)
    for kind, ml in (('utf8', u8len), ('utf16', u16len)):
        n, mm, lines, out = run_sweep(root, [kind, ml], 3000)
        stats['steps'] += n; stats['cases'] += 1
        res.cov['sweep_' + kind] = {'maxlen': ml, 'checked': n, 'mismatches': mm, 'exhaustive_over_class_alphabet': True}
        if mm != 0:
            stats['monitor_failures'] += 1
            rp = lsv.write_replay(root, pid, 'sweep_' + kind, '# sweep %s %d: LeanString vs String\n%s\n' % (kind, ml, '\n'.join(lines[:5])))
            res.violations.append(('sweep %s: %s' % (kind, lines[0] if lines else out[-200:]), rp, bool(lines), 'decode_mismatch'))
    # tie of the Coq automaton utf8_valid to std::str::from_utf8 (all sequences up to length 4 over the 20-class alphabet)
    rn = os.path.join(root, '.cache', 'harness-target', 'release', 'sweep')
    dump = os.path.join(root, '.cache', 'tmp', 'utf8_dump_%d.txt' % os.getpid())
    os.makedirs(os.path.dirname(dump), exist_ok=True)
    rc, out = lsv.sh('%s utf8 %d dump > %s' % (rn, 4 if tier == 'quick' else 5, dump), 1800)
    md = os.path.join(root, '.cache', 'model', 'model_driver')
    rc, out = lsv.sh([md, '--utf8', dump], 3000)
    os.remove(dump)
    m = re.search(r'utf8_valid compared (\d+) disagreements (\d+)', out)
    ncmp, ndis = (int(m.group(1)), int(m.group(2))) if m else (0, -1)
    res.cov['utf8_valid_model_vs_std'] = {'compared': ncmp, 'disagreements': ndis}
    stats['compared'] += ncmp; stats['steps'] += ncmp
    if ndis != 0:
        stats['disagreements'] += 1
        bad = [l for l in out.splitlines() if l.startswith('DISAGREE')]
        stats['disagree_samples'].append(('utf8', 0, (bad[0] if bad else out[-200:]), '# the Coq automaton utf8_valid / decoder Lossy.lossy disagrees with std::str::from_utf8 / String::from_utf8_lossy\n' + '\n'.join(bad[:5]) + '\n'))
    # the same for UTF-16: Lossy.utf16_decode against String::from_utf16 / from_utf16_lossy
    dump = os.path.join(root, '.cache', 'tmp', 'utf16_dump_%d.txt' % os.getpid())
    rc, out = lsv.sh('%s utf16 %d dump | grep -v "^checked" > %s' % (rn, 5 if tier == 'quick' else 6, dump), 1800)
    rc, out = lsv.sh([md, '--utf16', dump], 3000)
    os.remove(dump)
    m = re.search(r'utf16_decode compared (\d+) disagreements (\d+)', out)
    ncmp16, ndis16 = (int(m.group(1)), int(m.group(2))) if m else (0, -1)
    res.cov['utf16_decode_model_vs_std'] = {'compared': ncmp16, 'disagreements': ndis16}
    stats['compared'] += ncmp16; stats['steps'] += ncmp16
    if ndis16 != 0:
        stats['disagreements'] += 1
        bad = [l for l in out.splitlines() if l.startswith('DISAGREE')]
        stats['disagree_samples'].append(('utf16', 0, (bad[0] if bad else out[-200:]), '# the Coq decoder utf16_decode disagrees with String::from_utf16(_lossy)\n' + '\n'.join(bad[:5]) + '\n'))
    stats['nontrivial'] = set(range(3))
    res.samples = [['utf8 class alphabet 00 41 7f 80 8f 90 9f a0 bf c0 c2 df e0 e1 ed ef f0 f1 f4 f5, all sequences up to length %d' % u8len,
                    'utf16 alphabet 0041 00e9 d7ff d800 dbff dc00 dfff e000, all sequences up to length %d' % u16len]]
    lsv.finish_without_search(root, pid, res, stats)
    res.stats = stats
    return lsv.emit(root, res, st)

SPECIAL['C16'] = check_c16

# ------------------------------------------------------------------------------------------------ C19
def check_c19(root, pid, tier, seed, replay):
    res = lsv.Result(pid, tier, seed)
    st = lsv.Build(root).run()
    lsv.base_obligations(root, pid, res, st)
    stats = lsv.new_stats()
    hdir = lsv.harness_dir(root, 'conv')
    import shutil
    if os.path.exists(os.path.join(lsv.REPO, 'Cargo.lock')):
        shutil.copy(os.path.join(lsv.REPO, 'Cargo.lock'), os.path.join(hdir, 'Cargo.lock'))
    tgt = os.path.join(root, '.cache', 'conv-target')
    rc, out = lsv.sh(['cargo', 'build', '--release', '--offline', '--target-dir', tgt], 1800, cwd=hdir, env={'RUSTFLAGS': '--cfg lean_string_verif'})
    res.oblige('build: crate with --features serde,arbitrary', rc == 0, out[-1200:] if rc != 0 else '')
    if rc == 0:
        count = 20000 if tier == 'quick' else 2000000
        rc, out = lsv.sh([os.path.join(tgt, 'release', 'lsv-conv'), str(seed), str(count)], 3000)
        m = re.search(r'checked (\d+) mismatches (\d+)', out)
        n, mm = (int(m.group(1)), int(m.group(2))) if m else (0, -1)
        stats['steps'] = n; stats['cases'] = 4; stats['nontrivial'] = set(['serialize', 'deserialize_str', 'deserialize_bytes', 'arbitrary'])
        res.cov['conv'] = {'checked': n, 'mismatches': mm, 'seed': seed,
                           'what': 'serde_json text, StrDeserializer / BorrowedStrDeserializer / StringDeserializer / BytesDeserializer / BorrowedBytesDeserializer, Unstructured (arbitrary, arbitrary_take_rest, size_hint) against String / &str'}
        res.samples = [['all byte sequences up to length 4 over the UTF-8 class alphabet through both bytes visitors',
                        'strings with escapes / multi-byte chars at lengths 0,1,7,15,16,17,18,31,32,33,64']]
        if mm != 0:
            stats['monitor_failures'] += 1
            lines = [l for l in out.splitlines() if l.startswith('MISMATCH')]
            rp = lsv.write_replay(root, pid, 'conv', '# lsv-conv %d %d\n%s\n' % (seed, count, '\n'.join(lines[:10])))
            res.violations.append(('conv: %s' % (lines[0] if lines else out[-200:]), rp, bool(lines), 'conv_mismatch'))
    lsv.finish_without_search(root, pid, res, stats)
    res.stats = stats
    return lsv.emit(root, res, st)

SPECIAL['C19'] = check_c19
