"""property-specific check routines that do not use the pool-history explorer (filled in as they are built)."""
SPECIAL = {}
