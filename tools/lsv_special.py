"""property-specific check routines that do not (only) use the pool-history explorer."""
import os, sys, json, time, re, random
import lsv

INT_TYPES = {'i8': (-2**7, 2**7 - 1), 'u8': (0, 2**8 - 1), 'i16': (-2**15, 2**15 - 1), 'u16': (0, 2**16 - 1),
             'i32': (-2**31, 2**31 - 1), 'u32': (0, 2**32 - 1), 'i64': (-2**63, 2**63 - 1), 'u64': (0, 2**64 - 1),
             'isize': (-2**63, 2**63 - 1), 'usize': (0, 2**64 - 1), 'i128': (-2**127, 2**127 - 1), 'u128': (0, 2**128 - 1)}

class Sm:
    def __init__(self, seed): self.s = seed & (2**64 - 1)
    def next(self):
        self.s = (self.s + 0x9E3779B97F4A7C15) & (2**64 - 1)
        z = self.s
        z = ((z ^ (z >> 30)) * 0xBF58476D1CE4E5B9) & (2**64 - 1)
        z = ((z ^ (z >> 27)) * 0x94D049BB133111EB) & (2**64 - 1)
        return z ^ (z >> 31)

def int_values(ty, rng, nrand):
    lo, hi = INT_TYPES[ty]
    vals = set([lo, hi, lo + 1, hi - 1, 0, 1, 2, 9, 10, 11])
    for k in range(0, 40):
        for d in (-3, -2, -1, 0, 1, 2, 3):
            for sgn in (1, -1):
                vals.add(sgn * (10 ** k) + d); vals.add(sgn * (10 ** k - 1) + d)
    for k in range(0, 129):
        for d in (-3, -2, -1, 0, 1, 2, 3):
            for sgn in (1, -1):
                vals.add(sgn * (2 ** k) + d)
    # dense random sampling of every digit count
    maxd = len(str(max(abs(lo), hi)))
    for dcount in range(1, maxd + 1):
        for _ in range(nrand):
            v = (rng.next() | (rng.next() << 64)) % (10 ** dcount - 10 ** (dcount - 1) + 1) + 10 ** (dcount - 1) - (1 if dcount == 1 else 0)
            vals.add(v); vals.add(-v)
    return sorted(v for v in vals if lo <= v <= hi)

def int_cases(seed, nrand):
    rng = Sm(seed * 7919 + 13)
    lines = []
    cid = 0
    nvals = 0
    for ty in INT_TYPES:
        vs = int_values(ty, rng, nrand)
        nvals += len(vs)
        for variant in (ty, 'nz_' + ty):
            vv = [v for v in vs if not (variant.startswith('nz_') and v == 0)]
            for i in range(0, len(vv), 6):
                lines.append('case int%d' % cid); cid += 1
                lines.append('limit 65536')
                for v in vv[i:i + 6]:
                    lines.append('op %s from_int %s %d' % ('try' if (v & 1) else 'plain', variant, v))
                lines.append('end')
    return '\n'.join(lines) + '\n', nvals

def run_sweep(root, args, timeout):
    rn = os.path.join(root, '.cache', 'harness-target', 'release', 'sweep')
    rc, out = lsv.sh([rn] + [str(a) for a in args], timeout)
    m = re.search(r'checked (\d+) mismatches (\d+)', out)
    mism = [l for l in out.splitlines() if l.startswith('MISMATCH')]
    return (int(m.group(1)) if m else 0), (int(m.group(2)) if m else -1), mism, out

def check_c14(root, pid, tier, seed, replay):
    res = lsv.Result(pid, tier, seed)
    st = lsv.Build(root).run()
    lsv.base_obligations(root, pid, res, st)
    stats = lsv.new_stats()
    if replay:
        lsv.explore(root, pid, res, open(replay).read(), 'replay', stats)
    else:
        txt, nvals = int_cases(seed, 8 if tier == 'quick' else 120)
        lsv.explore(root, pid, res, txt, 'ints_s%d' % seed, stats)
        res.cov['int_values_through_model_and_impl'] = nvals
        # sweeps on the implementation alone (monitor: to_lean_string() == to_string())
        plan = [('i8', -128, 256, 1), ('u8', 0, 256, 1), ('i16', -32768, 65536, 1), ('u16', 0, 65536, 1)]
        if tier == 'thorough':
            plan += [('i32', -2**31, 2**32, 1), ('u32', 0, 2**32, 1)]
            plan += [('i64', -2**63, 50_000_000, 368934881474191), ('u64', 0, 50_000_000, 368934881474191),
                     ('isize', -2**63, 20_000_000, 922337203685477), ('usize', 0, 20_000_000, 922337203685477),
                     ('i128', -2**127, 20_000_000, 17014118346046923173168730371588410), ('u128', 0, 20_000_000, 17014118346046923173168730371588410)]
        else:
            plan += [('i32', -2**31, 2**16 + 1, 65521), ('u32', 0, 2**16 + 1, 65521),
                     ('i64', -2**63, 200_000, 92233720368547758 + seed), ('u64', 0, 200_000, 92233720368547758 + seed),
                     ('i128', -2**127, 100_000, 3402823669209384634633746074317682 + seed), ('u128', 0, 100_000, 3402823669209384634633746074317682 + seed)]
        sweeps = []
        for ty, start, count, step in plan:
            n, mm, lines, out = run_sweep(root, ['int', ty, start, count, step], 3000)
            sweeps.append({'type': ty, 'start': str(start), 'count': count, 'step': str(step), 'checked': n, 'mismatches': mm})
            stats['steps'] += n
            if mm != 0:
                stats['monitor_failures'] += 1
                v = lines[0].split()[2] if lines else '0'
                case = 'case sweep_%s\nop plain from_int %s %s\nend\n' % (ty, ty, v)
                rp = lsv.write_replay(root, pid, 'sweep_%s' % ty, case)
                res.violations.append(('sweep %s: %s' % (ty, lines[0] if lines else out[-200:]), rp, bool(lines), 'text_mismatch'))
        res.cov['sweeps'] = sweeps
        res.cov['exhaustive_types'] = [s['type'] for s in sweeps if s['step'] == '1']
    lsv.finish_without_search(root, pid, res, stats)
    res.stats = stats
    return lsv.emit(root, res, st)

SPECIAL = {'C14': check_c14}
