#!/usr/bin/env python3
"""pin.py — record the statements of every theorem in coq/props/C*.v into coq/pins.json (run by hand after a
deliberate change of a statement; the checks compare against it so that a proof cannot be kept green by weakening
what it says)."""
import os, sys, json, glob
sys.path.insert(0, os.path.dirname(os.path.abspath(__file__)))
import lsv
root = os.path.dirname(os.path.dirname(os.path.abspath(__file__)))
pins = {}
for pv in sorted(glob.glob(os.path.join(root, 'coq', 'props', 'C*.v'))):
    pins[os.path.basename(pv)[:-2]] = lsv.theorem_statements(pv)
json.dump(pins, open(os.path.join(root, 'coq', 'pins.json'), 'w'), indent=1, sort_keys=True)
print({k: len(v) for k, v in pins.items()})
