#!/usr/bin/env python3
"""mk_manifest.py — writes MANIFEST.json from the table below (kept here so the manifest is always schema-valid)."""
import json, os, subprocess
root = os.path.dirname(os.path.dirname(os.path.abspath(__file__)))

TB = ("Trusted: Coq 8.16.1 kernel and vm_compute (no native_compute; no axioms: every property theorem prints 'Closed under the "
      "global context'); tools/translate.py (regenerates coq/gen/GenSrc.v from /repo on every run); extraction with ExtrOcamlBasic only + "
      "OCaml 4.13.1; the Rust harness (runner, shim allocator/shadow heap, monitors); rustc/cargo. The hand-written model "
      "(coq/theories/Impl.v, Exec.v) is tied to the code by differential execution on the same histories, not by proof. 64-bit little-endian only.")

CLAIMED = {
    'C14': dict(
        text=("Theorem (Coq, all inputs): for each of the 10 integer types of at most 64 bits (and hence their NonZero forms) and EVERY value z of "
              "the type, the model of the digit-count table + unrolled LUT writer returns exactly the decimal text of z, the table entry equals "
              "the text length, every store is inside the buffer and the cursor ends at 0 (C14_int_text, C14_digit_count_is_length). The tables, the "
              "200-byte LUT and the statement-by-statement shape of the writer macro are regenerated from src/repr/num_to_repr.rs on every run and "
              "must satisfy check_table/lut_ok (C14_generated_data_ok), so an off-by-one row breaks a proof obligation. Tie to the code: model vs "
              "to_lean_string() vs to_string() on all powers of ten/two +-3, extremes and per-digit-count random values of all 24 types; exhaustive "
              "8/16-bit (quick) and 32-bit (thorough) sweeps of the implementation. 128-bit types go through the external itoa crate: for them only "
              "'from_str of itoa's text' is modelled and the sweep compares with to_string()."),
        note=TB + " itoa (u128/i128) is an oracle.",
        technique="Coq proof over generated tables (induction on the 4-2-1 digit loop) + differential run against to_string()",
        design='§7 C14'),
}

NOT_YET = {
}

def main():
    props = [json.loads(l) for l in open(os.path.join(root, 'properties.jsonl'))]
    repo_commits = subprocess.run(['git', '-C', '/repo', 'log', '--format=%h %s'], capture_output=True, text=True).stdout.splitlines()
    hook_commits = [l.split()[0] for l in repo_commits if l.split(' ', 1)[1].startswith('verif hooks')]
    checks = []
    na = []
    for p in props:
        pid = p['id']
        if pid in CLAIMED:
            c = CLAIMED[pid]
            checks.append({
                'property_id': pid,
                'quick_cmd': './check %s --tier quick' % pid,
                'thorough_cmd': './check %s --tier thorough' % pid,
                'evidence_file': 'evidence/%s.json' % pid,
                'replay_cmd_template': './check %s --replay {path}' % pid,
                'engine': 'coq+harness',
                'level_claimed': {'category': 'proof', 'text': c['text'], 'design_ref': c['design']},
                'level_note': c['note'],
                'technique': c['technique'],
            })
        else:
            na.append({'property_id': pid, 'reason': NOT_YET.get(pid, 'not claimed yet: the model covers it and the harness monitors it, but its theorems are still being proved (build in progress)')})
    man = {
        'version': 1,
        'setup_cmd': './check --setup',
        'hooks': {
            'guard': '--cfg lean_string_verif',
            'enable': 'RUSTFLAGS="--cfg lean_string_verif" cargo build (the harness crate depends on /repo by path)',
            'baseline_off_cmd': 'cd /repo && cargo test --workspace --no-fail-fast --offline',
            'source_commits': hook_commits,
            'add_only': True,
        },
        'engines': [
            {'name': 'coq+harness', 'path': 'check', 'serves_properties': [c['property_id'] for c in checks],
             'kind_free_text': 'Coq 8.16 development (coq/), source-to-Gallina translator (tools/translate.py), Rust differential harness with shadow heap and property monitors (harness/), extracted OCaml model driver (model/)'},
        ],
        'checks': checks,
        'not_applicable': na,
        'notes': 'See DESIGN.md. known_findings.json records the four genuine defects found and repaired (fix: commits in /repo).',
    }
    json.dump(man, open(os.path.join(root, 'MANIFEST.json'), 'w'), indent=1)
    print('claimed:', [c['property_id'] for c in checks])

if __name__ == '__main__':
    main()
