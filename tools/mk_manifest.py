#!/usr/bin/env python3
"""mk_manifest.py — writes MANIFEST.json from the table below (kept here so the manifest is always schema-valid)."""
import json, os, subprocess
root = os.path.dirname(os.path.dirname(os.path.abspath(__file__)))

TB = ("Trusted: Coq 8.16.1 kernel and vm_compute (no native_compute; no axioms: every property theorem prints 'Closed under the "
      "global context'); tools/translate.py (regenerates coq/gen/GenSrc.v from /repo on every run); extraction with ExtrOcamlBasic only + "
      "OCaml 4.13.1; the Rust harness (runner, shim allocator/shadow heap, monitors); rustc/cargo. The hand-written model "
      "(coq/theories/Impl.v, Exec.v) is tied to the code by differential execution on the same histories, not by proof. 64-bit little-endian only.")

COMMON = (" Tie to the code (checked every run): tools/translate.py regenerates coq/gen/GenSrc.v (branch conditions, growth formula, limits, "
          "atomic orderings, LastByte table, digit tables, and the call skeleton of every modelled function, which must equal the one the model was read from: "
          "theorem C01_source_skeleton) from /repo and the whole development is re-checked against it; the hand-written "
          "model (coq/theories/Impl.v, Exec.v) is extracted and run on the same operation histories as the real crate (corpus + generated, "
          "seeded by VERIF_SEED) and must agree on this property's projection of the trace; the property's monitors (the predicate itself, "
          "evaluated on the real run against std::string::String and a shadow heap) must stay silent.")

def T(main): return main + COMMON

CLAIMED = {
    'C01': dict(text=T("Theorems (Coq, all histories / arguments / allocator oracles): C01_step — every one of the 27 modelled operations (constructors, "
        "clone/clone_from/drop, push, push_str, +=, +, pop, remove, insert, insert_str, truncate, clear, retain, reserve, shrink_to, extend, collect, "
        "write!, to_lean_string on a Display type) preserves the pool/heap invariant WF, never reaches an undefined memory state, leaves every other "
        "slot untouched, and - unless it reports an allocation failure - leaves exactly the texts and returns exactly the value that Spec.v (String as "
        "a function on byte lists) does; C01_histories lifts this by induction to every finite history over an unbounded pool from the empty world; "
        "C01_read: len/is_empty/as_bytes read the abstract text in every storage state incl. the 16-byte inline case, and every text is valid UTF-8."),
        note=TB + " Spec.v is a rendering of String validated by the harness (real Strings run next to the LeanStrings), not proved. core::fmt plumbing is modelled as 'calls write_str with the pieces in order'.",
        technique="Coq: wp specifications per Rust function + refinement to a String spec, induction over operation lists; differential run vs extracted model and vs std String",
        design='§7 C01'),
    'C02': dict(text=T("Theorems: C02_frame — for every operation and EVERY outcome (success, ReserveError, index panic, callback panic) each slot that is not the "
        "target keeps its handle bit for bit, reads the same text and reports the same capacity (derived from the frame clause of every function "
        "specification: buffers still named by another handle are never written, moved or freed); C02_histories — a slot's text changes only at steps "
        "that target it, for all histories."),
        note=TB, technique="Coq: frame condition in every function's wp specification, induction over histories; differential run + monitors on non-target slots", design='§7 C02'),
    'C03': dict(text=T("Theorems: C03_no_ub — no history reaches an undefined state of the memory model (access to a released/unknown buffer, out-of-bounds access, "
        "dealloc/realloc with a size other than the allocation's, double free, write through a static pointer, an unreachable_unchecked site); C03_count — in "
        "every reachable world a live buffer's count equals the number of handles naming it (>= 1) and its allocation size is header + capacity, a released "
        "buffer is named by nobody; C03_handles_live; C03_no_leak — when all handles are gone no block is live."),
        note=TB + " The real allocator is represented by an oracle that may refuse any request; the shadow heap in the harness (guard zones, poison, quarantine, always-moving realloc) is the runtime counterpart.",
        technique="Coq: invariant (refcount = number of handles) preserved by every operation; shadow-heap monitors on the real crate", design='§7 C03'),
    'C04': dict(text=("Theorems: C04_protocol_safe_all_schedules / C04_invariant — a reference-count protocol machine "
        "(vector clocks for happens-before, C11 release/acquire rules, release sequences through RMWs, acquire loads that may read ANY not-yet-overwritten message, acquire fence as its own "
        "action, header read by the freeing thread, dealloc only after the fence, handles moved at spawn, joins) never reaches a data race, a use after free or a double free, for any number "
        "of threads and every schedule (invariant J1-J11); C04_clone/drop/reserve/ensure_modifiable_respects_protocol and C04_every_operation_respects_protocol — the command trees of ALL "
        "modelled readers and mutators (as_bytes, push_str, pop, truncate, remove, insert_str, retain, clear, shrink_to, reserve, clone, drop) perform, whatever values shared memory returns, only "
        "events whose protocol precondition holds; the typing also checks the orderings regenerated from the source (decrement at least Release, uniqueness load and the fence at least Acquire, "
        "fence before the header read and the dealloc); COMPOSITION: C04_typed_step / C04_typed_safe / C04_typed_progress (Compose.v) — in the interleaving semantics that runs thread programs "
        "(command trees, spawn with k handles, join) event by event against the protocol machine, well-typedness is preserved by every step, so no reachable configuration can make a racy / "
        "use-after-free / double-free step, and the head event of every started thread is enabled; C04_shared_handles_typed / _safe (Programs.v) — for EVERY number of threads and EVERY "
        "operation sequence per thread (thread 0 clones once per child, moves a clone into each spawned thread, every thread runs its sequence on its handle and drops it, thread 0 joins) the "
        "initial configuration is well typed, hence all of the above holds for every interleaving and every admissible stale read; RELEASED EXACTLY ONCE, AFTER THE LAST ACCESS: the typing "
        "tracks reference counts exactly (cons), so a finished thread holds nothing, and with machine invariant J9 C04_all_finished_released / C04_shared_handles_released show that in any reachable "
        "configuration where every started thread has finished the buffer is no longer live; FRAME: C04_write_excludes_others / C04_free_excludes_holders / C04_no_interference_while_held - while a "
        "thread holds a reference and is not running, no successful step of another thread writes, reallocates or frees the buffer; C04_execution_example - an executable scheduler (Sched.v, proved "
        "sound for the semantics) runs a two-thread program to completion inside Coq; C04_atomic_sites — the atomic call sites regenerated from the "
        "source are exactly the expected ones. PER-THREAD RESULTS: the sequential interpreter Cmd.run reads every reference count as (the references of this thread's world) + ext, where "
        "ext is an arbitrary oracle consulted afresh at every atomic read (what the handles held by other threads add; a decrement that gives up the world's last reference while ext > 0 frees nothing "
        "and the buffer leaves the world); every function specification and C01_step are proved for EVERY oracle, and C04_thread_results_sequential states the consequence: from any well-formed "
        "world of a thread, for every history of its operations and every sequence of foreign contributions, the world stays well-formed, nothing undefined is reached and texts and returned "
        "values are exactly Spec's (String's); conversely C04_every_value_stream_is_an_oracle - every stream of values handed to the atomic reads of a command is realised by some oracle. The link (why other threads appear to a thread only through such an oracle): C04_rmw_reads_own_plus_rest / C04_load_reads_own_plus_rest - in "
        "the protocol machine every value an RMW or a possibly stale acquire load returns to thread t is at least the number of references t holds (from J1 / J7) - and "
        "C04_typed_values_own_plus_rest - in every configuration a well-typed program reaches, the value handed to a thread's continuation by a load or RMW of the shared count is its ghost count "
        "plus a non-negative rest; together with the frame (nobody writes, moves or frees a buffer a thread holds) this is what the oracle semantics assumes. CONTENTS (conc/Contents.v): write steps of a schedule carry the value written; "
        "C04_writes_while_held_are_own - along any schedule in which thread t can reach the buffer in every state passed through (a reference, a loan, or the duty to free; t moving too, the others "
        "scheduled arbitrarily) every write / reallocation / release is t's own; C04_contents_thread_local - so at every prefix the buffer holds what t's own writes made of it; "
        "C04_typed_write_is_sole - in every configuration a well-typed program reaches, an event that writes, moves or reallocates the shared buffer finds no other thread able to reach it. What stays an argument rather than one "
        "theorem: the interleaving semantics of Compose.v itself carries no buffer contents, so the statement 'the projection of an interleaved execution onto one thread is a Cmd.run execution for some "
        "oracle' is the conjunction of the theorems above, not a single simulation theorem. SHARING BY REFERENCE IN THE PROGRAM SEMANTICS (std::thread::scope): the typing carries who borrows (g_bor) and whom a thread "
        "has lent to (lt, in agreement with the machine's lend fields); PLend / PJoinB items; a borrower's events map to AReadB / ACloneB; C04_typed_step / _safe / _progress / C04_all_finished_released "
        "hold for such programs, and C04_scoped_handles_typed / _safe / _released: for every n and all operation sequences, thread 0 holds two handles and lends one to n+1 scoped threads, each of which reads and clones through it "
        "(any sequence of reads and mutations on every clone, then drop), while thread 0 itself runs any sequence of reads and mutations on its OTHER handle and drops it and then reads and clones through the lent handle "
        "(while a loan is outstanding the lent handle is set aside: the lender's commands are typed with one reference fewer, g_hide, and the typing invariant lets the machine count that one reference beyond the ghost); "
        "the scope ends, thread 0 runs any sequence on the handle it had lent and drops; C04_scoped_execution_example runs a three-thread instance to completion "
        "inside Coq. LENDING &LeanString to a scoped thread that reads and clones through it is part of the machine (ALend / AReadB / ACloneB / AJoinB, invariant J10, "
        "stale-read bound J7 relative to the joint knowledge of a thread and its borrowers): covered by "
        "C04_protocol_safe_all_schedules for every schedule and any number of borrowers; C04_borrowed_buffer_protected - while a loan is outstanding the buffer is live, the lender holds its "
        "reference, nobody is exclusive or must free. Tie to the code: the real crate built with "
        "--cfg loom --cfg lean_string_verif; every buffer gets a loom UnsafeCell touched by the crate's access notes, so loom's causality checker reports unordered conflicting accesses and the "
        "shim reports accesses to freed buffers; 525 two-thread programs (14 ops x 14 ops x 4 variants with handles moved into the threads, one of the ops a clone_from between two handles of one buffer, one of the variants with a shared handle whose own text is 5 bytes; 7 x 7 x 2 variants in which both threads borrow &base, read and clone through it and edit / drop the clone; 7 x 7 in which the main thread lends &base and meanwhile edits another handle it holds on the same buffer), each thread checked against String, all buffers freed at the end of every execution."),
        note=TB + " The C11 fragment formalised in conc/Mach.v is hand-written; the ghost state of Proto.okc is carried by the interleaving semantics as instrumentation (it constrains only the freshness of allocated buffer ids); buffer ids are never reused in the model; 'stronger orderings are also fine' is checked by the typing (at-least tests), not by the machine; loom does not explore every C11 relaxed behaviour; hardware and compiler are out of scope.",
        technique="Coq: invariant over a vector-clock protocol machine (all schedules, stale reads) + demonic typing of all command trees + preservation/progress for the interleaving semantics of typed thread programs + refinement to the String spec under an arbitrary foreign-reference oracle; loom exploration of the real crate with buffer-access cells", design='§7 C04'),
    'C05': dict(text=T("Theorems, for every allocator oracle (so for every single, paired or longer fault sequence): C05_failure_changes_nothing — when push, push_str, "
        "insert, insert_str, remove, retain, reserve or shrink_to reports a ReserveError (try form) or panics with it (plain form) the pool and the heap are "
        "exactly as before; C05_iterators_stop_between_items — extend / write! stop after some prefix of the items; C05_ctor_failure_leaves_nothing — a failed "
        "constructor (incl. collect and to_lean_string on a Display type) appends nothing and leaves no buffer unaccounted; C05_every_step_stays_usable."),
        note=TB, technique="Coq: failure clauses of the wp specifications, universally quantified allocator oracle; fault-injecting shim allocator in the harness", design='§7 C05'),
    'C06': dict(text=T("Theorems for every n (a universal over N, the 2^64 wrap written out): C06_with_capacity_any_n, C06_reserve_any_n, C06_shrink_any_n give the documented "
        "postcondition on success and 'nothing changed' on failure, never UB; C06_growth_covers_request and C06_layout_size_no_wrap are the arithmetic facts "
        "(an accepted capacity covers len+additional; header+capacity cannot wrap below 2^56)."),
        note=TB + " Static texts >= 2^56 bytes cannot be built by the harness.", technique="Coq: arithmetic over N with explicit saturation/wrap + wp specifications; boundary-grid differential run", design='§7 C06'),
    'C07': dict(text=T("Theorems: C07_index_panic_iff_string — insert, insert_str, remove, truncate panic on the index exactly when Spec (String) does; "
        "C07_index_panic_changes_nothing — such a panic leaves pool, heap, allocator request counter and statics exactly as they were, in every storage state; "
        "C07_always_utf8 — every text of every reachable world is valid UTF-8 (table 3-7), which is what from_utf8_unchecked relies on."),
        note=TB, technique="Coq: panic clauses of the wp specifications, UTF-8 validity as an invariant; differential run with catch_unwind on both sides", design='§7 C07'),
    'C08': dict(text=T("Theorems: C08_clone_is_shallow — clone appends the very same handle value, issues no allocator request, changes no buffer data (only the count of the "
        "shared buffer, by one) and both read the same text; C08_clone_from_is_shallow likewise; equality/independence afterwards are C01/C02/C03."),
        note=TB, technique="Coq: explicit post-state of make_shallow_clone; allocation counter and as_ptr monitors", design='§7 C08'),
    'C09': dict(text=T("Theorems: C09_from_str_allocation / C09_from_int_allocation — a text of at most 16 bytes yields a non-heap handle with no allocator request, a longer one "
        "exactly one request and capacity = length (or a reported failure); C09_push_within_capacity / C09_insert_within_capacity — an edit of an inline "
        "string that stays within 16 bytes performs no request and stays inline. The tag arithmetic of the full-inline case is in InlineFacts.v over the generated expressions."),
        note=TB, technique="Coq: allocator-request counter in the wp specifications; allocation-count monitors", design='§7 C09'),
    'C10': dict(text=T("Theorems: C10_from_static (no request; handle is Static s len for len > 16), C10_pop/truncate/clear_keeps_static (same static id, no request, heap unchanged), "
        "C10_first_write_moves_away (a non-empty push yields a non-static handle with Spec's text), C10_statics_never_change (no history changes a static text; a write "
        "through a static pointer is an undefined state no history reaches)."),
        note=TB, technique="Coq: handle-shape clauses of the wp specifications; leaked writable 'static buffers compared with pristine copies", design='§7 C10'),
    'C11': dict(text=T("Theorems: C11_capacity_ge_len (all reachable handles), C11_with_capacity (cap >= n), C11_reserve (cap >= len+n and exclusive), C11_push/insert_within_capacity "
        "(an append/insert that fits the reported capacity of an exclusively owned string issues no allocator request and keeps the same buffer)."),
        note=TB, technique="Coq: capacity clauses of the wp specifications; capacity/as_ptr/allocation monitors", design='§7 C11'),
    'C12': dict(text=T("Theorems: C12_push_growth_is_amortized_growth / C12_reserve_growth_... — whenever an append or reserve issues an allocator request the new capacity is exactly "
        "amortized_growth(len, additional) as translated from heap_buffer.rs on this run; C12_growth_bounds — that value is >= len + len/2, >= len + additional and <= their maximum; "
        "C12_growth_formula. Amortisation: C12_push_loop_follows_gsim — every history of successful non-empty appends to an exclusively owned string follows the bookkeeping machine "
        "GrowSim.gstep (length, capacity, allocator requests) exactly, by induction over the history; C12_gsim_log_requests_linear_copy — for every list of piece sizes, after k requests "
        "3^((k-1)/2) <= 2^((k-1)/2) * len and the bytes copied by all growth steps are <= 6 * len; C12_push_loop_log_requests combines them for the modelled crate; "
        "C12_gsim_4MiB_at_most_76_requests. Run-time tie: push loops (widths 1-4 and mixed patterns, up to 1 MiB quick / 8 MiB thorough) on the real crate behind the shim allocator must "
        "follow the extracted gstep event for event, and are checked directly against the per-growth bounds."),
        note=TB + " Wall-clock cost is not addressed.", technique="Coq: arithmetic over the regenerated growth formula + wp specifications + potential-style invariant over append histories; growth monitors; push-loop differential run", design='§7 C12'),
    'C13': dict(text=T("Theorem C13_shrink: shrink_to/shrink_to_fit change no text, never fail to keep len <= capacity <= max(old, 16), convert to inline when max(len, m) <= 16, do nothing "
        "when the capacity is already <= max(len, m), and otherwise land exactly on max(len, m) with an exclusively owned buffer - shared or not (shrink_post)."),
        note=TB, technique="Coq: wp specification of shrink_to (all four paths); shrink monitors", design='§7 C13'),
    'C18': dict(text=T("Theorems: C18_retain_panic_state — after a panicking retain predicate the target holds exactly what String's SetLenOnDrop leaves; C18_ctor_panic_no_garbage — a "
        "panicking iterator / Display impl in collect / to_lean_string leaves an empty slot and a heap in which every live buffer is named by a slot (so C03_no_leak applies); "
        "extend / write! panics are covered by C01_step's refinement clause; C18_every_step_stays_usable."),
        note=TB, technique="Coq: callback modelled by its answer to the k-th call, for every k; catch_unwind + leak monitors", design='§7 C18'),
    'C15': dict(text=T("Theorems: C15_bool, C15_char, C15_string, C15_lean_string (the shallow clone), C15_display — a Display impl that emits pieces p1..pk and returns Ok gives "
        "exactly p1++..++pk, one that returns Err after any prefix gives Err(Fmt) and no string, a panic gives nothing (for every piece list and every position). For f32/f64 the "
        "model covers 'from_str of the text ryu produced' (ryu is an external crate: an oracle); the round-trip clause is VALIDATED, not proved: quick = 1M strided f32 patterns + 1M "
        "stratified/random f64 + NaN/inf/signed-zero/subnormal specials, thorough = all 2^32 f32 patterns + 20M f64."),
        note=TB + " ryu's shortest-round-trip algorithm is not code of this repository and is not proved (labelled partial for the float clause).",
        technique="Coq: refinement of the to_lean_string arms to Spec; exhaustive/strided float round-trip sweep on the real crate", design='§7 C15'),
    'C17': dict(text=T("Theorems: C17_as_bytes_is_text — in every reachable world as_bytes/as_str returns exactly the abstract text of the handle, whatever its storage kind, capacity, sharing or "
        "stale bytes, and changes nothing; C17_repr_independent — two handles with the same text are indistinguishable through it. Eq/Ord/Hash/Display/Debug/Borrow/AsRef/Deref are "
        "one-line delegations to as_str (lib.rs:935-1069), so this is thin by nature; the tie carries the weight: for every ordered pair of live handles in the explored histories ==, cmp, "
        "hash (DefaultHasher), Display, Debug and comparisons with str/&str/String/Cow in both orders are compared with the same operations on the texts."),
        note=TB + " The trait impls themselves are not modelled (they are delegations); the monitor eq_mismatch checks them on the real crate.",
        technique="Coq: as_bytes reads the abstract text (representation independence); pairwise comparison monitors on the real crate", design='§7 C17'),
    'C20': dict(text=T("Theorems: C20_last_byte_table — the LastByte enum regenerated from last_byte.rs declares exactly 0x00..=0xD1 (LengthNN = 0xC0|NN) and nothing above, so 0xD2..=0xFF are free "
        "for Option's niche; C20_tag_range / C20_reachable — for every handle of every reachable world the tag byte is <= 0xD1, the tag tells the three storage states apart "
        "correctly and the branch-free length decode reads the handle's length. Checked by building, not proved: the size_of/align_of equalities are the crate's own const "
        "assertions (a build in each configuration checks them) and rustc's choice of niche is observed (Some(s).is_some() monitor). Configurations: the explorer's traces under "
        "{default, no-default-features, all-features} x {dev, release} must be byte-identical to default-release and monitor-silent (quick: 3 extra configurations, thorough: all 5); the library itself is built, hooks off, under all 8 combinations of std / serde / arbitrary."),
        note=TB + " rustc's layout of Option<LeanString> is observed, not proved.",
        technique="Coq: tag arithmetic over the regenerated LastByte table; build matrix with identical-trace comparison", design='§7 C20'),
    'C16': dict(text=T("Theorems: C16_utf8_valid_iff — the Unicode table 3-7 automaton accepts exactly the valid texts; C16_from_utf8 — accepted bytes yield exactly that text; "
        "C16_from_utf8_lossy — for EVERY chunk list utf8_chunks can produce and any capacity guess, the with_capacity/push_str/push(U+FFFD) loop never reaches UB and (absent allocation "
        "failure) builds exactly the text the same loop builds in a String, including when replacement characters outgrow with_capacity(len); C16_from_utf16 likewise for the "
        "per-char push loop of from_utf16 / from_utf16_lossy. The decoders themselves are modelled on bytes / code units (Lossy.v): C16_lossy_decoder — the lossy text of EVERY byte sequence is "
        "well-formed UTF-8, equals the input when that is well formed, and is at most 3x as long; C16_chunks — the chunks of Utf8Chunks are valid pieces and spell exactly the lossy text; "
        "C16_from_utf8_lossy_bytes — hence from_utf8_lossy on bytes yields lossy bs for any capacity guess and allocator; C16_utf16_decoder — every decoded unit is a scalar and "
        "encode-then-decode is the identity with no error. std's decoders remain the oracle the models are validated against. Tie: "
        "the real from_utf8 / from_utf8_lossy / from_utf16 / from_utf16_lossy against String's on every sequence over a 20-byte-class alphabet up to length 5 (quick) / 6 (thorough) and an "
        "8-class u16 alphabet up to length 6 / 7, every short tail after 13 long valid prefixes (15-65 bytes, ASCII and non-ASCII), plus damaged long inputs, compared as bytes; the extracted Coq "
        "automaton utf8_valid and decoder lossy against std::str::from_utf8 / String::from_utf8_lossy on every sequence up to length 4 / 5, and the extracted utf16_decode against "
        "String::from_utf16 / from_utf16_lossy on every sequence up to length 5 / 6."),
        note=TB + " utf8_chunks and decode_utf16 are std code: modelled in Lossy.v and validated against std on the sweeps, not verified.",
        technique="Coq: decoders as operation sequences refined to Spec (instances of the history theorem) + automaton/validity equivalence; exhaustive small-alphabet sweeps against String", design='§7 C16'),
    'C19': dict(text=T("Theorems (thin by nature: the integration is four one-line wrappers): C19_visit_bytes_accepts_iff_valid — byte input is accepted exactly when it is valid UTF-8; "
        "C19_from_str_is_transparent — visit_str / visit_borrowed_str / visit_bytes(valid) / Arbitrary yield exactly the given text; C19_serialize_sees_text — Serialize hands serde "
        "exactly the abstract text. Tie: a crate built with --features serde,arbitrary compares serde_json output, JSON round trips, Str/BorrowedStr/String/Bytes/BorrowedBytes "
        "deserializers (all byte sequences up to length 4 over the UTF-8 class alphabet through both bytes visitors) and arbitrary / arbitrary_take_rest / size_hint against String / &str."),
        note=TB + " serde's, serde_json's and arbitrary's own machinery is not modelled.",
        technique="Coq: wrappers over from_str / as_bytes; feature-enabled differential sweep against String", design='§7 C19'),
    'C14': dict(
        text=("Theorem (Coq, all inputs): for each of the 10 integer types of at most 64 bits (and hence their NonZero forms) and EVERY value z of "
              "the type, the model of the digit-count table + unrolled LUT writer returns exactly the decimal text of z, the table entry equals "
              "the text length, every store is inside the buffer and the cursor ends at 0 (C14_int_text, C14_digit_count_is_length). The tables, the "
              "200-byte LUT and the statement-by-statement shape of the writer macro are regenerated from src/repr/num_to_repr.rs on every run and "
              "must satisfy check_table/lut_ok (C14_generated_data_ok), so an off-by-one row breaks a proof obligation. Tie to the code: model vs "
              "to_lean_string() vs to_string() on all powers of ten/two +-3, extremes and per-digit-count random values of all 24 types; exhaustive "
              "8/16-bit (quick) and 32-bit (thorough) sweeps of the implementation. 128-bit types go through the external itoa crate: for them only "
              "'from_str of itoa's text' is modelled and the sweep compares with to_string()."),
        note=TB + " itoa (u128/i128) is an oracle.",
        technique="Coq proof over generated tables (induction on the 4-2-1 digit loop) + differential run against to_string()",
        design='§7 C14'),
}

NOT_YET = {
}

def main():
    props = [json.loads(l) for l in open(os.path.join(root, 'properties.jsonl'))]
    repo_commits = subprocess.run(['git', '-C', '/repo', 'log', '--format=%h %s'], capture_output=True, text=True).stdout.splitlines()
    hook_commits = [l.split()[0] for l in repo_commits if l.split(' ', 1)[1].startswith('verif hooks')]
    checks = []
    na = []
    for p in props:
        pid = p['id']
        if pid in CLAIMED:
            c = CLAIMED[pid]
            checks.append({
                'property_id': pid,
                'quick_cmd': './check %s --tier quick' % pid,
                'thorough_cmd': './check %s --tier thorough' % pid,
                'evidence_file': 'evidence/%s.json' % pid,
                'replay_cmd_template': './check %s --replay {path}' % pid,
                'engine': 'coq+harness',
                'level_claimed': {'category': 'proof', 'text': c['text'], 'design_ref': c['design']},
                'level_note': c['note'],
                'technique': c['technique'],
            })
        else:
            na.append({'property_id': pid, 'reason': NOT_YET.get(pid, 'not claimed yet: the model covers it and the harness monitors it, but its theorems are still being proved (build in progress)')})
    man = {
        'version': 1,
        'setup_cmd': './check --setup',
        'hooks': {
            'guard': '--cfg lean_string_verif',
            'enable': 'RUSTFLAGS="--cfg lean_string_verif" cargo build (the harness crate depends on /repo by path)',
            'baseline_off_cmd': 'cd /repo && cargo test --workspace --no-fail-fast --offline',
            'source_commits': hook_commits,
            'add_only': True,
        },
        'engines': [
            {'name': 'coq+harness', 'path': 'check', 'serves_properties': [c['property_id'] for c in checks],
             'kind_free_text': 'Coq 8.16 development (coq/), source-to-Gallina translator (tools/translate.py), Rust differential harness with shadow heap and property monitors (harness/), extracted OCaml model driver (model/)'},
        ],
        'checks': checks,
        'not_applicable': na,
        'notes': 'See DESIGN.md. known_findings.json records the four genuine defects found and repaired (fix: commits in /repo).',
    }
    json.dump(man, open(os.path.join(root, 'MANIFEST.json'), 'w'), indent=1)
    print('claimed:', [c['property_id'] for c in checks])

if __name__ == '__main__':
    main()
