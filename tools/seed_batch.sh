#!/bin/bash
# seed_batch.sh <worktree> <prop> <name1> <name2> [extra checks...] — confirm and file both mutants of a sub-agent's worktree
wt=$1; prop=$2; n1=$3; n2=$4; shift 4
cd "$(dirname "$0")/.."
for k in 1 2; do
  name=$n1; [ $k = 2 ] && name=$n2
  [ -f $wt/mutant$k.diff ] || { echo "no mutant$k in $wt"; continue; }
  echo "=== $name"
  python3 tools/seed.py $wt $k $name $prop $prop "$@" 2>&1 | tail -12
done
