"""coqcases.py — cross-check of extraction: a sample of cases is evaluated by vm_compute inside Coq (Observe.case_agrees)
against the observations the extracted OCaml model printed for the same cases."""
import os, re
import lsv

def n(x): return str(int(x))
def blist(hexs): return '[' + '; '.join(str(b) for b in (bytes.fromhex(hexs) if hexs != '-' else b'')) + ']'
def onat(x): return 'None' if int(x) < 0 else '(Some %d%%nat)' % int(x)
def mode(m): return 'Plain' if m == 'plain' else 'Try'
INT_TY = {'i8': 'TI8', 'u8': 'TU8', 'i16': 'TI16', 'u16': 'TU16', 'i32': 'TI32', 'u32': 'TU32', 'i64': 'TI64', 'u64': 'TU64', 'isize': 'TIsize', 'usize': 'TUsize'}

def op_term(toks):
    toks = lsv_normalise(toks)
    m, name, a = toks[1], toks[2].split(':')[0], toks[3:]
    M = mode(m)
    if name == 'new': return 'ONew'
    if name == 'from_str': return 'OFromStr %s %s' % (M, blist(a[1]))
    if name == 'from_static': return 'OFromStatic %s%%nat' % a[0]
    if name == 'with_capacity': return 'OWithCapacity %s %s' % (M, n(a[0]))
    if name == 'from_char': return 'OFromChar %s' % n(a[1])
    if name == 'from_bool': return 'OFromBool %s' % ('true' if a[0] == '1' else 'false')
    if name == 'from_int':
        ty = a[0][3:] if a[0].startswith('nz_') else a[0]
        if ty in ('i128', 'u128'): return 'OFromStr %s %s' % (M, '[' + '; '.join(str(ord(c)) for c in a[1]) + ']')
        if ty in ('f32', 'f64'): return None
        return 'OFromInt %s %s (%s)%%Z' % (M, INT_TY[ty], a[1])
    if name == 'clone': return 'OClone %s%%nat' % a[1]
    if name == 'collect_chars': return 'OCollectChars %s %s [%s]' % (n(a[0]), onat(a[1]), '; '.join(n(c) for c in a[2:]))
    if name == 'collect_strs': return 'OCollectStrs %s [%s]' % (onat(a[0]), '; '.join(blist(h) for h in a[1:]))
    if name == 'display': return 'ODisplay %s %s %s [%s]' % (M, onat(a[0]), onat(a[1]), '; '.join(blist(h) for h in a[2:]))
    if name == 'clone_from': return 'OCloneFrom %s%%nat %s%%nat' % (a[0], a[1])
    if name == 'drop': return 'ODrop %s%%nat' % a[0]
    if name == 'push': return 'OPush %s %s%%nat %s' % (M, a[0], n(a[1]))
    if name == 'push_str':
        if a[0] == 'add': return 'OAdd %s%%nat %s' % (a[1], blist(a[2]))
        return 'OPushStr %s %s%%nat %s' % (M, a[1], blist(a[2]))
    if name == 'pop': return 'OPop %s %s%%nat' % (M, a[0])
    if name == 'remove': return 'ORemove %s %s%%nat %s' % (M, a[0], n(a[1]))
    if name == 'insert': return 'OInsert %s %s%%nat %s %s' % (M, a[0], n(a[1]), n(a[2]))
    if name == 'insert_str': return 'OInsertStr %s %s%%nat %s %s' % (M, a[0], n(a[1]), blist(a[2]))
    if name == 'truncate': return 'OTruncate %s %s%%nat %s' % (M, a[0], n(a[1]))
    if name == 'clear': return 'OClear %s%%nat' % a[0]
    if name == 'retain': return 'ORetain %s %s%%nat %s [%s]' % (M, a[0], onat(a[1]), '; '.join('true' if c == '1' else 'false' for c in a[2]))
    if name == 'reserve': return 'OReserve %s %s%%nat %s' % (M, a[0], n(a[1]))
    if name == 'shrink_to': return 'OShrinkTo %s %s%%nat %s' % (M, a[0], n(a[1]))
    if name == 'shrink_to_fit': return 'OShrinkTo %s %s%%nat 0' % (M, a[0])
    if name == 'extend_chars': return 'OExtendChars %s%%nat %s %s [%s]' % (a[0], n(a[1]), onat(a[2]), '; '.join(n(c) for c in a[3:]))
    if name == 'extend_strs': return 'OExtendStrs %s%%nat %s [%s]' % (a[0], onat(a[1]), '; '.join(blist(h) for h in a[2:]))
    if name == 'write_fmt': return 'OWriteFmt %s%%nat %s %s [%s]' % (a[0], onat(a[1]), onat(a[2]), '; '.join(blist(h) for h in a[3:]))
    return None

def lsv_normalise(toks):
    if toks[1] == 'try' and toks[2] == 'from_str' and toks[3] not in ('parse', 'tls'): toks = [toks[0], 'plain'] + toks[2:]
    if toks[1] == 'try' and toks[2] == 'push_str' and toks[3] != 'push_str': toks = [toks[0], 'plain'] + toks[2:]
    return toks

OUT = {'ok': (0, 0), 'ok_none': (1, 0), 'err_reserve': (3, 0), 'err_fmt': (4, 0), 'panic_reserve': (5, 0), 'panic_index': (6, 0),
       'panic_user': (7, 0), 'panic_toolong': (8, 0), 'skip': (9, 0)}

def slot_term(s):
    if s == 'N': return 'SlotN'
    f = s[1:].split('/')
    if s[0] == 'I': return 'SlotI %s %s' % (blist(f[0]), n(f[1]))
    if s[0] == 'H': return 'SlotH %s %s %s %s' % (blist(f[0]), n(f[1]), n(f[2]), n(f[3]))
    return 'SlotS %s %s %s' % (blist(f[0]), n(f[1]), n(f[2]))

def case_to_coq(case_text, model_steps, cid):
    statics, fails, limit, ops = [], [], 1073741824, []
    for line in case_text.splitlines():
        t = line.split('#')[0].split()
        if not t: continue
        if t[0] == 'static': statics.append(blist(t[1]))
        elif t[0] == 'fail': fails = [n(x) for x in t[1:]]
        elif t[0] == 'limit': limit = int(t[1])
        elif t[0] == 'op':
            term = op_term(t)
            if term is None: return None
            ops.append('(' + term + ')')
    exp = []
    for k in range(len(ops)):
        st = model_steps.get((cid, k))
        if st is None: return None
        o = st[0]
        if o.startswith('UB_'): return None
        code = (2, int(o.split(':')[1])) if o.startswith('ok_char:') else OUT[o]
        slots = [] if st[2] == '-' else st[2].split(';')
        exp.append('((%d, %d), [%s])' % (code[0], code[1], '; '.join(slot_term(s) for s in slots)))
    return 'case_agrees [%s] [%s] %d [%s] [%s]' % ('; '.join(statics), '; '.join(fails), limit, '; '.join(ops), '; '.join(exp))

def cross_check(root, case_text, model_trace, max_cases=40):
    """-> (n_checked, n_disagree, detail)"""
    cases, order = lsv.split_cases(case_text)
    msteps, _, _ = lsv.parse_trace(model_trace)
    terms = []
    for cid in order:
        if len(terms) >= max_cases: break
        t = case_to_coq(cases[cid], msteps, cid)
        if t is not None and len(t) < 200000:
            terms.append((cid, t))
    if not terms:
        return 0, 0, ''
    d = os.path.join(root, '.cache', 'tmp')
    os.makedirs(d, exist_ok=True)
    vf = os.path.join(d, 'cases_%d.v' % os.getpid())
    with open(vf, 'w') as f:
        f.write('From Coq Require Import ZArith List.\nFrom LS Require Import Base Cmd Impl Exec Observe.\nImport ListNotations.\nOpen Scope N_scope.\n')
        f.write('Definition results : list bool :=\n  [' + ';\n   '.join(t for _, t in terms) + '].\n')
        f.write('Eval vm_compute in (map (fun b : bool => if b then 1 else 0) results).\n')
    coq = os.path.join(root, 'coq')
    rc, out = lsv.sh('timeout 600 coqc -noglob -Q theories LS -Q gen LSGen %s' % vf, 700, cwd=coq)
    for ext in ('.v', '.vo', '.vok', '.vos', '.glob'):
        try: os.remove(vf[:-2] + ext)
        except OSError: pass
    if rc != 0:
        return len(terms), -1, out[-800:]
    vals = re.findall(r'\b([01])\b', out.split('=', 1)[1].split(':')[0]) if '=' in out else []
    bad = [terms[i][0] for i, v in enumerate(vals) if v == '0']
    if len(vals) != len(terms):
        return len(terms), -1, 'could not parse Coq output: ' + out[-300:]
    return len(terms), len(bad), ('cases ' + ' '.join(bad[:5])) if bad else ''
