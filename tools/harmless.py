#!/usr/bin/env python3
"""harmless.py [names...] — applies each harmless/<name>.diff (a behaviour-preserving rewrite of the crate) to /repo, runs
every claimed check (quick tier), expects all of them to stay green, and reverts /repo and the evidence directory.
Prints one JSON line per rewrite."""
import sys, os, json, subprocess, glob
ROOT = os.path.dirname(os.path.dirname(os.path.abspath(__file__)))
REPO = os.environ.get('VERIF_REPO', '/repo')      # the copy of the repository the checks are pointed at
def sh(cmd, cwd=None, timeout=3000):
    e = dict(os.environ); e['CARGO_NET_OFFLINE'] = 'true'
    p = subprocess.run(cmd, shell=True, cwd=cwd, stdout=subprocess.PIPE, stderr=subprocess.STDOUT, timeout=timeout, env=e)
    return p.returncode, p.stdout.decode('utf-8', 'replace')
def main():
    names = sys.argv[1:] or sorted(os.path.basename(f)[:-5] for f in glob.glob(os.path.join(ROOT, 'harmless', '*.diff')))
    props = [c['property_id'] for c in json.load(open(os.path.join(ROOT, 'MANIFEST.json')))['checks']]
    rc, out = sh('git -C %s ' % REPO + 'status --porcelain')
    assert out.strip() == '', '/repo not clean: ' + out
    for name in names:
        rc, out = sh('git -C %s ' % REPO + 'apply %s' % os.path.join(ROOT, 'harmless', name + '.diff'))
        if rc != 0:
            print(json.dumps({'name': name, 'error': out[-300:]})); continue
        res = {}
        try:
            rc, out = sh('cargo test --offline 2>&1 | grep -E "^test result" | head -3', cwd=REPO)
            suite = 'FAILED' not in out and 'failed' not in out.replace('0 failed', '')
            for c in props:
                rc, out = sh('./check %s --tier quick' % c, cwd=ROOT)
                viol = [l for l in out.splitlines() if l.startswith('VIOLATION')]
                res[c] = 'ok' if rc == 0 and not viol else (viol[0] if viol else 'exit %d' % rc)[:200]
        finally:
            sh('git -C %s ' % REPO + 'checkout -- .')
            sh('git checkout -- evidence', cwd=ROOT)
        print(json.dumps({'name': name, 'suite_green': suite, 'all_green': all(v == 'ok' for v in res.values()),
                          'alarms': {k: v for k, v in res.items() if v != 'ok'}}), flush=True)
if __name__ == '__main__':
    main()
