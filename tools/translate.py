#!/usr/bin/env python3
"""translate.py — tie A: regenerate coq/gen/GenSrc.v from /repo's current source.

Reads the parts of the source that are data or pure arithmetic/decisions and writes them as Gallina:
  * LastByte discriminants, markers, masks                     (src/repr/last_byte.rs)
  * the DigitCount match tables, DEC_DIGITS_LUT, widening type (src/repr/num_to_repr.rs)
  * amortized_growth, MAX_LEN, header size                     (src/repr/heap_buffer.rs)
  * MAX_INLINE_SIZE, StaticBuffer::MAX_LENGTH                  (src/repr.rs, static_buffer.rs)
  * every branch condition of a fixed list of sites            (repr.rs, inline_buffer.rs, heap_buffer.rs, static_buffer.rs)
  * every atomic call site with its memory ordering            (repr.rs, heap_buffer.rs)
It fails closed: anything outside the subset it knows -> exit 3 with a message naming the construct.
Usage: translate.py <repo> <out.v>
"""
import re, sys, os

class TranslationError(Exception):
    pass

def die(msg):
    raise TranslationError(msg)

# ------------------------------------------------------------------ source helpers
def strip_comments(src):
    out = []
    i = 0
    n = len(src)
    while i < n:
        if src.startswith('//', i):
            j = src.find('\n', i)
            i = n if j < 0 else j
        elif src.startswith('/*', i):
            j = src.find('*/', i)
            i = n if j < 0 else j + 2
        elif src[i] == '"':
            j = i + 1
            while j < n and src[j] != '"':
                j += 2 if src[j] == '\\' else 1
            out.append(src[i:j + 1]); i = j + 1
        elif src[i] == 'b' and i + 1 < n and src[i + 1] == "'":
            j = src.find("'", i + 2)
            out.append(src[i:j + 1]); i = j + 1
        else:
            out.append(src[i]); i += 1
    return ''.join(out)

def match_brace(src, i):
    """src[i] == '{' -> index just past its matching '}' (string-literal aware)."""
    assert src[i] == '{'
    depth = 0
    n = len(src)
    while i < n:
        c = src[i]
        if c == '"':
            i += 1
            while i < n and src[i] != '"':
                i += 2 if src[i] == '\\' else 1
        elif c == '{':
            depth += 1
        elif c == '}':
            depth -= 1
            if depth == 0:
                return i + 1
        i += 1
    die("unbalanced braces")

def fn_body(src, name, nth=0, what=None):
    """body (between braces) of the nth function called `name` (generic parameter lists may nest)."""
    hits = []
    for m in re.finditer(r'\bfn\s+' + re.escape(name) + r'\b', src):
        k = m.end()
        while k < len(src) and src[k].isspace(): k += 1
        if k < len(src) and src[k] == '<':
            depth = 0
            while k < len(src):
                if src[k] == '<': depth += 1
                elif src[k] == '>' and src[k - 1] != '-':
                    depth -= 1
                    if depth == 0:
                        k += 1; break
                k += 1
            while k < len(src) and src[k].isspace(): k += 1
        if k < len(src) and src[k] == '(':
            hits.append(k)
    if len(hits) <= nth:
        die(f"function {name} (occurrence {nth}) not found{' in ' + what if what else ''}")
    i = src.find('{', hits[nth])
    semi = src.find(';', hits[nth])
    if 0 <= semi < i:
        die(f"function {name} (occurrence {nth}) has no body")
    j = match_brace(src, i)
    return src[i + 1:j - 1]

def impl_body(src, header_re):
    m = re.search(header_re, src)
    if not m:
        die(f"impl block {header_re} not found")
    i = src.find('{', m.end() - 1)
    j = match_brace(src, i)
    return src[i + 1:j - 1]

# ------------------------------------------------------------------ expression translator (usize / u8 expressions)
TOK = re.compile(r'\s*(?:(\d[\d_]*)(?:usize|u8|u64)?|(0x[0-9a-fA-F_]+)|(0b[01_]+)|([A-Za-z_][A-Za-z0-9_]*(?:::[A-Za-z_][A-Za-z0-9_]*)*)|(<=|>=|==|!=|&&|\|\||<<|>>|[-+*/<>().,!|&]))')

def tokenize(s):
    toks = []
    i = 0
    s = s.strip()
    while i < len(s):
        m = TOK.match(s, i)
        if not m or m.end() == i:
            die(f"cannot tokenize expression at: {s[i:i+30]!r} in {s!r}")
        if m.group(1): toks.append(('num', int(m.group(1).replace('_', ''))))
        elif m.group(2): toks.append(('num', int(m.group(2).replace('_', ''), 16)))
        elif m.group(3): toks.append(('num', int(m.group(3).replace('_', ''), 2)))
        elif m.group(4): toks.append(('id', m.group(4)))
        else: toks.append(('op', m.group(5)))
        i = m.end()
    return toks

class Expr:
    """recursive descent over the subset; produces Coq terms over N (bool for comparisons)."""
    def __init__(self, toks, env, consts):
        self.t = toks; self.i = 0; self.env = env; self.consts = consts; self.used = set()
    def peek(self):
        return self.t[self.i] if self.i < len(self.t) else (None, None)
    def eat(self, kind=None, val=None):
        k, v = self.peek()
        if k is None or (kind and k != kind) or (val is not None and v != val):
            die(f"unexpected token {self.peek()} (wanted {kind} {val}) in {self.t}")
        self.i += 1
        return v
    def parse(self):
        e = self.or_()
        if self.i != len(self.t):
            die(f"trailing tokens {self.t[self.i:]} in expression")
        return e
    def or_(self):
        e = self.and_()
        while self.peek() == ('op', '||'):
            self.eat(); e = f"({e} || {self.and_()})"
        return e
    def and_(self):
        e = self.cmp()
        while self.peek() == ('op', '&&'):
            self.eat(); e = f"({e} && {self.cmp()})"
        return e
    def cmp(self):
        a = self.add()
        k, v = self.peek()
        if k == 'op' and v in ('<=', '<', '>=', '>', '==', '!='):
            self.eat(); b = self.add()
            return {'<=': f"({a} <=? {b})", '<': f"({a} <? {b})", '>=': f"({b} <=? {a})",
                    '>': f"({b} <? {a})", '==': f"({a} =? {b})", '!=': f"(negb ({a} =? {b}))"}[v]
        return a
    def add(self):
        e = self.mul()
        while self.peek()[0] == 'op' and self.peek()[1] in ('+', '-', '|'):
            o = self.eat()
            r = self.mul()
            # `+` and `-` on usize panic on overflow in debug / wrap in release: sites using them are
            # guarded; the model keeps them as N operations (truncated subtraction), see DESIGN §8.
            e = {'+': f"({e} + {r})", '-': f"({e} - {r})", '|': f"(N.lor {e} {r})"}[o]
        return e
    def mul(self):
        e = self.unary()
        while self.peek()[0] == 'op' and self.peek()[1] in ('*', '/'):
            o = self.eat()
            r = self.unary()
            e = f"({e} {o} {r})"
        return e
    def unary(self):
        if self.peek() == ('op', '!'):
            self.eat(); return f"(negb {self.unary()})"
        return self.postfix()
    def postfix(self):
        e = self.atom()
        while True:
            k, v = self.peek()
            if k == 'op' and v == '.':
                self.eat(); name = self.eat('id'); self.eat('op', '(')
                args = []
                if self.peek() != ('op', ')'):
                    args.append(self.or_())
                    while self.peek() == ('op', ','):
                        self.eat(); args.append(self.or_())
                self.eat('op', ')')
                e = self.method(e, name, args)
            elif k == 'id' and v == 'as':
                self.eat(); ty = self.eat('id')
                if ty not in ('usize', 'u8', 'u64'):
                    die(f"cast to {ty} not supported")
                if ty == 'u8':
                    e = f"({e} mod 256)"
                # widening casts between unsigned types are the identity on values
            else:
                return e
    def method(self, recv, name, args):
        table = {
            'saturating_add': lambda a: f"(sat_add {recv} {a[0]})",
            'saturating_mul': lambda a: f"(sat_mul {recv} {a[0]})",
            'wrapping_sub': lambda a: f"(wrapping_sub {recv} {a[0]})",
            'wrapping_add': lambda a: f"(wrapping_add {recv} {a[0]})",
            'max': lambda a: f"(N.max {recv} {a[0]})",
            'min': lambda a: f"(N.min {recv} {a[0]})",
        }
        key = f"{recv}.{name}()"
        if not args and key in self.env:
            self.used.add(key); return self.env[key]
        if name in table and len(args) == 1:
            return table[name](args)
        die(f"method .{name}({len(args)} args) on {recv} not in the translatable subset")
    def atom(self):
        k, v = self.peek()
        if k == 'num':
            self.eat(); return str(v)
        if k == 'op' and v == '(':
            self.eat(); e = self.or_(); self.eat('op', ')'); return e
        if k == 'id':
            self.eat()
            # call-free method receivers such as text.len() are resolved in method(); plain names here
            if v in self.env:
                self.used.add(v); return self.env[v]
            if v in self.consts:
                return self.consts[v]
            # receiver of a zero-arg method that the env maps as a whole
            if self.peek() == ('op', '.'):
                return v
            die(f"identifier {v} not known at this site")
        die(f"unexpected token {self.peek()}")

def tr_expr(s, env, consts):
    return Expr(tokenize(s), env, consts).parse()

# ------------------------------------------------------------------ pieces
def gen_last_byte(src):
    src = strip_comments(src)
    body = impl_body(src, r'pub enum LastByte\s*\{')
    rows = []
    for m in re.finditer(r'([A-Za-z_][A-Za-z0-9_]*)\s*=\s*(0x[0-9A-Fa-f]+|\d+)\s*,', body):
        rows.append((m.group(1), int(m.group(2), 0)))
    leftovers = re.sub(r'([A-Za-z_][A-Za-z0-9_]*)\s*=\s*(0x[0-9A-Fa-f]+|\d+)\s*,', '', body).strip()
    if leftovers:
        die(f"LastByte: unparsed variant text {leftovers[:60]!r}")
    m = re.search(r'#\[repr\((\w+)\)\]\s*pub enum LastByte', src)
    if not m or m.group(1) != 'u8':
        die("LastByte is not #[repr(u8)]")
    d = dict(rows)
    for need in ('HeapMarker', 'StaticMarker'):
        if need not in d:
            die(f"LastByte::{need} missing")
    mm = re.search(r'pub const MASK_1100_0000: u8 = (0b[01_]+|0x[0-9A-Fa-f]+|\d+);', src)
    if not mm:
        die("MASK_1100_0000 not found")
    mask = int(mm.group(1).replace('_', ''), 0)
    out = ["(* ---- src/repr/last_byte.rs ---- *)",
           "Definition last_byte_discriminants : list N :=",
           "  [" + "; ".join(str(v) for _, v in rows) + "].",
           f"Definition HEAP_MARKER : N := {d['HeapMarker']}.",
           f"Definition STATIC_MARKER : N := {d['StaticMarker']}.",
           f"Definition MASK_1100_0000 : N := {mask}.",
           "Definition last_byte_lengths : list N :=",
           "  [" + "; ".join(str(d.get('Length%02d' % i, 999)) for i in range(16)) + "]."]
    return "\n".join(out), {'LastByte::HeapMarker': 'HEAP_MARKER', 'LastByte::StaticMarker': 'STATIC_MARKER',
                            'LastByte::MASK_1100_0000': 'MASK_1100_0000'}

INT_RANGE = {'u8': (0, 2**8 - 1), 'i8': (-2**7, 2**7 - 1), 'u16': (0, 2**16 - 1), 'i16': (-2**15, 2**15 - 1),
             'u32': (0, 2**32 - 1), 'i32': (-2**31, 2**31 - 1), 'u64': (0, 2**64 - 1), 'i64': (-2**63, 2**63 - 1)}

def gen_digits(src):
    src0 = src
    src = strip_comments(src)
    out = ["(* ---- src/repr/num_to_repr.rs ---- *)"]
    for ty in ('u8', 'i8', 'u16', 'i16', 'u32', 'i32', 'u64', 'i64'):
        body = impl_body(src, r'impl DigitCount for ' + ty + r'\s*\{')
        fb = fn_body(body, 'digit_count')
        m = re.search(r'match self\s*\{', fb)
        if not m:
            die(f"DigitCount for {ty}: no `match self`")
        i = fb.find('{', m.start())
        arms = fb[i + 1:match_brace(fb, i) - 1]
        rows = []
        rest = arms
        for am in re.finditer(r'\s*(-?\d+|[iu]\d+::MIN|[iu]\d+::MAX)\s*\.\.=\s*(-?\d+|[iu]\d+::MIN|[iu]\d+::MAX)\s*=>\s*(\d+)\s*,', arms):
            def val(x):
                mm = re.fullmatch(r'([iu]\d+)::(MIN|MAX)', x)
                if mm:
                    if mm.group(1) != ty:
                        die(f"DigitCount for {ty}: bound {x} of another type")
                    return INT_RANGE[ty][0 if mm.group(2) == 'MIN' else 1]
                return int(x)
            rows.append((val(am.group(1)), val(am.group(2)), int(am.group(3))))
        rest = re.sub(r'\s*(-?\d+|[iu]\d+::MIN|[iu]\d+::MAX)\s*\.\.=\s*(-?\d+|[iu]\d+::MIN|[iu]\d+::MAX)\s*=>\s*(\d+)\s*,', '', arms).strip()
        if rest:
            die(f"DigitCount for {ty}: unparsed arm text {rest[:60]!r}")
        rows.sort(key=lambda r: r[0])     # a `match` on disjoint ranges does not depend on the order of its arms
        out.append(f"Definition digit_table_{ty} : list (Z * Z * N) :=")
        out.append("  [" + "; ".join(f"(({lo})%Z, ({hi})%Z, {k})" for lo, hi, k in rows) + "].")
    # usize / isize delegate
    for ty, to in (('usize', 'u64'), ('isize', 'i64')):
        hits = [m for m in re.finditer(r'#\[cfg\(target_pointer_width = "64"\)\]\s*impl DigitCount for ' + ty + r'\s*\{', src)]
        if len(hits) != 1:
            die(f"64-bit DigitCount for {ty} not found")
        i = src.find('{', hits[0].end() - 1)
        b = src[i:match_brace(src, i)]
        if not re.search(r'DigitCount::digit_count\(self as ' + to + r'\)', b):
            die(f"DigitCount for {ty} does not delegate to {to}")
    # LUT
    m = re.search(r'const DEC_DIGITS_LUT: &\[u8; 200\] = b"((?:\\\s*\n\s*|[0-9])*)";', src0)
    if not m:
        die("DEC_DIGITS_LUT not found / not a 200-byte digit literal")
    lut = re.sub(r'\\\s*\n\s*', '', m.group(1))
    if len(lut) != 200:
        die(f"DEC_DIGITS_LUT has {len(lut)} bytes")
    out.append("Definition dec_digits_lut : list N :=")
    out.append("  [" + "; ".join(str(ord(c)) for c in lut) + "].")
    # which unsigned type the macro widens to on 64-bit, and the writer's literal constants
    m = re.search(r'#\[cfg\(any\(target_pointer_width = "64", target_arch = "wasm32"\)\)\]\s*impl_NumToRepr_for_integers!\(\s*([\w,\s]+);\s*as (\w+)\s*\);', src)
    if not m:
        die("64-bit impl_NumToRepr_for_integers! invocation not found")
    small = [x.strip() for x in m.group(1).split(',') if x.strip()]
    if small != ['i8', 'u8', 'i16', 'u16', 'i32', 'u32', 'isize', 'usize'] or m.group(2) != 'u64':
        die(f"unexpected integer macro invocation {small} as {m.group(2)}")
    m2 = re.search(r'\n\s*impl_NumToRepr_for_integers!\(\s*i64, u64;\s*as u64\s*\);', src)
    if not m2:
        die("i64/u64 macro invocation not found")
    mac = impl_body(src, r'macro_rules! impl_NumToRepr_for_integers\s*\{')
    mac_norm = norm_ws(mac)
    # the writer: literal structure checked piece by piece (each is a proof-relevant constant)
    need = [
        ('let digits_count = DigitCount::digit_count(self);', 'digit count from the table'),
        ('let is_nonnegative = self >= 0;', 'sign test'),
        ('(!(self as $u)).wrapping_add(1)', "two's complement negation"),
        ('let mut repr = Repr::with_capacity(digits_count)?;', 'capacity = digit count'),
        ('let mut curr = digits_count;', 'cursor starts at digit count'),
        ('if size_of::<$t>() >= 2 {', '4-digit loop guard'),
        ('while n >= 10000 {', '4-digit loop'),
        ('let rem = (n % 10000) as usize; n /= 10000;', '4-digit step'),
        ('let d1 = (rem / 100) << 1; let d2 = (rem % 100) << 1; curr -= 4;', '4-digit LUT indices'),
        ('ptr::copy_nonoverlapping(lut_ptr.add(d1), buf_ptr.add(curr), 2); ptr::copy_nonoverlapping(lut_ptr.add(d2), buf_ptr.add(curr + 2), 2);', '4-digit stores'),
        ('if n >= 100 { let d1 = (n % 100) << 1; n /= 100; curr -= 2; ptr::copy_nonoverlapping(lut_ptr.add(d1), buf_ptr.add(curr), 2); }', '2-digit step'),
        ("if n < 10 { curr -= 1; *buf_ptr.add(curr) = (n as u8) + b'0'; } else { let d1 = n << 1; curr -= 2; ptr::copy_nonoverlapping(lut_ptr.add(d1), buf_ptr.add(curr), 2); }", 'last 1-2 digits'),
        ("if !is_nonnegative { curr -= 1; *buf_ptr.add(curr) = b'-'; }", 'sign store'),
        ('repr.set_len(digits_count);', 'final length'),
    ]
    for piece, what in need:
        if norm_ws(piece) not in mac_norm:
            die(f"integer writer: expected statement for '{what}' not found: {piece}")
    out.append("Definition writer_shape_checked : bool := true.   (* translate.py matched every statement of the integer writer *)")
    # nonzero forms delegate through .get()
    if not re.search(r'self\.get\(\)\.into_repr\(\)', src):
        die("NonZero forms do not delegate via self.get().into_repr()")
    for ty in ('u128', 'i128'):
        b = impl_body(src, r'impl NumToRepr for ' + ty + r'\s*\{')
        if norm_ws('Repr::from_str(itoa::Buffer::new().format(self))') not in norm_ws(b):
            die(f"{ty} does not go through itoa + from_str")
    for ty in ('f32', 'f64'):
        b = impl_body(src, r'impl NumToRepr for ' + ty + r'\s*\{')
        if norm_ws('Repr::from_str(ryu::Buffer::new().format(self))') not in norm_ws(b):
            die(f"{ty} does not go through ryu + from_str")
    return "\n".join(out)

def gen_growth(src, consts):
    src = strip_comments(src)
    body = fn_body(src, 'amortized_growth')
    stmts = [s.strip() for s in body.strip().split(';')]
    env = {'cur_len': 'cur_len', 'additional': 'additional'}
    lines = ["(* ---- src/repr/heap_buffer.rs ---- *)",
             "Definition amortized_growth (cur_len additional : N) : N :="]
    for s in stmts[:-1]:
        m = re.fullmatch(r'let\s+(\w+)\s*=\s*(.+)', s, re.S)
        if not m:
            die(f"amortized_growth: statement not a let: {s!r}")
        lines.append(f"  let {m.group(1)} := {tr_expr(m.group(2), env, consts)} in")
        env[m.group(1)] = m.group(1)
    lines.append(f"  {tr_expr(stmts[-1], env, consts)}.")
    # MAX_LEN: literal shape
    norm = norm_ws(src)
    shape = ('const MAX_LEN: usize = { let mut bytes = [255; USIZE_SIZE]; bytes[USIZE_SIZE - 1] = 0; '
             'usize::from_le_bytes(bytes) - if cfg!(target_pointer_width = "32") { 1 } else { 0 } };')
    if norm_ws(shape) not in norm:
        die("MAX_LEN is not the expected 7-bytes-of-255 constant")
    if norm_ws('const USIZE_SIZE: usize = size_of::<usize>();') not in norm:
        die("USIZE_SIZE changed")
    lines.append(f"Definition MAX_LEN : N := {2**56 - 1}.")
    # header: two usize-sized fields
    hb = impl_body(src, r'struct Header\s*\{')
    if norm_ws(hb).rstrip(',') != norm_ws('count: AtomicUsize, capacity: Capacity'):
        die(f"Header layout changed: {hb.strip()!r}")
    if norm_ws('pub(super) struct Capacity(usize);') not in norm:
        die("Capacity is not a usize newtype")
    lines.append("Definition HEADER_SIZE : N := 16.")
    return "\n".join(lines)

def gen_consts(repr_src, static_src, consts):
    r = norm_ws(strip_comments(repr_src))
    if norm_ws('const MAX_INLINE_SIZE: usize = 2 * size_of::<usize>();') not in r:
        die("MAX_INLINE_SIZE changed")
    if norm_ws('#[cfg(target_pointer_width = "64")] pub(crate) struct Repr(*const (), [u8; 7], LastByte);') not in r:
        die("Repr layout changed")
    s = norm_ws(strip_comments(static_src))
    shape = 'const MAX_LENGTH: usize = { let mut bytes = [255; USIZE_SIZE]; bytes[USIZE_SIZE - 1] = 0; usize::from_le_bytes(bytes) };'
    if norm_ws(shape) not in s:
        die("StaticBuffer::MAX_LENGTH changed")
    return "\n".join(["(* ---- constants ---- *)",
                      "Definition MAX_INLINE_SIZE : N := 16.",
                      f"Definition STATIC_MAX_LENGTH : N := {2**56 - 1}."])

def conds_in(body):
    """conditions of `if <cond> {` in textual order (cfg!/size_of guards included; caller selects)."""
    res = []
    for m in re.finditer(r'\bif\s+', body):
        j = m.end()
        depth = 0
        k = j
        while k < len(body):
            c = body[k]
            if c in '([':
                depth += 1
            elif c in ')]':
                depth -= 1
            elif c == '{' and depth == 0:
                break
            k += 1
        res.append(re.sub(r'\s+', ' ', body[j:k]).strip())
    return res

# (file key, function, occurrence, index of the `if`, generated name, parameters, env)
SITES = [
    ('repr', 'from_str', 0, 0, 'cond_from_str_inline', ['text_len'], {'text.len()': 'text_len'}),
    ('repr', 'from_static_str', 0, 0, 'cond_from_static_inline', ['text_len'], {'text.len()': 'text_len'}),
    ('repr', 'with_capacity', 0, 0, 'cond_with_capacity_inline', ['capacity'], {'capacity': 'capacity'}),
    ('repr', 'len', 0, 0, 'cond_len_is_inline', ['last_byte'], {'last_byte': 'last_byte'}),
    ('repr', 'reserve', 0, 2, 'cond_reserve_enough', ['capacity', 'needed_capacity'],
     {'heap.capacity()': 'capacity', 'needed_capacity': 'needed_capacity'}),
    ('repr', 'reserve', 0, 4, 'cond_reserve_static_inline', ['needed_capacity'], {'needed_capacity': 'needed_capacity'}),
    ('repr', 'reserve', 0, 5, 'cond_reserve_inline_grow', ['needed_capacity'], {'needed_capacity': 'needed_capacity'}),
    ('repr', 'shrink_to', 0, 1, 'cond_shrink_inline', ['new_capacity'], {'new_capacity': 'new_capacity'}),
    ('repr', 'shrink_to', 0, 2, 'cond_shrink_noop', ['new_capacity', 'old_capacity'],
     {'new_capacity': 'new_capacity', 'old_capacity': 'old_capacity'}),
    ('repr', 'truncate', 0, 0, 'cond_truncate_noop', ['new_len', 'len'], {'new_len': 'new_len', 'self.len()': 'len'}),
    ('inline', 'set_len', 0, 0, 'cond_inline_set_len_tag', ['len'], {'len': 'len'}),
    ('heap', 'new', 1, 0, 'cond_text_len_too_big', ['size'], {'size': 'size'}),          # TextLen::new
    ('heap', 'new', 2, 0, 'cond_capacity_too_big', ['capacity'], {'capacity': 'capacity'}),  # Capacity::new
    ('static', 'new', 0, 0, 'cond_static_too_long', ['text_len'], {'text_len': 'text_len'}),
]
# expected textual skeleton of the non-translated `if`s of the multi-branch functions, so that an inserted or
# re-ordered branch is noticed (index -> regex on the condition)
SKELETON = {
    ('repr', 'reserve'): {0: r'self\.is_heap_buffer\(\)', 1: r'heap\.is_unique\(\)|heap\.reference_count\(\)\.fetch_sub\(1, \w+\) == 1',
                          3: r'self\.is_static_buffer\(\)'},
    ('repr', 'shrink_to'): {0: r'!self\.is_heap_buffer\(\)', 3: r'heap\.is_unique\(\)'},
}

# a local that a translated condition mentions is identified by what it is bound to, not by its name: if the expected
# name is not bound in the function, the local whose `let` has this right-hand side (identifiers abstracted) takes its place
LOCAL_ROLES = {
    ('repr', 'reserve', 'needed_capacity'): r'\w+\.checked_add\(\w+\)\.ok_or\(ReserveError\)\?',
    ('repr', 'shrink_to', 'new_capacity'): r'\w+\.len\(\)\.max\(\w+\)',
    ('repr', 'shrink_to', 'old_capacity'): r'\w+\.capacity\(\)',
    ('repr', 'len', 'last_byte'): r'self\.last_byte\(\)',
}
def resolve_locals(key, fn, body, env):
    out = {}
    for k, v in env.items():
        role = LOCAL_ROLES.get((key, fn, k))
        if role and not re.search(r'\blet\s+(?:mut\s+)?' + re.escape(k) + r'\b', body):
            m = re.search(r'\blet\s+(?:mut\s+)?(\w+)\s*(?::[^=;]*)?=\s*' + role + r'\s*;', body)
            if m:
                out[m.group(1)] = v
                continue
        out[k] = v
    return out

def gen_conds(srcs, consts):
    out = ["(* ---- branch conditions, translated expression by expression ---- *)"]
    for key, fn, occ, idx, name, params, env in SITES:
        body = fn_body(srcs[key], fn, occ, key)
        env = resolve_locals(key, fn, body, env)
        cs = [c for c in conds_in(body)]
        if idx >= len(cs):
            die(f"{key}.rs::{fn}: expected at least {idx + 1} `if` conditions, found {len(cs)}")
        cond = cs[idx]
        e = Expr(tokenize(cond), env, consts)
        term = e.parse()
        missing = [p for p in env if p not in e.used]
        if missing:
            die(f"{key}.rs::{fn} if #{idx}: condition {cond!r} does not mention {missing} — site moved?")
        out.append(f"Definition {name} ({' '.join(params)} : N) : bool := {term}.   (* {cond} *)")
    for (key, fn), sk in SKELETON.items():
        cs = conds_in(fn_body(srcs[key], fn, 0, key))
        for idx, rx in sk.items():
            if idx >= len(cs) or not re.fullmatch(rx, cs[idx]):
                die(f"{key}.rs::{fn}: `if` #{idx} is {cs[idx] if idx < len(cs) else None!r}, expected /{rx}/")
    # Repr::len arithmetic and shrink_to's new capacity
    lb = fn_body(srcs['repr'], 'len', 0)
    m = re.search(r'let \w+ = (\(\w+ as usize\).+?);', lb, re.S)
    if not m:
        die("Repr::len: inline_len expression not found")
    out.append("Definition expr_inline_len (last_byte : N) : N := "
               + tr_expr(re.sub(r'\s+', ' ', m.group(1)), {'last_byte': 'last_byte'}, consts) + ".")
    if not re.search(r'tail_bytes\[7\] = 0;\s*usize::from_le_bytes\(tail_bytes\)', lb):
        die("Repr::len: heap/static length decode changed")
    sb = fn_body(srcs['repr'], 'shrink_to', 0)
    m = re.search(r'let \w+ = (\w+\.len\(\)\.max\(\w+\));', sb)
    if not m:
        die("shrink_to: new_capacity expression not found")
    out.append("Definition expr_shrink_new_capacity (len min_capacity : N) : N := "
               + tr_expr(m.group(1), {'heap.len()': 'len', 'min_capacity': 'min_capacity'}, consts) + ".")
    # inline tag expression
    ib = fn_body(srcs['inline'], 'set_len', 0)
    m = re.search(r'self\.0\[MAX_INLINE_SIZE - 1\] = (.+?);', ib)
    if not m:
        die("InlineBuffer::set_len: tag store not found")
    out.append("Definition expr_inline_tag (len : N) : N := " + tr_expr(m.group(1), {'len': 'len'}, consts) + ".")
    nb = fn_body(srcs['inline'], 'new', 0)
    m2 = re.search(r'buffer\[MAX_INLINE_SIZE - 1\] = (.+?);', nb)
    if not m2 or re.sub(r'\s+', '', m2.group(1)) != re.sub(r'\s+', '', m.group(1)):
        die("InlineBuffer::new: tag store differs from set_len's")
    return "\n".join(out)

ATOMIC = re.compile(r'\.(fetch_add|fetch_sub|fetch_and|fetch_or|fetch_xor|fetch_max|fetch_min|fetch_update|swap|store|load|compare_exchange|compare_exchange_weak)\s*\(([^()]*)\)|\bfence\s*\((\w+)\)')

def gen_orderings(srcs):
    out = ["(* ---- atomic call sites: (function, operation, operand, ordering) in textual order ---- *)"]
    sites = []
    for key in ('repr', 'heap'):
        src = srcs[key]
        for fm in re.finditer(r'\bfn\s+(\w+)\s*(<[^>]*>)?\s*\(', src):
            if fm.group(1).startswith('verif_'):
                continue          # verification hook (cfg(lean_string_verif)), not part of the crate
            i = src.find('{', fm.end())
            semi = src.find(';', fm.end())
            if i < 0 or (0 <= semi < i):
                continue
            body = src[i:match_brace(src, i)]
            # do not count nested fns twice: strip nested fn bodies
            inner = body[1:]
            for nm in list(re.finditer(r'\bfn\s+\w+\s*(<[^>]*>)?\s*\(', inner))[::-1]:
                bi = inner.find('{', nm.end())
                if bi >= 0:
                    inner = inner[:nm.start()] + inner[match_brace(inner, bi):]
            for am in ATOMIC.finditer(inner):
                if am.group(3):
                    sites.append((fm.group(1), 'fence', '', am.group(3)))
                else:
                    args = [a.strip() for a in am.group(2).split(',')]
                    if am.group(1) == 'load':
                        if len(args) != 1: continue       # e.g. Vec::load — not an atomic
                        sites.append((fm.group(1), 'load', '', args[0]))
                    elif am.group(1) in ('fetch_add', 'fetch_sub'):
                        if len(args) != 2: continue
                        sites.append((fm.group(1), am.group(1), args[0], args[1]))
                    else:
                        die(f"atomic operation {am.group(1)} in {fm.group(1)} is outside the modelled protocol")
    for f, op, arg, o in sites:
        if o not in ('Relaxed', 'Acquire', 'Release', 'AcqRel', 'SeqCst'):
            die(f"unknown ordering {o} in {f}")
        if op in ('fetch_add', 'fetch_sub') and arg != '1':
            die(f"{op}({arg}) in {f}: only unit steps are modelled")
    out.append("Inductive atomic_op := AFetchAdd | AFetchSub | ALoad | AFence.")
    opn = {'fetch_add': 'AFetchAdd', 'fetch_sub': 'AFetchSub', 'load': 'ALoad', 'fence': 'AFence'}
    out.append("Definition atomic_sites : list (string * atomic_op * ord) :=")
    out.append("  [" + ";\n   ".join(f'("{f}"%string, {opn[op]}, {o})' for f, op, arg, o in sites) + "].")
    counters = {}
    for f, op, arg, o in sites:
        k = counters.get(f, 0); counters[f] = k + 1
        out.append(f"Definition ord_{f}_{k} : ord := {o}.   (* {op} *)")
    return "\n".join(out), sites

# ------------------------------------------------------------------ call skeletons of the hand-modelled functions
SKEL_CALLS = re.compile(r'\b(reserve|ensure_modifiable|replace_inner|set_len|truncate_unchecked|with_additional|with_exact_capacity|'
                        r'with_capacity|realloc|dealloc|alloc|is_unique|make_shallow_clone|as_str|as_bytes|as_slice_mut|as_str_mut|'
                        r'assert|copy|copy_nonoverlapping|copy_from_slice|from_str|from_heap|from_inline|from_static|checked_add|'
                        r'fetch_add|fetch_sub|fence|load|allocate_ptr|layout_from_capacity|amortized_growth|encode_utf8|push_str|push|'
                        r'try_reserve|try_push_str|unwrap_with_msg|is_char_boundary|next_back|is_len_on_heap|new|empty|write)\s*(?:::<[^>]*>)?\s*[!(]')
SKEL_FUNCS = [
    ('repr', 'from_str', 0), ('repr', 'from_static_str', 0), ('repr', 'with_capacity', 0), ('repr', 'reserve', 0), ('repr', 'shrink_to', 0),
    ('repr', 'push_str', 0), ('repr', 'pop', 0), ('repr', 'remove', 0), ('repr', 'retain', 0), ('repr', 'insert_str', 0),
    ('repr', 'truncate', 0), ('repr', 'truncate_unchecked', 0), ('repr', 'make_shallow_clone', 0), ('repr', 'replace_inner', 0),
    ('repr', 'ensure_modifiable', 0), ('repr', 'set_len', 0),
    ('heap', 'new', 0), ('heap', 'with_capacity', 0), ('heap', 'with_additional', 0), ('heap', 'with_exact_capacity', 0),
    ('heap', 'realloc', 0), ('heap', 'dealloc', 0), ('heap', 'allocate_ptr', 0), ('heap', 'set_len', 0),
    ('inline', 'new', 0), ('inline', 'set_len', 0),
    ('lib', 'clear', 0), ('lib', 'clone_from', 0), ('lib', 'drop', 0), ('lib', 'from_iter', 0), ('lib', 'extend', 0), ('lib', 'write_str', 0),
    ('lib', 'from_utf8_lossy', 0), ('lib', 'from_utf16', 0), ('traits', 'try_to_lean_string', 1),
]
def strip_cfg_verif(src):
    """remove statements / items guarded by #[cfg(...lean_string_verif...)] (the verification hooks)"""
    out = src
    while True:
        m = re.search(r'#\[cfg\((?:all\()?lean_string_verif[^\]]*\]\s*', out)
        if not m:
            return out
        j = m.end()
        # guarded thing: up to the matching `;` or balanced `{...}` whichever closes the item first
        k = j; depth = 0
        while k < len(out):
            c = out[k]
            if c in '({[': depth += 1
            elif c in ')}]':
                depth -= 1
                if depth == 0 and c == '}':
                    k += 1; break
            elif c == ';' and depth == 0:
                k += 1; break
            k += 1
        out = out[:m.start()] + out[k:]

def strip_debug_asserts(body):
    """debug_assert*!(...) statements are not part of the modelled behaviour (adding or removing one is harmless)"""
    out = body
    while True:
        m = re.search(r'\bdebug_assert\w*!\s*\(', out)
        if not m:
            return out
        k = m.end() - 1; depth = 0
        while k < len(out):
            if out[k] == '(': depth += 1
            elif out[k] == ')':
                depth -= 1
                if depth == 0:
                    k += 1; break
            k += 1
        out = out[:m.start()] + out[k:]

def gen_skeletons(srcs):
    out = ["(* ---- call skeletons: the significant calls of each hand-modelled function, in textual order ---- *)"]
    items = []
    for key, fn, occ in SKEL_FUNCS:
        body = strip_debug_asserts(fn_body(strip_cfg_verif(srcs[key]), fn, occ, key))
        calls = [m.group(1) for m in SKEL_CALLS.finditer(body)]
        items.append((key, fn, calls))
    out.append("Definition skeletons : list (string * string * list string) :=")
    out.append("  [" + ";\n   ".join('("%s"%%string, "%s"%%string, [%s])' % (k, f, "; ".join('"%s"%%string' % c for c in cs)) for k, f, cs in items) + "].")
    return "\n".join(out)

# ------------------------------------------------------------------ memory-moving call sites with their arguments
MEM_CALLS = re.compile(r'\b(copy|copy_nonoverlapping|copy_from_slice|set_len|truncate_unchecked|write|realloc|alloc|dealloc|'
                       r'with_additional|with_exact_capacity|with_capacity|amortized_growth|layout_from_capacity|get_unchecked_mut|add)\s*\(')
def norm_ws(t):
    """canonical spelling of a piece of source text: independent of line breaks, indentation, spaces around punctuation
    and trailing commas (what rustfmt may change), a single space only between two word tokens"""
    toks = re.findall(r'[A-Za-z_0-9]+|\S', t)
    out = []
    for k, tok in enumerate(toks):
        if tok == ',' and k + 1 < len(toks) and toks[k + 1] in ')]}':
            continue
        if out and re.match(r'\w', out[-1][-1]) and re.match(r'\w', tok[0]):
            out.append(' ')
        out.append(tok)
    txt = ''.join(out)
    # readability only: a space after commas and around binary + - * / = operators is not reintroduced
    return txt
def gen_mem_sites(srcs):
    """for every hand-modelled function: each memory-moving / sizing call with its full argument text, and the `let`
    bindings of the identifiers those arguments mention — the pointer arithmetic the model's offsets were read from"""
    items = []
    for key, fn, occ in SKEL_FUNCS:
        body = strip_debug_asserts(fn_body(strip_cfg_verif(srcs[key]), fn, occ, key))
        sites = []
        idents = set()
        for m in MEM_CALLS.finditer(body):
            i = m.end() - 1
            depth = 0; k = i
            while k < len(body):
                if body[k] == '(': depth += 1
                elif body[k] == ')':
                    depth -= 1
                    if depth == 0: break
                k += 1
            text = norm_ws(m.group(1) + body[i:k + 1])
            if m.group(1) == 'add' and not re.search(r'\.\s*add\s*\($', body[max(0, m.start() - 3):m.end()]):
                continue
            sites.append(text)
            idents.update(re.findall(r'[A-Za-z_][A-Za-z0-9_]*', body[i:k + 1]))
        for m in re.finditer(r'\[([^\[\]]*\.\.[^\[\]]*)\]', body):
            sites.append('range[' + norm_ws(m.group(1)) + ']')
            idents.update(re.findall(r'[A-Za-z_][A-Za-z0-9_]*', m.group(1)))
        lets = []
        for m in re.finditer(r'\blet\s+(?:mut\s+)?([A-Za-z_][A-Za-z0-9_]*)\s*(?::[^=;]*)?=\s*([^;]*);', body):
            if m.group(1) in idents:
                lets.append('let %s = %s' % (m.group(1), norm_ws(m.group(2))))
        # the names of the function's own `let` bindings are not part of what is pinned: rename them, in binding order, to
        # %1, %2, ... everywhere they occur as a variable (not as a method or field name, not as a call)
        names = []
        for l in lets:
            nm = l.split()[1]
            if nm not in names:
                names.append(nm)
        entry = lets + sites
        for k, nm in enumerate(names):
            pat = re.compile(r'(?<![\w])(?<!(?<!\.)\.)' + re.escape(nm) + r'(?![\w])(?!\s*\()')
            entry = [pat.sub('%%%d' % (k + 1), t) for t in entry]
        items.append((key, fn, entry))
    esc = lambda t: t.replace('"', '""')
    out = ["(* ---- memory-moving call sites of the hand-modelled functions, with arguments and the bindings they use ---- *)",
           "Definition mem_sites : list (string * string * list string) :=",
           "  [" + ";\n   ".join('("%s"%%string, "%s"%%string, [%s])' % (k, f, "; ".join('"%s"%%string' % esc(c) for c in cs)) for k, f, cs in items) + "]."]
    return "\n".join(out)

# ------------------------------------------------------------------ control skeleton of the hand-modelled functions
CTRL = re.compile(r'\b(else\s+if|if|while|match|return|for|loop)\b')
def gen_branches(srcs):
    """for every hand-modelled function: each `if` / `else if` / `while` / `match` with its condition or scrutinee, each
    `for` / `loop`, and each `return` with its value, in textual order (local names abstracted as in mem_sites) — a new
    early exit, special case or threshold in a modelled function changes this table"""
    items = []
    for key, fn, occ in SKEL_FUNCS:
        body = strip_debug_asserts(fn_body(strip_cfg_verif(srcs[key]), fn, occ, key))
        entry = []
        for m in CTRL.finditer(body):
            kw = re.sub(r'\s+', ' ', m.group(1))
            j = m.end()
            if kw == 'return':
                k = j; depth = 0
                while k < len(body) and not (body[k] in ';}' and depth == 0 or body[k] == ',' and depth == 0):
                    if body[k] in '([{': depth += 1
                    elif body[k] in ')]}': depth -= 1
                    k += 1
                entry.append('return ' + norm_ws(body[j:k]))
            elif kw == 'loop':
                entry.append('loop')
            else:
                depth = 0; k = j
                while k < len(body):
                    c = body[k]
                    if c in '([': depth += 1
                    elif c in ')]': depth -= 1
                    elif c == '{' and depth == 0: break
                    k += 1
                entry.append(kw + ' ' + norm_ws(body[j:k]))
        names = []
        for m in re.finditer(r'\blet\s+(?:mut\s+)?([A-Za-z_][A-Za-z0-9_]*)\s*(?::[^=;]*)?=', body):
            if m.group(1) not in names:
                names.append(m.group(1))
        for k, nm in enumerate(names):
            pat = re.compile(r'(?<![\w])(?<!(?<!\.)\.)' + re.escape(nm) + r'(?![\w])(?!\s*\()')
            entry = [pat.sub('%%%d' % (k + 1), t) for t in entry]
        items.append((key, fn, entry))
    esc = lambda t: t.replace('"', '""')
    out = ["(* ---- control skeleton of the hand-modelled functions: conditions, scrutinees, loops and early returns ---- *)",
           "Definition branches : list (string * string * list string) :=",
           "  [" + ";\n   ".join('("%s"%%string, "%s"%%string, [%s])' % (k, f, "; ".join('"%s"%%string' % esc(c) for c in cs)) for k, f, cs in items) + "]."]
    return "\n".join(out)

# ------------------------------------------------------------------ every function of lib.rs / traits.rs: all its calls
ALL_CALLS = re.compile(r'\b([A-Za-z_][A-Za-z0-9_]*)\s*(?:::<[^>]*>)?\s*(?:\(|!\s*[(\[{])')
NOT_CALLS = {'if', 'while', 'for', 'match', 'return', 'loop', 'fn', 'let', 'unsafe', 'move', 'in', 'as', 'else', 'impl', 'where', 'debug_assert', 'debug_assert_eq'}
def gen_wrappers(srcs):
    """(file, fn#occurrence, [every called name, in textual order]) for every function with a body in lib.rs and traits.rs:
    the delegation structure of the public API and the trait impls (which wrapper calls which core function)"""
    items = []
    for key in ('lib', 'traits', 'serde', 'arbitrary'):
        src = strip_cfg_verif(srcs[key])
        seen = {}
        for m in re.finditer(r'\bfn\s+([A-Za-z_][A-Za-z0-9_]*)', src):
            name = m.group(1)
            if name.startswith('verif_') or name.startswith('__verif'):
                continue
            occ = seen.get(name, 0); seen[name] = occ + 1
            # a declaration without a body (trait method) has `;` before `{`
            k = m.end()
            depth = 0
            has_body = None
            while k < len(src):
                c = src[k]
                if c in '(<[': depth += 1
                elif c in ')]': depth -= 1
                elif c == '>' and src[k - 1] != '-': depth -= 1
                elif c == ';' and depth <= 0: has_body = False; break
                elif c == '{' and depth <= 0: has_body = True; break
                k += 1
            if not has_body:
                continue
            body = strip_debug_asserts(src[k + 1:match_brace(src, k) - 1])
            calls = [c.group(1) for c in ALL_CALLS.finditer(body) if c.group(1) not in NOT_CALLS]
            items.append((key, '%s#%d' % (name, occ), calls))
    out = ["(* ---- every function of lib.rs and traits.rs with the names it calls, in textual order ---- *)",
           "Definition wrappers : list (string * string * list string) :=",
           "  [" + ";\n   ".join('("%s"%%string, "%s"%%string, [%s])' % (k, f, "; ".join('"%s"%%string' % c for c in cs)) for k, f, cs in items) + "]."]
    return "\n".join(out)

def main():
    repo, outp = sys.argv[1], sys.argv[2]
    rd = lambda p: open(os.path.join(repo, p)).read()
    try:
        raw = {'repr': rd('src/repr.rs'), 'heap': rd('src/repr/heap_buffer.rs'), 'inline': rd('src/repr/inline_buffer.rs'),
               'static': rd('src/repr/static_buffer.rs'), 'last': rd('src/repr/last_byte.rs'), 'num': rd('src/repr/num_to_repr.rs'),
               'lib': rd('src/lib.rs'), 'traits': rd('src/traits.rs'),
               'serde': rd('src/features/serde.rs'), 'arbitrary': rd('src/features/arbitrary.rs')}
        srcs = {k: strip_comments(v) for k, v in raw.items()}
        lb, consts = gen_last_byte(raw['last'])
        consts.update({'MAX_INLINE_SIZE': 'MAX_INLINE_SIZE', 'MAX_LEN': 'MAX_LEN', 'Self::MAX_LENGTH': 'STATIC_MAX_LENGTH'})
        parts = ["(* GENERATED by tools/translate.py from /repo — do not edit. *)",
                 "From Coq Require Import String ZArith.",
                 "From LS Require Import Base Cmd.",
                 "Open Scope N_scope.",
                 gen_consts(raw['repr'], raw['static'], consts), lb, gen_growth(raw['heap'], consts),
                 gen_conds(srcs, consts)]
        o, sites = gen_orderings(srcs)
        parts.append(o)
        parts.append(gen_digits(raw['num']))
        parts.append(gen_skeletons(srcs))
        parts.append(gen_mem_sites(srcs))
        parts.append(gen_branches(srcs))
        parts.append(gen_wrappers(srcs))
    except TranslationError as e:
        sys.stderr.write(f"translate.py: TRANSLATION FAILED: {e}\n")
        sys.exit(3)
    text = "\n\n".join(parts) + "\n"
    old = open(outp).read() if os.path.exists(outp) else None
    if old != text:
        open(outp, 'w').write(text)
    print(f"translate.py: ok, {len(sites)} atomic sites, {len(SITES)} branch conditions")

if __name__ == '__main__':
    main()
