#!/usr/bin/env python3
"""seed.py — confirm a seeded mutant in its scratch worktree, run the checks against it, and file it under seeded/.

  seed.py <worktree> <k> <name> <property> [<check ids to run>...]
The worktree holds mutant<k>.diff / demo<k>.rs / notes<k>.txt.  Steps: (1) in the worktree: apply the diff, run the
baseline suite (must be green), run the demo (must fail), revert, run the demo (must pass); (2) apply the diff to /repo,
run each listed check (quick tier), revert /repo; (3) write seeded/<name>/{patch.diff, demo.rs, notes.txt, meta.json}.
"""
import sys, os, subprocess, json, shutil, re, time
ROOT = os.path.dirname(os.path.dirname(os.path.abspath(__file__)))
REPO = os.environ.get('VERIF_REPO', '/repo')      # the copy of the repository the checks are pointed at

def sh(cmd, cwd=None, timeout=1800, env=None):
    e = dict(os.environ); e['CARGO_NET_OFFLINE'] = 'true'
    if env: e.update(env)
    p = subprocess.run(cmd, shell=True, cwd=cwd, stdout=subprocess.PIPE, stderr=subprocess.STDOUT, timeout=timeout, env=e)
    return p.returncode, p.stdout.decode('utf-8', 'replace')

def main():
    wt, k, name, prop = sys.argv[1:5]
    checks = sys.argv[5:] or [prop]
    diff = os.path.join(wt, 'mutant%s.diff' % k); demo = os.path.join(wt, 'demo%s.rs' % k); notes = os.path.join(wt, 'notes%s.txt' % k)
    meta = {'name': name, 'breaks_property': prop, 'source': 'independent sub-agent given only the property text and a scratch worktree',
            'needs': open(notes).read().strip()[:1500] if os.path.exists(notes) else '', 'confirmed': {}, 'checks': {}}
    # (1) confirm in the scratch worktree
    sh('git checkout -- src && rm -f tests/demo_seed.rs', cwd=wt)
    rc, out = sh('git apply %s' % diff, cwd=wt)
    assert rc == 0, out
    rc, out = sh('cargo test --offline 2>&1 | grep -E "^test result|FAILED|panicked" | head -20', cwd=wt)
    green = 'FAILED' not in out and 'failed' not in out.replace('0 failed', '')
    meta['confirmed']['baseline_suite_green_with_mutant'] = green
    shutil.copy(demo, os.path.join(wt, 'tests', 'demo_seed.rs'))
    feat = (' --features ' + os.environ['SEED_FEATURES']) if os.environ.get('SEED_FEATURES') else ''
    rc1, out1 = sh('cargo test --offline%s --test demo_seed 2>&1 | tail -8' % feat, cwd=wt)
    meta['confirmed']['demo_fails_with_mutant'] = ('FAILED' in out1 or 'error' in out1)
    sh('git checkout -- src', cwd=wt)
    rc2, out2 = sh('cargo test --offline%s --test demo_seed 2>&1 | tail -8' % feat, cwd=wt)
    meta['confirmed']['demo_passes_without_mutant'] = ('test result: ok' in out2 and 'FAILED' not in out2)
    os.remove(os.path.join(wt, 'tests', 'demo_seed.rs'))
    print('confirmed:', meta['confirmed'])
    # (2) run the checks against the mutant in /repo
    rc, out = sh('git -C %s ' % REPO + 'status --porcelain')
    assert out.strip() == '', '/repo not clean: ' + out
    rc, out = sh('git -C %s ' % REPO + 'apply %s' % diff)
    assert rc == 0, out
    try:
        for c in checks:
            t0 = time.time()
            rc, out = sh('./check %s --tier quick' % c, cwd=ROOT, timeout=3000)
            viol = [l for l in out.splitlines() if l.startswith('VIOLATION')]
            why = [l.strip() for l in out.splitlines() if l.strip().startswith('#')]
            meta['checks'][c] = {'exit': rc, 'violation_lines': viol[:3], 'why': why[:3], 'wall_s': round(time.time() - t0, 1),
                                 'detected': rc != 0, 'with_failing_input': any('no-failing-input-found' not in v for v in viol)}
            print(c, 'exit', rc, (viol[:1] or ['-'])[0][:150], (why[:1] or [''])[0][:160])
    finally:
        sh('git -C %s ' % REPO + 'checkout -- .')
        sh('git checkout -- evidence', cwd=ROOT)     # evidence written while a mutant was applied is not evidence
    # (3) file it
    d = os.path.join(ROOT, 'seeded', name)
    os.makedirs(d, exist_ok=True)
    shutil.copy(diff, os.path.join(d, 'patch.diff')); shutil.copy(demo, os.path.join(d, 'demo.rs'))
    if os.path.exists(notes): shutil.copy(notes, os.path.join(d, 'notes.txt'))
    meta['ran'] = ['cargo test --offline (with mutant)', 'cargo test --offline --test demo (with / without mutant)'] + ['./check %s --tier quick' % c for c in checks]
    json.dump(meta, open(os.path.join(d, 'meta.json'), 'w'), indent=1)

if __name__ == '__main__':
    main()
