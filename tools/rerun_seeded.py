#!/usr/bin/env python3
"""rerun_seeded.py [names...] — re-run the target property's quick check against every seeded change (or the named
ones): apply seeded/<name>/patch.diff to /repo, run ./check <property>, revert /repo and the evidence directory.
Prints one JSON line per change (to be merged into seeded/<name>/meta.json by --merge <logfile>)."""
import sys, os, json, subprocess, time
ROOT = os.path.dirname(os.path.dirname(os.path.abspath(__file__)))
REPO = os.environ.get('VERIF_REPO', '/repo')      # the copy of the repository the checks are pointed at

def sh(cmd, cwd=None, timeout=3000):
    e = dict(os.environ); e['CARGO_NET_OFFLINE'] = 'true'
    p = subprocess.run(cmd, shell=True, cwd=cwd, stdout=subprocess.PIPE, stderr=subprocess.STDOUT, timeout=timeout, env=e)
    return p.returncode, p.stdout.decode('utf-8', 'replace')

def merge(log):
    for line in open(log):
        if not line.startswith('{'): continue
        r = json.loads(line)
        mp = os.path.join(ROOT, 'seeded', r['name'], 'meta.json')
        m = json.load(open(mp))
        m.setdefault('checks', {}).update(r['checks'])
        m['rerun_at_commit'] = r.get('commit', '')
        json.dump(m, open(mp, 'w'), indent=1)
        print('merged', r['name'])

def main():
    if len(sys.argv) > 2 and sys.argv[1] == '--merge':
        return merge(sys.argv[2])
    target_only = '--target-only' in sys.argv
    args = [a for a in sys.argv[1:] if a != '--target-only']
    names = args or sorted(os.listdir(os.path.join(ROOT, 'seeded')))
    rc, commit = sh('git rev-parse --short HEAD', cwd=ROOT)
    rc, out = sh('git -C %s ' % REPO + 'status --porcelain')
    assert out.strip() == '', '/repo not clean: ' + out
    for name in names:
        d = os.path.join(ROOT, 'seeded', name)
        meta = json.load(open(os.path.join(d, 'meta.json')))
        prop = meta['breaks_property']
        checks = [prop] if target_only else sorted(set([prop] + [c for c in meta.get('checks', {}) if meta['checks'][c].get('detected')]))
        rc, out = sh('git -C %s ' % REPO + 'apply %s' % os.path.join(d, 'patch.diff'))
        if rc != 0:
            print(json.dumps({'name': name, 'error': 'patch does not apply: ' + out[-200:]})); continue
        res = {}
        try:
            for c in checks:
                t0 = time.time()
                rc, out = sh('./check %s --tier quick' % c, cwd=ROOT)
                viol = [l for l in out.splitlines() if l.startswith('VIOLATION')]
                why = [l.strip() for l in out.splitlines() if l.strip().startswith('#')]
                res[c] = {'exit': rc, 'violation_lines': viol[:3], 'why': why[:3], 'wall_s': round(time.time() - t0, 1),
                          'detected': rc != 0, 'with_failing_input': any('no-failing-input-found' not in v for v in viol)}
        finally:
            sh('git -C %s ' % REPO + 'checkout -- .')
            sh('git checkout -- evidence', cwd=ROOT)
        print(json.dumps({'name': name, 'commit': commit.strip(), 'checks': res}), flush=True)

if __name__ == '__main__':
    main()
