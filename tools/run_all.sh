#!/bin/bash
# run_all.sh [quick|thorough] — every claimed check on the current tree; prints one summary line per property
tier=${1:-quick}
cd "$(dirname "$0")/.."
./check --setup | tail -1
fail=0
for p in $(python3 -c "import json;print(' '.join(c['property_id'] for c in json.load(open('MANIFEST.json'))['checks']))"); do
  out=$(./check $p --tier $tier 2>&1); rc=$?
  echo "$out" | tail -1
  if [ $rc -ne 0 ]; then fail=1; echo "$out" | grep -E "^VIOLATION|^KNOWN" | head -3; fi
done
exit $fail
