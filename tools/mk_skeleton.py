#!/usr/bin/env python3
"""mk_skeleton.py — (re)writes coq/theories/Skeleton.v from what tools/translate.py extracts from /repo NOW.
Run by hand, once, when the hand-written model has been re-read against a new version of the source; the file is
committed, and props/C01.v requires the skeletons regenerated on every run to be equal to it."""
import os, re, subprocess, sys, tempfile
root = os.path.dirname(os.path.dirname(os.path.abspath(__file__)))
repo = sys.argv[1] if len(sys.argv) > 1 else '/repo'
tmp = tempfile.NamedTemporaryFile(suffix='.v', delete=False).name
subprocess.run([sys.executable, os.path.join(root, 'tools', 'translate.py'), repo, tmp], check=True, stdout=subprocess.DEVNULL)
gen = open(tmp).read(); os.remove(tmp)
def grab(name):
    m = re.search(r'Definition ' + name + r' : list \(string \* string \* list string\) :=\n(.*?\]\.)\n', gen, re.S)
    assert m, name
    return m.group(1)
out = '''(* Skeleton.v — the call skeleton of every hand-modelled function, and the delegation structure of every function of
   lib.rs / traits.rs, on the tree the model was written against (written by tools/mk_skeleton.py).
   coq/gen/GenSrc.v regenerates `skeletons` and `wrappers` from /repo on every run; props/C01.v requires them to be equal
   to these, so a function whose sequence of calls changed is no longer covered by the hand-written model. *)
From Coq Require Import String List.
Import ListNotations.
Definition expected_skeletons : list (string * string * list string) :=
%s

Definition expected_wrappers : list (string * string * list string) :=
%s

Definition expected_mem_sites : list (string * string * list string) :=
%s

Definition expected_branches : list (string * string * list string) :=
%s
''' % (grab('skeletons'), grab('wrappers'), grab('mem_sites'), grab('branches'))
open(os.path.join(root, 'coq', 'theories', 'Skeleton.v'), 'w').write(out)
print('Skeleton.v written')
