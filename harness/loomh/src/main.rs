//! loomh — C04 tie: the real crate under loom (`--cfg loom --cfg lean_string_verif`).
//!
//! Every buffer the crate allocates gets a `loom::cell::UnsafeCell`; the crate's access notes (reads, writes, header
//! accesses) and its realloc/dealloc calls touch that cell, so loom's causality checker reports any buffer access that
//! is not ordered (happens-before) with a conflicting access, and an access to a freed buffer panics.  Each thread also
//! checks that its own handle reads what a `String` driven through the same operations holds.
//!
//!   loomh list                  number of programs
//!   loomh run <from> <to>       run programs [from, to); prints one line per program: `P <idx> <name> ok|FAIL <detail>`
use lean_string::LeanString;
use std::alloc::{GlobalAlloc, Layout, System};
use std::collections::HashMap;
use std::sync::{Arc, Mutex};

struct Block {
    cell: loom::cell::UnsafeCell<()>,
    live: std::sync::atomic::AtomicBool,
    size: usize,
}
unsafe impl Send for Block {}
unsafe impl Sync for Block {}

static BLOCKS: Mutex<Option<HashMap<usize, Arc<Block>>>> = Mutex::new(None);
static FAIL: Mutex<Option<String>> = Mutex::new(None);

fn fail(msg: String) {
    let mut f = FAIL.lock().unwrap();
    if f.is_none() {
        *f = Some(msg.clone());
    }
    drop(f);
    panic!("{msg}");
}

fn lookup(body: usize) -> Option<Arc<Block>> {
    BLOCKS.lock().unwrap().as_ref().and_then(|m| m.get(&body).cloned())
}

unsafe fn h_alloc(layout: Layout) -> *mut u8 {
    let p = unsafe { System.alloc(layout) };
    if !p.is_null() {
        let b = Arc::new(Block { cell: loom::cell::UnsafeCell::new(()), live: std::sync::atomic::AtomicBool::new(true), size: layout.size() });
        b.cell.with_mut(|_| ());
        BLOCKS.lock().unwrap().get_or_insert_with(HashMap::new).insert(p as usize, b);
    }
    p
}
unsafe fn h_realloc(ptr: *mut u8, layout: Layout, new_size: usize) -> *mut u8 {
    // always move: a stale pointer into the old block is then an access to a dead block
    match lookup(ptr as usize) {
        Some(b) => {
            if !b.live.load(std::sync::atomic::Ordering::SeqCst) {
                fail("realloc of a freed buffer".into());
            }
            if b.size != layout.size() {
                fail(format!("realloc with layout size {} of a block of {}", layout.size(), b.size));
            }
            b.cell.with_mut(|_| ());
            b.live.store(false, std::sync::atomic::Ordering::SeqCst);
        }
        None => fail("realloc of an unknown buffer".into()),
    }
    let np = unsafe { h_alloc(Layout::from_size_align(new_size, layout.align()).unwrap()) };
    unsafe { std::ptr::copy_nonoverlapping(ptr, np, layout.size().min(new_size)) };
    np
}
unsafe fn h_dealloc(ptr: *mut u8, layout: Layout) {
    match lookup(ptr as usize) {
        Some(b) => {
            if !b.live.load(std::sync::atomic::Ordering::SeqCst) {
                fail("double free".into());
            }
            if b.size != layout.size() {
                fail(format!("dealloc with layout size {} of a block of {}", layout.size(), b.size));
            }
            b.cell.with_mut(|_| ());
            b.live.store(false, std::sync::atomic::Ordering::SeqCst);
        }
        None => fail("dealloc of an unknown buffer".into()),
    }
    // the memory itself is kept (quarantine) until the end of the execution
}
fn h_note(kind: u8, ptr: *const u8, _len: usize) {
    let body = (ptr as usize).wrapping_sub(16);
    if let Some(b) = lookup(body) {
        if !b.live.load(std::sync::atomic::Ordering::SeqCst) {
            fail(format!("{} of a freed buffer", if kind == lean_string::verif_hooks::NOTE_WRITE { "write" } else { "read" }));
        }
        if kind == lean_string::verif_hooks::NOTE_WRITE {
            b.cell.with_mut(|_| ());
        } else {
            b.cell.with(|_| ());
        }
    }
}

fn end_of_execution() {
    let m = BLOCKS.lock().unwrap().take();
    if let Some(m) = m {
        let leaked = m.values().filter(|b| b.live.load(std::sync::atomic::Ordering::SeqCst)).count();
        for (p, b) in m.iter() {
            unsafe { System.dealloc(*p as *mut u8, Layout::from_size_align(b.size, 8).unwrap()) };
        }
        if leaked > 0 {
            fail(format!("{leaked} buffer(s) still allocated after every handle was dropped"));
        }
    }
}

const TEXT: &str = "abcdefghijklmnopqrstuvwxyz0123";

#[derive(Clone, Copy, Debug)]
enum Op { CloneDrop, Drop, Read, Push, Insert, Remove, Retain, Truncate, Clear, Reserve, ShrinkTo, CloneFrom, Pop, Refresh }
const OPS: [Op; 14] = [Op::CloneDrop, Op::Drop, Op::Read, Op::Push, Op::Insert, Op::Remove, Op::Retain, Op::Truncate, Op::Clear,
                       Op::Reserve, Op::ShrinkTo, Op::CloneFrom, Op::Pop, Op::Refresh];

/// runs `op` on the thread's own handle and checks it against a String driven the same way
fn run_op(mut s: LeanString, op: Op) {
    let mut m = String::from(s.as_str());
    match op {
        Op::CloneDrop => { let c = s.clone(); assert_eq!(c, m.as_str()); drop(c); }
        Op::Drop => { drop(s); return; }
        Op::Read => { assert_eq!(s.len(), m.len()); assert_eq!(s.as_str(), m.as_str()); }
        Op::Push => { s.push('!'); m.push('!'); }
        Op::Insert => { s.insert_str(3, "XY"); m.insert_str(3, "XY"); }
        Op::Remove => { assert_eq!(s.remove(2), m.remove(2)); }
        Op::Retain => { s.retain(|c| c != 'e'); m.retain(|c| c != 'e'); }
        Op::Truncate => { s.truncate(5); m.truncate(5); }
        Op::Clear => { s.clear(); m.clear(); }
        Op::Reserve => { s.reserve(100); }
        Op::ShrinkTo => { s.truncate(20); m.truncate(20); s.shrink_to(0); }
        Op::CloneFrom => { let other = LeanString::from("a different heap string, long enough"); s.clone_from(&other); m = other.as_str().to_string(); }
        Op::Pop => { assert_eq!(s.pop(), m.pop()); }
        Op::Refresh => {
            // clone_from between two handles of the SAME buffer (a shortened clone refreshed from its source), then an
            // edit through the refreshed handle: the source must not move
            let mut c = s.clone();
            c.truncate(10);
            c.clone_from(&s);
            assert_eq!(c.as_str(), m.as_str());
            c.push('?');
            assert_eq!(c.len(), m.len() + 1);
            drop(c);
        }
    }
    assert_eq!(s.as_str(), m.as_str());
    drop(s);
}

/// main_keeps: 0 = both handles move to the threads; 1 = main keeps a third handle and reads it after the joins;
/// 2 = thread B's handle was truncated before (different per-handle length on the shared buffer);
/// 3 = thread B's handle was truncated to 5 bytes (a shared heap handle whose own text would fit inline, so that
///     its edits stay below the inline limit)
fn program(a: Op, b: Op, variant: u8) {
    let base = LeanString::from(TEXT);
    let ha = base.clone();
    let mut hb = base.clone();
    if variant == 2 {
        hb.truncate(17);
    }
    if variant == 3 {
        hb.truncate(5);
    }
    let keep = if variant == 1 { Some(base) } else { drop(base); None };
    let ta = loom::thread::spawn(move || run_op(ha, a));
    let tb = loom::thread::spawn(move || run_op(hb, b));
    ta.join().unwrap();
    tb.join().unwrap();
    if let Some(k) = keep {
        assert_eq!(k.as_str(), TEXT);
        drop(k);
    }
    end_of_execution();
}

/// Sharing BY REFERENCE (what `std::thread::scope` gives): both threads get `&base`; each reads through it, clones
/// through it and runs `op` on its clone (which it then drops).  variant 10: `base` is the only handle (count 1 when the
/// two clones race); variant 11: main keeps a second handle to the same buffer.  After the joins main reads `base`
/// (nobody may have written through it) and drops it.
fn program_scoped(a: Op, b: Op, variant: u8) {
    let base: &'static LeanString = Box::leak(Box::new(LeanString::from(TEXT)));
    let keep = if variant == 11 { Some(base.clone()) } else { None };
    let work = move |op: Op| {
        assert_eq!(base.as_str(), TEXT);
        let c = base.clone();
        run_op(c, op);
        assert_eq!(base.len(), TEXT.len());
    };
    let ta = loom::thread::spawn(move || work(a));
    let tb = loom::thread::spawn(move || work(b));
    ta.join().unwrap();
    tb.join().unwrap();
    assert_eq!(base.as_str(), TEXT);
    if let Some(k) = keep {
        assert_eq!(k.as_str(), TEXT);
        drop(k);
    }
    // SAFETY: both borrowers have been joined; `base` came from Box::leak above
    drop(unsafe { Box::from_raw(base as *const LeanString as *mut LeanString) });
    end_of_execution();
}

/// A LENDER THAT KEEPS WORKING (variant 12): main lends `&base` to one scoped thread, which reads and clones through it
/// and runs `a` on its clone, while main itself runs `b` on ANOTHER handle it holds on the same buffer (legal Rust: only
/// `base` is borrowed).  After the join main reads `base` and drops it.
fn program_lender(a: Op, b: Op) {
    let base: &'static LeanString = Box::leak(Box::new(LeanString::from(TEXT)));
    let other = base.clone();
    let ta = loom::thread::spawn(move || {
        assert_eq!(base.as_str(), TEXT);
        let c = base.clone();
        run_op(c, a);
        assert_eq!(base.len(), TEXT.len());
    });
    run_op(other, b);
    assert_eq!(base.as_str(), TEXT);
    ta.join().unwrap();
    assert_eq!(base.as_str(), TEXT);
    // SAFETY: the borrower has been joined; `base` came from Box::leak above
    drop(unsafe { Box::from_raw(base as *const LeanString as *mut LeanString) });
    end_of_execution();
}

const SCOPED_OPS: [Op; 7] = [Op::Read, Op::CloneDrop, Op::Push, Op::Remove, Op::Truncate, Op::ShrinkTo, Op::Clear];

fn programs() -> Vec<(String, Op, Op, u8)> {
    let mut v = Vec::new();
    for variant in 0..4u8 {
        for (i, a) in OPS.iter().enumerate() {
            for b in OPS.iter().skip(i) {
                v.push((format!("{:?}|{:?}/v{}", a, b, variant), *a, *b, variant));
            }
        }
    }
    for variant in [10u8, 11] {
        for (i, a) in SCOPED_OPS.iter().enumerate() {
            for b in SCOPED_OPS.iter().skip(i) {
                v.push((format!("&{:?}|&{:?}/v{}", a, b, variant), *a, *b, variant));
            }
        }
    }
    for a in SCOPED_OPS.iter() {
        for b in SCOPED_OPS.iter() {
            v.push((format!("&{:?}|lender:{:?}/v12", a, b), *a, *b, 12));
        }
    }
    v
}

fn main() {
    let args: Vec<String> = std::env::args().collect();
    let progs = programs();
    if args.len() < 2 || args[1] == "list" {
        println!("{}", progs.len());
        return;
    }
    lean_string::verif_hooks::set_allocator(h_alloc, h_realloc, h_dealloc);
    lean_string::verif_hooks::set_note(h_note);
    std::panic::set_hook(Box::new(|_| {}));
    let from: usize = args[2].parse().unwrap();
    let to: usize = args[3].parse::<usize>().unwrap().min(progs.len());
    let preempt: usize = std::env::var("LSV_LOOM_PREEMPTIONS").ok().and_then(|s| s.parse().ok()).unwrap_or(2);
    for idx in from..to {
        let (name, a, b, variant) = progs[idx].clone();
        *FAIL.lock().unwrap() = None;
        *BLOCKS.lock().unwrap() = None;
        let iters = Arc::new(std::sync::atomic::AtomicUsize::new(0));
        let it2 = iters.clone();
        let r = std::panic::catch_unwind(move || {
            let mut builder = loom::model::Builder::new();
            builder.preemption_bound = Some(preempt);
            builder.check(move || {
                it2.fetch_add(1, std::sync::atomic::Ordering::Relaxed);
                if variant == 12 { program_lender(a, b) } else if variant >= 10 { program_scoped(a, b, variant) } else { program(a, b, variant) }
            });
        });
        let n = iters.load(std::sync::atomic::Ordering::Relaxed);
        match r {
            Ok(()) => println!("P {idx} {name} ok {n}"),
            Err(e) => {
                let msg = FAIL.lock().unwrap().clone().unwrap_or_else(|| {
                    e.downcast_ref::<String>().cloned().or_else(|| e.downcast_ref::<&str>().map(|s| s.to_string())).unwrap_or_else(|| "panic".into())
                });
                println!("P {idx} {name} FAIL after {n} executions: {}", msg.replace('\n', " "));
            }
        }
    }
}
