//! Shim allocator + shadow heap installed behind `lean_string::verif_hooks`.
//!
//! Every block handed to the crate is a fresh `System` block with 32 guard bytes on each side.
//! `realloc` always moves. Freed / moved-from blocks are poisoned with 0xDD and kept in a
//! quarantine (never handed back to `System` before the end of the case), so a stale pointer
//! held by the crate is always detectable and never touches unrelated memory.

use lean_string::verif_hooks::{self, NOTE_HEADER, NOTE_READ, NOTE_WRITE};
use std::alloc::{GlobalAlloc, Layout, System};
use std::sync::{Mutex, MutexGuard};

pub const GUARD: usize = 32;
pub const GUARD_BYTE: u8 = 0xA5;
pub const FRESH_BYTE: u8 = 0xFF;
pub const DEAD_BYTE: u8 = 0xDD;
/// Size of the crate's heap header {count, capacity}; the text pointer is `body + HEADER`.
pub const HEADER: usize = 16;
const UNDERLYING_ALIGN: usize = 16;

/// One physical block (a realloc creates a new physical block with the same logical id).
#[derive(Clone, Debug)]
pub struct Block {
    pub id: usize,
    raw: usize,
    pub body: usize,
    pub size: usize,
    pub align: usize,
    pub live: bool,
}

#[derive(Clone, Debug, PartialEq, Eq)]
pub enum Event {
    Alloc { size: usize, id: usize },
    AllocRefused { size: usize },
    Realloc { old: usize, new: usize, id: Option<usize> },
    ReallocRefused { old: usize, new: usize, id: Option<usize> },
    Dealloc { size: usize, id: Option<usize> },
}

fn id_str(id: Option<usize>) -> String {
    match id {
        Some(i) => i.to_string(),
        None => "?".to_string(),
    }
}

impl Event {
    pub fn render(&self) -> String {
        match self {
            Event::Alloc { size, id } => format!("a{size}:{id}"),
            Event::AllocRefused { size } => format!("A{size}"),
            Event::Realloc { old, new, id } => format!("r{old}:{new}:{}", id_str(*id)),
            Event::ReallocRefused { old, new, id } => format!("R{old}:{new}:{}", id_str(*id)),
            Event::Dealloc { size, id } => format!("d{size}:{}", id_str(*id)),
        }
    }

    pub fn is_dealloc(&self) -> bool {
        matches!(self, Event::Dealloc { .. })
    }
}

/// A monitor failure detected inside the shim: (monitor name, detail).
pub type ShimFailure = (&'static str, String);

pub struct Shim {
    blocks: Vec<Block>,
    next_id: usize,
    next_request: usize,
    fail: Vec<usize>,
    limit: usize,
    events: Vec<Event>,
    failures: Vec<ShimFailure>,
}

static SHIM: Mutex<Shim> = Mutex::new(Shim {
    blocks: Vec::new(),
    next_id: 0,
    next_request: 0,
    fail: Vec::new(),
    limit: usize::MAX,
    events: Vec::new(),
    failures: Vec::new(),
});

fn lock() -> MutexGuard<'static, Shim> {
    SHIM.lock().unwrap_or_else(|e| e.into_inner())
}

impl Shim {
    fn fail_with(&mut self, name: &'static str, detail: String) {
        self.failures.push((name, detail));
    }

    fn refuse(&mut self, size: usize) -> bool {
        let k = self.next_request;
        self.next_request += 1;
        self.fail.contains(&k) || size > self.limit
    }

    /// Allocates a fresh guarded physical block. Returns the index in `blocks`.
    fn fresh_block(&mut self, id: usize, size: usize, align: usize) -> Option<usize> {
        let total = size.checked_add(2 * GUARD)?;
        let layout = Layout::from_size_align(total, UNDERLYING_ALIGN.max(align)).ok()?;
        let raw = unsafe { System.alloc(layout) };
        if raw.is_null() {
            return None;
        }
        unsafe {
            std::ptr::write_bytes(raw, GUARD_BYTE, GUARD);
            std::ptr::write_bytes(raw.add(GUARD), FRESH_BYTE, size);
            std::ptr::write_bytes(raw.add(GUARD + size), GUARD_BYTE, GUARD);
        }
        self.blocks.push(Block {
            id,
            raw: raw as usize,
            body: raw as usize + GUARD,
            size,
            align,
            live: true,
        });
        Some(self.blocks.len() - 1)
    }

    /// Index of the block whose body starts at `body` (live blocks first, then the newest dead).
    fn find_by_body(&self, body: usize) -> Option<usize> {
        self.blocks
            .iter()
            .position(|b| b.live && b.body == body)
            .or_else(|| self.blocks.iter().rposition(|b| !b.live && b.body == body))
    }

    /// Index of the block whose body range contains `addr` (live blocks first).
    fn find_containing(&self, addr: usize) -> Option<usize> {
        let inside = |b: &Block| addr >= b.body && addr < b.body + b.size.max(1);
        self.blocks
            .iter()
            .position(|b| b.live && inside(b))
            .or_else(|| self.blocks.iter().rposition(|b| !b.live && inside(b)))
    }

    fn guards_intact(b: &Block) -> bool {
        unsafe {
            let front = std::slice::from_raw_parts(b.raw as *const u8, GUARD);
            let back = std::slice::from_raw_parts((b.body + b.size) as *const u8, GUARD);
            front.iter().chain(back.iter()).all(|&x| x == GUARD_BYTE)
        }
    }

    fn check_guards(&mut self, idx: usize, when: &str) {
        let b = self.blocks[idx].clone();
        if !Shim::guards_intact(&b) {
            self.fail_with(
                "guard_damaged",
                format!("block {} size {} guard bytes overwritten ({when})", b.id, b.size),
            );
            // Repair so that the same damage is reported once.
            unsafe {
                std::ptr::write_bytes(b.raw as *mut u8, GUARD_BYTE, GUARD);
                std::ptr::write_bytes((b.body + b.size) as *mut u8, GUARD_BYTE, GUARD);
            }
        }
    }

    fn check_layout(&mut self, idx: usize, layout: Layout, what: &str) {
        let b = &self.blocks[idx];
        if b.size != layout.size() || b.align != layout.align() {
            let detail = format!(
                "{what} of block {} with layout size={} align={} but allocated with size={} align={}",
                b.id,
                layout.size(),
                layout.align(),
                b.size,
                b.align
            );
            self.fail_with("bad_layout", detail);
        }
    }

    fn retire(&mut self, idx: usize) {
        let b = &mut self.blocks[idx];
        unsafe { std::ptr::write_bytes(b.body as *mut u8, DEAD_BYTE, b.size) };
        b.live = false;
    }

    fn release(b: &Block) {
        let layout =
            Layout::from_size_align(b.size + 2 * GUARD, UNDERLYING_ALIGN.max(b.align)).unwrap();
        unsafe { System.dealloc(b.raw as *mut u8, layout) };
    }
}

unsafe fn hook_alloc(layout: Layout) -> *mut u8 {
    let mut s = lock();
    let size = layout.size();
    if s.refuse(size) {
        s.events.push(Event::AllocRefused { size });
        return std::ptr::null_mut();
    }
    let id = s.next_id;
    match s.fresh_block(id, size, layout.align()) {
        Some(idx) => {
            s.next_id += 1;
            s.events.push(Event::Alloc { size, id });
            s.blocks[idx].body as *mut u8
        }
        None => {
            // The real allocator is out of memory: behaves like a refusal.
            s.events.push(Event::AllocRefused { size });
            std::ptr::null_mut()
        }
    }
}

unsafe fn hook_realloc(ptr: *mut u8, layout: Layout, new_size: usize) -> *mut u8 {
    let mut s = lock();
    let old_idx = s.find_by_body(ptr as usize);
    let id = old_idx.map(|i| s.blocks[i].id);
    let refused = s.refuse(new_size);
    match old_idx {
        None => {
            s.fail_with("unknown_buffer", "realloc of a pointer that is no block of this case".to_string());
            s.events.push(Event::ReallocRefused { old: layout.size(), new: new_size, id: None });
            return std::ptr::null_mut();
        }
        Some(i) => {
            if !s.blocks[i].live {
                let bid = s.blocks[i].id;
                s.fail_with("use_after_free", format!("realloc of dead block {bid}"));
            }
            s.check_layout(i, layout, "realloc");
        }
    }
    let old_idx = old_idx.unwrap();
    if refused {
        s.events.push(Event::ReallocRefused { old: layout.size(), new: new_size, id });
        return std::ptr::null_mut();
    }
    let align = s.blocks[old_idx].align;
    let new_idx = match s.fresh_block(id.unwrap(), new_size, align) {
        Some(i) => i,
        None => {
            s.events.push(Event::ReallocRefused { old: layout.size(), new: new_size, id });
            return std::ptr::null_mut();
        }
    };
    let (old_body, old_size, old_live) = {
        let b = &s.blocks[old_idx];
        (b.body, b.size, b.live)
    };
    let new_body = s.blocks[new_idx].body;
    unsafe {
        std::ptr::copy_nonoverlapping(old_body as *const u8, new_body as *mut u8, old_size.min(new_size));
    }
    if old_live {
        s.check_guards(old_idx, "realloc");
        s.retire(old_idx);
    }
    s.events.push(Event::Realloc { old: layout.size(), new: new_size, id });
    new_body as *mut u8
}

unsafe fn hook_dealloc(ptr: *mut u8, layout: Layout) {
    let mut s = lock();
    let idx = s.find_by_body(ptr as usize);
    let id = idx.map(|i| s.blocks[i].id);
    s.events.push(Event::Dealloc { size: layout.size(), id });
    match idx {
        None => {
            s.fail_with("unknown_buffer", "dealloc of a pointer that is no block of this case".to_string());
        }
        Some(i) if !s.blocks[i].live => {
            let bid = s.blocks[i].id;
            s.fail_with("double_free", format!("dealloc of already dead block {bid}"));
        }
        Some(i) => {
            s.check_layout(i, layout, "dealloc");
            s.check_guards(i, "dealloc");
            s.retire(i);
        }
    }
}

fn hook_note(kind: u8, ptr: *const u8, len: usize) {
    let mut s = lock();
    let text = ptr as usize;
    let kind_name = match kind {
        NOTE_READ => "read",
        NOTE_WRITE => "write",
        NOTE_HEADER => "header",
        _ => "note",
    };
    let Some(idx) = s.find_containing(text.wrapping_sub(HEADER)) else {
        s.fail_with("unknown_buffer", format!("{kind_name} of {len} bytes at a pointer inside no block of this case"));
        return;
    };
    let b = s.blocks[idx].clone();
    if !b.live {
        s.fail_with(
            "use_after_free",
            format!("{kind_name} of {len} bytes in dead block {} (size {})", b.id, b.size),
        );
        return;
    }
    if kind == NOTE_HEADER && text != b.body + HEADER {
        s.fail_with(
            "unknown_buffer",
            format!("header access at offset {} of block {}", text - b.body, b.id),
        );
        return;
    }
    let end = text.checked_add(len);
    if end.map_or(true, |e| e > b.body + b.size) {
        s.fail_with(
            "out_of_bounds",
            format!(
                "{kind_name} of {len} bytes at text offset {} of block {} (size {}, text room {})",
                text - b.body - HEADER,
                b.id,
                b.size,
                b.size.saturating_sub(HEADER)
            ),
        );
    }
}

/// Installs the hooks (once, at start-up).
pub fn install() {
    verif_hooks::set_allocator(hook_alloc, hook_realloc, hook_dealloc);
    verif_hooks::set_note(hook_note);
}

/// Resets the shim for a new case. Must be called when no crate buffer is alive.
pub fn begin_case(fail: &[usize], limit: usize) {
    let mut s = lock();
    s.blocks.clear();
    s.next_id = 0;
    s.next_request = 0;
    s.fail = fail.to_vec();
    s.limit = limit;
    s.events.clear();
    s.failures.clear();
}

pub fn take_events() -> Vec<Event> {
    std::mem::take(&mut lock().events)
}

pub fn take_failures() -> Vec<ShimFailure> {
    std::mem::take(&mut lock().failures)
}

/// (id, body pointer) of every live block.
pub fn live_blocks() -> Vec<(usize, usize)> {
    lock().blocks.iter().filter(|b| b.live).map(|b| (b.id, b.body)).collect()
}

/// Id of the live block whose body starts at `body`.
pub fn live_block_id_at(body: usize) -> Option<usize> {
    lock().blocks.iter().find(|b| b.live && b.body == body).map(|b| b.id)
}

/// End of case: checks all guards and the poison of dead blocks, then gives every block back to
/// `System`. Returns the number of blocks that were still live.
pub fn end_case() -> usize {
    let mut s = lock();
    let live = s.blocks.iter().filter(|b| b.live).count();
    for i in 0..s.blocks.len() {
        s.check_guards(i, "end of case");
        let b = s.blocks[i].clone();
        if !b.live {
            let body = unsafe { std::slice::from_raw_parts(b.body as *const u8, b.size) };
            if let Some(off) = body.iter().position(|&x| x != DEAD_BYTE) {
                s.fail_with(
                    "use_after_free",
                    format!("dead block {} (size {}) was written after release at offset {off}", b.id, b.size),
                );
            }
        }
    }
    for b in std::mem::take(&mut s.blocks) {
        Shim::release(&b);
    }
    live
}
