//! Observation of the pool: one `Snap` per live slot.

use crate::case::to_hex;
use crate::shim;
use lean_string::LeanString;

#[derive(Clone, Copy, Debug, PartialEq, Eq)]
pub enum Kind {
    Inline,
    Heap,
    Static,
}

impl Kind {
    pub fn letter(self) -> char {
        match self {
            Kind::Inline => 'I',
            Kind::Heap => 'H',
            Kind::Static => 'S',
        }
    }
}

#[derive(Clone, Debug)]
pub struct Snap {
    pub text: Vec<u8>,
    pub len: usize,
    pub cap: usize,
    /// `as_ptr()`; normalised to 0 for inline handles (the pointer is the handle itself, which
    /// moves when the pool vector grows).
    pub ptr: usize,
    pub heap: bool,
    pub rc: Option<usize>,
    pub kind: Kind,
    /// Block id (kind H) or static id (kind S); `None` if it could not be resolved.
    pub id: Option<usize>,
    pub is_empty: bool,
    pub str_len: usize,
    pub raw: [u8; 16],
}

pub type Snaps = Vec<Option<Snap>>;

/// Address range of one leaked static text.
#[derive(Clone, Copy, Debug)]
pub struct StaticRange {
    pub start: usize,
    pub len: usize,
}

pub fn snap_one(s: &LeanString, statics: &[StaticRange]) -> Snap {
    let handle = s as *const LeanString as usize;
    let bytes = s.as_bytes();
    let text = bytes.to_vec();
    let str_len = s.as_str().len();
    let as_ptr = s.as_ptr() as usize;
    let heap = s.is_heap_allocated();
    let raw: [u8; 16] = unsafe { std::ptr::read(s as *const LeanString as *const [u8; 16]) };
    let (kind, id, ptr) = if heap {
        (Kind::Heap, shim::live_block_id_at(as_ptr.wrapping_sub(shim::HEADER)), as_ptr)
    } else if as_ptr >= handle && as_ptr < handle + 16 {
        (Kind::Inline, None, 0)
    } else {
        let sid = statics
            .iter()
            .position(|r| r.len > 0 && as_ptr >= r.start && as_ptr < r.start + r.len);
        (Kind::Static, sid, as_ptr)
    };
    Snap {
        text,
        len: s.len(),
        cap: s.capacity(),
        ptr,
        heap,
        rc: s.__verif_refcount(),
        kind,
        id,
        is_empty: s.is_empty(),
        str_len,
        raw,
    }
}

pub fn snapshot(pool: &[Option<LeanString>], statics: &[StaticRange]) -> Snaps {
    pool.iter().map(|slot| slot.as_ref().map(|s| snap_one(s, statics))).collect()
}

fn opt_id(id: Option<usize>) -> String {
    match id {
        Some(i) => i.to_string(),
        None => "?".to_string(),
    }
}

pub fn render_slots(snaps: &Snaps) -> String {
    if snaps.is_empty() {
        return "-".to_string();
    }
    let mut parts = Vec::with_capacity(snaps.len());
    for s in snaps {
        parts.push(match s {
            None => "N".to_string(),
            Some(s) => match s.kind {
                Kind::Inline => format!("I{}/{}", to_hex(&s.text), s.cap),
                Kind::Heap => format!(
                    "H{}/{}/{}/{}",
                    to_hex(&s.text),
                    s.cap,
                    opt_id(s.id),
                    s.rc.map_or("?".to_string(), |r| r.to_string())
                ),
                Kind::Static => format!("S{}/{}/{}", to_hex(&s.text), s.cap, opt_id(s.id)),
            },
        });
    }
    parts.join(";")
}
