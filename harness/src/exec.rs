//! Executes one op on the LeanString pool and, separately, on a clone of the oracle `String`.

use crate::case::{CharRoute, CloneRoute, Int, Mode, Op, PushRoute, Step, StrRoute, Via};
use lean_string::{LeanString, ToLeanString, ToLeanStringError};
use std::borrow::Cow;
use std::fmt::{self, Write as _};
use std::panic::{catch_unwind, AssertUnwindSafe};
use std::str::FromStr;

pub const USER_PANIC: &str = "verif-user-panic";
const FMT_ERROR_MSG: &str = "an error occurred when formatting an argument";

#[derive(Clone, Debug, PartialEq, Eq)]
pub enum Outcome {
    Ok,
    OkNone,
    OkChar(char),
    ErrReserve,
    ErrFmt,
    PanicReserve,
    PanicIndex,
    PanicUser,
    PanicTooLong,
    Skip,
    PanicOther(String),
}

impl Outcome {
    pub fn render(&self) -> String {
        match self {
            Outcome::Ok => "ok".into(),
            Outcome::OkNone => "ok_none".into(),
            Outcome::OkChar(c) => format!("ok_char:{}", *c as u32),
            Outcome::ErrReserve => "err_reserve".into(),
            Outcome::ErrFmt => "err_fmt".into(),
            Outcome::PanicReserve => "panic_reserve".into(),
            Outcome::PanicIndex => "panic_index".into(),
            Outcome::PanicUser => "panic_user".into(),
            Outcome::PanicTooLong => "panic_toolong".into(),
            Outcome::Skip => "skip".into(),
            Outcome::PanicOther(_) => "panic_other".into(),
        }
    }

    pub fn is_ok(&self) -> bool {
        matches!(self, Outcome::Ok | Outcome::OkNone | Outcome::OkChar(_))
    }

    pub fn is_alloc_failure(&self) -> bool {
        matches!(self, Outcome::ErrReserve | Outcome::PanicReserve)
    }
}

pub fn panic_message(payload: &(dyn std::any::Any + Send)) -> String {
    if let Some(s) = payload.downcast_ref::<&'static str>() {
        (*s).to_string()
    } else if let Some(s) = payload.downcast_ref::<String>() {
        s.clone()
    } else {
        "<non-string panic payload>".to_string()
    }
}

// ---------------------------------------------------------------------------------------------
// User callbacks shared by both sides
// ---------------------------------------------------------------------------------------------

/// Yields the chars; panics INSTEAD of yielding item `panic_at`; reports `(hint, None)`.
struct CharIter<'a> {
    items: &'a [char],
    pos: usize,
    hint: usize,
    panic_at: i64,
}

impl Iterator for CharIter<'_> {
    type Item = char;
    fn next(&mut self) -> Option<char> {
        let c = *self.items.get(self.pos)?;
        if self.pos as i64 == self.panic_at {
            panic!("verif-user-panic");
        }
        self.pos += 1;
        Some(c)
    }
    fn size_hint(&self) -> (usize, Option<usize>) {
        // exact, like a slice or vector iterator, when the hint is the true number of items still to come
        (self.hint, (self.hint == self.items.len() - self.pos.min(self.items.len())).then_some(self.hint))
    }
}

struct StrIter<'a> {
    items: &'a [String],
    pos: usize,
    panic_at: i64,
}

impl<'a> Iterator for StrIter<'a> {
    type Item = &'a str;
    fn next(&mut self) -> Option<&'a str> {
        let s = self.items.get(self.pos)?;
        if self.pos as i64 == self.panic_at {
            panic!("verif-user-panic");
        }
        self.pos += 1;
        Some(s.as_str())
    }
}

/// An owned `String` holding `s` with spare capacity (the amount depends on the text): what `format!`, a truncated or a
/// pre-sized `String` look like.  Converting it must behave exactly as converting the `&str`.
fn roomy_string(s: &str) -> String {
    let mut v = String::with_capacity(s.len() + [0usize, 1, 7, 17, 40][s.len() % 5]);
    v.push_str(s);
    v
}

/// A `LeanString` item that owns no buffer of its own (inline, or borrowing leaked static text), so that feeding it to
/// `Extend<LeanString>` / `FromIterator<LeanString>` adds no allocator traffic to the step.
fn lean_item(x: &str) -> LeanString {
    LeanString::from_static_str(Box::leak(x.to_string().into_boxed_str()))
}

/// `&char` items (each reference points at a leaked cell, so it outlives the call).
struct RefIter<'a> {
    inner: CharIter<'a>,
    hint: usize,
}
impl<'a> Iterator for RefIter<'a> {
    type Item = &'static char;
    fn next(&mut self) -> Option<&'static char> {
        let c = self.inner.next()?;
        Some(&*Box::leak(Box::new(c)))
    }
    fn size_hint(&self) -> (usize, Option<usize>) {
        (self.hint, self.inner.size_hint().1.filter(|u| *u == self.hint))
    }
}

/// Writes the pieces in order; before piece `err_at` returns `Err`, before piece `panic_at` panics
/// (the error wins if both are the same index).
struct Pieces<'a> {
    pieces: &'a [String],
    err_at: i64,
    panic_at: i64,
}

impl fmt::Display for Pieces<'_> {
    fn fmt(&self, f: &mut fmt::Formatter<'_>) -> fmt::Result {
        for (k, p) in self.pieces.iter().enumerate() {
            if k as i64 == self.err_at {
                return Err(fmt::Error);
            }
            if k as i64 == self.panic_at {
                panic!("verif-user-panic");
            }
            // a piece that is exactly one character goes through `write_char` (fmt::Write's provided method unless the
            // receiver overrides it), the others through `write_str`
            let mut cs = p.chars();
            match (cs.next(), cs.next()) {
                (Some(c), None) => f.write_char(c)?,
                _ => f.write_str(p)?,
            }
        }
        Ok(())
    }
}

fn retain_predicate<'a>(bits: &'a [bool], panic_at: i64) -> impl FnMut(char) -> bool + 'a {
    let mut k: usize = 0;
    move |_c| {
        if k as i64 == panic_at {
            panic!("verif-user-panic");
        }
        let keep = bits[k % bits.len()];
        k += 1;
        keep
    }
}

macro_rules! with_int {
    ($v:expr, $x:ident => $body:expr) => {
        match $v {
            Int::I8($x) => $body,
            Int::U8($x) => $body,
            Int::I16($x) => $body,
            Int::U16($x) => $body,
            Int::I32($x) => $body,
            Int::U32($x) => $body,
            Int::I64($x) => $body,
            Int::U64($x) => $body,
            Int::Isize($x) => $body,
            Int::Usize($x) => $body,
            Int::NzI8($x) => $body,
            Int::NzU8($x) => $body,
            Int::NzI16($x) => $body,
            Int::NzU16($x) => $body,
            Int::NzI32($x) => $body,
            Int::NzU32($x) => $body,
            Int::NzI64($x) => $body,
            Int::NzU64($x) => $body,
            Int::NzIsize($x) => $body,
            Int::NzUsize($x) => $body,
            Int::I128($x) => $body,
            Int::U128($x) => $body,
            Int::NzI128($x) => $body,
            Int::NzU128($x) => $body,
            Int::F32(b) => { let $x = f32::from_bits(b.0); $body }
            Int::F64(b) => { let $x = f64::from_bits(b.0); $body }
        }
    };
}

// ---------------------------------------------------------------------------------------------
// Skips
// ---------------------------------------------------------------------------------------------

/// True if the op refers to a slot that is `None` / out of range (both sides skip it).
pub fn must_skip<T>(op: &Op, pool: &[Option<T>]) -> bool {
    let live = |i: usize| pool.get(i).map_or(false, |s| s.is_some());
    match *op {
        Op::Clone { i, .. } => !live(i),
        Op::CloneFrom { i, j } => i == j || !live(i) || !live(j),
        _ => match op.target() {
            Some(i) => !live(i),
            None => false,
        },
    }
}

/// True if the step calls a `try_*` / `Result`-returning entry point of the crate.
pub fn uses_try(step: &Step) -> bool {
    if step.mode != Mode::Try {
        return false;
    }
    match &step.op {
        Op::FromStr { route, .. } => matches!(route, StrRoute::Parse | StrRoute::Tls),
        Op::PushStr { route, .. } => *route == PushRoute::PushStr,
        Op::WithCapacity { .. }
        | Op::FromInt { .. }
        | Op::Display { .. }
        | Op::Push { .. }
        | Op::Pop { .. }
        | Op::Remove { .. }
        | Op::Insert { .. }
        | Op::InsertStr { .. }
        | Op::Truncate { .. }
        | Op::Retain { .. }
        | Op::Reserve { .. }
        | Op::ShrinkTo { .. }
        | Op::ShrinkToFit { .. } => true,
        _ => false,
    }
}

// ---------------------------------------------------------------------------------------------
// LeanString side
// ---------------------------------------------------------------------------------------------

enum Fail {
    Reserve,
    Fmt,
}

impl From<lean_string::ReserveError> for Fail {
    fn from(_: lean_string::ReserveError) -> Self {
        Fail::Reserve
    }
}

impl From<ToLeanStringError> for Fail {
    fn from(e: ToLeanStringError) -> Self {
        match e {
            ToLeanStringError::Reserve(_) => Fail::Reserve,
            ToLeanStringError::Fmt(_) => Fail::Fmt,
        }
    }
}

fn classify_panic(msg: String, op: &Op) -> Outcome {
    if msg.contains("Cannot allocate memory") {
        Outcome::PanicReserve
    } else if msg == USER_PANIC {
        Outcome::PanicUser
    } else if msg.contains("text is too long") {
        Outcome::PanicTooLong
    } else if msg.starts_with("index") {
        Outcome::PanicIndex
    } else if msg == FMT_ERROR_MSG && matches!(op, Op::Display { .. }) {
        // plain `to_lean_string()` has no way to return the fmt error: it panics with it, exactly
        // like `ToString::to_string` does. Reported as `err_fmt`.
        Outcome::ErrFmt
    } else {
        Outcome::PanicOther(msg)
    }
}

fn build(step: &Step, pool: &[Option<LeanString>], statics: &[&'static str]) -> Result<LeanString, Fail> {
    let try_mode = step.mode == Mode::Try;
    Ok(match &step.op {
        Op::New => LeanString::new(),
        Op::FromStr { route, text } => {
            let s: &str = text.as_str();
            match route {
                StrRoute::From => LeanString::from(s),
                StrRoute::String => LeanString::from(roomy_string(s)),
                StrRoute::RefString => {
                    let owned = roomy_string(s);
                    LeanString::from(&owned)
                }
                StrRoute::Box => LeanString::from(Box::<str>::from(s)),
                StrRoute::CowB => LeanString::from(Cow::Borrowed(s)),
                StrRoute::CowO => LeanString::from(Cow::<str>::Owned(roomy_string(s))),
                StrRoute::Parse => {
                    if try_mode {
                        s.parse::<LeanString>()?
                    } else {
                        // FromStr only has a Result form; plain mode unwraps it with the error's
                        // message so that the outcome follows the plain-mode convention.
                        match LeanString::from_str(s) {
                            Ok(v) => v,
                            Err(e) => panic!("{e}"),
                        }
                    }
                }
                StrRoute::Tls => {
                    let owned = roomy_string(s);
                    if try_mode {
                        owned.try_to_lean_string()?
                    } else {
                        owned.to_lean_string()
                    }
                }
                StrRoute::Utf8 => LeanString::from_utf8(s.as_bytes()).unwrap(),
                StrRoute::Collect1 => [s].into_iter().collect::<LeanString>(),
            }
        }
        Op::FromStatic { sid } => LeanString::from_static_str(statics[*sid]),
        Op::WithCapacity { n } => {
            if try_mode {
                LeanString::try_with_capacity(*n)?
            } else {
                LeanString::with_capacity(*n)
            }
        }
        Op::FromChar { route, ch } => match route {
            CharRoute::From => LeanString::from(*ch),
            CharRoute::Tls => ch.to_lean_string(),
        },
        Op::FromBool { b } => b.to_lean_string(),
        Op::FromInt { v } => with_int!(*v, x => {
            if try_mode { x.try_to_lean_string()? } else { x.to_lean_string() }
        }),
        Op::Clone { route, i } => {
            let src = pool[*i].as_ref().expect("checked by must_skip");
            match route {
                CloneRoute::Clone => src.clone(),
                CloneRoute::FromRef => LeanString::from(src),
                CloneRoute::Tls => src.to_lean_string(),
            }
        }
        Op::CollectChars { via, hint, panic_at, chars } => {
            let it = CharIter { items: chars, pos: 0, hint: *hint, panic_at: *panic_at };
            match via {
                Via::Ref => RefIter { hint: *hint, inner: it }.collect::<LeanString>(),
                _ => it.collect::<LeanString>(),
            }
        }
        Op::CollectStrs { via, panic_at, pieces } => {
            let it = StrIter { items: pieces, pos: 0, panic_at: *panic_at };
            match via {
                Via::String => it.map(roomy_string).collect::<LeanString>(),
                Via::Boxed => it.map(Box::<str>::from).collect::<LeanString>(),
                Via::Cow => it.enumerate().map(|(k, x)| if k % 2 == 0 { Cow::Borrowed(x) } else { Cow::Owned(roomy_string(x)) }).collect::<LeanString>(),
                Via::Lean => it.map(lean_item).collect::<LeanString>(),
                _ => it.collect::<LeanString>(),
            }
        }
        Op::Display { err_at, panic_at, pieces } => {
            let d = Pieces { pieces, err_at: *err_at, panic_at: *panic_at };
            if try_mode {
                d.try_to_lean_string()?
            } else {
                d.to_lean_string()
            }
        }
        _ => unreachable!("not a constructor-like op"),
    })
}

/// Applies an in-place op (other than `clone_from` / `drop`) to the slot.
/// The slot is an `Option` because route `add` consumes the value (`s = s + x`).
fn edit(step: &Step, slot: &mut Option<LeanString>) -> Result<Option<Option<char>>, Fail> {
    let try_mode = step.mode == Mode::Try;
    if let Op::PushStr { route: PushRoute::Add, text, .. } = &step.op {
        // `s = s + x`: if `add` panics the moved-in value is dropped by the unwinding and the
        // variable stays moved-out, i.e. the slot stays `None`.
        let s = slot.take().expect("checked by must_skip");
        *slot = Some(s + text.as_str());
        return Ok(None);
    }
    let s = slot.as_mut().expect("checked by must_skip");
    match &step.op {
        Op::Push { ch, .. } => {
            if try_mode {
                s.try_push(*ch)?
            } else {
                s.push(*ch)
            }
        }
        Op::PushStr { route, text, .. } => {
            let x: &str = text.as_str();
            match route {
                PushRoute::PushStr => {
                    if try_mode {
                        s.try_push_str(x)?
                    } else {
                        s.push_str(x)
                    }
                }
                PushRoute::AddAssign => *s += x,
                PushRoute::Add => unreachable!(),
                PushRoute::WriteStr => fmt::Write::write_str(s, x).map_err(|_| Fail::Fmt)?,
                PushRoute::Extend1 => s.extend([x]),
            }
        }
        Op::Pop { .. } => {
            let r = if try_mode { s.try_pop()? } else { s.pop() };
            return Ok(Some(r));
        }
        Op::Remove { idx, .. } => {
            let r = if try_mode { s.try_remove(*idx)? } else { s.remove(*idx) };
            return Ok(Some(Some(r)));
        }
        Op::Insert { idx, ch, .. } => {
            if try_mode {
                s.try_insert(*idx, *ch)?
            } else {
                s.insert(*idx, *ch)
            }
        }
        Op::InsertStr { idx, text, .. } => {
            if try_mode {
                s.try_insert_str(*idx, text)?
            } else {
                s.insert_str(*idx, text)
            }
        }
        Op::Truncate { n, .. } => {
            if try_mode {
                s.try_truncate(*n)?
            } else {
                s.truncate(*n)
            }
        }
        Op::Clear { .. } => s.clear(),
        Op::Retain { panic_at, bits, .. } => {
            let pred = retain_predicate(bits, *panic_at);
            if try_mode {
                s.try_retain(pred)?
            } else {
                s.retain(pred)
            }
        }
        Op::Reserve { n, .. } => {
            if try_mode {
                s.try_reserve(*n)?
            } else {
                s.reserve(*n)
            }
        }
        Op::ShrinkTo { n, .. } => {
            if try_mode {
                s.try_shrink_to(*n)?
            } else {
                s.shrink_to(*n)
            }
        }
        Op::ShrinkToFit { .. } => {
            if try_mode {
                s.try_shrink_to_fit()?
            } else {
                s.shrink_to_fit()
            }
        }
        Op::ExtendChars { via, hint, panic_at, chars, .. } => {
            let it = CharIter { items: chars, pos: 0, hint: *hint, panic_at: *panic_at };
            match via {
                Via::Ref => s.extend(RefIter { hint: *hint, inner: it }),
                _ => s.extend(it),
            }
        }
        Op::ExtendStrs { via, panic_at, pieces, .. } => {
            let it = StrIter { items: pieces, pos: 0, panic_at: *panic_at };
            match via {
                Via::String => s.extend(it.map(roomy_string)),
                Via::Boxed => s.extend(it.map(Box::<str>::from)),
                Via::Cow => s.extend(it.enumerate().map(|(k, x)| if k % 2 == 0 { Cow::Borrowed(x) } else { Cow::Owned(roomy_string(x)) })),
                Via::Lean => s.extend(it.map(lean_item)),
                _ => s.extend(it),
            }
        }
        Op::WriteFmt { err_at, panic_at, pieces, .. } => {
            let d = Pieces { pieces, err_at: *err_at, panic_at: *panic_at };
            write!(s, "{}", d).map_err(|_| Fail::Fmt)?
        }
        _ => unreachable!("not an in-place edit"),
    }
    Ok(None)
}

fn fail_outcome(f: Fail) -> Outcome {
    match f {
        Fail::Reserve => Outcome::ErrReserve,
        Fail::Fmt => Outcome::ErrFmt,
    }
}

/// Runs the step on the LeanString pool. The caller has already checked `must_skip`.
pub fn exec_lean(step: &Step, pool: &mut Vec<Option<LeanString>>, statics: &[&'static str]) -> Outcome {
    let op = &step.op;
    if op.is_ctor() {
        let r = catch_unwind(AssertUnwindSafe(|| build(step, pool, statics)));
        let (outcome, value) = match r {
            Ok(Ok(v)) => (Outcome::Ok, Some(v)),
            Ok(Err(f)) => (fail_outcome(f), None),
            Err(p) => (classify_panic(panic_message(&*p), op), None),
        };
        pool.push(value);
        return outcome;
    }
    match *op {
        Op::Drop { i } => {
            let r = catch_unwind(AssertUnwindSafe(|| {
                pool[i] = None;
            }));
            match r {
                Ok(()) => Outcome::Ok,
                Err(p) => classify_panic(panic_message(&*p), op),
            }
        }
        Op::CloneFrom { i, j } => {
            let r = catch_unwind(AssertUnwindSafe(|| {
                let (dst, src) = if i < j {
                    let (a, b) = pool.split_at_mut(j);
                    (&mut a[i], &b[0])
                } else {
                    let (a, b) = pool.split_at_mut(i);
                    (&mut b[0], &a[j])
                };
                dst.as_mut().unwrap().clone_from(src.as_ref().unwrap());
            }));
            match r {
                Ok(()) => Outcome::Ok,
                Err(p) => classify_panic(panic_message(&*p), op),
            }
        }
        _ => {
            let i = op.target().expect("in-place op");
            let slot = &mut pool[i];
            match catch_unwind(AssertUnwindSafe(|| edit(step, slot))) {
                Ok(Ok(None)) => Outcome::Ok,
                Ok(Ok(Some(None))) => Outcome::OkNone,
                Ok(Ok(Some(Some(c)))) => Outcome::OkChar(c),
                Ok(Err(f)) => fail_outcome(f),
                Err(p) => classify_panic(panic_message(&*p), op),
            }
        }
    }
}

// ---------------------------------------------------------------------------------------------
// Oracle side (std String)
// ---------------------------------------------------------------------------------------------

#[derive(Clone, Debug, PartialEq, Eq)]
pub enum OracleResult {
    /// Completed; the returned char for pop/remove (`Some(None)` = `pop` returned `None`).
    Done(Option<Option<char>>),
    ErrFmt,
    PanicUser,
    /// Any panic raised by std itself (bad index).
    PanicStd(String),
}

impl OracleResult {
    pub fn panicked(&self) -> bool {
        matches!(self, OracleResult::PanicUser | OracleResult::PanicStd(_))
    }
}

pub struct OracleStep {
    pub result: OracleResult,
    /// Value of the target / appended slot after the call, even if it panicked half-way
    /// (`None`: no value, e.g. a constructor that did not return, `drop`, consumed by `add`).
    pub state: Option<String>,
}

fn oracle_panic(p: Box<dyn std::any::Any + Send>) -> OracleResult {
    let msg = panic_message(&*p);
    if msg == USER_PANIC {
        OracleResult::PanicUser
    } else {
        OracleResult::PanicStd(msg)
    }
}

/// Runs the step on clones of the oracle strings; `model` itself is not modified.
pub fn exec_oracle(step: &Step, model: &[Option<String>], statics: &[&'static str]) -> OracleStep {
    let op = &step.op;
    if op.is_ctor() {
        // Constructors that run user callbacks build into `acc` so that the callbacks see the
        // same sequence of calls; size hints are not forwarded (they never change the text).
        let mut acc = String::new();
        let r = catch_unwind(AssertUnwindSafe(|| -> Result<(), fmt::Error> {
            match op {
                Op::New | Op::WithCapacity { .. } => {}
                Op::FromStr { text, .. } => acc.push_str(text),
                Op::FromStatic { sid } => acc.push_str(statics[*sid]),
                Op::FromChar { ch, .. } => acc = ch.to_string(),
                Op::FromBool { b } => acc = b.to_string(),
                Op::FromInt { v } => acc = with_int!(*v, x => x.to_string()),
                Op::Clone { i, .. } => acc = model[*i].clone().expect("checked by must_skip"),
                Op::CollectChars { panic_at, chars, .. } => {
                    acc = CharIter { items: chars, pos: 0, hint: 0, panic_at: *panic_at }.collect::<String>()
                }
                Op::CollectStrs { panic_at, pieces, .. } => {
                    acc = StrIter { items: pieces, pos: 0, panic_at: *panic_at }.collect::<String>()
                }
                Op::Display { err_at, panic_at, pieces } => {
                    write!(acc, "{}", Pieces { pieces, err_at: *err_at, panic_at: *panic_at })?
                }
                _ => unreachable!(),
            }
            Ok(())
        }));
        return match r {
            Ok(Ok(())) => OracleStep { result: OracleResult::Done(None), state: Some(acc) },
            Ok(Err(_)) => OracleStep { result: OracleResult::ErrFmt, state: None },
            Err(p) => OracleStep { result: oracle_panic(p), state: None },
        };
    }
    match *op {
        Op::Drop { .. } => return OracleStep { result: OracleResult::Done(None), state: None },
        Op::CloneFrom { j, .. } => {
            return OracleStep { result: OracleResult::Done(None), state: model[j].clone() }
        }
        _ => {}
    }
    let i = op.target().expect("in-place op");
    let mut c: String = model[i].clone().expect("checked by must_skip");
    let r = catch_unwind(AssertUnwindSafe(|| -> Result<Option<Option<char>>, fmt::Error> {
        let s = &mut c;
        match op {
            Op::Push { ch, .. } => s.push(*ch),
            Op::PushStr { route, text, .. } => {
                let x: &str = text.as_str();
                match route {
                    PushRoute::PushStr => s.push_str(x),
                    PushRoute::AddAssign => *s += x,
                    PushRoute::Add => {
                        let v = std::mem::take(s);
                        *s = v + x;
                    }
                    PushRoute::WriteStr => fmt::Write::write_str(s, x)?,
                    PushRoute::Extend1 => s.extend([x]),
                }
            }
            Op::Pop { .. } => return Ok(Some(s.pop())),
            Op::Remove { idx, .. } => return Ok(Some(Some(s.remove(*idx)))),
            Op::Insert { idx, ch, .. } => s.insert(*idx, *ch),
            Op::InsertStr { idx, text, .. } => s.insert_str(*idx, text),
            Op::Truncate { n, .. } => s.truncate(*n),
            Op::Clear { .. } => s.clear(),
            Op::Retain { panic_at, bits, .. } => s.retain(retain_predicate(bits, *panic_at)),
            // Capacity management never changes the text: not replayed on the oracle.
            Op::Reserve { .. } | Op::ShrinkTo { .. } | Op::ShrinkToFit { .. } => {}
            Op::ExtendChars { panic_at, chars, .. } => {
                s.extend(CharIter { items: chars, pos: 0, hint: 0, panic_at: *panic_at })
            }
            Op::ExtendStrs { panic_at, pieces, .. } => {
                s.extend(StrIter { items: pieces, pos: 0, panic_at: *panic_at })
            }
            Op::WriteFmt { err_at, panic_at, pieces, .. } => {
                write!(s, "{}", Pieces { pieces, err_at: *err_at, panic_at: *panic_at })?
            }
            _ => unreachable!(),
        }
        Ok(None)
    }));
    let result = match r {
        Ok(Ok(ret)) => OracleResult::Done(ret),
        Ok(Err(_)) => OracleResult::ErrFmt,
        Err(p) => oracle_panic(p),
    };
    OracleStep { result, state: Some(c) }
}
