//! Oracle reconciliation and the per-step monitors.
//!
//! Every failure is reported as `(monitor name, detail)`; `props` maps a monitor to the property
//! ids (C01..C20 of /verif/properties.jsonl) it gives evidence against.

use crate::case::{to_hex, Op, PushRoute, Step};
use crate::exec::{OracleResult, OracleStep, Outcome};
use crate::shim::{self, Event};
use crate::snap::{Kind, Snap, Snaps};
use lean_string::LeanString;
use std::borrow::Cow;
use std::hash::{Hash, Hasher};
use std::panic::{catch_unwind, AssertUnwindSafe};

pub const INLINE: usize = 16;

#[derive(Clone, Debug, PartialEq, Eq)]
pub struct MonFail {
    pub name: &'static str,
    pub detail: String,
}

fn mf(name: &'static str, detail: String) -> MonFail {
    MonFail { name, detail }
}

pub fn props(name: &str) -> &'static str {
    match name {
        "text_mismatch" | "ret_mismatch" | "panic_other" => "C01",
        "utf8_invalid" => "C07,C01",
        "frame_changed" => "C02",
        "double_free" | "bad_layout" | "guard_damaged" | "use_after_free" | "out_of_bounds"
        | "unknown_buffer" => "C03",
        "leak" | "orphan_block" => "C03,C05,C18",
        "refcount_mismatch" => "C03,C05",
        "fail_changed" => "C05,C06",
        "fail_not_prefix" | "try_panicked" => "C05",
        "index_panic_mismatch" | "index_panic_effect" => "C07",
        "clone_allocates" | "clone_not_shared" => "C08",
        "inline_alloc" | "ctor_alloc" => "C09",
        "static_modified" | "static_alloc" | "static_clone_copied" => "C10",
        "cap_lt_len" | "with_capacity_small" | "reserve_small" | "within_cap_realloc" => "C11",
        "growth_bounds" => "C12",
        "shrink_text" | "shrink_grew" | "shrink_below" | "shrink_inexact" => "C13",
        "eq_mismatch" => "C17",
        "panic_state" => "C18",
        "niche" => "C20",
        "float_roundtrip" => "C15",
        "process_abort" => "C01,C03",
        _ => "C01",
    }
}

fn show(bytes: &[u8]) -> String {
    to_hex(bytes)
}

// ---------------------------------------------------------------------------------------------
// Oracle reconciliation
// ---------------------------------------------------------------------------------------------

fn outcome_ret(o: &Outcome) -> Option<Option<char>> {
    match o {
        Outcome::OkNone => Some(None),
        Outcome::OkChar(c) => Some(Some(*c)),
        _ => None,
    }
}

/// True if `new == old + concat(items[..k])` for some k.
fn is_item_prefix(old: &[u8], new: &[u8], items: &[String]) -> bool {
    if !new.starts_with(old) {
        return false;
    }
    let mut rest = &new[old.len()..];
    if rest.is_empty() {
        return true;
    }
    for it in items {
        match rest.strip_prefix(it.as_bytes()) {
            Some(r) => rest = r,
            None => return false,
        }
        if rest.is_empty() {
            return true;
        }
    }
    false
}

/// Advances the oracle `model` according to the LeanString outcome and reports disagreements
/// between the two executions. `pool` is the pool AFTER the step, `target` the mutated/appended slot.
pub fn reconcile(
    step: &Step,
    outcome: &Outcome,
    oracle: OracleStep,
    model: &mut Vec<Option<String>>,
    pool: &[Option<LeanString>],
    target: usize,
) -> Vec<MonFail> {
    let mut out = Vec::new();
    let op = &step.op;
    let OracleStep { result, state } = oracle;

    // -- disagreement between the two outcomes -------------------------------------------------
    match outcome {
        o if o.is_ok() => {
            match &result {
                OracleResult::PanicStd(m) => out.push(mf(
                    "index_panic_mismatch",
                    format!("String panicked (`{m}`) but LeanString returned {}", o.render()),
                )),
                OracleResult::PanicUser => out.push(mf(
                    "panic_state",
                    format!("String's callback panicked but LeanString returned {}", o.render()),
                )),
                OracleResult::ErrFmt => out.push(mf(
                    "ret_mismatch",
                    "String side returned fmt::Error but LeanString returned ok".to_string(),
                )),
                OracleResult::Done(ret) => {
                    if *ret != outcome_ret(o) {
                        out.push(mf(
                            "ret_mismatch",
                            format!("LeanString returned {} but String returned {:?}", o.render(), ret),
                        ));
                    }
                }
            }
        }
        Outcome::PanicIndex => {
            if !matches!(result, OracleResult::PanicStd(_)) {
                out.push(mf(
                    "index_panic_mismatch",
                    format!("LeanString panicked on the index but String did not ({result:?})"),
                ));
            }
        }
        Outcome::PanicUser => {
            if result != OracleResult::PanicUser {
                out.push(mf("panic_state", format!("callback panicked only on the LeanString side ({result:?})")));
            }
        }
        Outcome::ErrFmt => {
            if result != OracleResult::ErrFmt {
                out.push(mf("ret_mismatch", format!("LeanString reported fmt::Error but String side is {result:?}")));
            }
        }
        _ => {}
    }

    // -- constructor-like: the appended slot ---------------------------------------------------
    if op.is_ctor() {
        // floats: the property is the round trip (C15), not equality with `to_string()`
        if let Op::FromInt { v } = op {
            let float = match v {
                crate::case::Int::F32(b) => Some((b.0 as u64, 32)),
                crate::case::Int::F64(b) => Some((b.0, 64)),
                _ => None,
            };
            if let (Some((bits, w)), true) = (float, outcome.is_ok()) {
                let txt = pool[target].as_ref().map(|s| s.as_str().to_string()).unwrap_or_default();
                let ok = if w == 32 {
                    let x = f32::from_bits(bits as u32);
                    match txt.parse::<f32>() { Ok(y) => (x.is_nan() && y.is_nan()) || x.to_bits() == y.to_bits(), Err(_) => false }
                } else {
                    let x = f64::from_bits(bits);
                    match txt.parse::<f64>() { Ok(y) => (x.is_nan() && y.is_nan()) || x.to_bits() == y.to_bits(), Err(_) => false }
                };
                if !ok {
                    out.push(mf("float_roundtrip", format!("f{w} bits {bits}: text `{txt}` does not parse back to the same value")));
                }
                model.push(Some(txt));
                return out;
            }
        }
        model.push(if outcome.is_ok() { state } else { None });
        return out;
    }

    // -- in-place ------------------------------------------------------------------------------
    let i = target;
    let lean_text: Option<&[u8]> = pool[i].as_ref().map(|s| s.as_bytes());
    match outcome {
        o if o.is_ok() => {
            if matches!(op, Op::Drop { .. }) {
                model[i] = None;
            } else if !result.panicked() {
                model[i] = state;
            }
        }
        Outcome::ErrReserve | Outcome::PanicReserve => {
            if op.is_iterator_driven() {
                let old = model[i].clone().unwrap_or_default();
                match lean_text {
                    Some(new) if is_item_prefix(old.as_bytes(), new, &op.items()) => {
                        model[i] = Some(String::from_utf8_lossy(new).into_owned());
                    }
                    Some(new) => out.push(mf(
                        "fail_not_prefix",
                        format!("slot {i}: text {} is not old text {} + a prefix of the items", show(new), show(old.as_bytes())),
                    )),
                    None => {}
                }
            }
        }
        Outcome::PanicUser | Outcome::ErrFmt => model[i] = state,
        _ => {}
    }
    if pool[i].is_none() {
        // dropped, or consumed by `s = s + x` that panicked
        model[i] = None;
    }
    out
}

// ---------------------------------------------------------------------------------------------
// Step monitors
// ---------------------------------------------------------------------------------------------

pub struct StepCtx<'a> {
    pub step: &'a Step,
    pub step_no: usize,
    pub last_step: bool,
    pub outcome: &'a Outcome,
    pub used_try: bool,
    pub events: &'a [Event],
    pub before: &'a Snaps,
    pub after: &'a Snaps,
    /// Slot mutated by the op, or the appended slot for constructor-like ops.
    pub target: usize,
    pub pool: &'a [Option<LeanString>],
    pub model: &'a [Option<String>],
    pub statics: &'a [&'static str],
    pub pristine: &'a [Vec<u8>],
}

/// First difference between two observations of a slot (refcount excluded).
fn frame_diff(a: &Snap, b: &Snap) -> Option<String> {
    if a.text != b.text {
        Some(format!("text {} -> {}", show(&a.text), show(&b.text)))
    } else if a.len != b.len {
        Some(format!("len {} -> {}", a.len, b.len))
    } else if a.cap != b.cap {
        Some(format!("capacity {} -> {}", a.cap, b.cap))
    } else if a.kind != b.kind {
        Some(format!("kind {} -> {}", a.kind.letter(), b.kind.letter()))
    } else if a.id != b.id {
        Some(format!("buffer id {:?} -> {:?}", a.id, b.id))
    } else if a.ptr != b.ptr {
        Some("as_ptr changed".to_string())
    } else {
        None
    }
}

fn slot_diff(a: &Option<Snap>, b: &Option<Snap>, with_rc: bool) -> Option<String> {
    match (a, b) {
        (None, None) => None,
        (Some(_), None) => Some("slot became None".to_string()),
        (None, Some(_)) => Some("slot became live".to_string()),
        (Some(a), Some(b)) => frame_diff(a, b).or_else(|| {
            if with_rc && a.rc != b.rc {
                Some(format!("refcount {:?} -> {:?}", a.rc, b.rc))
            } else {
                None
            }
        }),
    }
}

fn events_str(events: &[Event]) -> String {
    if events.is_empty() {
        "-".to_string()
    } else {
        events.iter().map(|e| e.render()).collect::<Vec<_>>().join(",")
    }
}

fn added_len(op: &Op) -> Option<usize> {
    match op {
        Op::Push { ch, .. } | Op::Insert { ch, .. } => Some(ch.len_utf8()),
        Op::PushStr { text, .. } | Op::InsertStr { text, .. } => Some(text.len()),
        _ => None,
    }
}

/// Bytes appended by an op that runs to completion, iterator-driven appends included (`Extend<char>` first reserves
/// its size hint): what "appending within the reported capacity" (C11) speaks about.  Not used for the growth bounds
/// (C12): an iterator-driven append may grow several times.
fn appended_len(op: &Op) -> Option<usize> {
    match op {
        Op::ExtendStrs { panic_at, pieces, .. } if *panic_at < 0 => Some(pieces.iter().map(|p| p.len()).sum()),
        Op::ExtendChars { panic_at, chars, hint, .. } if *panic_at < 0 => {
            Some(chars.iter().map(|c| c.len_utf8()).sum::<usize>().max(*hint))
        }
        Op::WriteFmt { err_at, panic_at, pieces, .. } if *err_at < 0 && *panic_at < 0 => {
            Some(pieces.iter().map(|p| p.len()).sum())
        }
        _ => added_len(op),
    }
}

fn hash_of<T: Hash + ?Sized>(v: &T) -> u64 {
    let mut h = std::collections::hash_map::DefaultHasher::new();
    v.hash(&mut h);
    h.finish()
}

pub fn evaluate(cx: &StepCtx<'_>) -> Vec<MonFail> {
    let mut out = Vec::new();
    let op = &cx.step.op;
    let t = cx.target;
    let before_t: Option<&Snap> = cx.before.get(t).and_then(|s| s.as_ref());
    let after_t: Option<&Snap> = cx.after.get(t).and_then(|s| s.as_ref());
    let ok = cx.outcome.is_ok();
    let any_event = !cx.events.is_empty();
    let any_request = cx.events.iter().any(|e| !e.is_dealloc());
    let ev = events_str(cx.events);

    // 18. unexpected panic
    if let Outcome::PanicOther(msg) = cx.outcome {
        out.push(mf("panic_other", msg.clone()));
    }
    // try form must not panic on allocation failure
    if cx.used_try && *cx.outcome == Outcome::PanicReserve {
        out.push(mf("try_panicked", "the try_* form panicked with the ReserveError message instead of returning it".into()));
    }

    // 1/3/12/17: per-slot checks
    for (i, slot) in cx.after.iter().enumerate() {
        let m = cx.model.get(i).and_then(|m| m.as_ref());
        match (slot, m) {
            (None, None) => {}
            (Some(_), None) => out.push(mf("text_mismatch", format!("slot {i} is live but the oracle slot is None"))),
            (None, Some(_)) => out.push(mf("text_mismatch", format!("slot {i} is None but the oracle slot is live"))),
            (Some(s), Some(m)) => {
                if s.text != m.as_bytes() {
                    let name = if *cx.outcome == Outcome::PanicUser && i == t { "panic_state" } else { "text_mismatch" };
                    out.push(mf(name, format!("slot {i}: text {} but String has {}", show(&s.text), show(m.as_bytes()))));
                }
            }
        }
        let Some(s) = slot else { continue };
        if s.len != s.text.len() || s.str_len != s.len || s.is_empty != (s.len == 0) {
            out.push(mf(
                "text_mismatch",
                format!("slot {i}: len()={} as_bytes().len()={} as_str().len()={} is_empty()={}", s.len, s.text.len(), s.str_len, s.is_empty),
            ));
        }
        if std::str::from_utf8(&s.text).is_err() {
            out.push(mf("utf8_invalid", format!("slot {i}: bytes {}", show(&s.text))));
        }
        if s.cap < s.len {
            out.push(mf("cap_lt_len", format!("slot {i}: capacity {} < len {}", s.cap, s.len)));
        }
        if s.raw[15] > 0xD1 {
            out.push(mf("niche", format!("slot {i}: last byte of the handle is {:#04x}", s.raw[15])));
        }
        if s.id.is_none() && s.kind != Kind::Inline {
            out.push(mf("unknown_buffer", format!("slot {i}: kind {} but as_ptr belongs to no live block / static", s.kind.letter())));
        }
    }
    for (i, slot) in cx.pool.iter().enumerate() {
        let Some(s) = slot else { continue };
        // A handle that points to no live block is dangling: it is reported above and not cloned.
        let dangling = matches!(cx.after.get(i), Some(Some(a)) if a.kind == Kind::Heap && a.id.is_none());
        if dangling {
            continue;
        }
        match catch_unwind(AssertUnwindSafe(|| std::hint::black_box(Some(s.clone())).is_some())) {
            Ok(true) => {}
            Ok(false) => out.push(mf("niche", format!("slot {i}: Some(clone) reads back as None"))),
            Err(p) => out.push(mf("panic_other", format!("slot {i}: clone for the niche check panicked: {}", crate::exec::panic_message(&*p)))),
        }
    }

    // 4. frame
    for i in 0..cx.before.len().min(cx.after.len()) {
        if i == t {
            continue;
        }
        if let Some(d) = slot_diff(&cx.before[i], &cx.after[i], false) {
            out.push(mf("frame_changed", format!("non-target slot {i}: {d}")));
        }
    }

    // 6. refcounts
    for (id, _body) in shim::live_blocks() {
        let holders: Vec<(usize, &Snap)> = cx
            .after
            .iter()
            .enumerate()
            .filter_map(|(i, s)| s.as_ref().map(|s| (i, s)))
            .filter(|(_, s)| s.kind == Kind::Heap && s.id == Some(id))
            .collect();
        if holders.is_empty() {
            out.push(mf("orphan_block", format!("block {id} is live but no slot points to it")));
            continue;
        }
        for (i, s) in &holders {
            if s.rc != Some(holders.len()) {
                out.push(mf(
                    "refcount_mismatch",
                    format!("block {id}: {} handle(s) but slot {i} reports refcount {:?}", holders.len(), s.rc),
                ));
                break;
            }
        }
    }

    // 7. allocation failure must not change anything
    if cx.outcome.is_alloc_failure() && !op.is_iterator_driven() {
        for i in 0..cx.before.len().min(cx.after.len()) {
            let consumed = i == t && matches!(op, Op::PushStr { route: PushRoute::Add, .. });
            if consumed {
                continue;
            }
            if let Some(d) = slot_diff(&cx.before[i], &cx.after[i], false) {
                out.push(mf("fail_changed", format!("{} but slot {i}: {d}", cx.outcome.render())));
            }
        }
    }

    // 8. index panic must have no effect at all
    if *cx.outcome == Outcome::PanicIndex {
        if any_event {
            out.push(mf("index_panic_effect", format!("allocator events {ev}")));
        }
        for i in 0..cx.before.len().max(cx.after.len()) {
            let a = cx.before.get(i).cloned().flatten();
            let b = cx.after.get(i).cloned().flatten();
            if let Some(d) = slot_diff(&a, &b, true) {
                out.push(mf("index_panic_effect", format!("slot {i}: {d}")));
            }
        }
    }

    // 9. clone
    let clone_src = match *op {
        Op::Clone { i, .. } => Some(i),
        Op::CloneFrom { j, .. } => Some(j),
        _ => None,
    };
    if let Some(j) = clone_src {
        if any_request {
            out.push(mf("clone_allocates", format!("allocator events {ev}")));
        }
        let src_before = cx.before.get(j).and_then(|s| s.as_ref());
        if let (true, Some(src), Some(copy)) = (ok, src_before, after_t) {
            if copy.text != src.text {
                out.push(mf("clone_not_shared", format!("copy reads {} but source reads {}", show(&copy.text), show(&src.text))));
            }
            if copy.kind != src.kind {
                out.push(mf("clone_not_shared", format!("source kind {} but copy kind {}", src.kind.letter(), copy.kind.letter())));
            } else if src.kind != Kind::Inline && copy.ptr != src.ptr {
                out.push(mf("clone_not_shared", "copy and source have different as_ptr".to_string()));
            }
            // C10: a clone of borrowed static text keeps borrowing the caller's bytes
            if src.kind == Kind::Static && (copy.kind != Kind::Static || copy.ptr != src.ptr) {
                out.push(mf(
                    "static_clone_copied",
                    format!("the source borrows static text but the copy is kind {} ({})", copy.kind.letter(), if copy.ptr == src.ptr { "same as_ptr" } else { "different as_ptr" }),
                ));
            }
            if src.kind == Kind::Heap && matches!(op, Op::Clone { .. }) {
                let src_after = cx.after.get(j).and_then(|s| s.as_ref());
                let want = src.rc.map(|r| r + 1);
                if copy.rc != want || src_after.map(|s| s.rc) != Some(want) {
                    out.push(mf(
                        "clone_not_shared",
                        format!("refcount {:?} before, {:?} (copy) / {:?} (source) after", src.rc, copy.rc, src_after.and_then(|s| s.rc)),
                    ));
                }
            }
        }
    }

    // 10. inline / exact constructor allocation
    let plain_ctor = matches!(
        op,
        Op::New | Op::FromStr { .. } | Op::FromStatic { .. } | Op::FromChar { .. } | Op::FromBool { .. } | Op::FromInt { .. }
    );
    if plain_ctor && ok {
        if let Some(a) = after_t {
            if a.text.len() <= INLINE && (any_event || a.heap) {
                out.push(mf("inline_alloc", format!("{}-byte text built with events {ev}, is_heap_allocated={}", a.text.len(), a.heap)));
            }
            if matches!(op, Op::FromStr { .. } | Op::FromInt { .. }) && a.text.len() > INLINE {
                let l = a.text.len();
                let exact = cx.events.len() == 1 && matches!(cx.events[0], Event::Alloc { size, .. } if size == INLINE + l);
                if !exact || a.cap != l {
                    out.push(mf("ctor_alloc", format!("{l}-byte text: events {ev}, capacity {}", a.cap)));
                }
            }
        }
    }
    let inplace_edit = matches!(
        op,
        Op::Push { .. } | Op::PushStr { .. } | Op::Insert { .. } | Op::InsertStr { .. } | Op::Pop { .. } | Op::Remove { .. } | Op::Retain { .. } | Op::Truncate { .. } | Op::Clear { .. }
    );
    if inplace_edit && ok {
        if let (Some(b), Some(a)) = (before_t, after_t) {
            if b.kind == Kind::Inline && a.text.len() <= INLINE && (any_event || a.kind != Kind::Inline) {
                out.push(mf("inline_alloc", format!("edit of an inline slot to {} bytes: events {ev}, kind {}", a.text.len(), a.kind.letter())));
            }
        }
    }

    // 11. statics
    for (sid, (st, pr)) in cx.statics.iter().zip(cx.pristine.iter()).enumerate() {
        if st.as_bytes() != pr.as_slice() {
            out.push(mf("static_modified", format!("static {sid} now reads {}", show(st.as_bytes()))));
        }
    }
    if let (Op::FromStatic { sid }, true, Some(a)) = (op, ok, after_t) {
        let st = cx.statics[*sid];
        if any_event {
            out.push(mf("static_alloc", format!("from_static had events {ev}")));
        }
        if st.len() > INLINE && (a.heap || a.ptr != st.as_ptr() as usize || a.kind != Kind::Static) {
            out.push(mf("static_alloc", format!("from_static of {} bytes: kind {}, as_ptr {} the static's pointer", st.len(), a.kind.letter(), if a.ptr == st.as_ptr() as usize { "==" } else { "!=" })));
        }
    }
    {
        // clone / pop / truncate / clear keep borrowing the static
        let subject_before = match *op {
            Op::Clone { i, .. } => cx.before.get(i).and_then(|s| s.as_ref()),
            Op::Pop { .. } | Op::Truncate { .. } | Op::Clear { .. } => before_t,
            _ => None,
        };
        if let Some(b) = subject_before {
            if b.kind == Kind::Static {
                if any_event {
                    out.push(mf("static_alloc", format!("op on a static slot had events {ev}")));
                }
                if let Some(a) = after_t {
                    if a.kind == Kind::Static && a.ptr != b.ptr {
                        out.push(mf("static_alloc", "as_ptr of the static slot changed".to_string()));
                    }
                    // pop / truncate / clear / clone of a borrowed text keep borrowing it (C10): the handle
                    // still points at the caller's bytes (a handle whose as_ptr lies in the static area)
                    if ok && a.kind != Kind::Static {
                        out.push(mf("static_alloc", format!("read-only op moved a static slot to kind {}", a.kind.letter())));
                    }
                }
            }
        }
    }

    // 12. capacity promises
    if let (Op::WithCapacity { n }, true, Some(a)) = (op, ok, after_t) {
        if a.cap < *n {
            out.push(mf("with_capacity_small", format!("with_capacity({n}) gave capacity {}", a.cap)));
        }
    }
    if let (Op::Reserve { n, .. }, true, Some(b), Some(a)) = (op, ok, before_t, after_t) {
        let enough = b.len.checked_add(*n).map_or(false, |need| a.cap >= need);
        if !enough {
            out.push(mf("reserve_small", format!("reserve({n}) on len {} gave capacity {}", b.len, a.cap)));
        }
        if a.kind == Kind::Static || (a.kind == Kind::Heap && a.rc != Some(1)) {
            out.push(mf("reserve_small", format!("after reserve the slot is kind {} refcount {:?}: not exclusively owned", a.kind.letter(), a.rc)));
        }
    }
    if let (Some(add), true, Some(b), Some(a)) = (appended_len(op), ok, before_t, after_t) {
        let exclusive = b.kind == Kind::Inline || (b.kind == Kind::Heap && b.rc == Some(1));
        if exclusive && b.len.checked_add(add).map_or(false, |need| need <= b.cap) {
            let moved = match b.kind {
                Kind::Inline => a.kind != Kind::Inline,
                _ => a.kind != Kind::Heap || a.ptr != b.ptr,
            };
            if any_event || moved {
                out.push(mf(
                    "within_cap_realloc",
                    format!("len {} + {add} <= capacity {} but events {ev}, kind {} -> {}, as_ptr {}", b.len, b.cap, b.kind.letter(), a.kind.letter(), if a.ptr == b.ptr { "unchanged" } else { "changed" }),
                ));
            }
        }
    }

    // 13. growth bounds (single-shot ops)
    let need = match op {
        Op::Reserve { n, .. } => before_t.and_then(|b| b.len.checked_add(*n)),
        _ => added_len(op).and_then(|a| before_t.map(|b| b.len + a)),
    };
    if let (Some(need), true, Some(b), Some(a)) = (need, ok, before_t, after_t) {
        if a.cap > b.cap && a.kind == Kind::Heap {
            let amortized = b.len + b.len / 2;
            if a.cap < amortized || a.cap > amortized.max(need) {
                out.push(mf(
                    "growth_bounds",
                    format!("len {} capacity {} -> {}: allowed [{}, {}] (need {need})", b.len, b.cap, a.cap, amortized, amortized.max(need)),
                ));
            }
        }
    }

    // 14. shrink
    let shrink_min = match *op {
        Op::ShrinkTo { n, .. } => Some(n),
        Op::ShrinkToFit { .. } => Some(0),
        _ => None,
    };
    if let (Some(m), true) = (shrink_min, ok) {
        for i in 0..cx.before.len().min(cx.after.len()) {
            if let (Some(b), Some(a)) = (&cx.before[i], &cx.after[i]) {
                if b.text != a.text {
                    out.push(mf("shrink_text", format!("slot {i}: text {} -> {}", show(&b.text), show(&a.text))));
                }
            }
        }
        if let (Some(b), Some(a)) = (before_t, after_t) {
            if a.cap > b.cap.max(INLINE) {
                out.push(mf("shrink_grew", format!("shrink to {m}: capacity {} -> {}", b.cap, a.cap)));
            }
            if a.cap < a.len || a.cap < m.min(b.cap) {
                out.push(mf("shrink_below", format!("shrink to {m}: capacity {} -> {} (len {})", b.cap, a.cap, a.len)));
            }
            let want = b.len.max(m);
            if b.kind == Kind::Heap && b.cap > want {
                let exact = if want > INLINE { a.cap == want } else { a.kind == Kind::Inline };
                if !exact {
                    out.push(mf(
                        "shrink_inexact",
                        format!("shrink to {m}: len {} capacity {} -> {} kind {} (expected {})", b.len, b.cap, a.cap, a.kind.letter(), if want > INLINE { want.to_string() } else { "inline".into() }),
                    ));
                }
            }
        }
    }

    // 15. equality / ordering / hashing / formatting (sampled)
    if cx.step_no % 4 == 0 || cx.last_step {
        eq_monitor(cx, &mut out);
    }

    out
}

macro_rules! spec_cmp {
    ($a:expr, $s:expr, $($spec:literal),* $(,)?) => {{
        let mut r: Option<&'static str> = None;
        $( if r.is_none() && format!($spec, $a) != format!($spec, $s) { r = Some($spec); } )*
        r
    }};
}
fn fmt_specs_differ(a: &LeanString, sa: &str) -> Option<&'static str> {
    if let Some(x) = spec_cmp!(a, sa, "{:.0}", "{:.1}", "{:.3}", "{:.16}", "{:.17}", "{:1}", "{:7}", "{:24}", "{:<20}", "{:>20}", "{:^21}",
                               "{:*^19.5}", "{:-<8.2}", "{:#>30.29}", "{:?}", "{:#?}", "{:12?}", "{:<40?}", "{:.2?}") {
        return Some(x);
    }
    // (format widths and precisions are limited to u16 by the formatting machinery)
    let (w, p) = ((sa.chars().count() + 2).min(65_535), sa.chars().count().saturating_sub(1).min(65_535));
    if format!("{:w$.p$}", a, w = w, p = p) != format!("{:w$.p$}", sa, w = w, p = p) {
        return Some("{:w$.p$} (w = chars + 2, p = chars - 1)");
    }
    if format!("{:.*}", p, a) != format!("{:.*}", p, sa) {
        return Some("{:.*} (chars - 1)");
    }
    None
}
fn views_differ(a: &LeanString, sa: &str) -> Option<&'static str> {
    use std::borrow::Borrow;
    use std::collections::{BTreeMap, HashMap};
    let r1: &str = a.as_ref();
    let r2: &[u8] = a.as_ref();
    let r3: &str = a.borrow();
    let r4: &str = &**a;
    if r1 != sa { return Some("AsRef<str>"); }
    if r2 != sa.as_bytes() { return Some("AsRef<[u8]>"); }
    if r3 != sa { return Some("Borrow<str>"); }
    if r4 != sa { return Some("Deref"); }
    #[cfg(feature = "ls-std")]
    {
        let r5: &std::ffi::OsStr = a.as_ref();
        if r5 != std::ffi::OsStr::new(sa) { return Some("AsRef<OsStr>"); }
    }
    if a.to_string() != sa { return Some("to_string"); }
    if String::from(a) != sa { return Some("String::from(&LeanString)"); }
    if String::from(a.clone()) != sa { return Some("String::from(LeanString)"); }
    if a.len() != sa.len() || a.is_empty() != sa.is_empty() { return Some("len/is_empty"); }
    let mut st = String::from("ab");
    st.extend([a.clone(), a.clone()]);
    if st != format!("ab{sa}{sa}") { return Some("Extend<LeanString> for String"); }
    if !LeanString::default().is_empty() || LeanString::default() != *"" { return Some("Default"); }
    // a LeanString key is found by &str (Borrow must agree with Hash / Eq / Ord)
    let mut hm: HashMap<LeanString, u8> = HashMap::new();
    hm.insert(a.clone(), 1);
    if hm.get(sa) != Some(&1) { return Some("HashMap lookup by &str"); }
    let mut bm: BTreeMap<LeanString, u8> = BTreeMap::new();
    bm.insert(a.clone(), 1);
    bm.insert(LeanString::from("m"), 2);
    bm.insert(LeanString::new(), 3);
    if bm.get(sa) != Some(&1) && sa != "m" && !sa.is_empty() { return Some("BTreeMap lookup by &str"); }
    None
}

fn eq_monitor(cx: &StepCtx<'_>, out: &mut Vec<MonFail>) {
    // Only slots whose bytes are valid UTF-8 can be compared through `str` safely.
    let live: Vec<(usize, &LeanString)> = cx
        .pool
        .iter()
        .enumerate()
        .filter_map(|(i, s)| s.as_ref().map(|s| (i, s)))
        .filter(|(_, s)| std::str::from_utf8(s.as_bytes()).is_ok())
        .collect();
    for &(i, a) in &live {
        let sa: &str = a.as_str();
        if hash_of(a) != hash_of(sa) {
            out.push(mf("eq_mismatch", format!("slot {i}: hash differs from hash of its str")));
        }
        if format!("{a}") != format!("{sa}") || format!("{a:?}") != format!("{sa:?}") {
            out.push(mf("eq_mismatch", format!("slot {i}: Display/Debug differs from str")));
        }
        // the same under format specifications (width, precision, fill, alignment, alternate), and through every view
        if let Some(which) = fmt_specs_differ(a, sa) {
            out.push(mf("eq_mismatch", format!("slot {i}: formatting with `{which}` differs from str")));
        }
        if let Some(which) = views_differ(a, sa) {
            out.push(mf("eq_mismatch", format!("slot {i}: view `{which}` differs from str")));
        }
        for &(j, b) in &live {
            let sb: &str = b.as_str();
            let want = sa == sb;
            let mut bad: Vec<&str> = Vec::new();
            if (a == b) != want {
                bad.push("a==b");
            }
            if a.cmp(b) != sa.cmp(sb) || a.partial_cmp(b) != Some(sa.cmp(sb)) {
                bad.push("cmp");
            }
            if (*a == *sb) != want {
                bad.push("a==str");
            }
            if (*sa == *b) != want {
                bad.push("str==b");
            }
            if (*a == sb) != want || (sa == *b) != want {
                bad.push("&str");
            }
            if (*a == String::from(sb)) != want || (String::from(sa) == *b) != want {
                bad.push("String");
            }
            if (Cow::Borrowed(sb) == *a) != want || (*a == Cow::Borrowed(sb)) != want {
                bad.push("Cow");
            }
            if want && hash_of(a) != hash_of(b) {
                bad.push("hash");
            }
            if !bad.is_empty() {
                out.push(mf("eq_mismatch", format!("slots ({i},{j}): {} disagree with str", bad.join(","))));
            }
        }
    }
}
