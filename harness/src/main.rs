//! `runner <casefile>`: replays every case of the file against `lean_string` (behind the shim
//! allocator) and a `std::string::String` oracle, prints the trace of FORMAT.md plus `M` lines.

mod case;
mod exec;
mod monitor;
mod shim;
mod snap;

use case::Case;
use exec::Outcome;
use lean_string::LeanString;
use monitor::{MonFail, StepCtx};
use snap::{StaticRange, Snaps};
use std::collections::HashSet;
use std::io::{BufWriter, Write};
use std::panic::{catch_unwind, AssertUnwindSafe};

/// Monitors that describe a persistent state: an identical report is printed only at the step
/// where it appears, not again on every following step while it persists.
const STATE_MONITORS: &[&str] = &[
    "text_mismatch",
    "utf8_invalid",
    "refcount_mismatch",
    "orphan_block",
    "niche",
    "cap_lt_len",
    "static_modified",
    "unknown_buffer",
    "use_after_free",
    "eq_mismatch",
];

fn one_line(s: &str) -> String {
    s.chars().map(|c| if c == '\n' || c == '\r' { ' ' } else { c }).collect()
}

fn emit_failures(
    out: &mut impl Write,
    case_id: &str,
    step: usize,
    fails: Vec<MonFail>,
    prev_state: &mut HashSet<(String, String)>,
) {
    let mut seen: HashSet<(String, String)> = HashSet::new();
    let mut cur_state: HashSet<(String, String)> = HashSet::new();
    for f in fails {
        let key = (f.name.to_string(), f.detail.clone());
        if !seen.insert(key.clone()) {
            continue;
        }
        if STATE_MONITORS.contains(&f.name) {
            cur_state.insert(key.clone());
            if prev_state.contains(&key) {
                continue;
            }
        }
        let _ = writeln!(out, "M {case_id} {step} {} {} {}", f.name, monitor::props(f.name), one_line(&f.detail));
    }
    *prev_state = cur_state;
}

fn shim_failures() -> Vec<MonFail> {
    shim::take_failures().into_iter().map(|(name, detail)| MonFail { name, detail }).collect()
}

fn run_case(c: &Case, out: &mut impl Write, step_flush: bool) {
    // Statics: leaked writable copies (reclaimed at the end of the case, after every handle is gone).
    let leaked: Vec<*mut str> = c
        .statics
        .iter()
        .map(|s| Box::into_raw(s.clone().into_boxed_str()))
        .collect();
    let statics: Vec<&'static str> = leaked.iter().map(|&p| unsafe { &*p }).collect();
    let ranges: Vec<StaticRange> =
        statics.iter().map(|s| StaticRange { start: s.as_ptr() as usize, len: s.len() }).collect();
    let pristine: Vec<Vec<u8>> = c.statics.iter().map(|s| s.as_bytes().to_vec()).collect();

    shim::begin_case(&c.fail, c.limit);
    let mut pool: Vec<Option<LeanString>> = Vec::with_capacity(c.steps.len() + 1);
    let mut model: Vec<Option<String>> = Vec::with_capacity(c.steps.len() + 1);
    let mut before: Snaps = Vec::new();
    let mut prev_state: HashSet<(String, String)> = HashSet::new();
    let n = c.steps.len();

    for (k, step) in c.steps.iter().enumerate() {
        let op = &step.op;
        let _ = shim::take_events();
        let target = if op.is_ctor() { pool.len() } else { op.target().unwrap_or(0) };
        let mut fails: Vec<MonFail> = Vec::new();

        let (outcome, events) = if exec::must_skip(op, &pool) {
            if op.is_ctor() {
                // keeps slot numbering independent of outcomes
                pool.push(None);
                model.push(None);
            }
            (Outcome::Skip, Vec::new())
        } else {
            let outcome = exec::exec_lean(step, &mut pool, &statics);
            let events = shim::take_events();
            let oracle = exec::exec_oracle(step, &model, &statics);
            fails.extend(monitor::reconcile(step, &outcome, oracle, &mut model, &pool, target));
            (outcome, events)
        };

        let after = match catch_unwind(AssertUnwindSafe(|| snap::snapshot(&pool, &ranges))) {
            Ok(a) => a,
            Err(p) => {
                fails.push(MonFail {
                    name: "panic_other",
                    detail: format!("observing the pool panicked: {}", exec::panic_message(&*p)),
                });
                before.clone()
            }
        };
        let events_str = if events.is_empty() {
            "-".to_string()
        } else {
            events.iter().map(|e| e.render()).collect::<Vec<_>>().join(",")
        };
        let _ = writeln!(out, "R {} {k} {} {events_str} {}", c.id, outcome.render(), snap::render_slots(&after));

        {
            let cx = StepCtx {
                step,
                step_no: k,
                last_step: k + 1 == n,
                outcome: &outcome,
                used_try: exec::uses_try(step),
                events: &events,
                before: &before,
                after: &after,
                target,
                pool: &pool,
                model: &model,
                statics: &statics,
                pristine: &pristine,
            };
            match catch_unwind(AssertUnwindSafe(|| monitor::evaluate(&cx))) {
                Ok(f) => fails.extend(f),
                Err(p) => fails.push(MonFail {
                    name: "panic_other",
                    detail: format!("evaluating the monitors panicked: {}", exec::panic_message(&*p)),
                }),
            }
        }
        // shim failures raised by the op itself and by the observations above
        let mut all = shim_failures();
        all.extend(fails);
        emit_failures(out, &c.id, k, all, &mut prev_state);
        if step_flush {
            let _ = out.flush();
        }
        before = after;
    }

    // End of case: drop the remaining slots in slot order, then count what is still live.
    let _ = shim::take_events();
    for slot in pool.iter_mut() {
        let _ = catch_unwind(AssertUnwindSafe(|| {
            *slot = None;
        }));
    }
    let mut fails = shim_failures();
    let live: Vec<(usize, usize)> = shim::live_blocks();
    let live_count = shim::end_case();
    fails.extend(shim_failures());
    if live_count > 0 {
        let ids: Vec<String> = live.iter().map(|(id, _)| id.to_string()).collect();
        fails.push(MonFail {
            name: "leak",
            detail: format!("{live_count} block(s) still live after dropping every slot: ids {}", ids.join(",")),
        });
    }
    let _ = writeln!(out, "E {} {live_count}", c.id);
    let mut no_state = HashSet::new();
    emit_failures(out, &c.id, n, fails, &mut no_state);
    drop(pool);
    drop(statics);
    for p in leaked {
        unsafe { drop(Box::from_raw(p)) };
    }
    let _ = out.flush();
}

/// Runs cases `from..` in this process. With `step_flush` every step is flushed, so that a
/// supervisor still receives the lines of a case whose op aborts the process.
fn run_worker(cases: &[Case], from: usize, step_flush: bool) {
    if std::env::var_os("LSV_PANIC_VERBOSE").is_none() {
        // Panics of the ops are expected and caught: keep stderr quiet.
        std::panic::set_hook(Box::new(|_| {}));
    }
    shim::install();
    let stdout = std::io::stdout();
    let mut out = BufWriter::new(stdout.lock());
    for c in cases.iter().skip(from) {
        run_case(c, &mut out, step_flush);
    }
    let _ = out.flush();
}

/// Runs the cases in worker child processes (`runner --worker <from> <file>`) and forwards their
/// output. If a worker dies inside a case (an abort that `catch_unwind` cannot stop, e.g. a
/// non-unwinding panic or a fatal signal after memory corruption), the case is closed with a
/// `process_abort` monitor line (no `E` line) and a new worker continues with the next case.
/// Returns false if no worker could be started.
fn supervise(cases: &[Case], path: &str) -> bool {
    use std::io::BufRead;
    use std::process::{Command, Stdio};
    let Ok(exe) = std::env::current_exe() else { return false };
    let stdout = std::io::stdout();
    let mut out = BufWriter::new(stdout.lock());
    let mut next = 0usize;
    while next < cases.len() {
        let child = Command::new(&exe)
            .arg("--worker")
            .arg(next.to_string())
            .arg(path)
            .stdin(Stdio::null())
            .stdout(Stdio::piped())
            .spawn();
        let Ok(mut child) = child else {
            if next == 0 {
                return false;
            }
            eprintln!("runner: cannot start a worker process");
            std::process::exit(1);
        };
        let mut done = 0usize; // cases finished by this worker
        let mut next_step = 0usize; // step the current case is executing
        let reader = std::io::BufReader::new(child.stdout.take().expect("piped stdout"));
        for line in reader.split(b'\n') {
            let Ok(line) = line else { break };
            if line.starts_with(b"E ") {
                done += 1;
                next_step = 0;
            } else if line.starts_with(b"R ") {
                next_step += 1;
            }
            let _ = out.write_all(&line);
            let _ = out.write_all(b"\n");
        }
        let status = child.wait();
        next += done;
        if next < cases.len() {
            let status = match status {
                Ok(s) => s.to_string(),
                Err(e) => e.to_string(),
            };
            let _ = writeln!(
                out,
                "M {} {next_step} process_abort {} worker process died during this step ({status}); case abandoned, no E line",
                cases[next].id,
                monitor::props("process_abort"),
            );
            next += 1;
        }
    }
    let _ = out.flush();
    true
}

fn read_cases(path: &str) -> Vec<Case> {
    let input = match std::fs::read(path) {
        Ok(b) => b,
        Err(e) => {
            eprintln!("runner: cannot read {path}: {e}");
            std::process::exit(2);
        }
    };
    let input = match String::from_utf8(input) {
        Ok(s) => s,
        Err(_) => {
            eprintln!("runner: case file is not UTF-8");
            std::process::exit(2);
        }
    };
    match case::parse_cases(&input) {
        Ok(c) => c,
        Err(e) => {
            eprintln!("runner: malformed case file: {e}");
            std::process::exit(2);
        }
    }
}

fn main() {
    let args: Vec<String> = std::env::args().collect();
    match args.len() {
        // runner <casefile>
        2 => {
            let cases = read_cases(&args[1]);
            // LSV_INPROCESS=1: no worker processes (an aborting op then kills the whole run).
            if std::env::var_os("LSV_INPROCESS").is_some() || !supervise(&cases, &args[1]) {
                run_worker(&cases, 0, false);
            }
        }
        // runner --worker <first case index> <casefile>   (internal)
        4 if args[1] == "--worker" => {
            let cases = read_cases(&args[3]);
            let from = args[2].parse().unwrap_or_else(|_| {
                eprintln!("usage: runner <casefile>");
                std::process::exit(2)
            });
            run_worker(&cases, from, true);
        }
        // runner --pushloop <total bytes> <pattern of char widths, cycled>   (C12: cost of an append loop)
        4 if args[1] == "--pushloop" => {
            let total: usize = args[2].parse().expect("total");
            push_loop(total, &args[3]);
        }
        _ => {
            eprintln!("usage: runner <casefile>");
            std::process::exit(2);
        }
    }
}

/// Appends characters of the given widths (pattern cycled) to an empty LeanString until `total` bytes, printing one
/// `G <len before> <capacity after>` line per step on which the allocator was asked for anything, and the totals.
fn push_loop(total: usize, pattern: &str) {
    shim::install();
    shim::begin_case(&[], usize::MAX);
    let chars = ['a', '\u{e9}', '\u{20ac}', '\u{1f600}'];
    let pat: Vec<usize> = pattern.bytes().map(|b| (b - b'0') as usize).collect();
    assert!(!pat.is_empty() && pat.iter().all(|&w| (1..=4).contains(&w)), "pattern: digits 1-4");
    let out = std::io::stdout();
    let mut out = BufWriter::new(out.lock());
    let (mut requests, mut copied, mut i) = (0usize, 0usize, 0usize);
    let mut expect = String::new();
    {
        let mut s = LeanString::new();
        loop {
            let w = pat[i % pat.len()];
            if s.len() + w > total {
                break;
            }
            let before = s.len();
            s.push(chars[w - 1]);
            expect.push(chars[w - 1]);
            let ev = shim::take_events();
            let asks = ev.iter().filter(|e| !e.is_dealloc()).count();
            if asks > 0 {
                requests += asks;
                copied += before;
                let evs: Vec<String> = ev.iter().map(|e| e.render()).collect();
                writeln!(out, "G {} {} {}", before, s.capacity(), evs.join(",")).unwrap();
            }
            if s.len() != before + w || s.capacity() < s.len() {
                writeln!(out, "M pushloop len_or_capacity_wrong at {}", before).unwrap();
            }
            i += 1;
        }
        if s.as_str() != expect.as_str() {
            writeln!(out, "M pushloop text_mismatch").unwrap();
        }
        writeln!(out, "END len={} cap={} requests={} copied={}", s.len(), s.capacity(), requests, copied).unwrap();
    }
    let live = shim::end_case();
    for (name, detail) in shim::take_failures() {
        writeln!(out, "M pushloop {} {}", name, detail).unwrap();
    }
    if live != 0 {
        writeln!(out, "M pushloop leak {}", live).unwrap();
    }
}
