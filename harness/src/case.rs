//! Case file parser (see FORMAT.md).

pub const DEFAULT_LIMIT: usize = 1_073_741_824;

#[derive(Clone, Copy, Debug, PartialEq, Eq)]
pub enum Mode {
    Plain,
    Try,
}

#[derive(Clone, Copy, Debug, PartialEq, Eq)]
pub enum StrRoute {
    From,
    String,
    RefString,
    Box,
    CowB,
    CowO,
    Parse,
    Tls,
    Utf8,
    Collect1,
}

#[derive(Clone, Copy, Debug, PartialEq, Eq)]
pub enum CharRoute {
    From,
    Tls,
}

#[derive(Clone, Copy, Debug, PartialEq, Eq)]
pub enum CloneRoute {
    Clone,
    FromRef,
    Tls,
}

#[derive(Clone, Copy, Debug, PartialEq, Eq)]
pub enum PushRoute {
    PushStr,
    AddAssign,
    Add,
    WriteStr,
    Extend1,
}

/// An integer of one of the supported types, kept as its type tag + parsed value.
#[derive(Clone, Copy, Debug, PartialEq, Eq)]
pub enum Int {
    I8(i8),
    U8(u8),
    I16(i16),
    U16(u16),
    I32(i32),
    U32(u32),
    I64(i64),
    U64(u64),
    Isize(isize),
    Usize(usize),
    NzI8(std::num::NonZero<i8>),
    NzU8(std::num::NonZero<u8>),
    NzI16(std::num::NonZero<i16>),
    NzU16(std::num::NonZero<u16>),
    NzI32(std::num::NonZero<i32>),
    NzU32(std::num::NonZero<u32>),
    NzI64(std::num::NonZero<i64>),
    NzU64(std::num::NonZero<u64>),
    NzIsize(std::num::NonZero<isize>),
    NzUsize(std::num::NonZero<usize>),
    I128(i128),
    U128(u128),
    NzI128(std::num::NonZero<i128>),
    NzU128(std::num::NonZero<u128>),
    F32(F32Bits),
    F64(F64Bits),
}

/// Floats are given by their bit pattern (decimal) so that every NaN payload / signed zero is addressable.
#[derive(Clone, Copy, Debug, PartialEq, Eq)]
pub struct F32Bits(pub u32);
#[derive(Clone, Copy, Debug, PartialEq, Eq)]
pub struct F64Bits(pub u64);
impl std::str::FromStr for F32Bits {
    type Err = std::num::ParseIntError;
    fn from_str(s: &str) -> Result<Self, Self::Err> { s.parse().map(F32Bits) }
}
impl std::str::FromStr for F64Bits {
    type Err = std::num::ParseIntError;
    fn from_str(s: &str) -> Result<Self, Self::Err> { s.parse().map(F64Bits) }
}

/// The item type an iterator-driven op feeds the crate with (`<name>:<via>` in the case file; the model ignores it:
/// every one of these `Extend` / `FromIterator` impls is `push_str` / `push` per item).
#[derive(Clone, Copy, Debug, PartialEq, Eq)]
pub enum Via {
    /// `&str` / `char` (the default)
    Plain,
    /// `String`
    String,
    /// `Box<str>`
    Boxed,
    /// `Cow<str>` (alternating Borrowed / Owned)
    Cow,
    /// `LeanString` (built from leaked static text: no allocation of its own)
    Lean,
    /// `&char`
    Ref,
}

#[derive(Clone, Debug)]
pub enum Op {
    // constructor-like
    New,
    FromStr { route: StrRoute, text: String },
    FromStatic { sid: usize },
    WithCapacity { n: usize },
    FromChar { route: CharRoute, ch: char },
    FromBool { b: bool },
    FromInt { v: Int },
    Clone { route: CloneRoute, i: usize },
    CollectChars { via: Via, hint: usize, panic_at: i64, chars: Vec<char> },
    CollectStrs { via: Via, panic_at: i64, pieces: Vec<String> },
    Display { err_at: i64, panic_at: i64, pieces: Vec<String> },
    // in-place
    CloneFrom { i: usize, j: usize },
    Drop { i: usize },
    Push { i: usize, ch: char },
    PushStr { route: PushRoute, i: usize, text: String },
    Pop { i: usize },
    Remove { i: usize, idx: usize },
    Insert { i: usize, idx: usize, ch: char },
    InsertStr { i: usize, idx: usize, text: String },
    Truncate { i: usize, n: usize },
    Clear { i: usize },
    Retain { i: usize, panic_at: i64, bits: Vec<bool> },
    Reserve { i: usize, n: usize },
    ShrinkTo { i: usize, n: usize },
    ShrinkToFit { i: usize },
    ExtendChars { via: Via, i: usize, hint: usize, panic_at: i64, chars: Vec<char> },
    ExtendStrs { via: Via, i: usize, panic_at: i64, pieces: Vec<String> },
    WriteFmt { i: usize, err_at: i64, panic_at: i64, pieces: Vec<String> },
}

impl Op {
    /// Constructor-like ops always append exactly one slot.
    pub fn is_ctor(&self) -> bool {
        matches!(
            self,
            Op::New
                | Op::FromStr { .. }
                | Op::FromStatic { .. }
                | Op::WithCapacity { .. }
                | Op::FromChar { .. }
                | Op::FromBool { .. }
                | Op::FromInt { .. }
                | Op::Clone { .. }
                | Op::CollectChars { .. }
                | Op::CollectStrs { .. }
                | Op::Display { .. }
        )
    }

    /// The existing slot an in-place op mutates.
    pub fn target(&self) -> Option<usize> {
        match *self {
            Op::CloneFrom { i, .. }
            | Op::Drop { i }
            | Op::Push { i, .. }
            | Op::PushStr { i, .. }
            | Op::Pop { i }
            | Op::Remove { i, .. }
            | Op::Insert { i, .. }
            | Op::InsertStr { i, .. }
            | Op::Truncate { i, .. }
            | Op::Clear { i }
            | Op::Retain { i, .. }
            | Op::Reserve { i, .. }
            | Op::ShrinkTo { i, .. }
            | Op::ShrinkToFit { i }
            | Op::ExtendChars { i, .. }
            | Op::ExtendStrs { i, .. }
            | Op::WriteFmt { i, .. } => Some(i),
            _ => None,
        }
    }

    /// Ops that feed the target item by item (a failure may stop between items).
    pub fn is_iterator_driven(&self) -> bool {
        matches!(
            self,
            Op::ExtendChars { .. }
                | Op::ExtendStrs { .. }
                | Op::CollectChars { .. }
                | Op::CollectStrs { .. }
                | Op::WriteFmt { .. }
                | Op::Display { .. }
        )
    }

    /// The items of an iterator-driven op, as strings.
    pub fn items(&self) -> Vec<String> {
        match self {
            Op::ExtendChars { chars, .. } | Op::CollectChars { chars, .. } => {
                chars.iter().map(|c| c.to_string()).collect()
            }
            Op::ExtendStrs { pieces, .. }
            | Op::CollectStrs { pieces, .. }
            | Op::WriteFmt { pieces, .. }
            | Op::Display { pieces, .. } => pieces.clone(),
            _ => Vec::new(),
        }
    }
}

#[derive(Clone, Debug)]
pub struct Step {
    pub mode: Mode,
    pub op: Op,
}

#[derive(Clone, Debug)]
pub struct Case {
    pub id: String,
    pub statics: Vec<String>,
    pub fail: Vec<usize>,
    pub limit: usize,
    pub steps: Vec<Step>,
}

pub fn parse_hex(s: &str) -> Result<Vec<u8>, String> {
    if s == "-" {
        return Ok(Vec::new());
    }
    if s.len() % 2 != 0 {
        return Err(format!("odd-length hex `{s}`"));
    }
    let digit = |c: u8| match c {
        b'0'..=b'9' => Ok(c - b'0'),
        b'a'..=b'f' => Ok(c - b'a' + 10),
        b'A'..=b'F' => Ok(c - b'A' + 10),
        _ => Err(format!("bad hex `{s}`")),
    };
    s.as_bytes().chunks(2).map(|p| Ok(digit(p[0])? << 4 | digit(p[1])?)).collect()
}

pub fn to_hex(bytes: &[u8]) -> String {
    if bytes.is_empty() {
        return "-".to_string();
    }
    let mut out = String::with_capacity(bytes.len() * 2);
    for b in bytes {
        out.push_str(&format!("{b:02x}"));
    }
    out
}

struct Args<'a> {
    toks: std::slice::Iter<'a, &'a str>,
    line: usize,
}

impl<'a> Args<'a> {
    fn next(&mut self, what: &str) -> Result<&'a str, String> {
        self.toks.next().copied().ok_or_else(|| format!("line {}: missing <{what}>", self.line))
    }
    fn usize(&mut self, what: &str) -> Result<usize, String> {
        let t = self.next(what)?;
        t.parse().map_err(|_| format!("line {}: bad <{what}> `{t}`", self.line))
    }
    fn i64(&mut self, what: &str) -> Result<i64, String> {
        let t = self.next(what)?;
        t.parse().map_err(|_| format!("line {}: bad <{what}> `{t}`", self.line))
    }
    fn text_of(&self, t: &str) -> Result<String, String> {
        let bytes = parse_hex(t).map_err(|e| format!("line {}: {e}", self.line))?;
        String::from_utf8(bytes).map_err(|_| format!("line {}: hex `{t}` is not UTF-8", self.line))
    }
    fn text(&mut self, what: &str) -> Result<String, String> {
        let t = self.next(what)?;
        self.text_of(t)
    }
    fn char_of(&self, t: &str) -> Result<char, String> {
        t.parse::<u32>()
            .ok()
            .and_then(char::from_u32)
            .ok_or_else(|| format!("line {}: bad code point `{t}`", self.line))
    }
    fn char(&mut self, what: &str) -> Result<char, String> {
        let t = self.next(what)?;
        self.char_of(t)
    }
    fn rest_chars(&mut self) -> Result<Vec<char>, String> {
        let mut v = Vec::new();
        while let Some(t) = self.toks.next() {
            v.push(self.char_of(t)?);
        }
        Ok(v)
    }
    fn rest_texts(&mut self) -> Result<Vec<String>, String> {
        let mut v = Vec::new();
        while let Some(t) = self.toks.next() {
            v.push(self.text_of(t)?);
        }
        Ok(v)
    }
    fn finish(&mut self) -> Result<(), String> {
        match self.toks.next() {
            None => Ok(()),
            Some(t) => Err(format!("line {}: unexpected extra argument `{t}`", self.line)),
        }
    }
}

fn parse_int(ty: &str, dec: &str, line: usize) -> Result<Int, String> {
    let bad = || format!("line {line}: bad integer `{ty} {dec}`");
    macro_rules! p {
        ($variant:ident) => {
            dec.parse().map(Int::$variant).map_err(|_| bad())
        };
    }
    match ty {
        "i8" => p!(I8),
        "u8" => p!(U8),
        "i16" => p!(I16),
        "u16" => p!(U16),
        "i32" => p!(I32),
        "u32" => p!(U32),
        "i64" => p!(I64),
        "u64" => p!(U64),
        "isize" => p!(Isize),
        "usize" => p!(Usize),
        "nz_i8" => p!(NzI8),
        "nz_u8" => p!(NzU8),
        "nz_i16" => p!(NzI16),
        "nz_u16" => p!(NzU16),
        "nz_i32" => p!(NzI32),
        "nz_u32" => p!(NzU32),
        "nz_i64" => p!(NzI64),
        "nz_u64" => p!(NzU64),
        "nz_isize" => p!(NzIsize),
        "nz_usize" => p!(NzUsize),
        "i128" => p!(I128),
        "u128" => p!(U128),
        "nz_i128" => p!(NzI128),
        "nz_u128" => p!(NzU128),
        "f32" => p!(F32),
        "f64" => p!(F64),
        _ => Err(format!("line {line}: unknown integer type `{ty}`")),
    }
}

fn parse_op(name: &str, a: &mut Args<'_>) -> Result<Op, String> {
    let line = a.line;
    let (name, via) = match name.split_once(':') {
        None => (name, Via::Plain),
        Some((n, v)) => (
            n,
            match v {
                "str" | "char" => Via::Plain,
                "string" => Via::String,
                "box" => Via::Boxed,
                "cow" => Via::Cow,
                "lean" => Via::Lean,
                "ref" => Via::Ref,
                v => return Err(format!("line {line}: unknown item type `{v}`")),
            },
        ),
    };
    let op = match name {
        "new" => Op::New,
        "from_str" => {
            let route = match a.next("route")? {
                "from" => StrRoute::From,
                "string" => StrRoute::String,
                "refstring" => StrRoute::RefString,
                "box" => StrRoute::Box,
                "cowb" => StrRoute::CowB,
                "cowo" => StrRoute::CowO,
                "parse" => StrRoute::Parse,
                "tls" => StrRoute::Tls,
                "utf8" => StrRoute::Utf8,
                "collect1" => StrRoute::Collect1,
                r => return Err(format!("line {line}: unknown from_str route `{r}`")),
            };
            Op::FromStr { route, text: a.text("HEX")? }
        }
        "from_static" => Op::FromStatic { sid: a.usize("sid")? },
        "with_capacity" => Op::WithCapacity { n: a.usize("n")? },
        "from_char" => {
            let route = match a.next("route")? {
                "from" => CharRoute::From,
                "tls" => CharRoute::Tls,
                r => return Err(format!("line {line}: unknown from_char route `{r}`")),
            };
            Op::FromChar { route, ch: a.char("CP")? }
        }
        "from_bool" => match a.next("0|1")? {
            "0" => Op::FromBool { b: false },
            "1" => Op::FromBool { b: true },
            t => return Err(format!("line {line}: bad bool `{t}`")),
        },
        "from_int" => {
            let ty = a.next("ty")?;
            let dec = a.next("dec")?;
            Op::FromInt { v: parse_int(ty, dec, line)? }
        }
        "clone" => {
            let route = match a.next("route")? {
                "clone" => CloneRoute::Clone,
                "fromref" => CloneRoute::FromRef,
                "tls" => CloneRoute::Tls,
                r => return Err(format!("line {line}: unknown clone route `{r}`")),
            };
            Op::Clone { route, i: a.usize("i")? }
        }
        "collect_chars" => Op::CollectChars {
            via,
            hint: a.usize("hint")?,
            panic_at: a.i64("panic_at")?,
            chars: a.rest_chars()?,
        },
        "collect_strs" => Op::CollectStrs { via, panic_at: a.i64("panic_at")?, pieces: a.rest_texts()? },
        "display" => Op::Display {
            err_at: a.i64("err_at")?,
            panic_at: a.i64("panic_at")?,
            pieces: a.rest_texts()?,
        },
        "clone_from" => Op::CloneFrom { i: a.usize("i")?, j: a.usize("j")? },
        "drop" => Op::Drop { i: a.usize("i")? },
        "push" => Op::Push { i: a.usize("i")?, ch: a.char("CP")? },
        "push_str" => {
            let route = match a.next("route")? {
                "push_str" => PushRoute::PushStr,
                "add_assign" => PushRoute::AddAssign,
                "add" => PushRoute::Add,
                "write_str" => PushRoute::WriteStr,
                "extend1" => PushRoute::Extend1,
                r => return Err(format!("line {line}: unknown push_str route `{r}`")),
            };
            Op::PushStr { route, i: a.usize("i")?, text: a.text("HEX")? }
        }
        "pop" => Op::Pop { i: a.usize("i")? },
        "remove" => Op::Remove { i: a.usize("i")?, idx: a.usize("idx")? },
        "insert" => Op::Insert { i: a.usize("i")?, idx: a.usize("idx")?, ch: a.char("CP")? },
        "insert_str" => {
            Op::InsertStr { i: a.usize("i")?, idx: a.usize("idx")?, text: a.text("HEX")? }
        }
        "truncate" => Op::Truncate { i: a.usize("i")?, n: a.usize("n")? },
        "clear" => Op::Clear { i: a.usize("i")? },
        "retain" => {
            let i = a.usize("i")?;
            let panic_at = a.i64("panic_at")?;
            let bits_tok = a.next("bits")?;
            let mut bits = Vec::new();
            for c in bits_tok.chars() {
                match c {
                    '0' => bits.push(false),
                    '1' => bits.push(true),
                    _ => return Err(format!("line {line}: bad bits `{bits_tok}`")),
                }
            }
            if bits.is_empty() {
                return Err(format!("line {line}: empty bits"));
            }
            Op::Retain { i, panic_at, bits }
        }
        "reserve" => Op::Reserve { i: a.usize("i")?, n: a.usize("n")? },
        "shrink_to" => Op::ShrinkTo { i: a.usize("i")?, n: a.usize("n")? },
        "shrink_to_fit" => Op::ShrinkToFit { i: a.usize("i")? },
        "extend_chars" => Op::ExtendChars {
            via,
            i: a.usize("i")?,
            hint: a.usize("hint")?,
            panic_at: a.i64("panic_at")?,
            chars: a.rest_chars()?,
        },
        "extend_strs" => {
            Op::ExtendStrs { via, i: a.usize("i")?, panic_at: a.i64("panic_at")?, pieces: a.rest_texts()? }
        }
        "write_fmt" => Op::WriteFmt {
            i: a.usize("i")?,
            err_at: a.i64("err_at")?,
            panic_at: a.i64("panic_at")?,
            pieces: a.rest_texts()?,
        },
        other => return Err(format!("line {line}: unknown op `{other}`")),
    };
    a.finish()?;
    Ok(op)
}

pub fn parse_cases(input: &str) -> Result<Vec<Case>, String> {
    let mut cases = Vec::new();
    let mut cur: Option<Case> = None;
    for (n, raw) in input.lines().enumerate() {
        let line_no = n + 1;
        let line = raw.split('#').next().unwrap_or("").trim();
        if line.is_empty() {
            continue;
        }
        let toks: Vec<&str> = line.split_whitespace().collect();
        let mut a = Args { toks: toks[1..].iter(), line: line_no };
        match toks[0] {
            "case" => {
                if cur.is_some() {
                    return Err(format!("line {line_no}: `case` inside a case (missing `end`)"));
                }
                let id = a.next("id")?.to_string();
                a.finish()?;
                cur = Some(Case {
                    id,
                    statics: Vec::new(),
                    fail: Vec::new(),
                    limit: DEFAULT_LIMIT,
                    steps: Vec::new(),
                });
            }
            "end" => {
                a.finish()?;
                match cur.take() {
                    Some(c) => cases.push(c),
                    None => return Err(format!("line {line_no}: `end` without `case`")),
                }
            }
            key => {
                let Some(c) = cur.as_mut() else {
                    return Err(format!("line {line_no}: `{key}` outside of a case"));
                };
                match key {
                    "static" => {
                        c.statics.push(a.text("HEX")?);
                        a.finish()?;
                    }
                    "fail" => {
                        while a.toks.len() > 0 {
                            c.fail.push(a.usize("k")?);
                        }
                    }
                    "limit" => {
                        c.limit = a.usize("bytes")?;
                        a.finish()?;
                    }
                    "op" => {
                        let mode = match a.next("mode")? {
                            "plain" => Mode::Plain,
                            "try" => Mode::Try,
                            m => return Err(format!("line {line_no}: unknown mode `{m}`")),
                        };
                        let name = a.next("name")?;
                        let op = parse_op(name, &mut a)?;
                        if let Op::FromStatic { sid } = op {
                            if sid >= c.statics.len() {
                                return Err(format!("line {line_no}: unknown static {sid}"));
                            }
                        }
                        c.steps.push(Step { mode, op });
                    }
                    _ => return Err(format!("line {line_no}: unknown directive `{key}`")),
                }
            }
        }
    }
    if cur.is_some() {
        return Err("unterminated case at end of file (missing `end`)".to_string());
    }
    Ok(cases)
}
