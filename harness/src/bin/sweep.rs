//! sweep — value-level sweeps that are too large for the case/trace pipeline (C14, C15).
//!
//!   sweep int <type> <start> <count> <step>     to_lean_string() vs to_string() for start + k*step (wrapping in the type)
//!   sweep f32 <start_bits> <count> <step>       round trip of to_lean_string() through parse::<f32>()
//!   sweep f64 <seed> <count>                    stratified + random bit patterns
//! Prints `MISMATCH ...` lines (at most 20) and a final `checked <n> mismatches <k>`.
use lean_string::ToLeanString;
use std::sync::atomic::{AtomicU64, Ordering};
use std::sync::Mutex;

static MISMATCHES: AtomicU64 = AtomicU64::new(0);
static REPORT: Mutex<Vec<String>> = Mutex::new(Vec::new());

fn report(line: String) {
    let n = MISMATCHES.fetch_add(1, Ordering::Relaxed);
    if n < 20 {
        REPORT.lock().unwrap().push(line);
    }
}

fn par<F: Fn(u64) + Sync>(count: u64, f: F) {
    let threads = std::thread::available_parallelism().map(|n| n.get() as u64).unwrap_or(4).min(16).max(1);
    let chunk = (count + threads - 1) / threads;
    std::thread::scope(|s| {
        for t in 0..threads {
            let f = &f;
            s.spawn(move || {
                let lo = t * chunk;
                let hi = ((t + 1) * chunk).min(count);
                for k in lo..hi {
                    f(k);
                }
            });
        }
    });
}

macro_rules! int_sweep {
    ($ty:ty, $name:expr, $start:expr, $count:expr, $step:expr) => {{
        let start: $ty = $start.parse::<i128>().map(|v| v as $ty).or_else(|_| $start.parse::<u128>().map(|v| v as $ty)).expect("start");
        let step: $ty = $step.parse::<u128>().expect("step") as $ty;
        par($count, |k| {
            let v = start.wrapping_add((k as $ty).wrapping_mul(step));
            let got = v.to_lean_string();
            let want = v.to_string();
            if got.as_str() != want {
                report(format!("MISMATCH {} {} got={} want={}", $name, v, got.as_str(), want));
            }
            if let Some(nz) = std::num::NonZero::<$ty>::new(v) {
                let got = nz.to_lean_string();
                if got.as_str() != want {
                    report(format!("MISMATCH nz_{} {} got={} want={}", $name, v, got.as_str(), want));
                }
            }
        });
    }};
}

fn splitmix(s: &mut u64) -> u64 {
    *s = s.wrapping_add(0x9E3779B97F4A7C15);
    let mut z = *s;
    z = (z ^ (z >> 30)).wrapping_mul(0xBF58476D1CE4E5B9);
    z = (z ^ (z >> 27)).wrapping_mul(0x94D049BB133111EB);
    z ^ (z >> 31)
}

fn check_f32(bits: u32) {
    let x = f32::from_bits(bits);
    let s = x.to_lean_string();
    let ok = match s.as_str().parse::<f32>() {
        Ok(y) => (x.is_nan() && y.is_nan()) || y.to_bits() == bits,
        Err(_) => false,
    };
    if !ok {
        report(format!("MISMATCH f32 bits={} text={}", bits, s.as_str()));
    }
}

fn check_f64(bits: u64) {
    let x = f64::from_bits(bits);
    let s = x.to_lean_string();
    let ok = match s.as_str().parse::<f64>() {
        Ok(y) => (x.is_nan() && y.is_nan()) || y.to_bits() == bits,
        Err(_) => false,
    };
    if !ok {
        report(format!("MISMATCH f64 bits={} text={}", bits, s.as_str()));
    }
}

fn hex(v: &[u8]) -> String { v.iter().map(|b| format!("{:02x}", b)).collect() }

// With SWEEP_TRACE=<file> every input is appended to the file before it is checked, so that after a crash of the
// whole process (a defective constructor may return a value that cannot even be read or dropped) the last lines name it.
static TRACE: std::sync::OnceLock<Option<std::sync::Mutex<std::fs::File>>> = std::sync::OnceLock::new();
fn trace(line: impl FnOnce() -> String) {
    let t = TRACE.get_or_init(|| std::env::var("SWEEP_TRACE").ok().and_then(|p| std::fs::OpenOptions::new().create(true).append(true).open(p).ok()).map(std::sync::Mutex::new));
    if let Some(f) = t {
        use std::io::Write;
        let mut f = f.lock().unwrap();
        let _ = writeln!(f, "{}", line());
    }
}

fn check_utf8(v: &[u8]) {
    use lean_string::LeanString;
    trace(|| format!("utf8 {}", if v.is_empty() { "-".to_string() } else { hex(v) }));
    // compare bytes, not strs: a defective constructor may hand back text that is not UTF-8, and formatting that is UB;
    // and compare acceptance before touching the value: one built from rejected input may not even be readable
    let r = std::panic::catch_unwind(|| {
        let a = LeanString::from_utf8(v);
        let b = String::from_utf8(v.to_vec()).map(|s| s.into_bytes()).ok();
        match (a, b) {
            (Ok(s), None) => {
                // never read or drop such a value; but whether it is told apart from None can be asked without reading it
                let o = Some(s);
                let none = o.is_none();
                core::mem::forget(o);
                report(format!("MISMATCH from_utf8 {} got=Ok want=Err{}", hex(v), if none { " NICHE: Some(value) reads as None" } else { "" }));
            }
            (a, b) => {
                let a = a.map(|s| s.as_bytes().to_vec()).ok();
                if a != b {
                    report(format!("MISMATCH from_utf8 {} got={} want={}", hex(v), a.map(|x| hex(&x)).unwrap_or("Err".into()), b.map(|x| hex(&x)).unwrap_or("Err".into())));
                }
            }
        }
        if let Ok(text) = std::str::from_utf8(v) {
            // SAFETY: `v` was just validated
            let u = unsafe { LeanString::from_utf8_unchecked(v) };
            if u.as_bytes() != text.as_bytes() {
                report(format!("MISMATCH from_utf8_unchecked {} got={}", hex(v), hex(u.as_bytes())));
            }
        }
        let al = LeanString::from_utf8_lossy(v);
        let bl = String::from_utf8_lossy(v);
        if al.as_bytes() != bl.as_bytes() {
            report(format!("MISMATCH from_utf8_lossy {} got={} want={}", hex(v), hex(al.as_bytes()), hex(bl.as_bytes())));
        }
    });
    if r.is_err() {
        report(format!("MISMATCH panic in from_utf8/from_utf8_lossy {}", hex(v)));
    }
}

fn check_utf16(v: &[u16]) {
    use lean_string::LeanString;
    trace(|| format!("utf16 {}", if v.is_empty() { "-".to_string() } else { v.iter().map(|u| format!("{:04x}", u)).collect::<String>() }));
    let r = std::panic::catch_unwind(|| {
        let a = LeanString::from_utf16(v);
        let b = String::from_utf16(v).map(|s| s.into_bytes()).ok();
        match (a, b) {
            (Ok(s), None) => {
                core::mem::forget(s);
                report(format!("MISMATCH from_utf16 {:04x?} got=Ok want=Err", v));
            }
            (a, b) => {
                let a = a.map(|s| s.as_bytes().to_vec()).ok();
                if a != b {
                    report(format!("MISMATCH from_utf16 {:04x?} got={} want={}", v, a.map(|x| hex(&x)).unwrap_or("Err".into()), b.map(|x| hex(&x)).unwrap_or("Err".into())));
                }
            }
        }
        let al = LeanString::from_utf16_lossy(v);
        let bl = String::from_utf16_lossy(v);
        if al.as_bytes() != bl.as_bytes() {
            report(format!("MISMATCH from_utf16_lossy {:04x?} got={} want={}", v, hex(al.as_bytes()), hex(bl.as_bytes())));
        }
    });
    if r.is_err() {
        report(format!("MISMATCH panic in from_utf16/from_utf16_lossy {:04x?}", v));
    }
}

// ---- decoding while the allocator refuses the k-th request of the crate ----
// A well-formed input is accepted by String, so the decoding constructors must either return exactly String's text or
// panic with the ReserveError message (they have no fallible form); an ill-formed one must be rejected as by String.
// Reporting an allocation failure as "ill-formed input" (or returning a truncated text) is a mismatch.
static FAULT_AT: std::sync::atomic::AtomicI64 = std::sync::atomic::AtomicI64::new(-1);
static FAULT_SEEN: std::sync::atomic::AtomicI64 = std::sync::atomic::AtomicI64::new(0);
fn refuse_now() -> bool {
    let k = FAULT_SEEN.fetch_add(1, Ordering::SeqCst);
    k == FAULT_AT.load(Ordering::SeqCst)
}
unsafe fn f_alloc(l: std::alloc::Layout) -> *mut u8 {
    if refuse_now() { std::ptr::null_mut() } else { unsafe { std::alloc::alloc(l) } }
}
unsafe fn f_realloc(p: *mut u8, l: std::alloc::Layout, n: usize) -> *mut u8 {
    if refuse_now() { std::ptr::null_mut() } else { unsafe { std::alloc::realloc(p, l, n) } }
}
unsafe fn f_dealloc(p: *mut u8, l: std::alloc::Layout) {
    unsafe { std::alloc::dealloc(p, l) }
}
fn with_fault<T>(k: i64, f: impl FnOnce() -> T + std::panic::UnwindSafe) -> Result<T, String> {
    FAULT_SEEN.store(0, Ordering::SeqCst);
    FAULT_AT.store(k, Ordering::SeqCst);
    let r = std::panic::catch_unwind(f);
    FAULT_AT.store(-1, Ordering::SeqCst);
    r.map_err(|p| p.downcast_ref::<String>().cloned().or_else(|| p.downcast_ref::<&str>().map(|s| s.to_string())).unwrap_or_default())
}
fn decode_under_faults() -> u64 {
    use lean_string::LeanString;
    lean_string::verif_hooks::set_allocator(f_alloc, f_realloc, f_dealloc);
    let prev = std::panic::take_hook();
    std::panic::set_hook(Box::new(|_| {}));
    let texts = ["héllo wörld, ünïcödé", "水水水水水水水水水水", "ascii only, but longer than sixteen bytes", "𝄞𝄞𝄞𝄞𝄞𝄞 clef", "short é"];
    let oom = "Cannot allocate memory";
    let mut n = 0u64;
    for t in texts {
        let u16s: Vec<u16> = t.encode_utf16().collect();
        let mut bad16 = u16s.clone();
        bad16.push(0xd800);
        let mut bad8 = t.as_bytes().to_vec();
        bad8.push(0xff);
        for k in 0..5i64 {
            match with_fault(k, || LeanString::from_utf16(&u16s).map(|s| s.as_bytes().to_vec())) {
                Ok(Ok(b)) if b == t.as_bytes() => {}
                Err(m) if m.contains(oom) => {}
                other => report(format!("MISMATCH from_utf16 of well-formed {:?} with request {k} refused: {:?}", t, other.map(|r| r.map(|b| hex(&b)).map_err(|_| "Err(FromUtf16Error)")))),
            }
            match with_fault(k, || LeanString::from_utf16(&bad16).is_err()) {
                Ok(true) => {}
                Err(m) if m.contains(oom) => {}
                other => report(format!("MISMATCH from_utf16 of ill-formed input with request {k} refused: {:?}", other)),
            }
            match with_fault(k, || LeanString::from_utf16_lossy(&bad16).as_bytes().to_vec()) {
                Ok(b) if b == String::from_utf16_lossy(&bad16).as_bytes() => {}
                Err(m) if m.contains(oom) => {}
                other => report(format!("MISMATCH from_utf16_lossy with request {k} refused: {:?}", other.map(|b| hex(&b)))),
            }
            match with_fault(k, || LeanString::from_utf8(t.as_bytes()).map(|s| s.as_bytes().to_vec()).map_err(|_| ())) {
                Ok(Ok(b)) if b == t.as_bytes() => {}
                Err(m) if m.contains(oom) => {}
                other => report(format!("MISMATCH from_utf8 of well-formed {:?} with request {k} refused: {:?}", t, other.map(|r| r.map(|b| hex(&b))))),
            }
            match with_fault(k, || LeanString::from_utf8(&bad8).is_err()) {
                Ok(true) => {}
                Err(m) if m.contains(oom) => {}
                other => report(format!("MISMATCH from_utf8 of ill-formed input with request {k} refused: {:?}", other)),
            }
            match with_fault(k, || LeanString::from_utf8_lossy(&bad8).as_bytes().to_vec()) {
                Ok(b) if b == String::from_utf8_lossy(&bad8).as_bytes() => {}
                Err(m) if m.contains(oom) => {}
                other => report(format!("MISMATCH from_utf8_lossy with request {k} refused: {:?}", other.map(|b| hex(&b)))),
            }
            n += 6;
        }
    }
    std::panic::set_hook(prev);
    n
}

fn main() {
    let a: Vec<String> = std::env::args().collect();
    if a.len() < 2 {
        eprintln!("usage: sweep int|f32|f64 ...");
        std::process::exit(2);
    }
    let mut checked: u64 = 0;
    match a[1].as_str() {
        "int" => {
            let (ty, start, count, step) = (a[2].as_str(), &a[3], a[4].parse::<u64>().expect("count"), &a[5]);
            checked = count;
            match ty {
                "i8" => int_sweep!(i8, "i8", start, count, step),
                "u8" => int_sweep!(u8, "u8", start, count, step),
                "i16" => int_sweep!(i16, "i16", start, count, step),
                "u16" => int_sweep!(u16, "u16", start, count, step),
                "i32" => int_sweep!(i32, "i32", start, count, step),
                "u32" => int_sweep!(u32, "u32", start, count, step),
                "i64" => int_sweep!(i64, "i64", start, count, step),
                "u64" => int_sweep!(u64, "u64", start, count, step),
                "isize" => int_sweep!(isize, "isize", start, count, step),
                "usize" => int_sweep!(usize, "usize", start, count, step),
                "i128" => int_sweep!(i128, "i128", start, count, step),
                "u128" => int_sweep!(u128, "u128", start, count, step),
                _ => {
                    eprintln!("unknown type {ty}");
                    std::process::exit(2);
                }
            }
        }
        "f32" => {
            let start = a[2].parse::<u64>().expect("start");
            let count = a[3].parse::<u64>().expect("count");
            let step = a[4].parse::<u64>().expect("step");
            checked = count;
            par(count, |k| check_f32(start.wrapping_add(k.wrapping_mul(step)) as u32));
        }
        "f64" => {
            let seed = a[2].parse::<u64>().expect("seed");
            let count = a[3].parse::<u64>().expect("count");
            // stratified: every exponent x a few mantissas x both signs
            for e in 0..2048u64 {
                for m in [0u64, 1, 2, (1 << 52) - 1, (1 << 52) - 2, 1 << 51, 0x000F_FFFF_FFFF_FFFE, 0x0005_5555_5555_5555] {
                    for s in [0u64, 1] {
                        check_f64((s << 63) | (e << 52) | (m & ((1 << 52) - 1)));
                        checked += 1;
                    }
                }
            }
            par(count, |k| {
                let mut st = seed.wrapping_mul(0x2545F4914F6CDD1D).wrapping_add(k);
                check_f64(splitmix(&mut st));
            });
            checked += count;
        }
        "utf8" => {
            // all byte sequences up to `maxlen` over one representative of every UTF-8 byte class
            let maxlen = a[2].parse::<usize>().expect("maxlen");
            let dump = a.get(3).map(|s| s == "dump").unwrap_or(false);
            const ALPHA: [u8; 20] = [0x00, 0x41, 0x7f, 0x80, 0x8f, 0x90, 0x9f, 0xa0, 0xbf, 0xc0, 0xc2, 0xdf, 0xe0, 0xe1, 0xed, 0xef,
                                     0xf0, 0xf1, 0xf4, 0xf5];
            let mut total = 0u64;
            let mut out = String::new();
            for len in 0..=maxlen {
                let n = (ALPHA.len() as u64).pow(len as u32);
                for code in 0..n {
                    let mut v = Vec::with_capacity(len);
                    let mut c = code;
                    for _ in 0..len { v.push(ALPHA[(c % 20) as usize]); c /= 20; }
                    check_utf8(&v);
                    if dump {
                        use std::fmt::Write;
                        for b in &v { write!(out, "{:02x}", b).unwrap(); }
                        if v.is_empty() { out.push('-'); }
                        out.push(' ');
                        out.push(if std::str::from_utf8(&v).is_ok() { '1' } else { '0' });
                        out.push(' ');
                        let l = String::from_utf8_lossy(&v);
                        if l.is_empty() { out.push('-'); }
                        for b in l.as_bytes() { write!(out, "{:02x}", b).unwrap(); }
                        out.push('\n');
                    }
                    total += 1;
                }
            }
            // a completely full inline buffer (16 bytes: the last byte is text, not a tag) ending in every byte >= 0x80,
            // after ASCII and after the start of a longer character
            for last in 0x80u16..=0xff {
                for pre in [&b"abcdefghijklmno"[..], &b"abcdefghijklm\xc3"[..], &b"abcdefghijkl\xe2\x82"[..], &b"abcdefghijk\xf0\x9f\x98"[..]] {
                    let mut v = pre.to_vec();
                    while v.len() < 15 { v.push(b'z'); }
                    v.push(last as u8);
                    check_utf8(&v);
                    total += 1;
                }
            }
            // long inputs crossing the inline limit: valid text with damage sprinkled in
            let mut st = 0x1234_5678u64;
            for _ in 0..20000 {
                let len = (splitmix(&mut st) % 40) as usize;
                let mut v: Vec<u8> = "aé€𝄞 zß水".bytes().cycle().take(len).collect();
                for _ in 0..(splitmix(&mut st) % 4) {
                    if !v.is_empty() { let i = (splitmix(&mut st) as usize) % v.len(); v[i] = ALPHA[(splitmix(&mut st) % 20) as usize]; }
                }
                check_utf8(&v);
                total += 1;
            }
            // every short sequence as the tail (and as the middle) of long valid text: whole 16-byte blocks of ASCII,
            // lengths around the inline limit and multiples of 8 / 16 / 32, non-ASCII blocks
            let prefixes: Vec<Vec<u8>> = {
                let mut p: Vec<Vec<u8>> = [15usize, 16, 17, 24, 31, 32, 33, 48, 64, 65].iter().map(|&n| (0..n).map(|i| b'a' + (i % 26) as u8).collect()).collect();
                p.push("é".repeat(8).into_bytes());
                p.push("0123456789abcde€".as_bytes().to_vec());
                p.push("水".repeat(11).into_bytes());
                p
            };
            let tail_max = maxlen.min(3);
            for pre in &prefixes {
                for len in 1..=tail_max {
                    let n = (ALPHA.len() as u64).pow(len as u32);
                    for code in 0..n {
                        let mut v = pre.clone();
                        let mut c = code;
                        for _ in 0..len { v.push(ALPHA[(c % 20) as usize]); c /= 20; }
                        check_utf8(&v);
                        v.extend_from_slice(b"ok");
                        check_utf8(&v);
                        total += 2;
                    }
                }
            }
            // ... and of prefixes whose length straddles every power-of-two block size up to 1024 bytes
            for plen in (60usize..=68).chain(124..=132).chain(252..=260).chain(508..=516).chain(1020..=1028) {
                let pre: Vec<u8> = (0..plen).map(|i| b'a' + (i % 26) as u8).collect();
                for len in 1..=tail_max.min(2) {
                    let n = (ALPHA.len() as u64).pow(len as u32);
                    for code in 0..n {
                        let mut v = pre.clone();
                        let mut c = code;
                        for _ in 0..len { v.push(ALPHA[(c % 20) as usize]); c /= 20; }
                        v.extend_from_slice("é€".as_bytes());
                        check_utf8(&v);
                        total += 1;
                    }
                }
            }
            // ... and of EVERY prefix length up to 8 KiB + 8 (block sizes and thresholds need not be powers of two), followed
            // by each kind of damaged or truncated tail, at the very end of the input and before more text
            {
                let long: Vec<u8> = (0..8200usize).map(|i| b'a' + (i % 26) as u8).collect();
                let tails: [&[u8]; 9] = [b"\xc3", b"\xe2", b"\xe2\x82", b"\xf0", b"\xf0\x9f", b"\xf0\x9f\x98", b"\xff", b"\xc3\xa9", b"\xed\xa0\x80"];
                for plen in 0..=8200usize {
                    for t in tails {
                        let mut v = long[..plen].to_vec();
                        v.extend_from_slice(t);
                        check_utf8(&v);
                        if plen % 97 == 0 {
                            v.extend_from_slice(b"ok");
                            check_utf8(&v);
                        }
                        total += 1;
                    }
                }
            }
            // the byte order mark is text like any other: at the start, doubled, truncated, in the middle
            for pre in [&[0xefu8, 0xbb, 0xbf][..], &[0xef, 0xbb, 0xbf, 0xef, 0xbb, 0xbf], &[0xef, 0xbb], &[0x41, 0xef, 0xbb, 0xbf], &[0xef, 0xbf, 0xbe]] {
                for len in 0..=tail_max.min(2) {
                    let n = (ALPHA.len() as u64).pow(len as u32);
                    for code in 0..n {
                        let mut v = pre.to_vec();
                        let mut c = code;
                        for _ in 0..len { v.push(ALPHA[(c % 20) as usize]); c /= 20; }
                        check_utf8(&v);
                        v.extend_from_slice("0123456789abcdef".as_bytes());
                        check_utf8(&v);
                        total += 2;
                    }
                }
            }
            total += decode_under_faults();
            print!("{out}");
            checked = total;
        }
        "leanitems" => {
            // Extend<LeanString> / FromIterator<LeanString> with items that own heap buffers (the runner's items own none):
            // the text is String's; a receiver that owns enough room neither moves nor loses capacity (C11); the items'
            // other handles are untouched (C02)
            use lean_string::LeanString;
            let texts = ["", "a", "0123456789abcdef", "0123456789abcdefg", "a heap piece that is longer than the inline limit", "é€𝄞 multi-byte piece beyond sixteen bytes"];
            let mut total = 0u64;
            for cap in [0usize, 1, 16, 17, 40, 64, 100, 300, 1000, 5000] {
                for prefill in ["", "x", "0123456789abcdefXYZ"] {
                    for cleared in [false, true] {
                        for k1 in 0..texts.len() { for k2 in 0..texts.len() { for shared in [false, true] {
                            let mut recv = LeanString::with_capacity(cap);
                            recv.push_str(prefill);
                            if cleared { recv.clear(); }
                            let mut model = String::from(recv.as_str());
                            let items: Vec<LeanString> = [texts[k1], texts[k2]].iter().map(|t| LeanString::from(*t)).collect();
                            let keep: Vec<LeanString> = if shared { items.clone() } else { Vec::new() };
                            let need = model.len() + texts[k1].len() + texts[k2].len();
                            let owns_room = recv.is_heap_allocated() && recv.capacity() >= need;
                            let (p0, c0) = (recv.as_ptr(), recv.capacity());
                            recv.extend(items);
                            model.push_str(texts[k1]); model.push_str(texts[k2]);
                            let what = format!("with_capacity({cap}) + {:?}{} extended by LeanString items {:?}, {:?}{}", prefill, if cleared { " cleared" } else { "" }, texts[k1], texts[k2], if shared { " (shared)" } else { "" });
                            if recv.as_str() != model { report(format!("MISMATCH leanitems text: {what}: got {:?}", recv.as_str())); }
                            if owns_room && (recv.as_ptr() != p0 || recv.capacity() != c0) {
                                report(format!("MISMATCH leanitems within-capacity: {what}: capacity {c0} -> {}, moved: {}", recv.capacity(), recv.as_ptr() != p0));
                            }
                            for (h, t) in keep.iter().zip([texts[k1], texts[k2]]) {
                                if h.as_str() != t { report(format!("MISMATCH leanitems other handle changed: {what}")); }
                            }
                            let col: LeanString = [texts[k1], texts[k2]].iter().map(|t| LeanString::from(*t)).collect();
                            if col.as_str() != [texts[k1], texts[k2]].concat() { report(format!("MISMATCH leanitems collect: {:?}, {:?}", texts[k1], texts[k2])); }
                            total += 1;
                        }}}
                    }
                }
            }
            checked = total;
        }
        "utf8one" => {
            // one input (hex, or - for the empty one): the replay of a sweep mismatch or crash
            let h = if a[2] == "-" { "" } else { a[2].as_str() };
            let v: Vec<u8> = (0..h.len() / 2).map(|i| u8::from_str_radix(&h[2 * i..2 * i + 2], 16).expect("hex")).collect();
            check_utf8(&v);
            checked = 1;
        }
        "utf16one" => {
            let h = if a[2] == "-" { "" } else { a[2].as_str() };
            let v: Vec<u16> = (0..h.len() / 4).map(|i| u16::from_str_radix(&h[4 * i..4 * i + 4], 16).expect("hex")).collect();
            check_utf16(&v);
            checked = 1;
        }
        "utf16" => {
            let maxlen = a[2].parse::<usize>().expect("maxlen");
            let dump = a.get(3).map(|s| s == "dump").unwrap_or(false);
            const ALPHA: [u16; 8] = [0x0041, 0x00e9, 0xd7ff, 0xd800, 0xdbff, 0xdc00, 0xdfff, 0xe000];
            let mut total = 0u64;
            let mut out = String::new();
            for len in 0..=maxlen {
                let n = (ALPHA.len() as u64).pow(len as u32);
                for code in 0..n {
                    let mut v = Vec::with_capacity(len);
                    let mut c = code;
                    for _ in 0..len { v.push(ALPHA[(c % 8) as usize]); c /= 8; }
                    check_utf16(&v);
                    if dump {
                        use std::fmt::Write;
                        if v.is_empty() { out.push('-'); }
                        for u in &v { write!(out, "{:04x}", u).unwrap(); }
                        out.push(' ');
                        match String::from_utf16(&v) {
                            Ok(s) => { if s.is_empty() { out.push('-'); } for b in s.as_bytes() { write!(out, "{:02x}", b).unwrap(); } }
                            Err(_) => out.push_str("Err"),
                        }
                        out.push(' ');
                        let l = String::from_utf16_lossy(&v);
                        if l.is_empty() { out.push('-'); }
                        for b in l.as_bytes() { write!(out, "{:02x}", b).unwrap(); }
                        out.push('\n');
                    }
                    total += 1;
                }
            }
            print!("{out}");
            // every short sequence after long valid text (lengths around the inline limit in UTF-8 bytes)
            for plen in [7usize, 8, 9, 15, 16, 17, 32] {
                let pre: Vec<u16> = (0..plen).map(|i| 0x61 + (i % 26) as u16).collect();
                for len in 1..=maxlen.min(3) {
                    let n = (ALPHA.len() as u64).pow(len as u32);
                    for code in 0..n {
                        let mut v = pre.clone();
                        let mut c = code;
                        for _ in 0..len { v.push(ALPHA[(c % 8) as usize]); c /= 8; }
                        check_utf16(&v);
                        total += 1;
                    }
                }
            }
            // ... and after prefixes whose length straddles every power-of-two block size up to 1024 units (a decoder
            // that works block-wise must carry a pending surrogate across the boundary)
            for plen in (60usize..=68).chain(124..=132).chain(252..=260).chain(508..=516).chain(1020..=1028) {
                let pre: Vec<u16> = (0..plen).map(|i| 0x61 + (i % 26) as u16).collect();
                for len in 1..=maxlen.min(3) {
                    let n = (ALPHA.len() as u64).pow(len as u32);
                    for code in 0..n {
                        let mut v = pre.clone();
                        let mut c = code;
                        for _ in 0..len { v.push(ALPHA[(c % 8) as usize]); c /= 8; }
                        v.extend_from_slice(&[0x6f, 0x6b]);
                        check_utf16(&v);
                        total += 1;
                    }
                }
            }
            // ... and after EVERY prefix length up to 2100 units: a surrogate pair, a lone lead, a lone trail, a pair and one
            // more unit, a reversed pair (block sizes need not be powers of two)
            {
                let long: Vec<u16> = (0..2100usize).map(|i| if i % 7 == 3 { 0x00e9 } else { 0x61 + (i % 26) as u16 }).collect();
                let tails: [&[u16]; 6] = [&[0xd83d, 0xde00], &[0xd83d], &[0xde00], &[0xd83d, 0xde00, 0x21], &[0xde00, 0xd83d], &[0xdbff, 0xdfff, 0xdbff, 0xdfff]];
                for plen in 0..=2100usize {
                    for t in tails {
                        let mut v = long[..plen].to_vec();
                        v.extend_from_slice(t);
                        check_utf16(&v);
                        total += 1;
                    }
                }
            }
            // the byte order marks are ordinary units
            for pre in [&[0xfeffu16][..], &[0xfffe], &[0xfeff, 0xfeff], &[0x41, 0xfeff]] {
                for len in 0..=maxlen.min(3) {
                    let n = (ALPHA.len() as u64).pow(len as u32);
                    for code in 0..n {
                        let mut v = pre.to_vec();
                        let mut c = code;
                        for _ in 0..len { v.push(ALPHA[(c % 8) as usize]); c /= 8; }
                        check_utf16(&v);
                        total += 1;
                    }
                }
            }
            total += decode_under_faults();
            let mut st = 0x9876_5432u64;
            for _ in 0..20000 {
                let len = (splitmix(&mut st) % 30) as usize;
                let v: Vec<u16> = (0..len).map(|_| if splitmix(&mut st) % 5 == 0 { ALPHA[(splitmix(&mut st) % 8) as usize] } else { 0x61 + (splitmix(&mut st) % 26) as u16 }).collect();
                check_utf16(&v);
                total += 1;
            }
            checked = total;
        }
        _ => {
            eprintln!("usage: sweep int|f32|f64|utf8|utf16|leanitems ...");
            std::process::exit(2);
        }
    }
    for l in REPORT.lock().unwrap().iter() {
        println!("{l}");
    }
    println!("checked {} mismatches {}", checked, MISMATCHES.load(Ordering::Relaxed));
}
