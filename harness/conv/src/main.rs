//! conv — C19: serde and arbitrary integrations compared with String / &str on the same inputs.
//!   conv <seed> <count>     prints MISMATCH lines (at most 20) and `checked <n> mismatches <k>`
use lean_string::LeanString;
use serde::de::value::{BorrowedBytesDeserializer, BorrowedStrDeserializer, BytesDeserializer, Error as ValueError, StrDeserializer, StringDeserializer};
use serde::de::IntoDeserializer;
use serde::Deserialize;

static mut MISMATCHES: u64 = 0;
fn report(line: String) {
    unsafe {
        MISMATCHES += 1;
        if MISMATCHES <= 20 {
            println!("MISMATCH {line}");
        }
    }
}
fn hex(v: &[u8]) -> String { v.iter().map(|b| format!("{:02x}", b)).collect() }
fn splitmix(s: &mut u64) -> u64 {
    *s = s.wrapping_add(0x9E3779B97F4A7C15);
    let mut z = *s;
    z = (z ^ (z >> 30)).wrapping_mul(0xBF58476D1CE4E5B9);
    z = (z ^ (z >> 27)).wrapping_mul(0x94D049BB133111EB);
    z ^ (z >> 31)
}

// ---- a serializer that records which primitive it was handed, for either answer to is_human_readable() ----
struct Rec {
    human: bool,
}
#[derive(Debug)]
struct RecErr;
impl std::fmt::Display for RecErr {
    fn fmt(&self, f: &mut std::fmt::Formatter<'_>) -> std::fmt::Result { f.write_str("rec") }
}
impl std::error::Error for RecErr {}
impl serde::ser::Error for RecErr {
    fn custom<T: std::fmt::Display>(_: T) -> Self { RecErr }
}
macro_rules! other {
    ($($name:ident($($t:ty),*)),* $(,)?) => { $( fn $name(self $(, _: $t)*) -> Result<String, RecErr> { Ok(stringify!($name).to_string()) } )* };
}
impl serde::Serializer for Rec {
    type Ok = String;
    type Error = RecErr;
    type SerializeSeq = serde::ser::Impossible<String, RecErr>;
    type SerializeTuple = serde::ser::Impossible<String, RecErr>;
    type SerializeTupleStruct = serde::ser::Impossible<String, RecErr>;
    type SerializeTupleVariant = serde::ser::Impossible<String, RecErr>;
    type SerializeMap = serde::ser::Impossible<String, RecErr>;
    type SerializeStruct = serde::ser::Impossible<String, RecErr>;
    type SerializeStructVariant = serde::ser::Impossible<String, RecErr>;
    fn is_human_readable(&self) -> bool { self.human }
    fn serialize_str(self, v: &str) -> Result<String, RecErr> { Ok(format!("str:{v}")) }
    fn serialize_bytes(self, v: &[u8]) -> Result<String, RecErr> { Ok(format!("bytes:{}", hex(v))) }
    other!(serialize_bool(bool), serialize_i8(i8), serialize_i16(i16), serialize_i32(i32), serialize_i64(i64), serialize_u8(u8),
           serialize_u16(u16), serialize_u32(u32), serialize_u64(u64), serialize_f32(f32), serialize_f64(f64), serialize_char(char),
           serialize_none(), serialize_unit(), serialize_unit_struct(&'static str));
    fn serialize_some<T: ?Sized + serde::Serialize>(self, _: &T) -> Result<String, RecErr> { Ok("some".into()) }
    fn serialize_unit_variant(self, _: &'static str, _: u32, _: &'static str) -> Result<String, RecErr> { Ok("unit_variant".into()) }
    fn serialize_newtype_struct<T: ?Sized + serde::Serialize>(self, _: &'static str, _: &T) -> Result<String, RecErr> { Ok("newtype_struct".into()) }
    fn serialize_newtype_variant<T: ?Sized + serde::Serialize>(self, _: &'static str, _: u32, _: &'static str, _: &T) -> Result<String, RecErr> { Ok("newtype_variant".into()) }
    fn serialize_seq(self, _: Option<usize>) -> Result<Self::SerializeSeq, RecErr> { Err(RecErr) }
    fn serialize_tuple(self, _: usize) -> Result<Self::SerializeTuple, RecErr> { Err(RecErr) }
    fn serialize_tuple_struct(self, _: &'static str, _: usize) -> Result<Self::SerializeTupleStruct, RecErr> { Err(RecErr) }
    fn serialize_tuple_variant(self, _: &'static str, _: u32, _: &'static str, _: usize) -> Result<Self::SerializeTupleVariant, RecErr> { Err(RecErr) }
    fn serialize_map(self, _: Option<usize>) -> Result<Self::SerializeMap, RecErr> { Err(RecErr) }
    fn serialize_struct(self, _: &'static str, _: usize) -> Result<Self::SerializeStruct, RecErr> { Err(RecErr) }
    fn serialize_struct_variant(self, _: &'static str, _: u32, _: &'static str, _: usize) -> Result<Self::SerializeStructVariant, RecErr> { Err(RecErr) }
}

fn check_str(s: &str) {
    // the same primitive, with the same payload, as String — whatever the serializer says about human readability
    for human in [true, false] {
        use serde::Serialize;
        let a = LeanString::from(s).serialize(Rec { human }).ok();
        let b = String::from(s).serialize(Rec { human }).ok();
        if a != b { report(format!("serialize (is_human_readable = {human}) {:?}: {:?} vs {:?}", s, a, b)); }
    }
    // Serialize: exactly what String serialises to
    let a = serde_json::to_string(&LeanString::from(s)).unwrap();
    let b = serde_json::to_string(&String::from(s)).unwrap();
    if a != b { report(format!("serialize {:?}: {a} vs {b}", s)); }
    // Deserialize from JSON text
    let la: Result<LeanString, _> = serde_json::from_str(&b);
    let sa: Result<String, _> = serde_json::from_str(&b);
    match (la, sa) {
        (Ok(x), Ok(y)) if x.as_str() == y => {}
        (x, y) => report(format!("json roundtrip {:?}: {:?} vs {:?}", s, x.map(|v| v.as_str().to_string()).ok(), y.ok())),
    }
    // str / borrowed str / owned String deserializers
    let d1: StrDeserializer<ValueError> = s.into_deserializer();
    let d2: BorrowedStrDeserializer<ValueError> = BorrowedStrDeserializer::new(s);
    let d3: StringDeserializer<ValueError> = String::from(s).into_deserializer();
    for (name, r) in [("str", LeanString::deserialize(d1)), ("borrowed_str", LeanString::deserialize(d2)), ("string", LeanString::deserialize(d3))] {
        match r {
            Ok(x) if x.as_str() == s => {}
            other => report(format!("deserialize {name} {:?}: {:?}", s, other.map(|v| v.as_str().to_string()).ok())),
        }
    }
}

fn check_bytes(v: &[u8]) {
    let want = std::str::from_utf8(v).ok().map(|s| s.to_string());
    let d1: BytesDeserializer<ValueError> = BytesDeserializer::new(v);
    let d2: BorrowedBytesDeserializer<ValueError> = BorrowedBytesDeserializer::new(v);
    for (name, r) in [("bytes", LeanString::deserialize(d1)), ("borrowed_bytes", LeanString::deserialize(d2))] {
        let got = r.ok().map(|x| x.as_str().to_string());
        if got != want { report(format!("deserialize {name} {}: {} vs {}", brief(v), brief_s(&got), brief_s(&want))); }
    }
    // String's own visitor on the same deserializer is the second oracle
    let d3: BytesDeserializer<ValueError> = BytesDeserializer::new(v);
    let s = String::deserialize(d3).ok();
    if s != want { report(format!("oracle disagreement on {}", brief(v))); }
}

fn brief(data: &[u8]) -> String {
    if data.len() <= 64 { hex(data) } else { format!("<{} bytes starting {}>", data.len(), hex(&data[..16])) }
}
fn brief_s(s: &Option<String>) -> String {
    match s { None => "None".into(), Some(t) if t.len() <= 64 => format!("Some({:?})", t), Some(t) => format!("Some(<{} bytes>)", t.len()) }
}
fn check_arbitrary(data: &[u8]) {
    use arbitrary::{Arbitrary, Unstructured};
    let mut u1 = Unstructured::new(data);
    let mut u2 = Unstructured::new(data);
    let a = LeanString::arbitrary(&mut u1).ok().map(|x| x.as_str().to_string());
    let b = <&str>::arbitrary(&mut u2).ok().map(|x| x.to_string());
    if a != b { report(format!("arbitrary {}: {} vs {}", brief(data), brief_s(&a), brief_s(&b))); }
    if u1.len() != u2.len() { report(format!("arbitrary consumed differently on {}", brief(data))); }
    let a = LeanString::arbitrary_take_rest(Unstructured::new(data)).ok().map(|x| x.as_str().to_string());
    let b = <&str>::arbitrary_take_rest(Unstructured::new(data)).ok().map(|x| x.to_string());
    if a != b { report(format!("arbitrary_take_rest {}: {} vs {}", brief(data), brief_s(&a), brief_s(&b))); }
    if LeanString::size_hint(0) != <&str>::size_hint(0) { report("size_hint".into()); }
}

fn main() {
    let a: Vec<String> = std::env::args().collect();
    let seed: u64 = a.get(1).and_then(|s| s.parse().ok()).unwrap_or(1);
    let count: u64 = a.get(2).and_then(|s| s.parse().ok()).unwrap_or(20000);
    let mut checked = 0u64;
    // strings: escapes, multi-byte, lengths around the inline limit
    let pieces = ["", "a", "\"", "\\", "\n", "\u{0}", "\u{7f}", "é", "€", "𝄞", "\u{2028}", " ", "/", "\u{1f}", "ß水", "\u{feff}", "\u{fffd}"];
    let mut st = seed.wrapping_mul(0x2545F4914F6CDD1D) ^ 0xABCDEF;
    for n in 0..count {
        let target = [0usize, 1, 7, 15, 16, 17, 18, 31, 32, 33, 64][(n % 11) as usize];
        let mut s = String::new();
        while s.len() < target { s.push_str(pieces[(splitmix(&mut st) % pieces.len() as u64) as usize]); if s.is_empty() { s.push('x'); } }
        check_str(&s);
        // the same text handed over as bytes (what a binary format does)
        check_bytes(s.as_bytes());
        checked += 1;
    }
    // a byte order mark is text like any other: at the start, alone, before ill-formed input
    for v in [&b"\xef\xbb\xbf"[..], b"\xef\xbb\xbfid", b"\xef\xbb\xbf\xef\xbb\xbf", b"\xef\xbb\xbf\xff", b"\xef\xbb", b"a\xef\xbb\xbf"] {
        check_bytes(v);
        check_str(&String::from_utf8_lossy(v));
        check_arbitrary(v);
        checked += 1;
    }
    // long inputs (limits a wrapper may have put in: 2^16, 2^20): text of n bytes, for `arbitrary` followed by a length
    // suffix that selects all of it
    for n in [255usize, 256, 65534, 65535, 65536, 65537, 70000, (1 << 20) + 3] {
        let mut v: Vec<u8> = "aé€𝄞 zß水".bytes().cycle().take(n).collect();
        while std::str::from_utf8(&v).is_err() { v.pop(); }
        check_arbitrary(&v);
        check_bytes(&v);
        v.extend_from_slice(&[0xff; 8]);
        check_arbitrary(&v);
        checked += 3;
    }
    // bytes: all sequences up to length 4 over the UTF-8 class alphabet + damaged long texts
    const ALPHA: [u8; 20] = [0x00, 0x41, 0x7f, 0x80, 0x8f, 0x90, 0x9f, 0xa0, 0xbf, 0xc0, 0xc2, 0xdf, 0xe0, 0xe1, 0xed, 0xef, 0xf0, 0xf1, 0xf4, 0xf5];
    for len in 0..=4usize {
        for code in 0..(20u64.pow(len as u32)) {
            let mut v = Vec::new();
            let mut c = code;
            for _ in 0..len { v.push(ALPHA[(c % 20) as usize]); c /= 20; }
            check_bytes(&v);
            checked += 1;
        }
    }
    for _ in 0..count {
        let len = (splitmix(&mut st) % 40) as usize;
        let mut v: Vec<u8> = "aé€𝄞 zß水".bytes().cycle().take(len).collect();
        for _ in 0..(splitmix(&mut st) % 3) {
            if !v.is_empty() { let i = (splitmix(&mut st) as usize) % v.len(); v[i] = ALPHA[(splitmix(&mut st) % 20) as usize]; }
        }
        check_bytes(&v);
        check_arbitrary(&v);
        let raw: Vec<u8> = (0..len).map(|_| splitmix(&mut st) as u8).collect();
        check_arbitrary(&raw);
        checked += 3;
    }
    println!("checked {} mismatches {}", checked, unsafe { MISMATCHES });
}
