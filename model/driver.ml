(* driver.ml — reads a case file (harness/FORMAT.md) and prints the trace the extracted Coq model predicts.
   All behaviour comes from Model_ex (extracted); this file only parses, converts numbers and prints. *)
open Model_ex

(* ---------- number conversions ---------- *)
let rec pos_of_int (i : int) : positive =
  if i = 1 then XH else if i land 1 = 0 then XO (pos_of_int (i lsr 1)) else XI (pos_of_int (i lsr 1))
let n_of_int (i : int) : n = if i = 0 then N0 else Npos (pos_of_int i)
let rec int_of_pos (p : positive) : int =
  match p with XH -> 1 | XO q -> 2 * int_of_pos q | XI q -> 2 * int_of_pos q + 1
let int_of_n (x : n) : int = match x with N0 -> 0 | Npos p -> int_of_pos p
let rec nat_of_int (i : int) : nat = if i <= 0 then O else S (nat_of_int (i - 1))
let rec int_of_nat (x : nat) : int = match x with O -> 0 | S y -> 1 + int_of_nat y

(* decimal string -> n, through the model's own arithmetic so that values up to 2^64 and beyond are exact *)
let n_of_dec (s : string) : n =
  let ten = n_of_int 10 in
  let acc = ref N0 in
  String.iter (fun c ->
    if c < '0' || c > '9' then failwith ("bad number " ^ s);
    acc := N.add (N.mul !acc ten) (n_of_int (Char.code c - 48))) s;
  !acc

let z_of_dec (s : string) : z =
  if String.length s > 0 && s.[0] = '-' then
    (match n_of_dec (String.sub s 1 (String.length s - 1)) with N0 -> Z0 | Npos p -> Zneg p)
  else (match n_of_dec s with N0 -> Z0 | Npos p -> Zpos p)

let int_ty_of (s : string) : int_ty =
  let s = if String.length s > 3 && String.sub s 0 3 = "nz_" then String.sub s 3 (String.length s - 3) else s in
  match s with
  | "i8" -> TI8 | "u8" -> TU8 | "i16" -> TI16 | "u16" -> TU16 | "i32" -> TI32 | "u32" -> TU32
  | "i64" -> TI64 | "u64" -> TU64 | "isize" -> TIsize | "usize" -> TUsize
  | _ -> failwith ("bad int type " ^ s)

let opt_nat_of (s : string) : nat option =
  let i = int_of_string s in if i < 0 then None else Some (nat_of_int i)

let bytes_of_hex (s : string) : n list =
  if s = "-" then [] else begin
    let l = String.length s / 2 in
    List.init l (fun i -> n_of_int (int_of_string ("0x" ^ String.sub s (2 * i) 2)))
  end
let hex_of_bytes (l : n list) : string =
  if l = [] then "-" else String.concat "" (List.map (fun b -> Printf.sprintf "%02x" (int_of_n b)) l)

(* ---------- printing ---------- *)
let outcome_str (o : outcome) : string =
  match o with
  | OkUnit -> "ok" | OkNone -> "ok_none" | OkChar c -> Printf.sprintf "ok_char:%d" (int_of_n c)
  | ErrReserve -> "err_reserve" | ErrFmt -> "err_fmt" | PanicReserve -> "panic_reserve"
  | PanicIndex -> "panic_index" | PanicUser -> "panic_user" | PanicTooLong -> "panic_toolong"
  | Skip -> "skip"
  | UbOut u ->
      "UB_" ^ (match u with
               | UUseAfterFree -> "use_after_free" | UOob -> "out_of_bounds" | UBadSize -> "bad_layout"
               | UDoubleFree -> "double_free" | UStaticWrite -> "static_write" | UNoBuf -> "unknown_buffer"
               | UUnreachable -> "unreachable")

let event_str (e : event) : string option =
  match e with
  | EAlloc (sz, Some b) -> Some (Printf.sprintf "a%d:%d" (int_of_n sz) (int_of_nat b))
  | EAlloc (sz, None) -> Some (Printf.sprintf "A%d" (int_of_n sz))
  | ERealloc (b, o, nw, true) -> Some (Printf.sprintf "r%d:%d:%d" (int_of_n o) (int_of_n nw) (int_of_nat b))
  | ERealloc (b, o, nw, false) -> Some (Printf.sprintf "R%d:%d:%d" (int_of_n o) (int_of_n nw) (int_of_nat b))
  | EDealloc (b, sz) -> Some (Printf.sprintf "d%d:%d" (int_of_n sz) (int_of_nat b))
  | _ -> None

let big_dec (x : n) : string =
  (* sizes in refused requests may exceed OCaml's int; print through the model's division *)
  let ten = n_of_int 10 in
  let rec go x acc =
    match x with
    | N0 -> if acc = "" then "0" else acc
    | _ -> go (N.div x ten) (string_of_int (int_of_n (N.modulo x ten)) ^ acc)
  in go x ""

let event_str_big (e : event) : string option =
  match e with
  | EAlloc (sz, None) -> Some ("A" ^ big_dec sz)
  | ERealloc (b, o, nw, false) -> Some (Printf.sprintf "R%s:%s:%d" (big_dec o) (big_dec nw) (int_of_nat b))
  | _ -> event_str e

let slot_str (m : mem) (s : repr option) : string =
  match s with
  | None -> "N"
  | Some r ->
      let t = hex_of_bytes (text_of m r) in
      let c = big_dec (cap_of m r) in
      (match r with
       | Inline _ -> Printf.sprintf "I%s/%s" t c
       | Heap (b, _) -> Printf.sprintf "H%s/%s/%d/%d" t c (int_of_nat b) (int_of_n (rc_of m r))
       | Static (s, _) -> Printf.sprintf "S%s/%s/%d" t c (int_of_nat s))

(* ---------- parsing ---------- *)
let mode_of = function "plain" -> Plain | "try" -> Try | s -> failwith ("bad mode " ^ s)

let op_of (toks : string list) : op =
  match toks with
  | m :: name :: args ->
      let m = mode_of m in
      (* `<name>:<item type>`: which Extend / FromIterator impl the runner goes through; all of them are push / push_str
         per item in the crate, and one operation in the model *)
      let name = match String.index_opt name ':' with Some k -> String.sub name 0 k | None -> name in
      let nat s = nat_of_int (int_of_string s) in
      (match name, args with
       | "new", [] -> ONew
       | "from_str", [_route; h] -> OFromStr (m, bytes_of_hex h)
       | "from_static", [s] -> OFromStatic (nat s)
       | "with_capacity", [n] -> OWithCapacity (m, n_of_dec n)
       | "from_char", [_route; c] -> OFromChar (n_of_dec c)
       | "from_bool", [b] -> OFromBool (b = "1")
       | "from_int", [ty; v] when (let l = String.length ty in l >= 4 && String.sub ty (l - 4) 4 = "i128" || l >= 4 && String.sub ty (l - 4) 4 = "u128") ->
           (* 128-bit types go through itoa (an external crate) and then from_str: itoa is an oracle whose
              output is the canonical decimal string already present in the case file *)
           OFromStr (m, List.init (String.length v) (fun i -> n_of_int (Char.code v.[i])))
       | "from_int", [ty; v] -> OFromInt (m, int_ty_of ty, z_of_dec v)
       | "clone", [_route; i] -> OClone (nat i)
       | "collect_chars", hint :: pa :: cs -> OCollectChars (n_of_dec hint, opt_nat_of pa, List.map n_of_dec cs)
       | "collect_strs", pa :: ss -> OCollectStrs (opt_nat_of pa, List.map bytes_of_hex ss)
       | "display", ea :: pa :: ps -> ODisplay (m, opt_nat_of ea, opt_nat_of pa, List.map bytes_of_hex ps)
       | "clone_from", [i; j] -> OCloneFrom (nat i, nat j)
       | "drop", [i] -> ODrop (nat i)
       | "push", [i; c] -> OPush (m, nat i, n_of_dec c)
       | "push_str", ["add"; i; h] -> OAdd (nat i, bytes_of_hex h)
       | "push_str", [_route; i; h] -> OPushStr (m, nat i, bytes_of_hex h)
       | "pop", [i] -> OPop (m, nat i)
       | "remove", [i; idx] -> ORemove (m, nat i, n_of_dec idx)
       | "insert", [i; idx; c] -> OInsert (m, nat i, n_of_dec idx, n_of_dec c)
       | "insert_str", [i; idx; h] -> OInsertStr (m, nat i, n_of_dec idx, bytes_of_hex h)
       | "truncate", [i; n] -> OTruncate (m, nat i, n_of_dec n)
       | "clear", [i] -> OClear (nat i)
       | "retain", [i; pa; bits] ->
           ORetain (m, nat i, opt_nat_of pa, List.init (String.length bits) (fun k -> bits.[k] = '1'))
       | "reserve", [i; n] -> OReserve (m, nat i, n_of_dec n)
       | "shrink_to", [i; n] -> OShrinkTo (m, nat i, n_of_dec n)
       | "shrink_to_fit", [i] -> OShrinkTo (m, nat i, N0)
       | "extend_chars", i :: hint :: pa :: cs -> OExtendChars (nat i, n_of_dec hint, opt_nat_of pa, List.map n_of_dec cs)
       | "extend_strs", i :: pa :: ss -> OExtendStrs (nat i, opt_nat_of pa, List.map bytes_of_hex ss)
       | "write_fmt", i :: ea :: pa :: ps -> OWriteFmt (nat i, opt_nat_of ea, opt_nat_of pa, List.map bytes_of_hex ps)
       | _ -> failwith ("bad op " ^ name))
  | _ -> failwith "bad op line"

(* routes whose real API has no try form are run as plain (FORMAT.md) *)
let normalise (toks : string list) : string list =
  match toks with
  | "try" :: "from_str" :: route :: rest when route <> "parse" && route <> "tls" -> "plain" :: "from_str" :: route :: rest
  | "try" :: "push_str" :: route :: rest when route <> "push_str" -> "plain" :: "push_str" :: route :: rest
  | _ -> toks

let split (s : string) : string list = List.filter (fun x -> x <> "") (String.split_on_char ' ' (String.trim s))

(* `driver --utf8 FILE`: each line `<HEX> <std verdict>`; prints the lines on which the model's utf8_valid disagrees *)
let utf8_mode (file : string) : unit =
  let ic = open_in file in
  let n = ref 0 and bad = ref 0 in
  (try
     while true do
       let line = input_line ic in
       match split line with
       | [h; v] ->
           incr n;
           let m = if utf8_valid (bytes_of_hex h) then "1" else "0" in
           if m <> v then begin incr bad; if !bad <= 10 then Printf.printf "DISAGREE %s model=%s std=%s\n" h m v end
       | [h; v; l] ->
           (* with the lossy text: Lossy.lossy against String::from_utf8_lossy *)
           incr n;
           let m = if utf8_valid (bytes_of_hex h) then "1" else "0" in
           let ml = hex_of_bytes (lossy (bytes_of_hex h)) in
           if m <> v then begin incr bad; if !bad <= 10 then Printf.printf "DISAGREE %s model=%s std=%s\n" h m v end
           else if ml <> l then begin incr bad; if !bad <= 10 then Printf.printf "DISAGREE lossy %s model=%s std=%s\n" h ml l end
       | _ -> ()
     done
   with End_of_file -> ());
  Printf.printf "utf8_valid compared %d disagreements %d\n" !n !bad

(* `driver --pushloop TOTAL PATTERN`: the extracted bookkeeping machine GrowSim.gstep run over the same piece widths as
   `runner --pushloop`; prints one `G <len before> <capacity after>` line per request and a final END line *)
let pushloop_mode (total : int) (pattern : string) : unit =
  let st = ref { gl = N0; gc = n_of_int 16; gk = O; gcp = N0 } in
  let k = ref 0 and len = ref 0 and i = ref 0 in
  let np = String.length pattern in
  let continue = ref true in
  while !continue do
    let w = Char.code pattern.[!i mod np] - 48 in
    if !len + w > total then continue := false else begin
      let st' = gstep !st (n_of_int w) in
      let k' = int_of_nat st'.gk in
      if k' <> !k then begin k := k'; Printf.printf "G %d %d\n" !len (int_of_n st'.gc) end;
      st := st'; len := !len + w; incr i
    end
  done;
  Printf.printf "END len=%d cap=%d requests=%d copied=%d\n" (int_of_n !st.gl) (int_of_n !st.gc) (int_of_nat !st.gk) (int_of_n !st.gcp)

(* `driver --utf16 FILE`: each line `<u16 units, 4 hex digits each, or -> <std from_utf16: Err | utf-8 hex> <std lossy utf-8 hex>`;
   the model: Lossy.utf16_decode, errors = lone surrogates, lossy = U+FFFD for each error *)
let utf16_mode (file : string) : unit =
  let ic = open_in file in
  let n = ref 0 and bad = ref 0 in
  let units_of (s : string) : n list =
    if s = "-" then [] else List.init (String.length s / 4) (fun i -> n_of_int (int_of_string ("0x" ^ String.sub s (4 * i) 4))) in
  (try
     while true do
       let line = input_line ic in
       match split line with
       | [u; strict; lossy_std] ->
           incr n;
           let d = utf16_decode (units_of u) in
           let ok = List.for_all (fun o -> o <> None) d in
           let enc o = match o with Some c -> encode_cp c | None -> encode_cp (n_of_int 65533) in
           let ms = if ok then hex_of_bytes (List.concat (List.map enc d)) else "Err" in
           let ml = hex_of_bytes (List.concat (List.map enc d)) in
           if ms <> strict || ml <> lossy_std then begin
             incr bad; if !bad <= 10 then Printf.printf "DISAGREE utf16 %s model=%s/%s std=%s/%s\n" u ms ml strict lossy_std end
       | _ -> ()
     done
   with End_of_file -> ());
  Printf.printf "utf16_decode compared %d disagreements %d\n" !n !bad

let () =
  if Array.length Sys.argv > 2 && Sys.argv.(1) = "--utf8" then (utf8_mode Sys.argv.(2); exit 0);
  if Array.length Sys.argv > 2 && Sys.argv.(1) = "--utf16" then (utf16_mode Sys.argv.(2); exit 0);
  if Array.length Sys.argv > 3 && Sys.argv.(1) = "--pushloop" then (pushloop_mode (int_of_string Sys.argv.(2)) Sys.argv.(3); exit 0);
  let ic = if Array.length Sys.argv > 1 then open_in Sys.argv.(1) else stdin in
  let buf = Buffer.create 65536 in
  let case_id = ref "" and statics = ref [] and fails = ref [] and limit = ref (n_of_int 1073741824) in
  let ops = ref [] in
  let run_case () =
    let w0 = world0 (List.rev !statics) (orc_of !fails !limit) in
    let w = ref w0 in
    List.iteri (fun step o ->
      let nlog0 = List.length (log (wmem !w)) in
      let (w', out) = exec !w o in
      let lg = log (wmem w') in
      let newev = List.rev (List.filteri (fun i _ -> i < List.length lg - nlog0) lg) in
      let evs = List.filter_map event_str_big newev in
      let slots = List.map (slot_str (wmem w')) (pool w') in
      Buffer.add_string buf
        (Printf.sprintf "R %s %d %s %s %s\n" !case_id step (outcome_str out)
           (if evs = [] then "-" else String.concat "," evs)
           (if slots = [] then "-" else String.concat ";" slots));
      w := w') (List.rev !ops);
    let wf = drop_all !w in
    Buffer.add_string buf (Printf.sprintf "E %s %d\n" !case_id (int_of_n (live_blocks (wmem wf))))
  in
  (try
     while true do
       let line = input_line ic in
       match split line with
       | [] -> ()
       | "case" :: id :: _ -> case_id := id; statics := []; fails := []; limit := n_of_int 1073741824; ops := []
       | "static" :: h :: _ -> statics := bytes_of_hex h :: !statics
       | "fail" :: ks -> fails := List.map n_of_dec ks
       | "limit" :: l :: _ -> limit := n_of_dec l
       | "op" :: toks -> ops := op_of (normalise toks) :: !ops
       | "end" :: _ -> run_case ()
       | t :: _ when String.length t > 0 && t.[0] = '#' -> ()
       | _ -> failwith ("bad line: " ^ line)
     done
   with End_of_file -> ());
  print_string (Buffer.contents buf)
