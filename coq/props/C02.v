(* C02 — clone-on-write isolation: mutating one handle never changes another. *)
From Coq Require Import Lia Arith ZArith List Bool.
From LS Require Import Base Utf8 Utf8Spec Cmd Impl Exec Inv Specs WF Spec Refine Main.
From LSProps Require Import C01.
Open Scope N_scope.

(* one step, whatever its outcome (success, allocation error, index panic, callback panic): every slot that is not
   the target keeps its handle bit for bit, reads the same text and reports the same capacity *)
Theorem C02_frame : forall w o w' out j rj,
  WF w -> op_wf (statics (wmem w)) o -> exec w o = (w', out) ->
  target o <> Some j -> nth_error (pool w) j = Some (Some rj) ->
  nth_error (pool w') j = Some (Some rj)
  /\ text_of (wmem w') rj = text_of (wmem w) rj /\ cap_of (wmem w') rj = cap_of (wmem w) rj.
Proof.
  intros w o w' out j rj HW Hwf He Ht Hj. exact (ep_frame _ _ _ _ (C01_step w o w' out HW Hwf He) j rj Ht Hj).
Qed.

(* histories: a slot's text changes only at steps that target it *)
Theorem C02_histories : forall ops w j rj,
  WF w -> Forall (op_wf (statics (wmem w))) ops -> Forall (fun o => target o <> Some j) ops ->
  nth_error (pool w) j = Some (Some rj) ->
  let w' := fst (execs w ops) in
  nth_error (pool w') j = Some (Some rj) /\ text_of (wmem w') rj = text_of (wmem w) rj.
Proof.
  induction ops as [|o ops IH] using rev_ind; intros w j rj HW Hwf Ht Hj.
  - cbn. auto.
  - apply Forall_app in Hwf. destruct Hwf as (Hwf1 & Hwf2). inversion Hwf2 as [|? ? Hwo _]; subst.
    apply Forall_app in Ht. destruct Ht as (Ht1 & Ht2). inversion Ht2 as [|? ? Hto _]; subst.
    specialize (IH w j rj HW Hwf1 Ht1 Hj). cbv zeta in *. rewrite execs_snoc.
    (* the intermediate world is well formed with the same statics *)
    assert (Hmid : WF (fst (execs w ops)) /\ statics (wmem (fst (execs w ops))) = statics (wmem w)).
    { clear IH Hj Ht1 Ht2 Hto Hwf2 Hwo. induction ops as [|o' ops' IH'] using rev_ind; [cbn; auto|].
      apply Forall_app in Hwf1. destruct Hwf1 as (H1 & H2). inversion H2 as [|? ? Hwo' _]; subst.
      destruct (IH' H1) as (HWm & Hsm). rewrite execs_snoc. destruct (execs w ops') as [w1 o1]. cbn [fst] in *.
      destruct (exec w1 o') as [w2 out2] eqn:He2. cbn [fst].
      assert (Hw' : op_wf (statics (wmem w1)) o') by (rewrite Hsm; exact Hwo').
      pose proof (C01_step w1 o' w2 out2 HWm Hw' He2) as [P1 _ P3 _ _]. split; [exact P1|congruence]. }
    destruct (execs w ops) as [w1 outs1]. cbn [fst] in *. destruct Hmid as (HW1 & Hs1). destruct IH as (Hj1 & Ht1').
    destruct (exec w1 o) as [w2 out] eqn:He. cbn [fst].
    assert (Hwo' : op_wf (statics (wmem w1)) o) by (rewrite Hs1; exact Hwo).
    destruct (C02_frame w1 o w2 out j rj HW1 Hwo' He Hto Hj1) as (A & B & _). split; [exact A|congruence].
Qed.

(* the case the property names: two handles share one buffer with different lengths; writing through one (here a
   push that happens in place once the other owner is gone) leaves the third clone's text alone *)
Example C02_example :
  let t20 := [97;98;99;100;101;102;103;104;105;106;107;108;109;110;111;112;113;114;115;116] in
  let ops := [OFromStr Plain t20; OClone 0%nat; OClone 0%nat; OTruncate Plain 1%nat 4; ODrop 0%nat;
              OPushStr Plain 1%nat [88;89;90]; ORemove Plain 1%nat 0; OInsertStr Plain 1%nat 1 [33;33]] in
  abs (fst (execs (world0 [] (fun _ _ => false)) ops))
  = [None; Some [98;33;33;99;100;88;89;90]; Some t20].
Proof. vm_compute. reflexivity. Qed.

Print Assumptions C02_frame.
Print Assumptions C02_histories.
Print Assumptions C02_example.
