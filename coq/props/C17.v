(* C17 — equality, ordering, hashing and formatting depend on the text alone. *)
From Coq Require Import Lia Arith ZArith List Bool.
From LS Require Import Base Utf8 Utf8Spec Cmd Impl Wp Exec Inv Specs Specs2 WF Spec Refine Main.
From LSGen Require Import GenSrc.
From LSProps Require Import C01.
From Coq Require Import String.
Open Scope N_scope.

(* PartialEq / Ord / Hash / Display / Debug / Borrow / AsRef / Deref all go through as_str() (checked textually by
   the harness build: lib.rs:935-1069); what they see is the result of as_bytes.  Theorem: as_bytes returns exactly
   the abstract text, whatever the storage state, capacity, sharing or stale bytes behind the end - so two handles
   with the same text are indistinguishable through it - and it changes nothing. *)
Theorem C17_as_bytes_is_text : forall w i r,
  WF w -> nth_error (pool w) i = Some (Some r) ->
  exists m', run (as_bytes r) (wmem w) = (OVal (text_of (wmem w) r), m')
             /\ heap m' = heap (wmem w) /\ statics m' = statics (wmem w).
Proof.
  intros w i r HW Hi. pose proof (wf_handles _ HW _ _ Hi) as Hr.
  assert (H : wp (as_bytes r) (fun o m' => o = OVal (text_of (wmem w) r) /\ heap m' = heap (wmem w)
                                           /\ statics m' = statics (wmem w)) (wmem w)).
  { eapply as_bytes_wp; [exact (wf_mi _ HW)|exact Hr|]. intros m' (E & _) Hh _. auto. }
  unfold wp in H. destruct (run (as_bytes r) (wmem w)) as [o m']. destruct H as (-> & H1 & H2). exists m'. auto.
Qed.

Theorem C17_repr_independent : forall w i j r1 r2,
  WF w -> nth_error (pool w) i = Some (Some r1) -> nth_error (pool w) j = Some (Some r2) ->
  text_of (wmem w) r1 = text_of (wmem w) r2 ->
  fst (run (as_bytes r1) (wmem w)) = fst (run (as_bytes r2) (wmem w)).
Proof.
  intros w i j r1 r2 HW H1 H2 E.
  destruct (C17_as_bytes_is_text w i r1 HW H1) as (m1 & -> & _).
  destruct (C17_as_bytes_is_text w j r2 HW H2) as (m2 & -> & _). cbn [fst]. rewrite E. reflexivity.
Qed.

(* tie A for this property: in the source regenerated on this run, every comparison / hashing / formatting / borrowing
   impl of lib.rs (Deref, Display, Debug, AsRef<str|OsStr|[u8]>, Borrow, the nine PartialEq impls, Ord, PartialOrd, Hash)
   calls nothing but as_str / as_bytes / as_ref and the corresponding operation of str — so what they compute is a
   function of the bytes C17_as_bytes_is_text describes *)
Definition text_only (calls : list string) : bool :=
  forallb (fun c => existsb (String.eqb c)
    ["as_str"; "as_bytes"; "as_ref"; "eq"; "cmp"; "hash"; "fmt"; "new"; "Some"]%string) calls.
Definition is_view_fn (name : string) : bool :=
  existsb (fun p => String.prefix p name) ["deref#"; "fmt#"; "as_ref#"; "borrow#"; "eq#"; "cmp#"; "partial_cmp#"; "hash#"]%string.
Theorem C17_views_go_through_as_str :
  forallb (fun e => match e with (file, name, calls) =>
             negb (String.eqb file "lib" && is_view_fn name) || text_only calls end) wrappers = true
  /\ List.length (filter (fun e => match e with (file, name, _) => String.eqb file "lib" && is_view_fn name end) wrappers) = 19%nat.
Proof. vm_compute. split; reflexivity. Qed.

(* non-vacuity: the same text held inline after a pop (stale byte behind the end), on the heap with slack, and as a
   truncated static *)
Example C17_example :
  let st := [[97;98;99;100;101;102;103;104;105;106;107;108;109;110;111;112;113;114;115;116]] in
  let ops := [OFromStr Plain [97;98;99;100]; OPop Plain 0%nat; OWithCapacity Plain 40; OPushStr Plain 1%nat [97;98;99];
              OFromStatic 0%nat; OTruncate Plain 2%nat 3] in
  let w := fst (execs (world0 st (fun _ _ => false)) ops) in
  abs w = [Some [97;98;99]; Some [97;98;99]; Some [97;98;99]]
  /\ map (option_map is_heap) (pool w) = [Some false; Some true; Some false]
  /\ map (option_map is_static) (pool w) = [Some false; Some false; Some true].
Proof. vm_compute. repeat split; reflexivity. Qed.

Print Assumptions C17_as_bytes_is_text.
Print Assumptions C17_repr_independent.
Print Assumptions C17_views_go_through_as_str.
Print Assumptions C17_example.
