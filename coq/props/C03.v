(* C03 — heap buffers: freed exactly once, after the last handle, never touched after. *)
From Coq Require Import Lia Arith ZArith List Bool.
From LS Require Import Base Utf8 Utf8Spec Cmd Impl Exec Inv Specs WF Spec Refine Main.
From LSProps Require Import C01.
Open Scope N_scope.

(* no operation of any history reaches an undefined state of the memory model: no access to a freed or unknown
   buffer, none out of bounds, no dealloc/realloc with a size other than the allocation's, no double free, no write
   through a static pointer, none of the unreachable_unchecked sites *)
Theorem C03_no_ub : forall st orc ops,
  Forall Valid st -> Forall (op_wf st) ops ->
  Forall (fun o => forall u, o <> UbOut u) (snd (execs (world0 st orc) ops)).
Proof.
  intros st orc ops Hst Hwf. pose proof (C01_histories st orc ops Hst Hwf) as H.
  destruct (execs (world0 st orc) ops) as [w outs]. destruct H as (_ & _ & H & _). exact H.
Qed.

(* in every reachable world: a live buffer's reference count equals the number of handles naming it (and is >= 1),
   its allocation size is header + capacity; a released buffer is named by nobody *)
Theorem C03_count : forall w b x,
  WF w -> nth_error (heap (wmem w)) b = Some x ->
  if live x then count x = refs (pool w) b /\ 1 <= count x /\ asize x = HDR + cap x /\ len (data x) = cap x
  else refs (pool w) b = 0.
Proof.
  intros w b x HW Hb. pose proof (wf_mi _ HW b) as H. rewrite Hb in H. destruct (live x).
  - destruct H as ((W1 & W2 & W3) & Hc & Ho). repeat split; auto. lia.
  - exact H.
Qed.

(* a handle never names a released buffer *)
Theorem C03_handles_live : forall w i b l,
  WF w -> nth_error (pool w) i = Some (Some (Heap b l)) ->
  exists x, nth_error (heap (wmem w)) b = Some x /\ live x = true /\ l <= cap x.
Proof.
  intros w i b l HW Hi. destruct (wf_handles _ HW _ _ Hi) as (x & Hb & Hl & Hlc & _). exists x. auto.
Qed.

(* when all handles are gone nothing remains allocated *)
Lemma refs_all_none p b : Forall (fun s => s = None) p -> refs p b = 0.
Proof. induction 1 as [|s p Hs _ IH]; cbn [refs]; [reflexivity|]. rewrite Hs, IH. reflexivity. Qed.
Theorem C03_no_leak : forall w,
  WF w -> Forall (fun s => s = None) (pool w) -> live_blocks (wmem w) = 0.
Proof.
  intros w HW Hnone. unfold live_blocks.
  assert (H : forall b x, nth_error (heap (wmem w)) b = Some x -> live x = false).
  { intros b x Hb. pose proof (C03_count w b x HW Hb) as Hc. destruct (live x); [|reflexivity].
    destruct Hc as (Hc & H1 & _). rewrite (refs_all_none _ b Hnone) in Hc. lia. }
  assert (E : filter live (heap (wmem w)) = []).
  { clear HW Hnone. induction (heap (wmem w)) as [|y h IH]; [reflexivity|]. cbn [filter].
    rewrite (H 0%nat y eq_refl). apply IH. intros b x Hb. apply (H (S b) x). exact Hb. }
  rewrite E. reflexivity.
Qed.

(* non-vacuity: clone, mutate (copy-out), drop everything: every block released exactly once *)
Example C03_example :
  let t20 := [97;98;99;100;101;102;103;104;105;106;107;108;109;110;111;112;113;114;115;116] in
  let ops := [OFromStr Plain t20; OClone 0%nat; OPush Plain 1%nat 33; OShrinkTo Plain 1%nat 0; ODrop 0%nat; ODrop 1%nat] in
  let w := fst (execs (world0 [] (fun _ _ => false)) ops) in
  live_blocks (wmem w) = 0 /\ length (heap (wmem w)) = 2%nat /\ snd (execs (world0 [] (fun _ _ => false)) ops) = repeat OkUnit 6.
Proof. vm_compute. repeat split; reflexivity. Qed.

Print Assumptions C03_no_ub.
Print Assumptions C03_count.
Print Assumptions C03_handles_live.
Print Assumptions C03_no_leak.
Print Assumptions C03_example.
Print Assumptions refs_all_none.
