(* C19 — serde and arbitrary integrations are transparent string wrappers. *)
From Coq Require Import Lia Arith ZArith List Bool.
From LS Require Import Base Utf8 Utf8Spec Utf8Facts Cmd Impl Wp Exec Inv Specs Specs2 WF Spec Refine Main.
From LSProps Require Import C01.
Open Scope N_scope.

(* The integration code (src/features/serde.rs, arbitrary.rs) is four one-line wrappers: Serialize = as_str().serialize,
   visit_str / visit_borrowed_str / Arbitrary = LeanString::from(&str), visit_bytes / visit_borrowed_bytes =
   str::from_utf8 then LeanString::from or an error.  Modelled as: *)
Definition visit_bytes (v : list N) : option op := if utf8_valid v then Some (OFromStr Plain v) else None.

(* bytes are accepted exactly when they are valid UTF-8 ... *)
Theorem C19_visit_bytes_accepts_iff_valid : forall v, (exists o, visit_bytes v = Some o) <-> Valid v.
Proof.
  intros v. unfold visit_bytes. rewrite <- utf8_valid_iff. destruct (utf8_valid v); split; intros H; try discriminate; eauto.
  destruct H as (o & H). discriminate.
Qed.
(* ... and then (as for visit_str, visit_borrowed_str and Arbitrary) the value holds exactly that text *)
Theorem C19_from_str_is_transparent : forall w m v w' out,
  WF w -> Valid v -> exec w (OFromStr m v) = (w', out) -> alloc_failure out = false ->
  out = OkUnit /\ abs w' = abs w ++ [Some v].
Proof.
  intros w m v w' out HW Hv He Haf. pose proof (C01_step w (OFromStr m v) w' out HW Hv He) as [_ _ _ P4 _].
  specialize (P4 Haf). cbn [spec_exec] in P4. injection P4 as -> ->. auto.
Qed.
(* Serialize hands serde exactly the abstract text *)
Theorem C19_serialize_sees_text : forall w i r,
  WF w -> nth_error (pool w) i = Some (Some r) ->
  exists m', run (as_bytes r) (wmem w) = (OVal (text_of (wmem w) r), m').
Proof.
  intros w i r HW Hi. pose proof (wf_handles _ HW _ _ Hi) as Hr.
  assert (H : wp (as_bytes r) (fun o m' => o = OVal (text_of (wmem w) r)) (wmem w)).
  { eapply as_bytes_wp; [exact (wf_mi _ HW)|exact Hr|]. intros m' _ _ _. reflexivity. }
  unfold wp in H. destruct (run (as_bytes r) (wmem w)) as [o m']. subst o. exists m'. reflexivity.
Qed.

Example C19_example :
  visit_bytes [104;105;32;226;130;172] = Some (OFromStr Plain [104;105;32;226;130;172])
  /\ visit_bytes [104;105;32;226;130] = None /\ visit_bytes [237;160;128] = None.
Proof. vm_compute. repeat split; reflexivity. Qed.

Print Assumptions C19_visit_bytes_accepts_iff_valid.
Print Assumptions C19_from_str_is_transparent.
Print Assumptions C19_serialize_sees_text.
Print Assumptions C19_example.
