(* C01 — every operation behaves exactly like std String on the same value. *)
From Coq Require Import Lia Arith ZArith List Bool.
From LS Require Import Base Utf8 Utf8Spec Utf8Facts Cmd Impl NumModel Num Exec Specs WF Spec Refine Main Skeleton.
From LSGen Require Import GenSrc.
Open Scope N_scope.

(* tie A: the generated integer tables / LUT satisfy the side conditions every theorem below assumes *)
Theorem C01_gen_ok : gen_ok.
Proof. split; [vm_compute; reflexivity|]. intros t. destruct t; vm_compute; reflexivity. Qed.

(* tie A: every hand-modelled function still makes the same significant calls in the same order as on the tree the model
   was written against (allocator, atomics, copies, assertions, the six core Repr functions; debug_assert!s and the
   verification hooks are ignored) *)
Theorem C01_source_skeleton : skeletons = expected_skeletons.
Proof. vm_compute. reflexivity. Qed.
(* and every function of lib.rs / traits.rs (the public API and the trait impls: thin wrappers over the modelled core)
   still calls the same names in the same order: the delegation structure the operations of Exec.v were read from *)
Theorem C01_source_wrappers : wrappers = expected_wrappers.
Proof. vm_compute. reflexivity. Qed.
(* and the pointer arithmetic: every memory-moving / sizing call of the hand-modelled functions (copy, copy_nonoverlapping,
   copy_from_slice, set_len, write, realloc, alloc, dealloc, with_*, amortized_growth, ptr.add, range indexing) has the same
   argument text, and the bindings those arguments mention the same right-hand sides, as when the model's offsets and
   lengths (Impl.v: write_at / move_at / set_len arguments) were read from them *)
Theorem C01_source_mem_sites : mem_sites = expected_mem_sites.
Proof. vm_compute. reflexivity. Qed.
(* and the control skeleton: every `if` / `else if` / `while` / `match` of the hand-modelled functions has the same condition
   or scrutinee, and every loop and early `return` is where it was (local names abstracted; debug_assert!s and the
   verification hooks ignored) — a new special case, threshold or early exit in a modelled function is not covered by the
   hand-written model *)
Theorem C01_source_branches : branches = expected_branches.
Proof. vm_compute. reflexivity. Qed.

(* one step: well-formedness is preserved, nothing undefined is reached, statics are untouched, other slots are
   untouched, and unless the step reports an allocation failure the texts and the returned value are Spec's *)
Theorem C01_step : forall w o w' out,
  WF w -> op_wf (statics (wmem w)) o -> exec w o = (w', out) -> exec_post w o w' out.
Proof. intros w o w' out. exact (exec_sound w o w' out C01_gen_ok). Qed.

(* all finite histories over an unbounded pool, all arguments, all allocator oracles *)
Theorem C01_histories : forall st orc ops,
  Forall Valid st -> Forall (op_wf st) ops ->
  let '(w, outs) := execs (world0 st orc) ops in
  WF w /\ statics (wmem w) = st /\ Forall (fun o => forall u, o <> UbOut u) outs
  /\ (forallb (fun o => negb (alloc_failure o)) outs = true -> (abs w, outs) = spec_execs st [] ops).
Proof. intros st orc ops. exact (execs_sound st orc ops C01_gen_ok). Qed.

(* len / is_empty / as_bytes read the abstract text, and every text is valid UTF-8, in every storage state *)
Theorem C01_read : forall w i r,
  WF w -> nth_error (pool w) i = Some (Some r) ->
  len (text_of (wmem w) r) = repr_len r /\ Valid (text_of (wmem w) r)
  /\ (repr_len r = 0 <-> text_of (wmem w) r = []) /\ repr_len r <= cap_of (wmem w) r.
Proof.
  intros w i r HW Hi. pose proof (wf_handles _ HW _ _ Hi) as Hr.
  split; [apply text_len; exact Hr|]. split; [apply text_valid; exact Hr|]. split.
  - rewrite <- (text_len _ _ Hr). split; [apply ListFacts.len_zero_nil|intros ->; reflexivity].
  - apply repr_len_le_cap. exact Hr.
Qed.

(* non-vacuity: a history through inline -> heap -> shared -> truncated-while-shared -> unique -> static -> inline *)
Example C01_example :
  let st := [[104;101;108;108;111;32;119;111;114;108;100;44;32;115;116;97;116;105;99;33]] in
  let ops := [OFromStr Plain [97;98;99]; OPushStr Plain 0%nat [100;101;102;103;104;105;106;107;108;109;110;111;112;113;114];
              OClone 0%nat; OTruncate Plain 1%nat 4; ODrop 0%nat; OPush Plain 1%nat 233; OFromStatic 0%nat;
              OTruncate Plain 2%nat 5; OPushStr Try 2%nat [33]; OPop Plain 2%nat; ORemove Plain 1%nat 0;
              OInsert Plain 1%nat 0 8364] in
  Forall (op_wf st) ops
  /\ snd (execs (world0 st (fun _ _ => false)) ops) = snd (spec_execs st [] ops)
  /\ abs (fst (execs (world0 st (fun _ _ => false)) ops)) = fst (spec_execs st [] ops)
  /\ abs (fst (execs (world0 st (fun _ _ => false)) ops))
     = [None; Some [226;130;172;98;99;100;195;169]; Some [104;101;108;108;111]].
Proof.
  cbv zeta. split.
  - repeat constructor; cbn [op_wf]; try (apply valid_ascii; repeat constructor; lia); try reflexivity.
    eexists; reflexivity.
  - vm_compute. repeat split; reflexivity.
Qed.

Print Assumptions C01_gen_ok.
Print Assumptions C01_source_skeleton.
Print Assumptions C01_source_wrappers.
Print Assumptions C01_source_mem_sites.
Print Assumptions C01_source_branches.
Print Assumptions C01_step.
Print Assumptions C01_histories.
Print Assumptions C01_read.
Print Assumptions C01_example.
