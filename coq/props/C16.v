(* C16 — UTF-8 and UTF-16 decoding constructors agree with std on every input. *)
From Coq Require Import Lia Arith ZArith List Bool.
From LS Require Import Base Utf8 Utf8Spec Utf8Facts Lossy Cmd Impl Exec Specs3 WF Spec Refine Main Derived Decode.
From LSProps Require Import C01.
Open Scope N_scope.

(* the acceptance condition: the boolean automaton (Unicode table 3-7; compared with std::str::from_utf8 by the
   harness over the byte-class alphabet) accepts exactly the valid texts *)
Theorem C16_utf8_valid_iff : forall bs, utf8_valid bs = true <-> Valid bs.
Proof. exact utf8_valid_iff. Qed.

(* from_utf8: accepted input yields exactly that text (rejected input never reaches the crate: str::from_utf8 fails) *)
Theorem C16_from_utf8 : forall w m bs w' out,
  WF w -> utf8_valid bs = true -> exec w (OFromStr m bs) = (w', out) -> alloc_failure out = false ->
  out = OkUnit /\ abs w' = abs w ++ [Some bs].
Proof.
  intros w m bs w' out HW Hv He Haf. apply utf8_valid_iff in Hv.
  pose proof (C01_step w (OFromStr m bs) w' out HW Hv He) as [_ _ _ P4 _].
  specialize (P4 Haf). cbn [spec_exec] in P4. injection P4 as -> ->. auto.
Qed.

(* from_utf8_lossy, for EVERY chunk list utf8_chunks can produce (valid piece, invalid-piece flag) and any capacity
   guess n: never UB, and unless an allocation fails the text is exactly what the same loop builds in a String -
   including when the replacement characters outgrow with_capacity(len) *)
Theorem C16_from_utf8_lossy : forall st orc n cs,
  Forall Valid st -> Forall (fun c => Valid (fst c)) cs ->
  let '(w, outs) := execs (world0 st orc) (lossy_ops 0 n cs) in
  WF w /\ Forall (fun o => forall u, o <> UbOut u) outs
  /\ (forallb (fun o => negb (alloc_failure o)) outs = true -> abs w = [Some (lossy_text cs)]).
Proof.
  intros st orc n cs Hst Hv. pose proof (C01_histories st orc (lossy_ops 0 n cs) Hst (lossy_ops_wf st n cs Hv)) as H.
  destruct (execs (world0 st orc) (lossy_ops 0 n cs)) as [w outs]. destruct H as (HW & _ & Hu & Hr).
  split; [exact HW|]. split; [exact Hu|]. intros Hall. specialize (Hr Hall).
  pose proof (spec_lossy st n cs) as Hs. rewrite <- Hr in Hs. exact Hs.
Qed.

(* from_utf16 (all units decodable) / from_utf16_lossy (lone surrogates already replaced by U+FFFD by the closure):
   one push per decoded char *)
Theorem C16_from_utf16 : forall st orc n cs,
  Forall Valid st -> scalars cs ->
  let '(w, outs) := execs (world0 st orc) (chars_ops 0 n cs) in
  WF w /\ Forall (fun o => forall u, o <> UbOut u) outs
  /\ (forallb (fun o => negb (alloc_failure o)) outs = true -> abs w = [Some (concat (map encode_cp cs))]).
Proof.
  intros st orc n cs Hst Hv. pose proof (C01_histories st orc (chars_ops 0 n cs) Hst (chars_ops_wf st n cs Hv)) as H.
  destruct (execs (world0 st orc) (chars_ops 0 n cs)) as [w outs]. destruct H as (HW & _ & Hu & Hr).
  split; [exact HW|]. split; [exact Hu|]. intros Hall. specialize (Hr Hall).
  pose proof (spec_chars st n cs) as Hs. rewrite <- Hr in Hs. exact Hs.
Qed.

(* ---- the decoders themselves, on bytes / code units (Lossy.v; run against String::from_utf8_lossy / from_utf16 /
   from_utf16_lossy by the harness over the class alphabets) ---- *)
(* the lossy text of EVERY byte sequence is well-formed UTF-8, is the input itself when that is well formed, and is at
   most three times as long (so with_capacity(len) can be outgrown - covered by C16_from_utf8_lossy for any capacity) *)
Theorem C16_lossy_decoder : forall bs,
  Valid (lossy bs) /\ (Valid bs -> lossy bs = bs) /\ (length (lossy bs) <= 3 * length bs)%nat.
Proof. intros bs. split; [apply lossy_valid|]. split; [apply lossy_id|apply lossy_len]. Qed.
(* the chunks the crate's loop consumes: valid pieces only, and pushing them with one U+FFFD per ill-formed subpart
   spells exactly the lossy text *)
Theorem C16_chunks : forall bs,
  Forall (fun c => Valid (fst c)) (chunks_of bs) /\ lossy_text (chunks_of bs) = lossy bs.
Proof. intros bs. split; [apply chunks_of_valid|]. rewrite <- chunks_of_text. reflexivity. Qed.
(* hence from_utf8_lossy on bytes: whatever the capacity guess and the allocator, no UB, and unless an allocation fails
   the text is lossy bs *)
Theorem C16_from_utf8_lossy_bytes : forall st orc n bs,
  Forall Valid st ->
  let '(w, outs) := execs (world0 st orc) (lossy_ops 0 n (chunks_of bs)) in
  WF w /\ Forall (fun o => forall u, o <> UbOut u) outs
  /\ (forallb (fun o => negb (alloc_failure o)) outs = true -> abs w = [Some (lossy bs)]).
Proof.
  intros st orc n bs Hst. pose proof (C16_from_utf8_lossy st orc n (chunks_of bs) Hst (chunks_of_valid bs)) as H.
  destruct (execs (world0 st orc) (lossy_ops 0 n (chunks_of bs))) as [w outs]. destruct H as (H1 & H2 & H3).
  split; [exact H1|]. split; [exact H2|]. intros Ha. rewrite (H3 Ha). destruct (C16_chunks bs) as (_ & E). rewrite E. reflexivity.
Qed.
(* UTF-16: every decoded value is a scalar (so every push is of a char), and encoding scalars then decoding gives them
   back with no error: from_utf16 accepts every well-formed input and yields its text *)
Theorem C16_utf16_decoder :
  (forall t, Forall (fun u => u < 65536) t ->
     Forall (fun o => match o with Some c => is_scalar c = true | None => True end) (utf16_decode t))
  /\ (forall cs, Forall (fun c => is_scalar c = true) cs -> utf16_decode (concat (map utf16_encode cs)) = map Some cs).
Proof. split; [exact utf16_decode_scalars|exact utf16_round_trip]. Qed.

(* non-vacuity: 14 bytes of input whose lossy text (3 replacement characters) outgrows the inline buffer *)
Example C16_example :
  let cs := [([97;98;99;100;101], true); ([102;103;104;105], true); ([106;107], true)] in
  let r := execs (world0 [] (fun _ _ => false)) (lossy_ops 0 14 cs) in
  abs (fst r) = [Some (lossy_text cs)] /\ len (lossy_text cs) = 20
  /\ utf8_valid [97; 237; 160; 128] = false /\ utf8_valid [240; 144; 128; 128] = true.
Proof. vm_compute. repeat split; reflexivity. Qed.

Print Assumptions C16_utf8_valid_iff.
Print Assumptions C16_lossy_decoder.
Print Assumptions C16_chunks.
Print Assumptions C16_from_utf8_lossy_bytes.
Print Assumptions C16_utf16_decoder.
Print Assumptions C16_from_utf8.
Print Assumptions C16_from_utf8_lossy.
Print Assumptions C16_from_utf16.
Print Assumptions C16_example.
