(* C16 — UTF-8 and UTF-16 decoding constructors agree with std on every input. *)
From Coq Require Import Lia Arith ZArith List Bool.
From LS Require Import Base Utf8 Utf8Spec Utf8Facts Cmd Impl Exec Specs3 WF Spec Refine Main Derived Decode.
From LSProps Require Import C01.
Open Scope N_scope.

(* the acceptance condition: the boolean automaton (Unicode table 3-7; compared with std::str::from_utf8 by the
   harness over the byte-class alphabet) accepts exactly the valid texts *)
Theorem C16_utf8_valid_iff : forall bs, utf8_valid bs = true <-> Valid bs.
Proof. exact utf8_valid_iff. Qed.

(* from_utf8: accepted input yields exactly that text (rejected input never reaches the crate: str::from_utf8 fails) *)
Theorem C16_from_utf8 : forall w m bs w' out,
  WF w -> utf8_valid bs = true -> exec w (OFromStr m bs) = (w', out) -> alloc_failure out = false ->
  out = OkUnit /\ abs w' = abs w ++ [Some bs].
Proof.
  intros w m bs w' out HW Hv He Haf. apply utf8_valid_iff in Hv.
  pose proof (C01_step w (OFromStr m bs) w' out HW Hv He) as [_ _ _ P4 _].
  specialize (P4 Haf). cbn [spec_exec] in P4. injection P4 as -> ->. auto.
Qed.

(* from_utf8_lossy, for EVERY chunk list utf8_chunks can produce (valid piece, invalid-piece flag) and any capacity
   guess n: never UB, and unless an allocation fails the text is exactly what the same loop builds in a String -
   including when the replacement characters outgrow with_capacity(len) *)
Theorem C16_from_utf8_lossy : forall st orc n cs,
  Forall Valid st -> Forall (fun c => Valid (fst c)) cs ->
  let '(w, outs) := execs (world0 st orc) (lossy_ops 0 n cs) in
  WF w /\ Forall (fun o => forall u, o <> UbOut u) outs
  /\ (forallb (fun o => negb (alloc_failure o)) outs = true -> abs w = [Some (lossy_text cs)]).
Proof.
  intros st orc n cs Hst Hv. pose proof (C01_histories st orc (lossy_ops 0 n cs) Hst (lossy_ops_wf st n cs Hv)) as H.
  destruct (execs (world0 st orc) (lossy_ops 0 n cs)) as [w outs]. destruct H as (HW & _ & Hu & Hr).
  split; [exact HW|]. split; [exact Hu|]. intros Hall. specialize (Hr Hall).
  pose proof (spec_lossy st n cs) as Hs. rewrite <- Hr in Hs. exact Hs.
Qed.

(* from_utf16 (all units decodable) / from_utf16_lossy (lone surrogates already replaced by U+FFFD by the closure):
   one push per decoded char *)
Theorem C16_from_utf16 : forall st orc n cs,
  Forall Valid st -> scalars cs ->
  let '(w, outs) := execs (world0 st orc) (chars_ops 0 n cs) in
  WF w /\ Forall (fun o => forall u, o <> UbOut u) outs
  /\ (forallb (fun o => negb (alloc_failure o)) outs = true -> abs w = [Some (concat (map encode_cp cs))]).
Proof.
  intros st orc n cs Hst Hv. pose proof (C01_histories st orc (chars_ops 0 n cs) Hst (chars_ops_wf st n cs Hv)) as H.
  destruct (execs (world0 st orc) (chars_ops 0 n cs)) as [w outs]. destruct H as (HW & _ & Hu & Hr).
  split; [exact HW|]. split; [exact Hu|]. intros Hall. specialize (Hr Hall).
  pose proof (spec_chars st n cs) as Hs. rewrite <- Hr in Hs. exact Hs.
Qed.

(* non-vacuity: 14 bytes of input whose lossy text (3 replacement characters) outgrows the inline buffer *)
Example C16_example :
  let cs := [([97;98;99;100;101], true); ([102;103;104;105], true); ([106;107], true)] in
  let r := execs (world0 [] (fun _ _ => false)) (lossy_ops 0 14 cs) in
  abs (fst r) = [Some (lossy_text cs)] /\ len (lossy_text cs) = 20
  /\ utf8_valid [97; 237; 160; 128] = false /\ utf8_valid [240; 144; 128; 128] = true.
Proof. vm_compute. repeat split; reflexivity. Qed.

Print Assumptions C16_utf8_valid_iff.
Print Assumptions C16_from_utf8.
Print Assumptions C16_from_utf8_lossy.
Print Assumptions C16_from_utf16.
Print Assumptions C16_example.
