(* C20 — two words, a free niche, and the same behaviour in every configuration. *)
From Coq Require Import Lia Arith ZArith List Bool.
From LS Require Import Base Utf8 Utf8Spec Cmd Impl Exec Inv Specs WF Spec Refine Main Layout.
From LSGen Require Import GenSrc.
From LSProps Require Import C01.
Open Scope N_scope.

(* tie A: the LastByte enum regenerated from src/repr/last_byte.rs declares exactly 0x00 ..= StaticMarker (0xD1),
   the LengthNN variants are MASK | NN, and nothing above StaticMarker is declared: 0xD2..=0xFF stay free *)
Theorem C20_last_byte_table : last_byte_table_ok = true /\ STATIC_MARKER = 209 /\ HEAP_MARKER = 208.
Proof. vm_compute. auto. Qed.

(* every handle of every reachable world: the tag byte is a declared discriminant <= 0xD1 (so Some(s) can never be
   mistaken for None, whose tag lies above), the three storage states are told apart correctly by the tag, and the
   branch-free length decode reads the handle's length *)
Theorem C20_tag_range : forall w i r,
  WF w -> nth_error (pool w) i = Some (Some r) ->
  raw_last_byte (encode r) <= STATIC_MARKER
  /\ raw_is_heap (encode r) = is_heap r /\ raw_is_static (encode r) = is_static r
  /\ raw_len (encode r) = repr_len r.
Proof.
  intros w i r HW Hi. pose proof (wf_handles _ HW _ _ Hi) as Hr.
  destruct (raw_dispatch_correct _ _ r Hr) as (H1 & H2 & H3). split; [exact H3|]. split; [exact H1|]. split; [exact H2|].
  eapply raw_len_correct; [exact Hr|]. eapply handle_len_bound; [exact (wf_mi _ HW)|exact Hr].
Qed.

(* all reachable handles: by C01_histories every world reached by a history is WF *)
Theorem C20_reachable : forall st orc ops i r,
  Forall Valid st -> Forall (op_wf st) ops ->
  nth_error (pool (fst (execs (world0 st orc) ops))) i = Some (Some r) ->
  raw_last_byte (encode r) <= 209.
Proof.
  intros st orc ops i r Hst Hwf Hi. pose proof (C01_histories st orc ops Hst Hwf) as H.
  destruct (execs (world0 st orc) ops) as [w outs]. destruct H as (HW & _). cbn [fst] in Hi.
  apply (C20_tag_range w i r HW Hi).
Qed.

(* non-vacuity: a full 16-byte inline string whose last byte is a continuation byte 0xBF *)
Example C20_example :
  let t16 := [97;97;97;97;97;97;97;97;97;97;97;97;97;97;194;191] in
  let w := fst (execs (world0 [] (fun _ _ => false)) [OFromStr Plain t16]) in
  exists r, nth_error (pool w) 0 = Some (Some r) /\ raw_last_byte (encode r) = 191 /\ raw_len (encode r) = 16.
Proof. eexists. vm_compute. repeat split; reflexivity. Qed.

Print Assumptions C20_last_byte_table.
Print Assumptions C20_tag_range.
Print Assumptions C20_reachable.
Print Assumptions C20_example.
