(* C15 — to_lean_string agrees with Display for everything else; floats round-trip. *)
From Coq Require Import Lia Arith ZArith List Bool.
From LS Require Import Base Utf8 Utf8Spec Utf8Facts Cmd Impl Exec Inv Specs Specs3 WF Spec Refine Main Derived.
From LSProps Require Import C01.
Open Scope N_scope.

(* bool, char, String (and &str): the new handle holds exactly the Display text *)
Theorem C15_bool : forall w b w' out,
  WF w -> exec w (OFromBool b) = (w', out) ->
  out = OkUnit /\ abs w' = abs w ++ [Some (if b then [116;114;117;101] else [102;97;108;115;101])].
Proof.
  intros w b w' out HW He. pose proof (C01_step w (OFromBool b) w' out HW I He) as [_ _ _ P4 _].
  assert (Ho : out = OkUnit) by (cbn [exec] in He; unfold exec_ctor in He; cbn [run] in He; injection He as _ <-; reflexivity).
  subst out. specialize (P4 eq_refl). cbn [spec_exec] in P4. injection P4 as ->. auto.
Qed.
Theorem C15_char : forall w c w' out,
  WF w -> is_scalar c = true -> exec w (OFromChar c) = (w', out) ->
  out = OkUnit /\ abs w' = abs w ++ [Some (encode_cp c)].
Proof.
  intros w c w' out HW Hc He. pose proof (C01_step w (OFromChar c) w' out HW Hc He) as [_ _ _ P4 _].
  assert (Ho : out = OkUnit) by (cbn [exec] in He; unfold exec_ctor in He; cbn [run] in He; injection He as _ <-; reflexivity).
  subst out. specialize (P4 eq_refl). cbn [spec_exec] in P4. injection P4 as ->. auto.
Qed.
Theorem C15_string : forall w m t w' out,
  WF w -> Valid t -> exec w (OFromStr m t) = (w', out) -> alloc_failure out = false ->
  out = OkUnit /\ abs w' = abs w ++ [Some t].
Proof.
  intros w m t w' out HW Hv He Haf. pose proof (C01_step w (OFromStr m t) w' out HW Hv He) as [_ _ _ P4 _].
  specialize (P4 Haf). cbn [spec_exec] in P4. injection P4 as -> ->. auto.
Qed.
(* LeanString::to_lean_string is the shallow clone *)
Theorem C15_lean_string : forall w i w' out r,
  WF w -> exec w (OClone i) = (w', out) -> nth_error (pool w) i = Some (Some r) ->
  out = OkUnit /\ pool w' = pool w ++ [Some r].
Proof. intros w i w' out r HW He Hi. destruct (clone_is_shallow w i w' out r HW He Hi) as (H1 & H2 & _). auto. Qed.
(* any other Display type: pieces p1..pk and Ok give p1 ++ .. ++ pk; an Err after any prefix gives Err(Fmt) and no
   partial string; a panic gives nothing either *)
Theorem C15_display : forall w m ea pa ps w' out,
  WF w -> Forall Valid ps -> exec w (ODisplay m ea pa ps) = (w', out) -> alloc_failure out = false ->
  (abs w', out) = match first_stop ea pa 0 (length ps) with
                  | Some (_, o) => (abs w ++ [None], o)
                  | None => (abs w ++ [Some (concat ps)], OkUnit)
                  end.
Proof.
  intros w m ea pa ps w' out HW Hv He Haf. pose proof (C01_step w (ODisplay m ea pa ps) w' out HW Hv He) as [_ _ _ P4 _].
  rewrite (P4 Haf). cbn [spec_exec]. destruct (first_stop ea pa 0 (length ps)) as [[n o]|]; reflexivity.
Qed.
(* floats: the handle holds exactly the text ryu produced (C15_string with t = ryu's output, an oracle); that this
   text parses back to the same value is validated by the sweep over all 2^32 f32 patterns / sampled f64, not proved *)

Example C15_example :
  let ops := [ODisplay Try None None [[97;98];[99]]; ODisplay Try (Some 1%nat) None [[97;98];[99]]; OFromBool true; OFromChar 8364] in
  let r := execs (world0 [] (fun _ _ => false)) ops in
  abs (fst r) = [Some [97;98;99]; None; Some [116;114;117;101]; Some [226;130;172]] /\ snd r = [OkUnit; ErrFmt; OkUnit; OkUnit].
Proof. vm_compute. split; reflexivity. Qed.

Print Assumptions C15_bool.
Print Assumptions C15_char.
Print Assumptions C15_string.
Print Assumptions C15_lean_string.
Print Assumptions C15_display.
Print Assumptions C15_example.
