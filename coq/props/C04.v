(* C04 — handles are independent and memory-safe across threads, under every schedule.   (partial: see below) *)
From Coq Require Import Lia Arith List Bool String.
From LSConc Require Import Clock Mach Inv Top.
From LS Require Import Base Cmd Impl Proto.
From LSGen Require Import GenSrc.
Import ListNotations.

(* ---- tie A: the atomic call sites of the crate, regenerated from src/repr.rs and src/repr/heap_buffer.rs ---- *)
Definition at_least_release (o : ord) : bool := match o with Release | AcqRel | SeqCst => true | _ => false end.
Definition at_least_acquire (o : ord) : bool := match o with Acquire | AcqRel | SeqCst => true | _ => false end.

(* exactly these atomic operations exist (the two in truncate_unchecked are the 32-bit-only arm, dead on 64-bit), so no
   function gives up its reference before it is done with the buffer; the decrement that may release is at least
   Release, the fence before dealloc and the uniqueness load are at least Acquire (the increment may be Relaxed) *)
Theorem C04_atomic_sites :
  map (fun x => (fst (fst x), snd (fst x))) atomic_sites
  = [("truncate_unchecked"%string, AFetchSub); ("truncate_unchecked"%string, AFetchAdd);
     ("make_shallow_clone"%string, AFetchAdd); ("replace_inner"%string, AFetchSub);
     ("replace_inner"%string, AFence); ("is_unique"%string, ALoad)]
  /\ at_least_release ord_replace_inner_0 = true
  /\ at_least_acquire ord_replace_inner_1 = true
  /\ at_least_acquire ord_is_unique_0 = true.
Proof. vm_compute. auto. Qed.

(* ---- the protocol: any number of threads, any interleaving of reads, writes, clones (relaxed increment), releases
   (release decrement), frees (acquire fence + dealloc) and uniqueness probes (acquire loads that may read ANY message
   not yet overwritten in the thread's past - stale reads included), handles moved to spawned threads, joins.  A step
   whose thread-local precondition fails is Stuck (not an execution of a well-typed thread); an access that is not
   ordered after every conflicting access, or touches a freed buffer, is an error.  No schedule reaches an error. ---- *)
Theorem C04_protocol_safe_all_schedules : forall n (sched : list (nat * act)),
  match Mach.run (Mach.init n) sched with Mach.Err _ => False | _ => True end.
Proof. exact all_schedules_safe. Qed.

(* every invariant state is safe and the invariant is preserved: the induction behind the theorem above *)
Theorem C04_invariant : (forall n, Inv.Inv (Mach.init n)) /\ (forall s t a s', Inv.Inv s -> Mach.step s t a = Mach.Ok s' -> Inv.Inv s')
                        /\ (forall s t a e, Inv.Inv s -> Mach.step s t a <> Mach.Err e).
Proof. split; [exact inv_init|]. split; [exact pres|]. intros s t a e H. apply safe. exact H. Qed.

(* ---- thread-local side: the modelled functions only perform actions whose protocol precondition holds, whatever
   the shared memory returns: the buffer is written / reallocated only after an acquire load returned 1 while the
   thread held a reference; it is read only while holding one; the reference is given up last; dealloc only by the
   thread whose decrement read 1, after the fence ---- *)
Theorem C04_clone_respects_protocol : forall r g, holds g r -> okc (make_shallow_clone r) g (fun r' g' => r' = r /\ holds g' r).
Proof. exact ok_clone. Qed.
Theorem C04_drop_respects_protocol : forall r other g,
  holds g r -> settled g ->
  okc (replace_inner r other) g (fun r' g' => r' = other /\ settled g'
        /\ match r with
           | Heap b _ => g_refs g' b = (g_refs g b - 1)%nat /\ forall b', b' <> b -> same_at g g' b'
           | _ => g' = g
           end).
Proof. exact ok_replace_inner. Qed.
Theorem C04_reserve_respects_protocol : forall r add g,
  holds g r -> settled g ->
  okc (reserve r add) g (fun p g' => settled g' /\ holds g' (fst p) /\ (snd p = true -> holds_excl g' (fst p))).
Proof. exact ok_reserve. Qed.
Theorem C04_ensure_modifiable_respects_protocol : forall r g,
  holds g r -> settled g ->
  okc (ensure_modifiable r) g (fun p g' => settled g' /\ holds g' (fst p) /\ (snd p = true -> holds_excl g' (fst p))).
Proof. exact ok_ensure_modifiable. Qed.

(* non-vacuity: two threads, the stale-read schedule the design worries about *)
Example C04_example :
  (exists s, Mach.run (Mach.init 2) [(0,AClone);(0,ASpawn 1 1);(1,ARead);(1,ARelease);(0,AProbe 0);(0,AWrite);(0,ARelease);(0,AFree)]%nat = Mach.Ok s /\ Mach.live s = false)
  /\ (exists s, Mach.run (Mach.init 2) [(0,AClone);(0,ASpawn 1 1);(1,ARelease);(0,AProbe 1)]%nat = Mach.Ok s /\ Mach.excl (Mach.getth s 0) = false).
Proof. split; eexists; vm_compute; split; reflexivity. Qed.

Print Assumptions C04_atomic_sites.
Print Assumptions C04_protocol_safe_all_schedules.
Print Assumptions C04_invariant.
Print Assumptions C04_clone_respects_protocol.
Print Assumptions C04_drop_respects_protocol.
Print Assumptions C04_reserve_respects_protocol.
Print Assumptions C04_ensure_modifiable_respects_protocol.
Print Assumptions C04_example.
