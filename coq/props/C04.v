(* C04 — handles are independent and memory-safe across threads, under every schedule.   (partial: see below) *)
From Coq Require Import Lia Arith List Bool String.
From LSConc Require Import Clock Mach Inv Top Values Contents.
From LS Require Import Base Cmd Impl Proto ProtoOps Compose Programs Sched Legacy.
From LSGen Require Import GenSrc.
Import ListNotations.
From LS Require Exec WF Spec Refine Main ThreadView.
From LSProps Require C01.

(* ---- tie A: the atomic call sites of the crate, regenerated from src/repr.rs and src/repr/heap_buffer.rs ---- *)
Definition at_least_release (o : ord) : bool := match o with Release | AcqRel | SeqCst => true | _ => false end.
Definition at_least_acquire (o : ord) : bool := match o with Acquire | AcqRel | SeqCst => true | _ => false end.

(* exactly these atomic operations exist (the two in truncate_unchecked are the 32-bit-only arm, dead on 64-bit), so no
   function gives up its reference before it is done with the buffer; the decrement that may release is at least
   Release, the fence before dealloc and the uniqueness load are at least Acquire (the increment may be Relaxed) *)
Theorem C04_atomic_sites :
  map (fun x => (fst (fst x), snd (fst x))) atomic_sites
  = [("truncate_unchecked"%string, AFetchSub); ("truncate_unchecked"%string, AFetchAdd);
     ("make_shallow_clone"%string, AFetchAdd); ("replace_inner"%string, AFetchSub);
     ("replace_inner"%string, AFence); ("is_unique"%string, ALoad)]
  /\ at_least_release ord_replace_inner_0 = true
  /\ at_least_acquire ord_replace_inner_1 = true
  /\ at_least_acquire ord_is_unique_0 = true.
Proof. vm_compute. auto. Qed.

(* ---- the protocol: any number of threads, any interleaving of reads, writes, clones (relaxed increment), releases
   (release decrement), frees (acquire fence + dealloc) and uniqueness probes (acquire loads that may read ANY message
   not yet overwritten in the thread's past - stale reads included), handles moved to spawned threads, joins.  A step
   whose thread-local precondition fails is Stuck (not an execution of a well-typed thread); an access that is not
   ordered after every conflicting access, or touches a freed buffer, is an error.  No schedule reaches an error. ---- *)
Theorem C04_protocol_safe_all_schedules : forall n (sched : list (nat * act)),
  match Mach.run (Mach.init n) sched with Mach.Err _ => False | _ => True end.
Proof. exact all_schedules_safe. Qed.

(* every invariant state is safe and the invariant is preserved: the induction behind the theorem above *)
Theorem C04_invariant : (forall n, Inv.Inv (Mach.init n)) /\ (forall s t a s', Inv.Inv s -> Mach.step s t a = Mach.Ok s' -> Inv.Inv s')
                        /\ (forall s t a e, Inv.Inv s -> Mach.step s t a <> Mach.Err e).
Proof. split; [exact inv_init|]. split; [exact pres|]. intros s t a e H. apply safe. exact H. Qed.

(* the frame every holder can rely on: a write / realloc step exists only for the one and only holder, a free step only
   when nobody holds a reference — so while a thread holds a handle no other thread changes or releases its buffer *)
Theorem C04_write_excludes_others : forall s u s', Inv.Inv s -> Mach.step s u AWrite = Mach.Ok s' ->
  forall t, t <> u -> Mach.refs (Mach.getth s t) = 0%nat.
Proof. exact write_excludes_others. Qed.
Theorem C04_free_excludes_holders : forall s u s', Inv.Inv s -> Mach.step s u AFree = Mach.Ok s' ->
  forall t, Mach.refs (Mach.getth s t) = 0%nat.
Proof. exact free_excludes_holders. Qed.

(* multi-step: while a thread holds a reference and is itself not running, no successful step of any other thread
   writes, reallocates or frees the buffer, and the buffer stays live — so what it reads through its handle is what was
   there when it last read or wrote (the frame that makes the sequential theorems C01-C03 apply to each thread) *)
Theorem C04_no_interference_while_held : forall t sched s s',
  Inv.Inv s -> (Mach.refs (Mach.getth s t) > 0)%nat -> Forall (fun ua => fst ua <> t) sched -> Mach.run s sched = Mach.Ok s' ->
  Forall (fun ua => snd ua <> AWrite /\ snd ua <> AFree) sched /\ Mach.getth s' t = Mach.getth s t /\ Mach.live s' = true.
Proof. exact no_interference_while_held. Qed.

(* ---- lending: a handle shared BY REFERENCE with a scoped thread (ALend / AReadB / ACloneB / AJoinB): the borrower reads through
   the lender's reference without touching the count; the lender, while the loan lasts, only reads, clones, lends and
   joins (no &mut method: borrowck).  These actions are part of the machine, so C04_protocol_safe_all_schedules covers
   every schedule with any number of borrowers; and in every reachable state with an outstanding loan the buffer is
   live, the lender still holds its reference, and nobody is exclusive or must free.  Cloning THROUGH the borrowed reference (ACloneB) is included: the
   stale-read bound J7 is stated relative to what a thread and the borrowers of its handle have seen. ---- *)
Theorem C04_borrowed_buffer_protected : forall n sched s c p,
  Mach.run (Mach.init n) sched = Mach.Ok s -> Mach.lend (Mach.getth s c) = S p ->
  Mach.live s = true /\ (Mach.refs (Mach.getth s p) > 0)%nat
  /\ forall q, Mach.excl (Mach.getth s q) = false /\ Mach.mustfree (Mach.getth s q) = false.
Proof. exact borrowed_buffer_protected. Qed.
(* the code a borrower runs on &handle is one event per call (as_str / as_bytes: a read; clone: a relaxed increment):
   both are enabled in every invariant state while the loan lasts, and never an error (C04_invariant) *)
Theorem C04_borrower_operations_enabled : forall s c,
  Inv.Inv s -> (c < length (Mach.ths s))%nat -> Mach.started (Mach.getth s c) = true -> Mach.lend (Mach.getth s c) <> 0%nat ->
  (exists s', Mach.step s c AReadB = Mach.Ok s') /\ (exists s', Mach.step s c ACloneB = Mach.Ok s').
Proof. intros s c I Hc Hst Hl. split; [exact (borrower_read_enabled s c I Hc Hst Hl)|exact (borrower_clone_enabled s c I Hc Hst Hl)]. Qed.
Example C04_lending_example :
  (exists s, Mach.run (Mach.init 2) [(0,ALend 1);(1,AReadB);(1,ACloneB);(0,ARead);(1,ARead);(1,ARelease);(0,AJoinB 1);
                                     (0,AProbe 0);(0,AWrite);(0,ARelease);(0,Mach.AFence);(0,AReadM);(0,AFree)]%nat
             = Mach.Ok s /\ Mach.live s = false)
  /\ Mach.run (Mach.init 2) [(0,ALend 1);(1,AReadB);(0,AProbe 0)]%nat = Mach.Stuck      (* the lender may not probe / write *)
  /\ Mach.run (Mach.init 2) [(0,ALend 1);(0,ARelease)]%nat = Mach.Stuck                  (* ... nor drop its handle *)
  (* after the join the lender can no longer read the stale count 1 that preceded the borrower's clone *)
  /\ Mach.run (Mach.init 2) [(0,ALend 1);(1,ACloneB);(0,AJoinB 1)]%nat = Mach.Stuck      (* a borrower still holding a clone cannot be joined *)
  /\ Mach.run (Mach.init 3) [(0,ALend 1);(1,ACloneB);(1,ASpawn 2 1);(0,AJoinB 1);(0,AProbe 1)]%nat = Mach.Stuck.
Proof. split; [eexists; vm_compute; split; reflexivity|]. repeat split; vm_compute; reflexivity. Qed.

(* ---- thread-local side: the modelled functions only perform actions whose protocol precondition holds, whatever
   the shared memory returns: the buffer is written / reallocated only after an acquire load returned 1 while the
   thread held a reference; it is read only while holding one; the reference is given up last; dealloc only by the
   thread whose decrement read 1, after the fence ---- *)
Theorem C04_clone_respects_protocol : forall r g, holds g r -> okc (make_shallow_clone r) g (fun r' g' => r' = r /\ holds g' r).
Proof. exact ok_clone. Qed.
Theorem C04_drop_respects_protocol : forall r other g,
  holds g r -> settled g ->
  okc (replace_inner r other) g (fun r' g' => r' = other /\ settled g'
        /\ match r with
           | Heap b _ => g_refs g' b = (g_refs g b - 1)%nat /\ forall b', b' <> b -> same_at g g' b'
           | _ => g' = g
           end).
Proof. exact ok_replace_inner. Qed.
Theorem C04_reserve_respects_protocol : forall r add g,
  holds g r -> settled g ->
  okc (reserve r add) g (fun p g' => settled g' /\ holds g' (fst p) /\ (snd p = true -> holds_excl g' (fst p))
                                     /\ cons g r g' (fst p)).
Proof. exact ok_reserve. Qed.
Theorem C04_ensure_modifiable_respects_protocol : forall r g,
  holds g r -> settled g ->
  okc (ensure_modifiable r) g (fun p g' => settled g' /\ holds g' (fst p) /\ (snd p = true -> holds_excl g' (fst p))
                                          /\ cons g r g' (fst p)).
Proof. exact ok_ensure_modifiable. Qed.

(* every other modelled reader / mutator (as_bytes, push_str, pop, truncate, remove, insert_str, retain, clear, shrink_to,
   reserve, clone-then-drop): from a held handle and nothing owed, only protocol-respecting events, ending with the
   result handle held and nothing owed *)
Theorem C04_every_operation_respects_protocol : forall o r g,
  holds g r -> settled g -> okc (happly o r) g (fun r' g' => settled g' /\ holds g' r' /\ cons g r g' r').
Proof. exact ok_happly. Qed.

(* ---- composition: the interleaving semantics of thread programs over the protocol machine (Compose.v).  One event of a
   well-typed thread keeps the configuration well typed (machine invariant, ghost = machine-local state, continuation
   typed); so does starting the next operation, spawning and joining. ---- *)
Theorem C04_typed_step : forall b0 kof bof cf cf', WT b0 kof bof cf -> cstep b0 cf cf' -> WT b0 kof bof cf'.
Proof. exact typed_step. Qed.
(* hence from a well-typed configuration no interleaving reaches a configuration in which any thread could take a step
   that is a data race, a use after free or a double free *)
Theorem C04_typed_safe : forall b0 kof bof cf cf' t a e,
  WT b0 kof bof cf -> csteps b0 cf cf' -> Mach.step (ms cf') t a <> Mach.Err e.
Proof. exact typed_safe. Qed.
(* and every started thread whose continuation begins with an event can take it: the protocol precondition of the
   corresponding machine action (holds a reference / exclusive / must-free after the fence) holds *)
Theorem C04_typed_progress : forall b0 kof bof cf t,
  WT b0 kof bof cf -> (t < length (tc cf))%nat -> Mach.started (Mach.getth (ms cf) t) = true -> is_event (cur (gettc b0 cf t)) ->
  exists s' c' g', estep b0 t (ms cf) (cur (gettc b0 cf t)) (gh (gettc b0 cf t)) s' c' g'.
Proof. exact typed_progress. Qed.

(* ---- the programs the property quantifies over, for EVERY number of threads and EVERY operation sequence: thread 0
   clones its handle once per child, moves a clone into each spawned thread; every thread then runs its own sequence of
   reads / mutations on its handle and drops it; thread 0 joins.  The initial configuration is well typed, so every
   reachable configuration is well typed and cannot make an erroneous step. ---- *)
Theorem C04_shared_handles_typed : forall b0 l0 n opsf, WT b0 (fun _ => 1%nat) (fun _ => false) (cfg0 b0 l0 n opsf).
Proof. exact shared_handles_typed. Qed.
Theorem C04_shared_handles_safe : forall b0 l0 n opsf cf,
  csteps b0 (cfg0 b0 l0 n opsf) cf ->
  WT b0 (fun _ => 1%nat) (fun _ => false) cf /\ forall t a e, Mach.step (ms cf) t a <> Mach.Err e.
Proof. exact shared_handles_safe. Qed.

(* the finding F1, as a theorem: reserve as it was before the repair (probe by decrement, read after giving the
   reference up) cannot be typed against the protocol *)
Theorem C04_legacy_reserve_refuted : forall b l add g (Q : repr * bool -> ghost -> Prop),
  checked_add l add <> None -> g_refs g b = 1%nat -> g_excl g b = false -> g_bor g b = false ->
  ~ okc (legacy_reserve (Heap b l) add) g Q.
Proof. exact legacy_reserve_not_protocol_safe. Qed.

(* non-vacuity: two threads, the stale-read schedule the design worries about *)
Example C04_example :
  (exists s, Mach.run (Mach.init 2) [(0,AClone);(0,ASpawn 1 1);(1,ARead);(1,ARelease);(0,AProbe 0);(0,AWrite);(0,ARelease);(0,Mach.AFence);(0,AReadM);(0,AFree)]%nat = Mach.Ok s /\ Mach.live s = false)
  /\ (exists s, Mach.run (Mach.init 2) [(0,AClone);(0,ASpawn 1 1);(1,ARelease);(0,AProbe 1)]%nat = Mach.Ok s /\ Mach.excl (Mach.getth s 0) = false).
Proof. split; eexists; vm_compute; split; reflexivity. Qed.

(* released exactly once, after the last access: in any reachable configuration in which every started thread has run
   to completion the buffer is no longer live.  (Exactly once: a second release would be a DoubleFree step; after the
   last access: a later access would be a use after free; both are excluded by C04_shared_handles_safe.)  The typing
   tracks the reference counts exactly (cons: an operation changes the thread's count of a buffer exactly by the change
   of its handle), so a thread that finishes holds nothing; the machine invariant (J9) says that a live buffer with no
   holders has a thread that must free it. *)
Theorem C04_all_finished_released : forall b0 kof bof cf,
  WT b0 kof bof cf ->
  (forall t, (t < length (tc cf))%nat -> Mach.started (Mach.getth (ms cf) t) = true -> finished (gettc b0 cf t)) ->
  Mach.live (ms cf) = false.
Proof. exact all_finished_released. Qed.
Theorem C04_shared_handles_released : forall b0 l0 n opsf cf,
  csteps b0 (cfg0 b0 l0 n opsf) cf ->
  (forall t, (t < length (tc cf))%nat -> Mach.started (Mach.getth (ms cf) t) = true -> finished (gettc b0 cf t)) ->
  Mach.live (ms cf) = false.
Proof. exact shared_handles_released. Qed.

(* ---- sharing BY REFERENCE (std::thread::scope), in the program semantics: thread 0 holds two handles on the buffer and
   lends one of them to n+1 scoped threads, for every n; each scoped thread runs any sequence of reads through the
   borrowed handle and clones through it (every clone is then its own handle, on which it runs any sequence of reads and
   mutations before dropping it); meanwhile the OWNER runs any sequence of reads and mutations on its other handle and
   drops it, and then reads and clones through the handle it has lent like any borrower (any sequence of operations on
   each clone); the scope ends when all scoped threads have run to completion; then thread 0 runs any sequence on the
   handle it had lent and drops it.  The typing carries who borrows (g_bor) and whom a thread has lent to (lt, in
   agreement with the machine's lend fields: wt_loans); while a loan is outstanding the lent handle is set aside: the
   lender's commands are typed with one reference fewer (g_hide) — so they can do anything with its other handles, and the
   machine state counts one reference beyond the ghost (agreeh) — and it does not spawn.  The initial configuration is
   well typed, so every reachable configuration is (C04_typed_step), none can make an erroneous step, every thread's next
   event is enabled (C04_typed_progress: a borrower's read and clone through the borrowed handle, a lender's release and
   uniqueness probe on its other handle included), and when everybody has finished the buffer has been released. ---- *)
Theorem C04_scoped_handles_typed : forall b0 l0 n bopsf ops1 lops ops0,
  WT b0 (fun _ => 0%nat) (fun t => negb (Nat.eqb t 0)) (scfg0 b0 l0 n bopsf ops1 lops ops0).
Proof. exact scoped_handles_typed. Qed.
Theorem C04_scoped_handles_safe : forall b0 l0 n bopsf ops1 lops ops0 cf,
  csteps b0 (scfg0 b0 l0 n bopsf ops1 lops ops0) cf ->
  WT b0 (fun _ => 0%nat) (fun t => negb (Nat.eqb t 0)) cf /\ forall t a e, Mach.step (ms cf) t a <> Mach.Err e.
Proof. exact scoped_handles_safe. Qed.
Theorem C04_scoped_handles_released : forall b0 l0 n bopsf ops1 lops ops0 cf,
  csteps b0 (scfg0 b0 l0 n bopsf ops1 lops ops0) cf ->
  (forall t, (t < length (tc cf))%nat -> Mach.started (Mach.getth (ms cf) t) = true -> finished (gettc b0 cf t)) ->
  Mach.live (ms cf) = false.
Proof. exact scoped_handles_released. Qed.

(* non-vacuity of the composition: a concrete interleaving (threads alternate event by event; thread 0 pushes and reads,
   thread 1 removes, clones and drops the clone) of the two-thread instance of the programs above runs to completion:
   both threads finish and the buffer has been released (exactly once: a second release would be DoubleFree) *)
Definition ex_ops (i : nat) : list hop :=
  match i with O => [HPush [97%N]; HRead] | _ => [HRemove 0%N; HCloneDrop] end.
Definition ex_sched : list choice :=
  map (fun i => {| who := Nat.modulo i 2; probe := 0; fresh_id := Some (S i) |}) (seq 0 200).
Example C04_execution_example :
  let final := run_sched 0%nat (cfg0 0%nat 5%N 1 ex_ops) ex_sched in
  csteps 0%nat (cfg0 0%nat 5%N 1 ex_ops) final
  /\ Mach.live (ms final) = false
  /\ forallb (fun x => match cur x, rest x with Ret _, [] => true | _, _ => false end) (tc final) = true.
Proof. cbv zeta. split; [apply run_sched_sound|]. vm_compute. auto. Qed.
(* and of the scoped family: the owner clones, lends one handle to two scoped threads; each reads through the borrowed
   handle, clones through it, edits its clone (copy-on-write) and drops it; meanwhile the owner pushes onto its other
   handle (a copy: the count is at least 2), removes from it and drops it, then reads and clones through the lent handle;
   the scope ends; the owner pushes and drops: everybody finishes and the buffer has been released *)
Definition ex_bops (i : nat) : list bop :=
  match i with 1%nat => [BRead; BClone [HPush [98%N]; HRead]] | _ => [BClone [HRemove 0%N]; BRead] end.
Definition ex_sched3 : list choice :=
  map (fun i => {| who := Nat.modulo i 3; probe := 0; fresh_id := Some (S i) |}) (seq 0 900).
Example C04_scoped_execution_example :
  let c0 := scfg0 0%nat 5%N 1 ex_bops [HPush [99%N]; HRemove 0%N] [BRead; BClone [HPop]] [HPush [97%N]] in
  let final := run_sched 0%nat c0 ex_sched3 in
  csteps 0%nat c0 final
  /\ Mach.live (ms final) = false
  /\ forallb (fun x => match cur x, rest x with Ret _, [] => true | _, _ => false end) (tc final) = true.
Proof. cbv zeta. split; [apply run_sched_sound|]. vm_compute. auto. Qed.

(* ---- (8) "each thread reads back exactly what its own operations would produce sequentially".
   The sequential interpreter (Cmd.run) reads every count as "the references of this thread's world + ext", where ext is
   an arbitrary oracle consulted afresh at every atomic read; all of C01's theorems are proved for an arbitrary oracle.
   So: from ANY well-formed world of a thread (its handles may share buffers with other threads), for EVERY history of its
   operations and EVERY sequence of contributions of the other threads to the counts it reads, the thread's world stays
   well-formed, nothing undefined is reached, and the texts and returned values are Spec's (String's). ---- *)
Theorem C04_thread_results_sequential : forall w0 ops,
  WF.WF w0 -> Forall (Main.op_wf (Cmd.statics (Exec.wmem w0))) ops ->
  let '(w, outs) := Exec.execs w0 ops in
  WF.WF w /\ Forall (fun o => forall u, o <> Exec.UbOut u) outs
  /\ (forallb (fun o => negb (Spec.alloc_failure o)) outs = true ->
      (WF.abs w, outs) = Main.spec_execs (Cmd.statics (Exec.wmem w0)) (WF.abs w0) ops).
Proof. intros w0 ops. exact (ThreadView.thread_results_sequential w0 ops C01.C01_gen_ok). Qed.

(* ---- (9) the link between the two: this oracle is how the other threads appear.  In the protocol machine every value an
   atomic returns to thread t — the head of the modification order for its RMWs, any message a stale acquire load may
   still read — is at least the number of references t holds ... ---- *)
Theorem C04_rmw_reads_own_plus_rest : forall s t a s',
  Inv.Inv s -> a = AClone \/ a = ACloneB \/ a = ARelease -> Mach.step s t a = Mach.Ok s' -> (Mach.refs (getth s t) <= val (hdm s))%nat.
Proof. exact rmw_value_ge_refs. Qed.
Theorem C04_load_reads_own_plus_rest : forall s t p m s',
  Inv.Inv s -> Mach.step s t (AProbe p) = Mach.Ok s' -> nth_error (msgs s) p = Some m -> (Mach.refs (getth s t) <= val m)%nat.
Proof. exact probe_value_ge_refs. Qed.
(* ... and in every configuration a well-typed program reaches, the value handed to a thread's continuation by a load or
   RMW of the shared count is that thread's own references (its ghost count) plus a non-negative rest *)
Theorem C04_typed_values_own_plus_rest : forall b0 kof bof cf0 cf t s' c' g',
  WT b0 kof bof cf0 -> csteps b0 cf0 cf -> (t < length (tc cf))%nat -> started (getth (ms cf) t) = true ->
  estep b0 t (ms cf) (cur (gettc b0 cf t)) (gh (gettc b0 cf t)) s' c' g' ->
  own_plus_rest b0 (gh (gettc b0 cf t)) (cur (gettc b0 cf t)) c'.
Proof. exact typed_values_ge_own. Qed.

(* ... and conversely every stream of values the machine can hand to a thread IS such an oracle: [runv] is the sequential
   interpreter with the values of the atomic reads supplied from outside (clamped from below by the world's own count,
   which by the theorem above changes nothing); for every stream there is an oracle under which [run] performs exactly that
   execution.  So the "for every oracle" of (8) covers everything other threads can make a thread read. *)
Theorem C04_every_value_stream_is_an_oracle : forall (R : Type) (c : Cmd.cmd R) (av : N -> N) (m : Cmd.mem),
  exists ex, Cmd.run c (ThreadView.with_ext m ex) = (let (o, m') := ThreadView.runv c av m in (o, ThreadView.with_ext m' ex)).
Proof. exact (@ThreadView.every_value_stream_is_an_oracle). Qed.

(* non-vacuity of (8): a foreign reference visible at EVERY atomic read (the uniqueness test never succeeds, dropping the
   last local handle frees nothing) and one that comes and goes: same texts and results as String *)
Example C04_thread_view_example :
  snd (Exec.execs (Exec.world0x [] (fun _ _ => false) ThreadView.busy) ThreadView.view_ops) = snd (Main.spec_execs [] [] ThreadView.view_ops)
  /\ WF.abs (fst (Exec.execs (Exec.world0x [] (fun _ _ => false) ThreadView.flicker) ThreadView.view_ops)) = fst (Main.spec_execs [] [] ThreadView.view_ops).
Proof. vm_compute. split; reflexivity. Qed.

(* (11) contents.  The machine carries no bytes; give every write step of a schedule the value it writes.  While a thread
   can reach the buffer (holds a reference, reads through a loan, or must free it) and itself moves too, every write,
   reallocation or release in the schedule is its own — so what the buffer holds is what that thread's own writes made of
   it, at every point on the way, for every schedule of the others. *)
Theorem C04_writes_while_held_are_own : forall t sched s s',
  Inv s -> Mach.run s sched = Mach.Ok s' -> held_through s t sched ->
  Forall (fun ua => (snd ua = AWrite \/ snd ua = AFree) -> fst ua = t) sched.
Proof. exact writes_while_held_are_own. Qed.
Theorem C04_contents_thread_local : forall (D : Type) t (l1 l2 : list (dstep D)) s s' (d : D),
  Inv s -> Mach.run s (plain D (l1 ++ l2)) = Mach.Ok s' -> held_through s t (plain D (l1 ++ l2)) ->
  contents D d l1 = own_contents D t d l1.
Proof. exact contents_thread_local_prefix. Qed.
(* ... and in every configuration a well-typed program reaches, an event that writes, moves, re-initialises or
   reallocates the shared buffer finds no other thread able to reach it *)
Theorem C04_typed_write_is_sole : forall b0 kof bof cf0 cf t s' c' g',
  WT b0 kof bof cf0 -> csteps b0 cf0 cf ->
  estep b0 t (ms cf) (cur (gettc b0 cf t)) (gh (gettc b0 cf t)) s' c' g' -> writes_b0 b0 (cur (gettc b0 cf t)) ->
  forall u, u <> t -> ~ Contents.holds (ms cf) u.
Proof. exact typed_write_is_sole. Qed.
(* every execution of a program (typed or not) is a schedule of the machine, so what is proved of all schedules holds of all
   executions; for a typed program: along its schedule, whatever a thread that can reach the buffer throughout finds
   written, reallocated or released, it did itself *)
Theorem C04_executions_are_schedules : forall b0 cf cf', csteps b0 cf cf' -> exists sched, Mach.run (ms cf) sched = Mach.Ok (ms cf').
Proof. exact csteps_schedule. Qed.
Theorem C04_typed_execution_contents : forall b0 kof bof cf0 cf,
  WT b0 kof bof cf0 -> csteps b0 cf0 cf ->
  exists sched, Mach.run (ms cf0) sched = Mach.Ok (ms cf)
    /\ forall t, held_through (ms cf0) t sched -> Forall (fun ua => (snd ua = AWrite \/ snd ua = AFree) -> fst ua = t) sched.
Proof. exact typed_execution_contents. Qed.
(* the premises are met (write 7, share, the other thread reads and drops, write 9: thread 0 holds throughout), and a
   write by a thread that merely shares is not a step of the machine *)
Example C04_contents_example :
  (Mach.is_ok (Mach.run (Mach.init 1) (plain nat Contents.ex_sched)) = true /\ held_through (Mach.init 1) 0 (plain nat Contents.ex_sched)
  /\ contents nat 0 Contents.ex_sched = 9
  /\ Mach.run (Mach.init 1) (plain nat [ (0, AClone, 0); (0, ASpawn 1 1, 0); (1, AProbe 0, 0); (1, AWrite, 5) ]) = Mach.Stuck)%nat.
Proof. split; [exact Contents.ex_sched_runs|]. split; [exact Contents.ex_sched_held|]. split; [vm_compute; reflexivity|exact Contents.ex_foreign_write_stuck]. Qed.

(* (12) a lender and its other handles.  While &h is lent, the lender may keep using every OTHER handle it holds on the
   same buffer: clone, drop (a release needs two references: the lent one stays), and the uniqueness probe behind every
   &mut method, which can never observe 1 whichever message it reads (invariant J11: a message a thread may still read
   counts at least that thread's own references) — so the lender never writes in place under a borrower *)
Theorem C04_lender_release_enabled : forall s t, Inv s -> (t < length (ths s))%nat -> started (getth s t) = true ->
  (2 <= refs (getth s t))%nat -> exists s', Mach.step s t ARelease = Mach.Ok s'.
Proof. exact lender_release_enabled. Qed.
Theorem C04_lender_probe_not_exclusive : forall s t p s', Inv s -> lends_from s t = true -> Mach.step s t (AProbe p) = Mach.Ok s' ->
  excl (getth s' t) = false /\ refs (getth s' t) = refs (getth s t) /\ (2 <= refs (getth s t))%nat.
Proof. exact lender_probe_not_exclusive. Qed.
Example C04_lender_example :
  Mach.is_ok (Mach.run (Mach.init 1) [ (0, AClone); (0, ALend 1); (1, AReadB); (0, AProbe 0); (0, ARelease); (1, ACloneB); (1, ARead);
                        (0, ARead); (1, ARelease); (0, AJoinB 1); (0, AProbe 0); (0, AWrite) ])%nat = true
  /\ Mach.run (Mach.init 1) [ (0, ALend 1); (0, ARelease) ]%nat = Mach.Stuck
  /\ Mach.run (Mach.init 1) [ (0, ALend 1); (0, AProbe 0) ]%nat = Mach.Stuck.
Proof. exact lender_edits_other_handle. Qed.
(* ... and move its other handles into new threads; the lent one stays *)
Example C04_lender_spawn_example :
  Mach.is_ok (Mach.run (Mach.init 2) [ (0, AClone); (0, ALend 1); (0, ASpawn 2 1); (1, AReadB); (2, ARead); (2, AProbe 0); (2, ARelease);
                        (1, ACloneB); (1, ARelease); (0, AJoinB 1); (0, AJoin 2); (0, AProbe 0); (0, AWrite); (0, ARelease);
                        (0, Mach.AFence); (0, AFree) ])%nat = true
  /\ Mach.run (Mach.init 2) [ (0, ALend 1); (0, ASpawn 2 1) ]%nat = Mach.Stuck.
Proof. exact lender_spawns_other_handle. Qed.

Print Assumptions C04_atomic_sites.
Print Assumptions C04_protocol_safe_all_schedules.
Print Assumptions C04_invariant.
Print Assumptions C04_write_excludes_others.
Print Assumptions C04_free_excludes_holders.
Print Assumptions C04_no_interference_while_held.
Print Assumptions C04_borrowed_buffer_protected.
Print Assumptions C04_borrower_operations_enabled.
Print Assumptions C04_lending_example.
Print Assumptions C04_clone_respects_protocol.
Print Assumptions C04_drop_respects_protocol.
Print Assumptions C04_reserve_respects_protocol.
Print Assumptions C04_ensure_modifiable_respects_protocol.
Print Assumptions C04_every_operation_respects_protocol.
Print Assumptions C04_typed_step.
Print Assumptions C04_typed_safe.
Print Assumptions C04_typed_progress.
Print Assumptions C04_shared_handles_typed.
Print Assumptions C04_shared_handles_safe.
Print Assumptions C04_all_finished_released.
Print Assumptions C04_shared_handles_released.
Print Assumptions C04_legacy_reserve_refuted.
Print Assumptions C04_example.
Print Assumptions C04_execution_example.
Print Assumptions C04_thread_results_sequential.
Print Assumptions C04_rmw_reads_own_plus_rest.
Print Assumptions C04_load_reads_own_plus_rest.
Print Assumptions C04_typed_values_own_plus_rest.
Print Assumptions C04_thread_view_example.
Print Assumptions C04_scoped_handles_typed.
Print Assumptions C04_scoped_handles_safe.
Print Assumptions C04_scoped_handles_released.
Print Assumptions C04_scoped_execution_example.
Print Assumptions C04_every_value_stream_is_an_oracle.
Print Assumptions C04_writes_while_held_are_own.
Print Assumptions C04_contents_thread_local.
Print Assumptions C04_typed_write_is_sole.
Print Assumptions C04_contents_example.
Print Assumptions C04_lender_release_enabled.
Print Assumptions C04_lender_probe_not_exclusive.
Print Assumptions C04_lender_example.
Print Assumptions C04_lender_spawn_example.
Print Assumptions C04_executions_are_schedules.
Print Assumptions C04_typed_execution_contents.
