(* C14 — integers format exactly as Display does, for every value of every type (<= 64 bit). *)
From Coq Require Import ZArith Lia List Bool.
From LS Require Import Base NumModel Num Exec.
From LSGen Require Import GenSrc.
Open Scope N_scope.

Definition ty_range (t : int_ty) : Z * Z :=
  match t with
  | TI8 => (-128, 127) | TU8 => (0, 255) | TI16 => (-32768, 32767) | TU16 => (0, 65535)
  | TI32 => (-2147483648, 2147483647) | TU32 => (0, 4294967295)
  | TI64 | TIsize => (-9223372036854775808, 9223372036854775807)
  | TU64 | TUsize => (0, 18446744073709551615)
  end%Z.
Definition all_tys : list int_ty := [TI8; TU8; TI16; TU16; TI32; TU32; TI64; TU64; TIsize; TUsize].

(* tie A obligations: what translate.py generated from num_to_repr.rs satisfies the side conditions *)
Theorem C14_generated_data_ok :
  forallb (fun t => check_table (table_of t) (fst (ty_range t)) (snd (ty_range t))) all_tys = true
  /\ lut_ok dec_digits_lut = true /\ writer_shape_checked = true.
Proof. vm_compute. auto. Qed.

(* every value of every type: the digit-count table gives exactly the length, every store of the unrolled
   writer is inside the buffer, the cursor ends at 0 and the text is the decimal representation *)
Theorem C14_int_text : forall t z,
  (fst (ty_range t) <= z <= snd (ty_range t))%Z ->
  int_to_text dec_digits_lut (table_of t) z = Some (dec z).
Proof.
  intros t z Hz. destruct C14_generated_data_ok as (Ht & Hl & _).
  rewrite forallb_forall in Ht.
  eapply int_to_text_correct; [exact Hl | apply (Ht t) | exact Hz].
  destruct t; cbn; auto 12.
Qed.

Theorem C14_digit_count_is_length : forall t z,
  (fst (ty_range t) <= z <= snd (ty_range t))%Z ->
  lookup (table_of t) z = Some (len (dec z)) /\ 1 <= len (dec z) <= 20.
Proof.
  intros t z Hz. destruct C14_generated_data_ok as (Ht & _ & _).
  rewrite forallb_forall in Ht.
  assert (Hin : In t all_tys) by (destruct t; cbn; auto 12).
  assert (Hr : (-9223372036854775808 <= z <= 18446744073709551615)%Z) by (destruct t; cbn in Hz; lia).
  rewrite (dec_length z Hr). split.
  - eapply lookup_is_length; [apply (Ht t Hin) | exact Hz].
  - apply dlen_le_20; exact Hr.
Qed.

(* non-vacuity: concrete values at the edges *)
Example C14_examples :
  int_to_text dec_digits_lut (table_of TI64) (-9223372036854775808) = Some (dec (-9223372036854775808))
  /\ dec (-9223372036854775808) = [45;57;50;50;51;51;55;50;48;51;54;56;53;52;55;55;53;56;48;56]
  /\ int_to_text dec_digits_lut (table_of TU8) 0 = Some [48]
  /\ int_to_text dec_digits_lut (table_of TU16) 10000 = Some [49;48;48;48;48].
Proof. vm_compute. auto. Qed.

Print Assumptions C14_generated_data_ok.
Print Assumptions C14_int_text.
Print Assumptions C14_digit_count_is_length.
Print Assumptions C14_examples.
