(* Legacy.v — the functions as they were before the repairs F1 and F2 (known_findings.json), and refutations: the
   properties are FALSE of them, with concrete witnesses evaluated inside Coq.  (The same witnesses, as case files, are
   corpus/F1_reserve_shared.cases and corpus/F2_shrink_shared.cases and were replayed on the unrepaired crate.) *)
From Coq Require Import Lia Arith ZArith List Bool.
From LS Require Import Base Utf8 Cmd Impl Exec Proto.
From LSGen Require Import GenSrc.
Import ListNotations.
Open Scope N_scope.

(* Repr::reserve before e961856: uniqueness was probed by DEcrementing the count; on the shared path the buffer was
   read and copied after the reference had been given up, and a failed copy never restored the count *)
Definition legacy_reserve (r : repr) (additional : N) : cmd (repr * bool) :=
  match r with
  | Heap b l =>
      match checked_add l additional with
      | None => Ret (r, false)
      | Some needed =>
          v <- rmw b false Release ;;
          if v =? 1 then
            _ <- rmw b true Acquire ;;
            c <- hdr_cap b ;;
            if cond_reserve_enough c needed then Ret (r, true)
            else ok <- heap_realloc b (amortized_growth l additional) ;; Ret (r, ok)
          else
            t <- read (PHeap b) 0 l ;;
            on <- heap_with_additional t additional ;;
            match on with None => Ret (r, false) | Some r' => Ret (r', true) end
      end
  | _ => reserve r additional
  end.

Definition text24 : list N := repeat 97 24.
Definition m_empty : mem := mem0 [] (fun _ _ => false).

(* one owner makes a 24-byte heap string, clones it, asks the first handle for 2^60 more bytes (refused: above the
   56-bit capacity limit), then both handles are dropped *)
Definition scenario (rsv : repr -> N -> cmd (repr * bool)) : cmd bool :=
  o <- heap_new text24 ;;
  match o with
  | None => Ret false
  | Some r =>
      r2 <- make_shallow_clone r ;;
      p <- rsv r (2 ^ 60) ;;
      _ <- replace_inner (fst p) repr_new ;;
      _ <- replace_inner r2 repr_new ;;
      Ret (snd p)
  end.

(* C02 / C05 refuted for the legacy code: a reported failure was not "nothing happened" — the count was left one too
   low, and dropping the two handles touches freed memory *)
Theorem legacy_reserve_refuted : fst (run (scenario legacy_reserve) m_empty) = OUb UUseAfterFree.
Proof. vm_compute. reflexivity. Qed.
(* the repaired function on the same history: the failure is reported, both drops are fine, nothing stays allocated *)
Theorem reserve_same_history_ok :
  fst (run (scenario reserve) m_empty) = OVal false
  /\ forallb (fun x => negb (live x)) (heap (snd (run (scenario reserve) m_empty))) = true.
Proof. vm_compute. split; reflexivity. Qed.

(* C04 refuted for the legacy code: it cannot be typed against the protocol — a thread holding ONE reference that reads
   any value other than 1 from its decrement goes on to read a buffer it no longer holds (another owner may free it) *)
Theorem legacy_reserve_not_protocol_safe : forall b l add g (Q : repr * bool -> ghost -> Prop),
  checked_add l add <> None -> g_refs g b = 1%nat -> g_excl g b = false -> g_bor g b = false ->
  ~ okc (legacy_reserve (Heap b l) add) g Q.
Proof.
  intros b l add g Q Hc Hr He Hb H. cbn [legacy_reserve] in H. destruct (checked_add l add) as [needed|]; [|congruence].
  cbn [bind rmw okc] in H. destruct H as (_ & _ & _ & H). specialize (H 2). cbn [N.eqb Pos.eqb bind read okc] in H.
  destruct H as (Hread & _). unfold can_read in Hread. cbn [g_refs g_excl g_free g_fen g_bor] in Hread. unfold setf in Hread.
  rewrite Nat.eqb_refl in Hread. rewrite Hr in Hread. destruct Hread as [H0|[H0|[(H0 & _)|H0]]]; [lia|discriminate|discriminate|congruence].
Qed.

(* Repr::shrink_to before 8892b12: the shared path sized the copy with the amortised growth rule *)
Definition legacy_shrink_shared (r : repr) (min_capacity : N) : cmd (repr * bool) :=
  match r with
  | Heap b l =>
      let new_capacity := expr_shrink_new_capacity l min_capacity in
      t <- read (PHeap b) 0 l ;;
      on <- heap_with_additional t (new_capacity - len t) ;;
      match on with
      | None => Ret (r, false)
      | Some r' => r'' <- replace_inner r r' ;; Ret (r'', true)
      end
  | _ => Ret (r, true)
  end.
Definition text40 : list N := repeat 97 40.
Definition shrink_scenario (shr : repr -> N -> cmd (repr * bool)) : cmd N :=
  o <- heap_with_capacity 100 ;;
  match o with
  | Some (Heap b _) =>
      _ <- write (PHeap b) 0 text40 ;;
      r <- heap_set_len b 40 ;;
      r2 <- make_shallow_clone r ;;
      p <- shr r 0 ;;
      capacity (fst p)
  | _ => Ret 0
  end.
(* C13 refuted for the legacy code: shrink_to_fit of a shared 40-byte string lands on 60 (= 40 * 3 / 2), not on 40 *)
Theorem legacy_shrink_refuted : fst (run (shrink_scenario legacy_shrink_shared) m_empty) = OVal 60.
Proof. vm_compute. reflexivity. Qed.
Theorem shrink_same_history_ok : fst (run (shrink_scenario shrink_to) m_empty) = OVal 40.
Proof. vm_compute. reflexivity. Qed.

(* FromIterator<char> before 6540da4 (F3): the accumulator was a bare Repr (no Drop), so when the iterator — or a push —
   panicked, unwinding skipped the only statement that would have put the buffer under a LeanString: nothing released it *)
Definition legacy_collect_chars (hint : N) (panic_at : option nat) (cs : list N) : cmd (option repr * outcome) :=
  oc <- with_capacity hint ;;
  let r0 := match oc with Some r => r | None => repr_new end in
  p <- push_chars r0 cs 0 panic_at ;;
  let '(r, o) := p in
  match o with
  | OkUnit => Ret (Some r, OkUnit)
  | _ => Ret (None, o)                     (* unwinding: the raw Repr is forgotten, its buffer is not released *)
  end.
Definition chars20 : list N := repeat 97 20.
(* C18 / C03 refuted for the legacy code: an iterator that panics at its 20th item (the text is on the heap by then)
   leaves a live buffer that no handle names *)
Theorem legacy_collect_refuted :
  let '(o, m) := run (legacy_collect_chars 0 (Some 19%nat) chars20) m_empty in
  o = OVal (None, PanicUser) /\ len (filter live (heap m)) = 1.
Proof. vm_compute. split; reflexivity. Qed.
(* the repaired function on the same history: the panic is the same, and nothing stays allocated *)
Theorem collect_same_history_ok :
  let '(o, m) := run (collect_chars 0 (Some 19%nat) chars20) m_empty in
  o = OVal (None, PanicUser) /\ len (filter live (heap m)) = 0.
Proof. vm_compute. split; reflexivity. Qed.

(* the generic arm of try_to_lean_string before 1a2b297 (F4): it wrote through fmt::Write for LeanString, whose write_str
   is the PANICKING push_str; a refused allocation therefore panicked out of the try_ form *)
Definition legacy_display (m : mode) (err_at panic_at : option nat) (ps : list (list N)) : cmd (option repr * outcome) :=
  p <- write_pieces repr_new ps 0 err_at panic_at ;; finish_acc p.
(* C05 refuted for the legacy code: with an allocator that refuses the first request, try_to_lean_string of a Display type
   writing 20 bytes panics with the ReserveError message instead of returning Err(Reserve) *)
Definition m_refuse_first : mem := mem0 [] (fun k _ => k =? 0).
Theorem legacy_display_refuted :
  fst (run (legacy_display Try None None [chars20]) m_refuse_first) = OVal (None, PanicReserve).
Proof. vm_compute. reflexivity. Qed.
Theorem display_same_history_ok :
  fst (run (display Try None None [chars20]) m_refuse_first) = OVal (None, ErrReserve)
  /\ fst (run (display Plain None None [chars20]) m_refuse_first) = OVal (None, PanicReserve).
Proof. vm_compute. split; reflexivity. Qed.
