(* Skeleton.v — the call skeleton of every hand-modelled function on the tree the model was written against.
   coq/gen/GenSrc.v regenerates `skeletons` from /repo on every run; props/C01.v requires them to be equal, so a
   function whose sequence of significant calls changed is no longer covered by the hand-written model. *)
From Coq Require Import String List.
Import ListNotations.
Definition expected_skeletons : list (string * string * list string) :=
  [("repr"%string, "from_str"%string, ["from_inline"%string; "new"%string; "new"%string]);
   ("repr"%string, "from_static_str"%string, ["from_inline"%string; "new"%string; "new"%string; "from_static"%string]);
   ("repr"%string, "with_capacity"%string, ["new"%string; "with_capacity"%string]);
   ("repr"%string, "reserve"%string, ["checked_add"%string; "is_unique"%string; "amortized_growth"%string; "realloc"%string; "as_str"%string; "with_additional"%string; "replace_inner"%string; "from_heap"%string; "new"%string; "as_str"%string; "from_inline"%string; "with_additional"%string; "as_str"%string; "from_heap"%string; "with_additional"%string; "as_str"%string; "from_heap"%string]);
   ("repr"%string, "shrink_to"%string, ["new"%string; "as_str"%string; "from_inline"%string; "is_unique"%string; "realloc"%string; "with_exact_capacity"%string; "as_str"%string; "from_heap"%string; "replace_inner"%string]);
   ("repr"%string, "push_str"%string, ["reserve"%string; "as_slice_mut"%string; "copy_from_slice"%string; "as_bytes"%string; "set_len"%string]);
   ("repr"%string, "pop"%string, ["as_str"%string; "next_back"%string; "truncate_unchecked"%string]);
   ("repr"%string, "remove"%string, ["assert"%string; "as_str"%string; "is_char_boundary"%string; "assert"%string; "ensure_modifiable"%string; "as_str_mut"%string; "copy"%string; "set_len"%string]);
   ("repr"%string, "retain"%string, ["ensure_modifiable"%string; "as_str_mut"%string; "encode_utf8"%string; "set_len"%string]);
   ("repr"%string, "insert_str"%string, ["assert"%string; "as_str"%string; "is_char_boundary"%string; "checked_add"%string; "reserve"%string; "as_slice_mut"%string; "copy"%string; "copy_nonoverlapping"%string; "set_len"%string]);
   ("repr"%string, "truncate"%string, ["as_str"%string; "assert"%string; "is_char_boundary"%string; "truncate_unchecked"%string]);
   ("repr"%string, "truncate_unchecked"%string, ["is_len_on_heap"%string; "set_len"%string; "fetch_sub"%string; "fetch_add"%string; "set_len"%string; "from_str"%string; "set_len"%string; "set_len"%string]);
   ("repr"%string, "make_shallow_clone"%string, ["fetch_add"%string; "replace_inner"%string; "new"%string]);
   ("repr"%string, "replace_inner"%string, ["fetch_sub"%string; "fence"%string; "dealloc"%string]);
   ("repr"%string, "ensure_modifiable"%string, ["is_unique"%string; "as_str"%string; "new"%string; "replace_inner"%string; "from_heap"%string; "from_str"%string; "as_str"%string; "replace_inner"%string]);
   ("repr"%string, "set_len"%string, ["set_len"%string; "set_len"%string; "set_len"%string]);
   ("heap"%string, "new"%string, ["new"%string; "allocate_ptr"%string; "new"%string; "write"%string; "copy_nonoverlapping"%string]);
   ("heap"%string, "with_capacity"%string, ["new"%string; "new"%string; "allocate_ptr"%string]);
   ("heap"%string, "with_additional"%string, ["new"%string; "new"%string; "amortized_growth"%string; "allocate_ptr"%string; "write"%string; "copy_nonoverlapping"%string]);
   ("heap"%string, "with_exact_capacity"%string, ["with_capacity"%string; "copy_nonoverlapping"%string; "set_len"%string]);
   ("heap"%string, "realloc"%string, ["new"%string; "layout_from_capacity"%string; "as_str"%string; "with_capacity"%string; "copy_nonoverlapping"%string; "set_len"%string; "dealloc"%string; "realloc"%string; "write"%string; "new"%string]);
   ("heap"%string, "dealloc"%string, ["layout_from_capacity"%string; "dealloc"%string]);
   ("heap"%string, "allocate_ptr"%string, ["layout_from_capacity"%string; "alloc"%string; "write"%string; "new"%string]);
   ("heap"%string, "set_len"%string, ["new"%string; "write"%string]);
   ("inline"%string, "new"%string, ["copy_nonoverlapping"%string]);
   ("inline"%string, "set_len"%string, []);
   ("lib"%string, "clear"%string, ["is_unique"%string; "set_len"%string; "replace_inner"%string; "new"%string]);
   ("lib"%string, "clone_from"%string, ["replace_inner"%string; "make_shallow_clone"%string]);
   ("lib"%string, "drop"%string, ["replace_inner"%string; "new"%string]);
   ("lib"%string, "from_iter"%string, ["with_capacity"%string; "new"%string; "push"%string]);
   ("lib"%string, "extend"%string, ["try_reserve"%string; "push"%string]);
   ("lib"%string, "write_str"%string, ["push_str"%string]);
   ("lib"%string, "from_utf8_lossy"%string, ["with_capacity"%string; "push_str"%string; "push"%string]);
   ("lib"%string, "from_utf16"%string, ["with_capacity"%string; "push"%string]);
   ("traits"%string, "try_to_lean_string"%string, ["from_str"%string; "as_str"%string; "try_push_str"%string; "new"%string; "write"%string])].
