(* WF.v — the pool-level invariant and the two generic execution lemmas (in-place op on a slot, constructor). *)
From Coq Require Import Lia Arith.
From LS Require Import Base Utf8 Utf8Spec Utf8Facts Cmd Impl Wp ListFacts Growth Inv InlineFacts Exec Specs Specs2 Specs3.
From LSGen Require Import GenSrc.
Open Scope N_scope.

(* how many slots name buffer b *)
Definition slot_names (s : option repr) (b : bufid) : N :=
  match s with Some r => one (names r b) | None => 0 end.
Fixpoint refs (p : list (option repr)) (b : bufid) : N :=
  match p with
  | [] => 0
  | s :: p' => slot_names s b + refs p' b
  end.

Record WF (w : world) : Prop := {
  wf_mi : MI (heap (wmem w)) (refs (pool w));
  wf_handles : forall i r, nth_error (pool w) i = Some (Some r) -> handle_ok (heap (wmem w)) (statics (wmem w)) r;
  wf_statics : Forall Valid (statics (wmem w));
}.

Lemma refs_app p s b : refs (p ++ [s]) b = refs p b + slot_names s b.
Proof. induction p as [|x p IH]; cbn [refs app]; [lia|]. rewrite IH. lia. Qed.
Lemma refs_upd p i s s' b :
  nth_error p i = Some s -> refs (upd p i s') b + slot_names s b = refs p b + slot_names s' b.
Proof.
  revert i; induction p as [|x p IH]; intros [|i] H; cbn [nth_error upd refs] in *; try discriminate.
  - injection H as ->. lia.
  - specialize (IH i H). lia.
Qed.
Lemma refs_ge p i s b : nth_error p i = Some s -> slot_names s b <= refs p b.
Proof.
  revert i; induction p as [|x p IH]; intros [|i] H; cbn [nth_error refs] in *; try discriminate.
  - injection H as ->. lia.
  - specialize (IH i H). lia.
Qed.
Lemma refs_ge2 p i j s t b :
  i <> j -> nth_error p i = Some s -> nth_error p j = Some t -> slot_names s b + slot_names t b <= refs p b.
Proof.
  revert i j; induction p as [|x p IH]; intros [|i] [|j] Hne Hi Hj; cbn [nth_error refs] in *; try discriminate; try lia.
  - injection Hi as ->. pose proof (refs_ge p j t b Hj). lia.
  - injection Hj as ->. pose proof (refs_ge p i s b Hi). lia.
  - assert (i <> j) by lia. specialize (IH i j H Hi Hj). lia.
Qed.

Lemma get_slot_nth w i r : get_slot w i = Some r <-> nth_error (pool w) i = Some (Some r).
Proof.
  unfold get_slot. destruct (nth_error (pool w) i) as [[x|]|]; split; intros H; try discriminate; congruence.
Qed.

Lemma counted_refs p i r : nth_error p i = Some (Some r) -> counted (refs p) r.
Proof.
  intros H b Hb. pose proof (refs_ge p i (Some r) b H) as G. cbn [slot_names] in G. rewrite Hb in G. exact G.
Qed.
Lemma refs_set p i r r' b :
  nth_error p i = Some (Some r) -> refs (upd p i (Some r')) b = adj (refs p) r r' b.
Proof.
  intros H. pose proof (refs_upd p i (Some r) (Some r') b H) as E. pose proof (refs_ge p i (Some r) b H) as G.
  cbn [slot_names] in *. unfold adj. lia.
Qed.
Lemma refs_clear p i r b :
  nth_error p i = Some (Some r) -> refs (upd p i None) b = refs p b - one (names r b).
Proof.
  intros H. pose proof (refs_upd p i (Some r) None b H) as E. cbn [slot_names] in *. lia.
Qed.
(* a different slot keeps its buffer out of reach of the operation *)
Lemma others_of_other_slot p i j r rj b :
  i <> j -> nth_error p i = Some (Some r) -> nth_error p j = Some (Some rj) -> names rj b = true -> others (refs p) r b.
Proof.
  intros Hne Hi Hj Hb. unfold others. pose proof (refs_ge2 p i j _ _ b Hne Hi Hj) as G. cbn [slot_names] in G.
  rewrite Hb in G. cbn [one] in G. pose proof (one_le (names r b)). lia.
Qed.

Definition abs (w : world) : list (option (list N)) := map (option_map (text_of (wmem w))) (pool w).

Lemma text_of_frame m m' r (keep : bufid -> Prop) :
  handle_ok (heap m) (statics m) r -> frame (heap m) (heap m') keep -> statics m' = statics m ->
  (forall b, names r b = true -> keep b) -> text_of m' r = text_of m r.
Proof.
  intros Hr F Hs Hk. destruct r as [bs|b l|s l]; cbn [text_of]; [reflexivity| |rewrite Hs; reflexivity].
  destruct Hr as (x & Hb & Hl & _). destruct (F b x) as (x' & Hb' & (_ & _ & _ & E)); auto.
  { apply Hk. cbn [names]. apply Nat.eqb_refl. }
  rewrite Hb, Hb', E. reflexivity.
Qed.
Lemma cap_of_frame m m' r (keep : bufid -> Prop) :
  handle_ok (heap m) (statics m) r -> frame (heap m) (heap m') keep ->
  (forall b, names r b = true -> keep b) -> cap_of m' r = cap_of m r.
Proof.
  intros Hr F Hk. destruct r as [bs|b l|s l]; cbn [cap_of]; try reflexivity.
  destruct Hr as (x & Hb & Hl & _). destruct (F b x) as (x' & Hb' & (_ & _ & E & _)); auto.
  { apply Hk. cbn [names]. apply Nat.eqb_refl. }
  rewrite Hb, Hb', E. reflexivity.
Qed.

(* ---------- an in-place step on slot i ---------- *)
Lemma wf_set_slot w i r m' r' :
  WF w -> nth_error (pool w) i = Some (Some r) -> step_ok (wmem w) (refs (pool w)) r m' r' ->
  WF (set_slot w m' i (Some r'))
  /\ (forall j rj, j <> i -> nth_error (pool w) j = Some (Some rj) ->
        nth_error (pool (set_slot w m' i (Some r'))) j = Some (Some rj)
        /\ text_of m' rj = text_of (wmem w) rj /\ cap_of m' rj = cap_of (wmem w) rj).
Proof.
  intros [WM WH WS] Hi [E M H F]. split.
  - split; cbn [set_slot pool wmem].
    + eapply MI_ext; [exact M|]. intros b. apply refs_set. exact Hi.
    + intros j rj Hj. destruct (Nat.eq_dec j i) as [->|Hne].
      * rewrite nth_error_upd_eq in Hj by (eapply nth_error_lt; eauto). injection Hj as <-. exact H.
      * rewrite nth_error_upd_ne in Hj by exact Hne. destruct E as (E1 & _). rewrite E1.
        eapply handle_ok_frame; [apply (WH j); exact Hj|exact F|].
        intros b Hb. eapply (others_of_other_slot (pool w) i j); eauto.
    + destruct E as (-> & _). exact WS.
  - intros j rj Hne Hj. cbn [set_slot pool]. rewrite nth_error_upd_ne by exact Hne. split; [exact Hj|].
    assert (Hk : forall b, names rj b = true -> others (refs (pool w)) r b).
    { intros b Hb. eapply (others_of_other_slot (pool w) i j); eauto. }
    destruct E as (E1 & _). split.
    + eapply text_of_frame; eauto.
    + eapply cap_of_frame; eauto.
Qed.

(* ---------- a constructor appends a slot ---------- *)
Lemma wf_append_some w m' r' :
  WF w -> ctor_ok (wmem w) (refs (pool w)) m' r' ->
  WF (append_slot w m' (Some r'))
  /\ (forall j rj, nth_error (pool w) j = Some (Some rj) ->
        text_of m' rj = text_of (wmem w) rj /\ cap_of m' rj = cap_of (wmem w) rj).
Proof.
  intros [WM WH WS] [E M H F]. split.
  - split; cbn [append_slot pool wmem].
    + eapply MI_ext; [exact M|]. intros b. rewrite refs_app. reflexivity.
    + intros j rj Hj. destruct (lt_dec j (length (pool w))) as [Hlt|Hge].
      * rewrite nth_error_app1 in Hj by exact Hlt. destruct E as (E1 & _). rewrite E1.
        eapply handle_ok_frame; [apply (WH j); exact Hj|exact F|].
        intros b Hb. pose proof (refs_ge (pool w) j (Some rj) b Hj) as G. cbn [slot_names] in G. rewrite Hb in G. exact G.
      * rewrite nth_error_app2 in Hj by lia. destruct (j - length (pool w))%nat as [|n]; cbn [nth_error] in Hj.
        -- injection Hj as <-. exact H.
        -- destruct n; discriminate.
    + destruct E as (-> & _). exact WS.
  - intros j rj Hj. destruct E as (E1 & _). split.
    + eapply text_of_frame; eauto.
      intros b Hb. pose proof (refs_ge (pool w) j (Some rj) b Hj) as G. cbn [slot_names] in G. rewrite Hb in G. exact G.
    + eapply cap_of_frame; eauto.
      intros b Hb. pose proof (refs_ge (pool w) j (Some rj) b Hj) as G. cbn [slot_names] in G. rewrite Hb in G. exact G.
Qed.
Lemma wf_append_none w m' :
  WF w -> same_env (wmem w) m' -> MI (heap m') (refs (pool w)) -> frame (heap (wmem w)) (heap m') (fun b => 1 <= refs (pool w) b) ->
  WF (append_slot w m' None)
  /\ (forall j rj, nth_error (pool w) j = Some (Some rj) ->
        text_of m' rj = text_of (wmem w) rj /\ cap_of m' rj = cap_of (wmem w) rj).
Proof.
  intros [WM WH WS] E M F. split.
  - split; cbn [append_slot pool wmem].
    + eapply MI_ext; [exact M|]. intros b. rewrite refs_app. cbn [slot_names]. lia.
    + intros j rj Hj. destruct (lt_dec j (length (pool w))) as [Hlt|Hge].
      * rewrite nth_error_app1 in Hj by exact Hlt. destruct E as (E1 & _). rewrite E1.
        eapply handle_ok_frame; [apply (WH j); exact Hj|exact F|].
        intros b Hb. pose proof (refs_ge (pool w) j (Some rj) b Hj) as G. cbn [slot_names] in G. rewrite Hb in G. exact G.
      * rewrite nth_error_app2 in Hj by lia. destruct (j - length (pool w))%nat as [|n]; cbn [nth_error] in Hj.
        -- discriminate.
        -- destruct n; discriminate.
    + destruct E as (-> & _). exact WS.
  - intros j rj Hj. destruct E as (E1 & _). split.
    + eapply text_of_frame; eauto.
      intros b Hb. pose proof (refs_ge (pool w) j (Some rj) b Hj) as G. cbn [slot_names] in G. rewrite Hb in G. exact G.
    + eapply cap_of_frame; eauto.
      intros b Hb. pose proof (refs_ge (pool w) j (Some rj) b Hj) as G. cbn [slot_names] in G. rewrite Hb in G. exact G.
Qed.

Lemma wp_run {R} (c : cmd R) (Q : out R -> mem -> Prop) m : wp c Q m -> Q (fst (run c m)) (snd (run c m)).
Proof. unfold wp. destruct (run c m). auto. Qed.

Lemma wf_world0x st orc ex : Forall Valid st -> WF (world0x st orc ex).
Proof.
  intros H. split; cbn [world0x pool wmem mem0x heap statics]; auto.
  - intros b. destruct b; reflexivity.
  - intros i r Hi. destruct i; discriminate.
Qed.
Lemma wf_world0 st orc : Forall Valid st -> WF (world0 st orc).
Proof. apply wf_world0x. Qed.

(* the slot is emptied: its handle was replaced by one naming no buffer, which is then forgotten *)
Lemma wf_clear_slot w i r m' r' :
  WF w -> nth_error (pool w) i = Some (Some r) -> step_ok (wmem w) (refs (pool w)) r m' r' ->
  (forall b, names r' b = false) ->
  WF (set_slot w m' i None)
  /\ (forall j rj, j <> i -> nth_error (pool w) j = Some (Some rj) ->
        text_of m' rj = text_of (wmem w) rj /\ cap_of m' rj = cap_of (wmem w) rj).
Proof.
  intros HW Hi Hs Hn. destruct (wf_set_slot w i r m' r' HW Hi Hs) as ([WM WH WS] & Ho).
  split; [|intros j rj Hne Hj; apply (Ho j rj Hne Hj)].
  cbn [set_slot pool wmem] in *. split; cbn [set_slot pool wmem].
  - eapply MI_ext; [exact WM|]. intros b.
    pose proof (refs_upd (pool w) i (Some r) (Some r') b Hi) as E1.
    pose proof (refs_upd (pool w) i (Some r) None b Hi) as E2. cbn [slot_names] in *. rewrite Hn in E1. cbn [one] in E1. lia.
  - intros j rj Hj. destruct (Nat.eq_dec j i) as [->|Hne].
    + rewrite nth_error_upd_eq in Hj by (eapply nth_error_lt; eauto). discriminate.
    + apply (WH j). rewrite nth_error_upd_ne by exact Hne. rewrite nth_error_upd_ne in Hj by exact Hne. exact Hj.
  - exact WS.
Qed.
