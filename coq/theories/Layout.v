(* Layout.v — the 16-byte image of a handle and the branch-free decode of Repr::len / as_bytes dispatch. *)
From Coq Require Import Lia Arith.
From LS Require Import Base Utf8 Utf8Spec Utf8Facts Cmd Impl ListFacts Inv InlineFacts.
From LSGen Require Import GenSrc.
Require Import ZifyBool ZifyN.
Open Scope N_scope.

Fixpoint to_le (n : N) (k : nat) : list N :=
  match k with O => [] | S k' => n mod 256 :: to_le (n / 256) k' end.
Definition of_le (bs : list N) : N := fold_right (fun b acc => b + 256 * acc) 0 bs.

Lemma of_le_to_le n k : of_le (to_le n k) = n mod 256 ^ N.of_nat k.
Proof.
  revert n; induction k as [|k IH]; intros n.
  - cbn. rewrite N.mod_1_r. reflexivity.
  - cbn [to_le of_le fold_right]. fold (of_le (to_le (n / 256) k)). rewrite IH.
    replace (N.of_nat (S k)) with (N.succ (N.of_nat k)) by lia. rewrite N.pow_succ_r'.
    rewrite (N.mod_mul_r n 256 (256 ^ N.of_nat k)); [reflexivity|lia|]. apply N.pow_nonzero. lia.
Qed.
Lemma to_le_length n k : length (to_le n k) = k.
Proof. revert n; induction k; intros n; cbn; auto. Qed.

(* word 0 is text (inline) or a pointer whose bytes we do not model; word 1 is 8 bytes *)
Record image := { w0 : option (list N); tail : list N }.
Definition encode (r : repr) : image :=
  match r with
  | Inline bs => {| w0 := Some (firstn 8 bs); tail := skipn 8 bs |}
  | Heap _ l => {| w0 := None; tail := to_le l 7 ++ [HEAP_MARKER] |}
  | Static _ l => {| w0 := None; tail := to_le l 7 ++ [STATIC_MARKER] |}
  end.

Definition raw_last_byte (i : image) : N := nthN (tail i) 7.
(* Repr::len (repr.rs:105-130) *)
Definition raw_len (i : image) : N :=
  let lenw := of_le (upd (tail i) 7 0) in
  let last := raw_last_byte i in
  if cond_len_is_inline last then expr_inline_len last else lenw.
Definition raw_is_heap (i : image) : bool := raw_last_byte i =? HEAP_MARKER.
Definition raw_is_static (i : image) : bool := raw_last_byte i =? STATIC_MARKER.

Lemma nthN_skip8 bs : length bs = 16%nat -> nthN (skipn 8 bs) 7 = nthN bs 15.
Proof. intros H. do 16 (destruct bs as [|? bs]; [discriminate|]). reflexivity. Qed.
Lemma nthN_app7 (a : list N) x : length a = 7%nat -> nthN (a ++ [x]) 7 = x.
Proof. intros H. do 7 (destruct a as [|? a]; [discriminate|]). destruct a; [reflexivity|discriminate]. Qed.
Lemma upd_app7 (a : list N) x y : length a = 7%nat -> upd (a ++ [x]) 7 y = a ++ [y].
Proof. intros H. rewrite <- H. apply upd_app_r. Qed.
Lemma of_le_app0 a : of_le (a ++ [0]) = of_le a.
Proof. induction a as [|b a IH]; cbn [app of_le fold_right]; [reflexivity|]. fold (of_le (a ++ [0])). fold (of_le a). rewrite IH. reflexivity. Qed.

Lemma marker_facts : HEAP_MARKER = 208 /\ STATIC_MARKER = 209.
Proof. split; reflexivity. Qed.
Lemma len_is_inline_spec b : cond_len_is_inline b = (b <? 208).
Proof. reflexivity. Qed.

Theorem raw_len_correct h st r :
  handle_ok h st r -> repr_len r <= MAX_LEN -> raw_len (encode r) = repr_len r.
Proof.
  intros Hr Hl. destruct r as [bs|b l|s l]; cbn [handle_ok encode repr_len] in *; unfold raw_len, raw_last_byte; cbn [tail].
  - destruct Hr as (H16 & _ & Htag). rewrite nthN_skip8 by exact H16. rewrite len_is_inline_spec.
    rewrite heap_marker_208 in Htag. apply N.ltb_lt in Htag. rewrite Htag. reflexivity.
  - rewrite nthN_app7 by apply to_le_length. rewrite len_is_inline_spec.
    assert (E : (HEAP_MARKER <? 208) = false) by reflexivity. rewrite E.
    rewrite upd_app7 by apply to_le_length. rewrite of_le_app0, of_le_to_le. apply N.mod_small.
    unfold MAX_LEN in Hl. change (256 ^ N.of_nat 7) with 72057594037927936. lia.
  - rewrite nthN_app7 by apply to_le_length. rewrite len_is_inline_spec.
    assert (E : (STATIC_MARKER <? 208) = false) by reflexivity. rewrite E.
    rewrite upd_app7 by apply to_le_length. rewrite of_le_app0, of_le_to_le. apply N.mod_small.
    unfold MAX_LEN in Hl. change (256 ^ N.of_nat 7) with 72057594037927936. lia.
Qed.

(* the dispatch on the last byte agrees with the storage kind, and the last byte never leaves the declared range *)
Theorem raw_dispatch_correct h st r :
  handle_ok h st r ->
  raw_is_heap (encode r) = is_heap r /\ raw_is_static (encode r) = is_static r
  /\ raw_last_byte (encode r) <= STATIC_MARKER.
Proof.
  intros Hr. destruct r as [bs|b l|s l]; cbn [handle_ok encode is_heap is_static] in *; unfold raw_is_heap, raw_is_static, raw_last_byte; cbn [tail].
  - destruct Hr as (H16 & _ & Htag). rewrite nthN_skip8 by exact H16. rewrite heap_marker_208 in Htag.
    destruct marker_facts as (-> & ->). repeat split; try (apply N.eqb_neq; lia); lia.
  - rewrite nthN_app7 by apply to_le_length. destruct marker_facts as (-> & ->). repeat split; lia.
  - rewrite nthN_app7 by apply to_le_length. destruct marker_facts as (-> & ->). repeat split; lia.
Qed.

(* the LastByte enum declares exactly the values 0 ..= StaticMarker, so every reachable last byte is a valid
   discriminant and the values above it are free for Option's niche *)
Definition last_byte_table_ok : bool :=
  forallb (fun k => existsb (N.eqb (N.of_nat k)) last_byte_discriminants) (seq 0 (N.to_nat STATIC_MARKER + 1))
  && forallb (fun d => d <=? STATIC_MARKER) last_byte_discriminants
  && forallb (fun k => nthN last_byte_lengths k =? MASK_1100_0000 + N.of_nat k) (seq 0 16).
