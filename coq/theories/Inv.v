(* Inv.v — the heap invariant, well-formed handles, and specifications of the buffer-level functions
   (heap_buffer.rs, replace_inner, make_shallow_clone) as weakest-precondition rules. *)
From Coq Require Import Lia Arith.
From LS Require Import Base Utf8 Utf8Spec Utf8Facts Cmd Impl Wp ListFacts Growth.
From LSGen Require Import GenSrc.
Open Scope N_scope.

(* ---------- buffers ---------- *)
Definition mkbuf (c : N) (d : list N) : buf :=
  {| live := true; asize := HDR + c; count := 1; cap := c; data := d |}.
Definition buf_wf (x : buf) : Prop :=
  asize x = HDR + cap x /\ len (data x) = cap x /\ cap x <= MAX_LEN.

Definition names (r : repr) (b : bufid) : bool :=
  match r with Heap b' _ => Nat.eqb b' b | _ => false end.
Definition one (c : bool) : N := if c then 1 else 0.

(* [own b] = how many handles name buffer b *)
Definition MI (h : list buf) (own : bufid -> N) : Prop :=
  forall b, match nth_error h b with
            | Some x => if live x then buf_wf x /\ count x = own b /\ 1 <= own b else own b = 0
            | None => own b = 0
            end.

Lemma MI_lookup h own b x :
  MI h own -> nth_error h b = Some x -> live x = true -> buf_wf x /\ count x = own b /\ 1 <= own b.
Proof. intros H Hb Hl. specialize (H b). rewrite Hb, Hl in H. exact H. Qed.
Lemma MI_owned_live h own b :
  MI h own -> 1 <= own b -> exists x, nth_error h b = Some x /\ live x = true /\ buf_wf x /\ count x = own b.
Proof.
  intros H Ho. specialize (H b). destruct (nth_error h b) as [x|]; [|lia].
  destruct (live x) eqn:E; [|lia]. exists x. intuition.
Qed.
Lemma MI_ext h own own' : MI h own -> (forall b, own' b = own b) -> MI h own'.
Proof. intros H E b. specialize (H b). rewrite E. exact H. Qed.
Lemma MI_fresh_zero h own : MI h own -> own (length h) = 0.
Proof.
  intros H. specialize (H (length h)).
  replace (nth_error h (length h)) with (@None buf) in H; [exact H|].
  symmetry. apply nth_error_None. lia.
Qed.

(* a new buffer, owned once *)
Lemma MI_new h own own' x :
  MI h own -> live x = true -> buf_wf x -> count x = 1 ->
  (forall b, own' b = own b + one (Nat.eqb b (length h))) ->
  MI (h ++ [x]) own'.
Proof.
  intros H Hl Hw Hc E b. rewrite E.
  destruct (Nat.eqb_spec b (length h)) as [->|Hne].
  - rewrite lookup_last, Hl. rewrite (MI_fresh_zero _ _ H). cbn [one]. intuition lia.
  - cbn [one]. rewrite N.add_0_r. specialize (H b).
    destruct (lt_dec b (length h)) as [Hlt|Hge].
    + rewrite nth_error_app1 by exact Hlt. exact H.
    + assert (nth_error (h ++ [x]) b = None) as ->.
      { apply nth_error_None. rewrite app_length. cbn [length]. lia. }
      assert (nth_error h b = None) as E2 by (apply nth_error_None; lia). rewrite E2 in H. exact H.
Qed.

(* buffer b replaced; every other buffer and count untouched *)
Lemma MI_upd h own own' b x x' :
  MI h own -> nth_error h b = Some x ->
  (if live x' then buf_wf x' /\ count x' = own' b /\ 1 <= own' b else own' b = 0) ->
  (forall b', b' <> b -> own' b' = own b') ->
  MI (upd h b x') own'.
Proof.
  intros H Hb Hx E b'. destruct (Nat.eq_dec b' b) as [->|Hne].
  - rewrite nth_error_upd_eq by (eapply nth_error_lt; eauto). exact Hx.
  - rewrite nth_error_upd_ne by exact Hne. rewrite (E b' Hne). apply H.
Qed.

(* ---------- handles ---------- *)
Definition handle_ok (h : list buf) (st : list (list N)) (r : repr) : Prop :=
  match r with
  | Inline bs => length bs = 16%nat /\ Valid (inline_text bs) /\ nthN bs 15 < HEAP_MARKER
  | Heap b l => exists x, nth_error h b = Some x /\ live x = true /\ l <= cap x /\ len (data x) = cap x
                          /\ Valid (firstn (N.to_nat l) (data x))
  | Static s l => exists t, nth_error st s = Some t /\ l <= len t /\ len t <= STATIC_MAX_LENGTH
                            /\ Valid (firstn (N.to_nat l) t)
  end.

(* what stays the same about a buffer that other handles still read *)
Definition buf_same (x x' : buf) : Prop :=
  live x' = live x /\ asize x' = asize x /\ cap x' = cap x /\ data x' = data x.
Lemma buf_same_refl x : buf_same x x. Proof. repeat split. Qed.
Lemma buf_same_trans x y z : buf_same x y -> buf_same y z -> buf_same x z.
Proof. unfold buf_same. intuition congruence. Qed.

(* buffers for which [keep b] holds are unchanged (up to their count) *)
Definition frame (h h' : list buf) (keep : bufid -> Prop) : Prop :=
  forall b x, keep b -> nth_error h b = Some x -> live x = true ->
              exists x', nth_error h' b = Some x' /\ buf_same x x'.
Lemma frame_refl h keep : frame h h keep.
Proof. intros b x _ Hb _. exists x. split; [exact Hb|apply buf_same_refl]. Qed.
Lemma frame_trans h1 h2 h3 keep : frame h1 h2 keep -> frame h2 h3 keep -> frame h1 h3 keep.
Proof.
  intros F1 F2 b x Hk Hb Hl. destruct (F1 b x Hk Hb Hl) as (y & Hy & S1).
  assert (live y = true) as Hly by (destruct S1 as (E & _); congruence).
  destruct (F2 b y Hk Hy Hly) as (z & Hz & S2). exists z. split; [exact Hz|eapply buf_same_trans; eauto].
Qed.
Lemma frame_weaken h h' (keep keep' : bufid -> Prop) :
  frame h h' keep -> (forall b, keep' b -> keep b) -> frame h h' keep'.
Proof. intros F W b x Hk. apply F. apply W. exact Hk. Qed.
Lemma frame_app h x keep : frame h (h ++ [x]) keep.
Proof. intros b y _ Hb _. exists y. split; [apply nth_error_app_l; exact Hb|apply buf_same_refl]. Qed.
Lemma frame_upd h b x' (keep : bufid -> Prop) : (forall b', keep b' -> b' <> b) -> frame h (upd h b x') keep.
Proof.
  intros Hk b' y Hkb Hb _. exists y. split; [|apply buf_same_refl].
  rewrite nth_error_upd_ne; [exact Hb|]. apply Hk. exact Hkb.
Qed.
Lemma frame_upd_same h b x x' (keep : bufid -> Prop) :
  nth_error h b = Some x -> buf_same x x' -> frame h (upd h b x') keep.
Proof.
  intros Hb S b' y _ Hy _. destruct (Nat.eq_dec b' b) as [->|Hne].
  - exists x'. split; [apply nth_error_upd_eq; eapply nth_error_lt; eauto|]. congruence.
  - exists y. split; [rewrite nth_error_upd_ne by exact Hne; exact Hy|apply buf_same_refl].
Qed.

Lemma handle_ok_frame h h' st r (keep : bufid -> Prop) :
  handle_ok h st r -> frame h h' keep -> (forall b, names r b = true -> keep b) -> handle_ok h' st r.
Proof.
  intros Hr F Hk. destruct r as [bs|b l|s l]; cbn [handle_ok] in *; auto.
  destruct Hr as (x & Hb & Hl & Hc & Hd & Hv).
  destruct (F b x) as (x' & Hb' & (E1 & E2 & E3 & E4)); auto.
  { apply Hk. cbn [names]. apply Nat.eqb_refl. }
  exists x'. rewrite E1, E3, E4. auto.
Qed.

(* same environment: statics and allocator oracle are never changed by a command *)
Definition same_env (m m' : mem) : Prop := statics m' = statics m /\ orc m' = orc m /\ ext m' = ext m.
Lemma same_env_refl m : same_env m m. Proof. repeat split; reflexivity. Qed.
Lemma same_env_trans m1 m2 m3 : same_env m1 m2 -> same_env m2 m3 -> same_env m1 m3.
Proof. unfold same_env. intuition congruence. Qed.
Lemma same_env_quiet m m' : same_env m m' -> quiet m -> quiet m'.
Proof. intros (_ & _ & E) Q k. rewrite E. apply Q. Qed.
Lemma same_env_quiet_rev m m' : same_env m m' -> quiet m' -> quiet m.
Proof. intros (_ & _ & E) Q k. rewrite <- E. apply Q. Qed.
Lemma quiet_now m : quiet m -> ext_now m = 0.
Proof. intros Q. apply Q. Qed.
#[export] Hint Resolve same_env_refl : core.

Lemma layout_ok c : c <= MAX_LEN -> layout_from_capacity c = Some (HDR + c).
Proof.
  intros H. unfold layout_from_capacity, checked_add.
  assert (HDR + c <= USIZE_MAX) as E1 by (unfold HDR, MAX_LEN, USIZE_MAX in *; lia).
  apply N.leb_le in E1. rewrite E1.
  assert (HDR + c <= ISIZE_MAX - 7) as E2 by (unfold HDR, MAX_LEN, ISIZE_MAX in *; lia).
  apply N.leb_le in E2. rewrite E2. reflexivity.
Qed.
Lemma capacity_new_spec c : capacity_new c = if c <=? MAX_LEN then Some c else None.
Proof.
  unfold capacity_new, cond_capacity_too_big.
  destruct (N.ltb_spec MAX_LEN c), (N.leb_spec c MAX_LEN); try reflexivity; lia.
Qed.
Lemma text_len_new_spec c : text_len_new c = if c <=? MAX_LEN then Some c else None.
Proof.
  unfold text_len_new, cond_text_len_too_big.
  destruct (N.ltb_spec MAX_LEN c), (N.leb_spec c MAX_LEN); try reflexivity; lia.
Qed.

(* ---------- allocate_ptr ---------- *)
Definition poison (n : N) : list N := repeat POISON (N.to_nat n).
Lemma len_poison n : len (poison n) = n.
Proof. unfold poison. rewrite len_repeat. lia. Qed.

Lemma allocate_ptr_wp c (Q : out (option bufid) -> mem -> Prop) m :
  c <= MAX_LEN ->
  (forall m', same_env m m' -> heap m' = heap m -> nreq m' = nreq m + 1 -> Q (OVal None) m') ->
  (forall m', same_env m m' -> heap m' = heap m ++ [mkbuf c (poison c)] -> nreq m' = nreq m + 1 ->
              Q (OVal (Some (length (heap m)))) m') ->
  wp (allocate_ptr c) Q m.
Proof.
  intros Hc Hf Hs. unfold allocate_ptr. rewrite (layout_ok c Hc).
  apply wp_bind. unfold alloc. apply wp_alloc; intros Ho; apply wp_ret; unfold lift.
  - apply wp_ret. apply Hf; [repeat split; reflexivity|reflexivity|reflexivity].
  - apply wp_bind. unfold hdr_init.
    eapply wp_hdrinit; [cbn [m_alloc_ok heap]; apply lookup_last | reflexivity |].
    apply wp_ret. unfold lift. apply wp_ret.
    apply Hs; [repeat split; reflexivity| |reflexivity].
    cbn [set_buf heap m_alloc_ok]. rewrite upd_app_r. unfold mkbuf, fresh_buf, poison. cbn [asize data].
    replace (HDR + c - HDR) with c by lia. reflexivity.
Qed.

(* a new buffer of capacity c whose first cells hold t *)
Definition filled (c : N) (t : list N) : list N := t ++ poison (c - len t).
Lemma len_filled c t : len t <= c -> len (filled c t) = c.
Proof. intros H. unfold filled. rewrite len_app, len_poison. lia. Qed.
Lemma firstn_filled c t : firstn (N.to_nat (len t)) (filled c t) = t.
Proof. unfold filled. rewrite len_to_nat. apply firstn_app_exact. Qed.
Lemma write_poison c t : len t <= c -> write_range (poison c) (N.to_nat 0) t = filled c t.
Proof.
  intros H. unfold write_range, filled, poison. change (N.to_nat 0) with 0%nat. cbn [firstn app Nat.add]. f_equal.
  rewrite skipn_repeat. f_equal. unfold len in *. lia.
Qed.

(* shape shared by HeapBuffer::new / with_additional / with_exact_capacity: allocate c, copy t in *)
Lemma alloc_copy_wp c t (Q : out (option repr) -> mem -> Prop) m :
  len t <= c -> c <= MAX_LEN ->
  (forall m', same_env m m' -> heap m' = heap m -> nreq m' = nreq m + 1 -> Q (OVal None) m') ->
  (forall m', same_env m m' -> heap m' = heap m ++ [mkbuf c (filled c t)] -> nreq m' = nreq m + 1 ->
              Q (OVal (Some (Heap (length (heap m)) (len t)))) m') ->
  wp (ob <- allocate_ptr c ;;
      match ob with
      | None => Ret None
      | Some b => write (PHeap b) 0 t ;;; Ret (Some (Heap b (len t)))
      end) Q m.
Proof.
  intros Ht Hc Hf Hs. apply wp_bind. apply allocate_ptr_wp; [exact Hc| |].
  - intros m' He Hh Hn. unfold lift. apply wp_ret. apply Hf; auto.
  - intros m' He Hh Hn. unfold lift. apply wp_bind. unfold write.
    eapply wp_write; [rewrite Hh; apply lookup_last | reflexivity | |].
    { cbn [mkbuf data]. rewrite len_poison. lia. }
    apply wp_ret. unfold lift. apply wp_ret.
    apply Hs.
    + destruct He as (E1 & E2). split; cbn [set_buf statics orc]; assumption.
    + cbn [set_buf heap]. rewrite Hh, upd_app_r. unfold mkbuf. cbn [asize count cap data].
      rewrite write_poison by exact Ht. reflexivity.
    + cbn [set_buf nreq]. exact Hn.
Qed.

Lemma heap_new_wp t (Q : out (option repr) -> mem -> Prop) m :
  (MAX_LEN < len t -> Q (OVal None) m) ->
  (forall m', same_env m m' -> heap m' = heap m -> nreq m' = nreq m + 1 -> Q (OVal None) m') ->
  (forall m', same_env m m' -> heap m' = heap m ++ [mkbuf (len t) t] -> nreq m' = nreq m + 1 ->
              Q (OVal (Some (Heap (length (heap m)) (len t)))) m') ->
  wp (heap_new t) Q m.
Proof.
  intros Hbig Hf Hs. unfold heap_new. rewrite text_len_new_spec, capacity_new_spec.
  destruct (N.leb_spec (len t) MAX_LEN) as [Hle|Hgt].
  - apply alloc_copy_wp; [lia|exact Hle|exact Hf|].
    intros m' He Hh Hn. apply Hs; auto. rewrite Hh. unfold filled. rewrite N.sub_diag. unfold poison.
    cbn [N.to_nat repeat]. rewrite app_nil_r. reflexivity.
  - apply wp_ret. apply Hbig. exact Hgt.
Qed.

Lemma heap_with_additional_wp t add (Q : out (option repr) -> mem -> Prop) m :
  len t <= USIZE_MAX ->
  (MAX_LEN < amortized_growth (len t) add -> Q (OVal None) m) ->
  (forall m', same_env m m' -> heap m' = heap m -> nreq m' = nreq m + 1 -> Q (OVal None) m') ->
  (forall m', same_env m m' ->
              heap m' = heap m ++ [mkbuf (amortized_growth (len t) add) (filled (amortized_growth (len t) add) t)] ->
              nreq m' = nreq m + 1 -> amortized_growth (len t) add <= MAX_LEN ->
              Q (OVal (Some (Heap (length (heap m)) (len t)))) m') ->
  wp (heap_with_additional t add) Q m.
Proof.
  intros Hu Hbig Hf Hs. unfold heap_with_additional. rewrite text_len_new_spec, capacity_new_spec.
  pose proof (growth_ge_len (len t) add Hu) as Hg.
  destruct (N.leb_spec (amortized_growth (len t) add) MAX_LEN) as [Hle|Hgt].
  - assert (len t <= MAX_LEN) as Hl by lia. apply N.leb_le in Hl. rewrite Hl.
    apply alloc_copy_wp; [exact Hg|exact Hle|exact Hf|]. intros m' He Hh Hn. apply Hs; auto.
  - destruct (len t <=? MAX_LEN); apply wp_ret; apply Hbig; exact Hgt.
Qed.

Lemma heap_with_capacity_wp c (Q : out (option repr) -> mem -> Prop) m :
  (MAX_LEN < c -> Q (OVal None) m) ->
  (forall m', same_env m m' -> heap m' = heap m -> nreq m' = nreq m + 1 -> Q (OVal None) m') ->
  (forall m', same_env m m' -> heap m' = heap m ++ [mkbuf c (poison c)] -> nreq m' = nreq m + 1 -> c <= MAX_LEN ->
              Q (OVal (Some (Heap (length (heap m)) 0))) m') ->
  wp (heap_with_capacity c) Q m.
Proof.
  intros Hbig Hf Hs. unfold heap_with_capacity. rewrite text_len_new_spec, capacity_new_spec.
  assert (0 <=? MAX_LEN = true) as -> by reflexivity.
  destruct (N.leb_spec c MAX_LEN) as [Hle|Hgt].
  - apply wp_bind. apply allocate_ptr_wp; [exact Hle| |].
    + intros m' He Hh Hn. unfold lift. apply wp_ret. apply Hf; auto.
    + intros m' He Hh Hn. unfold lift. apply wp_ret. apply Hs; auto.
  - apply wp_ret. apply Hbig. exact Hgt.
Qed.

Lemma heap_set_len_wp b n (Q : out repr -> mem -> Prop) m :
  n <= MAX_LEN -> Q (OVal (Heap b n)) m -> wp (heap_set_len b n) Q m.
Proof.
  intros Hn HQ. unfold heap_set_len. rewrite text_len_new_spec. apply N.leb_le in Hn. rewrite Hn.
  apply wp_ret. exact HQ.
Qed.

Lemma heap_with_exact_capacity_wp t c (Q : out (option repr) -> mem -> Prop) m :
  len t <= c ->
  (MAX_LEN < c -> Q (OVal None) m) ->
  (forall m', same_env m m' -> heap m' = heap m -> nreq m' = nreq m + 1 -> Q (OVal None) m') ->
  (forall m', same_env m m' -> heap m' = heap m ++ [mkbuf c (filled c t)] -> nreq m' = nreq m + 1 -> c <= MAX_LEN ->
              Q (OVal (Some (Heap (length (heap m)) (len t)))) m') ->
  wp (heap_with_exact_capacity t c) Q m.
Proof.
  intros Ht Hbig Hf Hs. unfold heap_with_exact_capacity. apply wp_bind.
  apply heap_with_capacity_wp.
  - intros Hgt. unfold lift. apply wp_ret. apply Hbig. exact Hgt.
  - intros m' He Hh Hn. unfold lift. apply wp_ret. apply Hf; auto.
  - intros m' He Hh Hn Hc. unfold lift. apply wp_bind. unfold write.
    eapply wp_write; [rewrite Hh; apply lookup_last | reflexivity | |].
    { cbn [mkbuf data]. rewrite len_poison. lia. }
    apply wp_ret. unfold lift. apply wp_bind. apply heap_set_len_wp; [lia|].
    unfold lift. apply wp_ret. apply Hs.
    + destruct He as (E1 & E2). split; cbn [set_buf statics orc]; assumption.
    + cbn [set_buf heap]. rewrite Hh, upd_app_r. unfold mkbuf. cbn [asize count cap data].
      rewrite write_poison by exact Ht. reflexivity.
    + cbn [set_buf nreq]. exact Hn.
    + exact Hc.
Qed.

(* ---------- realloc of a live, well-formed buffer ---------- *)
Definition resized (x : buf) (nc : N) : buf :=
  {| live := true; asize := HDR + nc; count := 1; cap := nc; data := resize (data x) (N.to_nat nc) |}.
Lemma len_resize d n : len (resize d n) = N.of_nat n.
Proof. unfold resize. rewrite len_app, len_firstn, len_repeat. unfold len. lia. Qed.
Lemma firstn_resize d n k : (k <= n)%nat -> (k <= length d)%nat -> firstn k (resize d n) = firstn k d.
Proof.
  intros H1 H2. unfold resize. rewrite firstn_app, firstn_firstn, firstn_length.
  replace (Nat.min k n) with k by lia. replace (k - Nat.min n (length d))%nat with 0%nat by lia.
  cbn [firstn]. apply app_nil_r.
Qed.

Lemma heap_realloc_wp b x nc (Q : out bool -> mem -> Prop) m :
  nth_error (heap m) b = Some x -> live x = true -> buf_wf x ->
  (MAX_LEN < nc -> Q (OVal false) m) ->
  (forall m', same_env m m' -> heap m' = heap m -> nreq m' = nreq m + 1 -> Q (OVal false) m') ->
  (forall m', same_env m m' -> heap m' = upd (heap m) b (resized x nc) -> nreq m' = nreq m + 1 -> nc <= MAX_LEN ->
              Q (OVal true) m') ->
  wp (heap_realloc b nc) Q m.
Proof.
  intros Hb Hl (Wa & Wd & Wc) Hbig Hf Hs. unfold heap_realloc. rewrite capacity_new_spec.
  destruct (N.leb_spec nc MAX_LEN) as [Hle|Hgt].
  - apply wp_bind. unfold hdr_cap. eapply wp_hdrcap; eauto. apply wp_ret. unfold lift.
    rewrite (layout_ok (cap x) Wc). apply wp_bind. unfold realloc.
    eapply wp_realloc; eauto; intros Ho; apply wp_ret; unfold lift.
    + apply wp_ret. apply Hf; [repeat split; reflexivity|reflexivity|reflexivity].
    + apply wp_bind. unfold hdr_init.
      eapply wp_hdrinit.
      * cbn [m_realloc_ok heap]. apply nth_error_upd_eq. eapply nth_error_lt; eauto.
      * reflexivity.
      * apply wp_ret. unfold lift. apply wp_ret. apply Hs; [repeat split; reflexivity| |reflexivity|exact Hle].
        cbn [set_buf heap m_realloc_ok asize data].
        rewrite layout_size_no_wrap by exact Hle.
        replace (HDR + nc - HDR) with nc by lia.
        (* upd twice at b *)
        assert (Hlt : (b < length (heap m))%nat) by (eapply nth_error_lt; eauto).
        clear - Hlt. revert b Hlt. induction (heap m) as [|y l IH]; intros [|b] Hlt; cbn in *; try lia; auto.
        f_equal. apply IH. lia.
  - apply wp_ret. apply Hbig. exact Hgt.
Qed.

(* ---------- release of one reference (replace_inner) ---------- *)
Definition released (x : buf) : buf :=
  if count x =? 1
  then {| live := false; asize := asize x; count := 0; cap := cap x; data := data x |}
  else {| live := true; asize := asize x; count := count x - 1; cap := cap x; data := data x |}.

Lemma replace_inner_heap_wp b l other x (Q : out repr -> mem -> Prop) m :
  nth_error (heap m) b = Some x -> live x = true -> buf_wf x -> 1 <= count x ->
  (forall m', same_env m m' -> heap m' = upd (heap m) b (released x) -> nreq m' = nreq m -> Q (OVal other) m') ->
  wp (replace_inner (Heap b l) other) Q m.
Proof.
  intros Hb Hl (Wa & Wd & Wc) Hc1 HQ. unfold replace_inner. apply wp_bind. unfold rmw.
  eapply wp_rmw; eauto. apply wp_ret. unfold lift.
  assert (Hlt : (b < length (heap m))%nat) by (eapply nth_error_lt; eauto).
  set (e := ext_now m).
  destruct (N.eqb_spec (count x + e) 1) as [E|E].
  - (* read 1: ours was the last reference anywhere *)
    assert (E1 : count x = 1) by lia. assert (E0 : e = 0) by lia.
    assert (Hlive : rmw_live false (count x) e = true).
    { unfold rmw_live. rewrite E0. cbn [orb]. rewrite Bool.andb_false_r. reflexivity. }
    rewrite Hlive.
    apply wp_bind. unfold fence. apply wp_fence. apply wp_ret. unfold lift.
    apply wp_bind. unfold heap_dealloc. apply wp_bind. unfold hdr_cap.
    eapply wp_hdrcap.
    { cbn [logm set_buf heap]. apply nth_error_upd_eq. exact Hlt. }
    { reflexivity. }
    apply wp_ret. unfold lift. cbn [cap]. rewrite (layout_ok (cap x) Wc). unfold dealloc.
    eapply wp_dealloc.
    { cbn [logm set_buf heap]. apply nth_error_upd_eq. exact Hlt. }
    { reflexivity. }
    { cbn [asize]. symmetry. exact Wa. }
    apply wp_ret. unfold lift. apply wp_ret.
    apply HQ; [repeat split; reflexivity| |reflexivity].
    cbn [set_buf logm heap asize count cap data]. unfold released.
    rewrite E1. cbn [N.eqb Pos.eqb].
    replace (1 - 1) with 0 by lia.
    clear - Hlt. revert b Hlt. induction (heap m) as [|y h IH]; intros [|b] Hlt; cbn in *; try lia; auto.
    f_equal. apply IH. lia.
  - apply wp_ret. apply HQ; [repeat split; reflexivity| |reflexivity].
    cbn [set_buf heap]. unfold released, rmw_live. cbn [orb].
    destruct (N.eqb_spec (count x) 1) as [E1|E1].
    + (* our last reference, but foreign ones remain: the buffer leaves this world *)
      assert (E0 : e <> 0) by lia. apply N.eqb_neq in E0. rewrite E0. cbn [negb andb]. rewrite E1. reflexivity.
    + cbn [andb negb]. reflexivity.
Qed.

Lemma replace_inner_other_wp r other (Q : out repr -> mem -> Prop) m :
  is_heap r = false -> Q (OVal other) m -> wp (replace_inner r other) Q m.
Proof. intros H HQ. destruct r; cbn in H; try discriminate; apply wp_ret; exact HQ. Qed.

(* MI after releasing one reference to b *)
Lemma MI_release h own own' b x :
  MI h own -> nth_error h b = Some x -> live x = true ->
  (forall b', own' b' = own b' - one (Nat.eqb b' b)) ->
  MI (upd h b (released x)) own'.
Proof.
  intros H Hb Hl E. destruct (MI_lookup _ _ _ _ H Hb Hl) as (Hw & Hc & Ho).
  eapply MI_upd; eauto.
  - rewrite E, Nat.eqb_refl. cbn [one]. unfold released.
    destruct (N.eqb_spec (count x) 1) as [E1|E1]; cbn [live].
    + lia.
    + destruct Hw as (W1 & W2 & W3). unfold buf_wf. cbn [asize cap data count]. repeat split; auto; lia.
  - intros b' Hne. rewrite E. apply Nat.eqb_neq in Hne. rewrite Hne. cbn [one]. lia.
Qed.
Lemma frame_release h b x (keep : bufid -> Prop) :
  nth_error h b = Some x -> live x = true -> (keep b -> 2 <= count x) -> frame h (upd h b (released x)) keep.
Proof.
  intros Hb Hl Hk b' y Hkb Hy Hly. destruct (Nat.eq_dec b' b) as [->|Hne].
  - exists (released x). split; [apply nth_error_upd_eq; eapply nth_error_lt; eauto|].
    rewrite Hb in Hy. injection Hy as <-. specialize (Hk Hkb). unfold released.
    destruct (N.eqb_spec (count x) 1) as [E|E]; [lia|]. repeat split. cbn [live]. auto.
  - exists y. split; [rewrite nth_error_upd_ne by exact Hne; exact Hy|apply buf_same_refl].
Qed.

(* ---------- event rules with the resulting memory described by equations ---------- *)
Definition with_data (x : buf) (d : list N) : buf :=
  {| live := live x; asize := asize x; count := count x; cap := cap x; data := d |}.

Section Abstract.
  Context {R : Type}.
  Variables (m : mem) (b : bufid) (x : buf).
  Hypothesis Hb : nth_error (heap m) b = Some x.
  Hypothesis Hl : live x = true.

  (* the uniqueness test: [true] only if this world holds exactly one reference and nobody else holds any; in a
     quiet world it is exactly [count x =? 1] *)
  Lemma is_unique_wp (Q : out bool -> mem -> Prop) :
    1 <= count x ->
    (forall m' u, same_env m m' -> heap m' = heap m -> nreq m' = nreq m ->
                  (u = true -> count x = 1) -> (quiet m -> u = (count x =? 1)) -> Q (OVal u) m') ->
    wp (heap_is_unique b) Q m.
  Proof.
    intros Hc1 HQ. unfold heap_is_unique. apply wp_bind. unfold load. eapply wp_load; [exact Hb|exact Hl|]. apply wp_ret.
    unfold lift. apply wp_ret. apply HQ; [repeat split; reflexivity|reflexivity|reflexivity| |].
    - intros E. apply N.eqb_eq in E. lia.
    - intros Hq. rewrite (quiet_now m Hq). rewrite N.add_0_r. reflexivity.
  Qed.
  Lemma hdr_cap_wp (Q : out N -> mem -> Prop) : Q (OVal (cap x)) m -> wp (hdr_cap b) Q m.
  Proof. intros HQ. unfold hdr_cap. eapply wp_hdrcap; [exact Hb|exact Hl|]. apply wp_ret. exact HQ. Qed.
  Lemma read_heap_wp off n (Q : out (list N) -> mem -> Prop) :
    off + n <= len (data x) ->
    (forall m', same_env m m' -> heap m' = heap m -> nreq m' = nreq m ->
                Q (OVal (slice (data x) (N.to_nat off) (N.to_nat n))) m') ->
    wp (read (PHeap b) off n) Q m.
  Proof.
    intros Hin HQ. unfold read. eapply wp_read; [exact Hb|exact Hl|exact Hin|]. apply wp_ret.
    apply HQ; [repeat split; reflexivity|reflexivity|reflexivity].
  Qed.
  Lemma write_heap_wp off bs (Q : out unit -> mem -> Prop) :
    off + len bs <= len (data x) ->
    (forall m', same_env m m' -> heap m' = upd (heap m) b (with_data x (write_range (data x) (N.to_nat off) bs)) ->
                nreq m' = nreq m -> Q (OVal tt) m') ->
    wp (write (PHeap b) off bs) Q m.
  Proof.
    intros Hin HQ. unfold write. eapply wp_write; [exact Hb|exact Hl|exact Hin|]. apply wp_ret.
    apply HQ; [repeat split; reflexivity| |reflexivity]. cbn [set_buf heap]. unfold with_data. rewrite Hl. reflexivity.
  Qed.
  Lemma move_heap_wp src dst n (Q : out unit -> mem -> Prop) :
    src + n <= len (data x) -> dst + n <= len (data x) ->
    (forall m', same_env m m' ->
                heap m' = upd (heap m) b (with_data x (move_range (data x) (N.to_nat src) (N.to_nat dst) (N.to_nat n))) ->
                nreq m' = nreq m -> Q (OVal tt) m') ->
    wp (move (PHeap b) src dst n) Q m.
  Proof.
    intros H1 H2 HQ. unfold move. eapply wp_move; [exact Hb|exact Hl|exact H1|exact H2|]. apply wp_ret.
    apply HQ; [repeat split; reflexivity| |reflexivity]. cbn [set_buf heap]. unfold with_data. rewrite Hl. reflexivity.
  Qed.
End Abstract.

Lemma read_static_wp m s t off n (Q : out (list N) -> mem -> Prop) :
  nth_error (statics m) s = Some t -> off + n <= len t ->
  (forall m', same_env m m' -> heap m' = heap m -> nreq m' = nreq m ->
              Q (OVal (slice t (N.to_nat off) (N.to_nat n))) m') ->
  wp (read (PStatic s) off n) Q m.
Proof.
  intros Hs Hin HQ. unfold read. eapply wp_read_static; [exact Hs|exact Hin|]. apply wp_ret.
  apply HQ; [repeat split; reflexivity|reflexivity|reflexivity].
Qed.

(* a unique buffer whose data changes (same length): invariant and frame *)
Lemma MI_set_data h own b x d :
  MI h own -> nth_error h b = Some x -> live x = true -> len d = len (data x) -> MI (upd h b (with_data x d)) own.
Proof.
  intros H Hb Hl Hd. destruct (MI_lookup _ _ _ _ H Hb Hl) as ((W1 & W2 & W3) & Hc & Ho).
  eapply MI_upd; eauto. unfold with_data. cbn [live]. rewrite Hl. unfold buf_wf. cbn [asize cap data count].
  repeat split; auto; lia.
Qed.
