(* PushLoop.v — the amortisation half of C12: an append loop of any length costs O(log n) allocator requests and
   O(n) copied bytes.
   gstep is the (length, capacity, requests, copied) bookkeeping of one append to an exclusively owned string;
   push_loop_model shows that the modelled crate follows it exactly (for every history of successful appends);
   gsim_bound is the arithmetic: after k requests the length is at least (3/2)^((k-1)/2), and the bytes copied by
   all reallocations together are at most 6 times the final length. *)
From Coq Require Import Lia Arith ZArith NArith List Bool.
From LS Require Import Base ListFacts Utf8 Utf8Spec Utf8Facts Cmd Impl Wp Growth Inv InlineFacts NumModel Num Exec
     Specs Specs2 SpecsRetain SpecsShrink Specs3 WF Spec Refine Main Derived GrowSim.
From LSGen Require Import GenSrc.
Import ListNotations.
Open Scope N_scope.

Lemma gstep_len st a : gl (gstep st a) = gl st + a.
Proof. unfold gstep. destruct (_ <=? _); reflexivity. Qed.
Lemma gsim_snoc st l a : gsim st (l ++ [a]) = gstep (gsim st l) a.
Proof. unfold gsim. rewrite fold_left_app. reflexivity. Qed.
Lemma gsim_len_mono l : forall st, gl st <= gl (gsim st l).
Proof.
  induction l as [|a l IH]; intros st; cbn [gsim fold_left]; [lia|].
  specialize (IH (gstep st a)). unfold gsim in IH. rewrite gstep_len in IH. lia.
Qed.

(* ---------- arithmetic ---------- *)
Definition half (k : nat) : N := N.of_nat (Nat.div2 k).
Definition P (k : nat) (x : N) : Prop := 3 ^ half k <= 2 ^ half k * x.

Lemma half_SS k : half (S (S k)) = half k + 1.
Proof. unfold half. cbn [Nat.div2]. lia. Qed.

Record ginv (st : gst) (p q u v : N) : Prop := {
  i_pl : p <= gl st;            (* p: length after the last growing append *)
  i_qu : q <= u;                (* q: the same for the growing append before that *)
  i_up : u <= p;                (* u: length before the last growing append (= bytes it copied) *)
  i_vq : v <= q;                (* v: the same for the one before *)
  i_c : 3 * u <= 2 * gc st + 1;
  i_v : 3 * v <= 2 * p;
  i_cp : gcp st <= 3 * u + 3 * v;
  i_p : (1 <= gk st)%nat -> P (gk st - 1) p;
  i_q : (2 <= gk st)%nat -> P (gk st - 2) q;
}.

Lemma ginv_init l c : ginv {| gl := l; gc := c; gk := 0; gcp := 0 |} 0 0 0 0.
Proof. split; cbn; try lia. Qed.

Lemma ginv_step st p q u v a :
  ginv st p q u v -> 3 * (gl st + a) <= USIZE_MAX ->
  exists p' q' u' v', ginv (gstep st a) p' q' u' v'.
Proof.
  intros [H1 H2 H3 H4 H5 H6 H7 H8 H9] Hno. unfold gstep.
  destruct (N.leb_spec (gl st + a) (gc st)) as [Hfit|Hgrow].
  - exists p, q, u, v. split; cbn [gl gc gk gcp]; auto. lia.
  - set (l := gl st) in *.
    assert (Hg : amortized_growth l a = N.max (l + l / 2) (l + a)) by (apply growth_exact; lia).
    assert (Hc' : 3 * l <= 2 * amortized_growth l a + 1).
    { rewrite Hg. assert (l + l / 2 <= N.max (l + l / 2) (l + a)) by lia. zify; lia. }
    exists (l + a), p, l, u. split; cbn [gl gc gk gcp]; try lia.
    + (* P k (l + a) *)
      intros _. replace (S (gk st) - 1)%nat with (gk st) by lia.
      destruct (gk st) as [|[|j]] eqn:Ek.
      * unfold P, half. cbn. lia.
      * unfold P, half. cbn. lia.
      * assert (Hq : P j q) by (replace j with (S (S j) - 2)%nat by lia; apply H9; lia).
        unfold P in *. rewrite half_SS. rewrite !N.pow_add_r. change (3 ^ 1) with 3. change (2 ^ 1) with 2.
        assert (3 * q <= 2 * (l + a)) by lia.
        set (x := 3 ^ half j) in *. set (y := 2 ^ half j) in *. nia.
    + intros Hk. replace (S (gk st) - 2)%nat with (gk st - 1)%nat by lia. apply H8. lia.
Qed.

Lemma gsim_inv l : forall st p q u v,
  ginv st p q u v -> 3 * gl (gsim st l) <= USIZE_MAX ->
  exists p' q' u' v', ginv (gsim st l) p' q' u' v'.
Proof.
  induction l as [|a l IH]; intros st p q u v HI Hno; cbn [gsim fold_left] in *.
  - exists p, q, u, v. exact HI.
  - destruct (ginv_step st p q u v a HI) as (p1 & q1 & u1 & v1 & HI1).
    { pose proof (gsim_len_mono l (gstep st a)) as Hm. unfold gsim in Hm. rewrite gstep_len in Hm. lia. }
    exact (IH _ _ _ _ _ HI1 Hno).
Qed.

(* the bound: k requests force a final length of at least (3/2)^((k-1)/2); all copies together are at most 6n *)
Theorem gsim_bound l0 c0 pieces :
  let st := gsim {| gl := l0; gc := c0; gk := 0; gcp := 0 |} pieces in
  3 * gl st <= USIZE_MAX ->
  ((1 <= gk st)%nat -> 3 ^ half (gk st - 1) <= 2 ^ half (gk st - 1) * gl st) /\ gcp st <= 6 * gl st.
Proof.
  intros st Hno. destruct (gsim_inv pieces _ 0 0 0 0 (ginv_init l0 c0) Hno) as (p & q & u & v & [H1 H2 H3 H4 H5 H6 H7 H8 H9]).
  fold st in H1, H5, H7, H8, H9. split.
  - intros Hk. specialize (H8 Hk). unfold P in H8. set (y := 2 ^ half (gk st - 1)) in *. nia.
  - lia.
Qed.

(* (3/2)^h is increasing, so the bound reads as a logarithm *)
Lemma P_down h x : 3 ^ (h + 1) <= 2 ^ (h + 1) * x -> 3 ^ h <= 2 ^ h * x.
Proof.
  rewrite !N.pow_add_r. change (3 ^ 1) with 3. change (2 ^ 1) with 2.
  set (a := 3 ^ h). set (b := 2 ^ h). nia.
Qed.
Lemma P_mono (d : nat) h x : 3 ^ (h + N.of_nat d) <= 2 ^ (h + N.of_nat d) * x -> 3 ^ h <= 2 ^ h * x.
Proof.
  induction d as [|d IH]; intros H.
  - replace (h + N.of_nat 0) with h in H by lia. exact H.
  - apply IH. apply P_down. replace (h + N.of_nat d + 1) with (h + N.of_nat (S d)) by lia. exact H.
Qed.

(* a concrete reading: growing a string to at most 4 MiB one piece at a time makes at most 76 allocator requests *)
Corollary gsim_4MiB l0 c0 pieces :
  let st := gsim {| gl := l0; gc := c0; gk := 0; gcp := 0 |} pieces in
  gl st <= 4194304 -> (gk st <= 76)%nat.
Proof.
  intros st Hn. destruct (le_lt_dec (gk st) 76) as [|Hk]; [assumption|exfalso].
  assert (Hno : 3 * gl st <= USIZE_MAX) by (unfold USIZE_MAX; cbn; lia).
  destruct (gsim_bound l0 c0 pieces Hno) as (Hb & _). fold st in Hb. specialize (Hb ltac:(lia)).
  assert (Hh : (38 <= Nat.div2 (gk st - 1))%nat).
  { destruct (gk st) as [|k]; [lia|]. replace (S k - 1)%nat with k by lia.
    pose proof (Nat.div2_odd k) as E. destruct (Nat.odd k); cbn [Nat.b2n] in E; lia. }
  unfold half in Hb.
  assert (H38 : 3 ^ 38 <= 2 ^ 38 * gl st).
  { apply (P_mono (Nat.div2 (gk st - 1) - 38) 38).
    replace (38 + N.of_nat (Nat.div2 (gk st - 1) - 38)) with (N.of_nat (Nat.div2 (gk st - 1))) by lia. exact Hb. }
  assert (2 ^ 38 * gl st <= 2 ^ 38 * 4194304) by (apply N.mul_le_mono_l; exact Hn).
  assert (2 ^ 38 * 4194304 < 3 ^ 38) by (vm_compute; reflexivity).
  lia.
Qed.

(* ---------- the modelled crate follows gstep ---------- *)
Lemma slot_after w i m' r' r : nth_error (pool w) i = Some (Some r) ->
  nth_error (pool (set_slot w m' i (Some r'))) i = Some (Some r').
Proof. intros Hi. cbn [set_slot pool]. apply nth_error_upd_eq. eapply nth_error_lt; eauto. Qed.

Lemma push_step w m i s w' r :
  WF w -> Valid s -> s <> [] -> exec w (OPushStr m i s) = (w', OkUnit) ->
  nth_error (pool w) i = Some (Some r) -> xcl (wmem w) r ->
  exists r', nth_error (pool w') i = Some (Some r') /\ WF w' /\ xcl (wmem w') r'
    /\ forall k cp,
       let st' := gstep {| gl := repr_len r; gc := cap_of (wmem w) r; gk := k; gcp := cp |} (len s) in
       repr_len r' = gl st' /\ cap_of (wmem w') r' = gc st' /\ nreq (wmem w') + N.of_nat k = nreq (wmem w) + N.of_nat (gk st').
Proof.
  intros HW Hv Hne He Hi Hex.
  destruct (on_result_live _ _ _ _ _ r (op_push_str w m i s w' _ HW Hv He) Hi) as (r' & Ew & (ok & HP & Eo) & HW' & _ & Hso).
  assert (ok = true) as -> by (destruct m, ok; cbn in Eo; congruence).
  exists r'. split; [rewrite Ew; eapply slot_after; eauto|]. split; [exact HW'|].
  split; [split; [eapply same_env_quiet; [exact (so_env _ _ _ _ _ Hso)|exact (proj1 Hex)]|exact (pp_excl _ _ _ _ _ _ _ HP eq_refl Hne)]|].
  assert (Hlen : repr_len r' = repr_len r + len s).
  { rewrite <- (text_len (wmem w') r' (so_h _ _ _ _ _ Hso)), (pp_ok _ _ _ _ _ _ _ HP eq_refl).
    unfold len. rewrite app_length. fold (len (text_of (wmem w) r)).
    rewrite Nat2N.inj_add. fold (len (text_of (wmem w) r)) (len s).
    rewrite (text_len (wmem w) r (wf_handles w HW i r Hi)). reflexivity. }
  intros k cp st'. unfold st', gstep. cbn [gl gc gk gcp].
  destruct (N.leb_spec (repr_len r + len s) (cap_of (wmem w) r)) as [Hfit|Hgrow]; cbn [gl gc gk gcp].
  - destruct (pp_fits _ _ _ _ _ _ _ HP Hex Hfit) as (_ & Hn & _ & _).
    split; [exact Hlen|]. split; [exact (pp_cap _ _ _ _ _ _ _ HP Hex Hfit)|]. lia.
  - destruct (pp_nofit _ _ _ _ _ _ _ HP eq_refl Hne Hex Hgrow) as (Hn & Hc).
    split; [exact Hlen|]. split; [exact Hc|]. lia.
Qed.

Definition push_ops (m : mode) (i : nat) (pieces : list (list N)) : list op := map (OPushStr m i) pieces.

(* every history of successful non-empty appends to an exclusively owned slot follows gsim exactly *)
Theorem push_loop_model m i pieces : forall w r w' outs,
  WF w -> Forall (fun s => Valid s /\ s <> []) pieces ->
  nth_error (pool w) i = Some (Some r) -> xcl (wmem w) r ->
  execs w (push_ops m i pieces) = (w', outs) -> Forall (fun o => o = OkUnit) outs ->
  exists r', nth_error (pool w') i = Some (Some r') /\ WF w' /\ xcl (wmem w') r'
    /\ let st := gsim {| gl := repr_len r; gc := cap_of (wmem w) r; gk := 0; gcp := 0 |} (map len pieces) in
       repr_len r' = gl st /\ cap_of (wmem w') r' = gc st /\ nreq (wmem w') = nreq (wmem w) + N.of_nat (gk st).
Proof.
  induction pieces as [|s pieces IH] using rev_ind; intros w r w' outs HW Hp Hi Hex He Ho.
  - cbn in He. injection He as <- <-. exists r. cbn [map gsim fold_left gl gc gk]. change (N.of_nat 0) with 0.
    split; [exact Hi|]. split; [exact HW|]. split; [exact Hex|]. split; [reflexivity|]. split; [reflexivity|]. lia.
  - apply Forall_app in Hp. destruct Hp as (Hp1 & Hp2). inversion Hp2 as [|? ? (Hv & Hne) _]; subst.
    unfold push_ops in He. rewrite map_app in He. cbn [map] in He. rewrite execs_snoc in He.
    fold (push_ops m i pieces) in He.
    destruct (execs w (push_ops m i pieces)) as [w1 outs1] eqn:E1.
    destruct (exec w1 (OPushStr m i s)) as [w2 out] eqn:E2. injection He as <- <-.
    apply Forall_app in Ho. destruct Ho as (Ho1 & Ho2). inversion Ho2 as [|? ? Hout _]; subst.
    destruct (IH w r w1 outs1 HW Hp1 Hi Hex E1 Ho1) as (r1 & Hi1 & HW1 & Hex1 & Hl1 & Hc1 & Hn1).
    destruct (push_step w1 m i s w2 r1 HW1 Hv Hne E2 Hi1 Hex1) as (r2 & Hi2 & HW2 & Hex2 & Hst).
    exists r2. split; [exact Hi2|]. split; [exact HW2|]. split; [exact Hex2|].
    rewrite map_app. cbn [map]. rewrite gsim_snoc.
    set (st1 := gsim _ (map len pieces)) in *.
    specialize (Hst (gk st1) (gcp st1)). cbv zeta in Hst. rewrite Hl1, Hc1 in Hst.
    replace {| gl := gl st1; gc := gc st1; gk := gk st1; gcp := gcp st1 |} with st1 in Hst by (destruct st1; reflexivity).
    destruct Hst as (A & B & C). split; [exact A|]. split; [exact B|]. lia.
Qed.

(* the two together: the property's amortisation claim for the modelled crate *)
Theorem push_loop_cost m i pieces w r w' outs r' :
  WF w -> Forall (fun s => Valid s /\ s <> []) pieces ->
  nth_error (pool w) i = Some (Some r) -> xcl (wmem w) r ->
  execs w (push_ops m i pieces) = (w', outs) -> Forall (fun o => o = OkUnit) outs ->
  nth_error (pool w') i = Some (Some r') ->
  let k := N.to_nat (nreq (wmem w') - nreq (wmem w)) in
  (1 <= k)%nat -> 3 ^ half (k - 1) <= 2 ^ half (k - 1) * repr_len r'.
Proof.
  intros HW Hp Hi Hex He Ho Hi' k Hk.
  destruct (push_loop_model m i pieces w r w' outs HW Hp Hi Hex He Ho) as (r2 & Hi2 & HW2 & _ & Hl & _ & Hn).
  rewrite Hi' in Hi2. injection Hi2 as <-. cbv zeta in Hl, Hn.
  set (st := gsim _ (map len pieces)) in *.
  assert (Ek : k = gk st) by (unfold k; lia).
  assert (Hno : 3 * gl st <= USIZE_MAX).
  { rewrite <- Hl. pose proof (handle_len_bound (wmem w') _ r' (wf_mi w' HW2) (wf_handles w' HW2 i r' Hi')) as Hb.
    unfold MAX_LEN, USIZE_MAX in *. cbn in *. lia. }
  destruct (gsim_bound (repr_len r) (cap_of (wmem w) r) (map len pieces) Hno) as (Hb & _). fold st in Hb.
  rewrite Ek, Hl. apply Hb. lia.
Qed.
