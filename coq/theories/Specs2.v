(* Specs2.v — specifications of the mutators built on reserve / ensure_modifiable. *)
From Coq Require Import Lia Arith.
From LS Require Import Base Utf8 Utf8Spec Utf8Facts Cmd Impl Wp ListFacts Growth Inv InlineFacts Exec Specs.
From LSGen Require Import GenSrc.
Open Scope N_scope.

Lemma one_le b : one b <= 1. Proof. destruct b; cbn; lia. Qed.

Lemma step_ok_trans m own r m1 r1 m2 r2 :
  step_ok m own r m1 r1 -> step_ok m1 (adj own r r1) r1 m2 r2 -> step_ok m own r m2 r2.
Proof.
  intros [E1 M1 H1 F1] [E2 M2 H2 F2]. split.
  - eapply same_env_trans; eauto.
  - eapply MI_ext; [exact M2|]. intros b. unfold adj. pose proof (one_le (names r b)). pose proof (one_le (names r1 b)). lia.
  - exact H2.
  - eapply frame_trans; [exact F1|]. eapply frame_weaken; [exact F2|].
    intros b. unfold others, adj. pose proof (one_le (names r b)). pose proof (one_le (names r1 b)). lia.
Qed.

(* the data of an exclusively owned buffer changes in place *)
Lemma heap_data_step_ok m own b l l' x d' m' :
  MI (heap m) own -> nth_error (heap m) b = Some x -> live x = true -> count x = 1 ->
  len d' = len (data x) -> l' <= cap x -> Valid (firstn (N.to_nat l') d') ->
  same_env m m' -> heap m' = upd (heap m) b (with_data x d') ->
  step_ok m own (Heap b l) m' (Heap b l')
  /\ text_of m' (Heap b l') = firstn (N.to_nat l') d'
  /\ exclusive (heap m') (Heap b l') /\ cap_of m' (Heap b l') = cap x.
Proof.
  intros HM Hb Hl Hc Hd Hl' Hv He Hh.
  destruct (MI_lookup _ _ _ _ HM Hb Hl) as ((W1 & W2 & W3) & Hcx & Hox).
  assert (Hb' : nth_error (heap m') b = Some (with_data x d')).
  { rewrite Hh. apply nth_error_upd_eq. eapply nth_error_lt; eauto. }
  split; [|split; [|split]].
  - split.
    + exact He.
    + rewrite Hh. eapply MI_ext; [apply MI_set_data; eauto|]. intros b'. unfold adj. cbn [names].
      destruct (Nat.eqb_spec b b') as [<-|Hne]; cbn [one]; lia.
    + cbn [handle_ok]. exists (with_data x d'). rewrite Hb'. unfold with_data. cbn [live cap data].
      repeat split; auto. lia.
    + rewrite Hh. apply frame_upd. unfold others. cbn [names]. intros b' Ho ->. rewrite Nat.eqb_refl in Ho.
      cbn [one] in Ho. lia.
  - cbn [text_of]. rewrite Hb'. reflexivity.
  - exists (with_data x d'). rewrite Hb'. unfold with_data. cbn [live count]. auto.
  - cbn [cap_of]. rewrite Hb'. reflexivity.
Qed.

(* set_len / truncate_unchecked only rewrite the handle *)
Definition with_len (r : repr) (n : N) : repr :=
  match r with
  | Inline bs => Inline (inline_set_len bs n)
  | Heap b _ => Heap b n
  | Static s _ => Static s n
  end.
Lemma set_len_wp r n (Q : out repr -> mem -> Prop) m :
  n <= MAX_LEN -> Q (OVal (with_len r n)) m -> wp (set_len r n) Q m.
Proof.
  intros Hn HQ. destruct r; cbn [set_len with_len] in *; try (apply wp_ret; exact HQ).
  apply heap_set_len_wp; auto.
Qed.
Lemma truncate_unchecked_wp r n (Q : out repr -> mem -> Prop) m :
  n <= MAX_LEN -> Q (OVal (with_len r n)) m -> wp (truncate_unchecked r n) Q m.
Proof.
  intros Hn HQ. destruct r; cbn [truncate_unchecked with_len] in *; try (apply wp_ret; exact HQ).
  apply heap_set_len_wp; auto.
Qed.
Lemma names_with_len r n b : names (with_len r n) b = names r b.
Proof. destruct r; reflexivity. Qed.

(* shortening a handle to a char boundary *)
Lemma with_len_shrink_ok m r n :
  handle_ok (heap m) (statics m) r -> n <= repr_len r -> Valid (firstn (N.to_nat n) (text_of m r)) ->
  handle_ok (heap m) (statics m) (with_len r n) /\ text_of m (with_len r n) = firstn (N.to_nat n) (text_of m r)
  /\ repr_len (with_len r n) = n.
Proof.
  intros Hr Hn Hv. destruct r as [bs|b l|s l]; cbn [with_len handle_ok text_of repr_len] in *.
  - destruct Hr as (H16 & Hvt & Htag).
    pose proof (inline_len_le bs Htag) as Hle.
    assert (Hfn : firstn (N.to_nat n) (inline_text bs) = firstn (N.to_nat n) bs).
    { unfold inline_text. rewrite firstn_firstn. f_equal. lia. }
    assert (H16' : n = 16 -> nthN bs 15 < 192).
    { intros ->. assert (inline_len bs = 16) as E by lia. unfold inline_len in E.
      rewrite inline_len_spec in E by exact Htag. destruct (N.ltb_spec (nthN bs 15) 192); [assumption|].
      rewrite heap_marker_208 in Htag. lia. }
    destruct (inline_set_len_text bs n H16 ltac:(lia) H16') as (T1 & T2).
    rewrite inline_set_len_length. rewrite T1, Hfn. repeat split; auto.
    + rewrite <- Hfn. exact Hv.
    + rewrite <- inline_text_length; [|rewrite inline_set_len_length; exact H16|exact T2].
      rewrite T1, len_firstn. unfold len. lia.
  - destruct Hr as (x & Hb & Hl & Hlc & Hd & Hvx). rewrite Hb in *.
    assert (E : firstn (N.to_nat n) (firstn (N.to_nat l) (data x)) = firstn (N.to_nat n) (data x)).
    { rewrite firstn_firstn. f_equal. lia. }
    rewrite E in *. repeat split; auto. exists x. repeat split; auto. lia.
  - destruct Hr as (t & Hs & Hl & Hm & Hvt). rewrite Hs in *.
    assert (E : firstn (N.to_nat n) (firstn (N.to_nat l) t) = firstn (N.to_nat n) t).
    { rewrite firstn_firstn. f_equal. lia. }
    rewrite E in *. repeat split; auto. exists t. repeat split; auto. lia.
Qed.

(* ---------- writes into an exclusive handle followed by set_len ---------- *)
(* A mutator ends with: bytes of the exclusive storage rewritten to [d'] (heap: whole data; inline: the 16 bytes),
   then set_len n.  [T'] is the text the first n bytes now spell. *)
Lemma finish_inline m own d d' n m' :
  MI (heap m) own -> length d' = 16%nat -> n <= 16 -> Valid (firstn (N.to_nat n) d') ->
  (n = 16 -> nthN d' 15 < 192) ->
  same_env m m' -> heap m' = heap m ->
  step_ok m own (Inline d) m' (Inline (inline_set_len d' n))
  /\ text_of m' (Inline (inline_set_len d' n)) = firstn (N.to_nat n) d'
  /\ exclusive (heap m') (Inline (inline_set_len d' n)).
Proof.
  intros HM H16 Hn Hv H192 He Hh.
  destruct (inline_set_len_text d' n H16 Hn H192) as (T1 & T2).
  split; [|split].
  - apply step_ok_local; auto.
    + intros b Hb. discriminate.
    + cbn [handle_ok]. rewrite inline_set_len_length, T1. auto.
  - cbn [text_of]. exact T1.
  - exact I.
Qed.

Lemma full_inline_last (d' : list N) : length d' = 16%nat -> Valid (firstn 16 d') -> nthN d' 15 < 192.
Proof.
  intros H Hv. rewrite <- H in Hv. rewrite firstn_all in Hv.
  rewrite last_nth16 by exact H. apply valid_last_lt_192; [exact Hv|]. intros ->. discriminate.
Qed.

(* ---------- push_str ---------- *)
Record push_post (m : mem) (own : bufid -> N) (r : repr) (s : list N) (m' : mem) (r' : repr) (ok : bool) : Prop := {
  pp_step : step_ok m own r m' r';
  pp_ok : ok = true -> text_of m' r' = text_of m r ++ s;
  pp_fail : ok = false -> r' = r /\ heap m' = heap m;
  pp_fits : xcl m r -> repr_len r + len s <= cap_of m r ->
            ok = true /\ nreq m' = nreq m /\ (forall b, names r' b = names r b) /\ is_heap r' = is_heap r;
  pp_grow : ok = true -> nreq m' = nreq m \/
            (is_heap r' = true /\ cap_of m' r' = amortized_growth (repr_len r) (len s) /\ nreq m' = nreq m + 1);
  pp_excl : ok = true -> s <> [] -> exclusive (heap m') r';
  pp_cap : xcl m r -> repr_len r + len s <= cap_of m r -> cap_of m' r' = cap_of m r;
  pp_nofit : ok = true -> s <> [] -> xcl m r -> cap_of m r < repr_len r + len s ->
             nreq m' = nreq m + 1 /\ cap_of m' r' = amortized_growth (repr_len r) (len s);
}.

Lemma push_str_wp m own r s (Q : out (repr * bool) -> mem -> Prop) :
  MI (heap m) own -> handle_ok (heap m) (statics m) r -> counted own r -> Valid s ->
  (forall m' r' ok, push_post m own r s m' r' ok -> Q (OVal (r', ok)) m') ->
  wp (push_str r s) Q m.
Proof.
  intros HM Hr Hc Hvs HQ. unfold push_str. destruct s as [|c0 s0].
  - (* empty: no-op *)
    apply wp_ret. apply HQ. split.
    + apply step_ok_refl; auto.
    + intros _. rewrite app_nil_r. reflexivity.
    + auto.
    + intros _ _. auto.
    + intros _. left. reflexivity.
    + intros _ Hx. congruence.
    + intros _ _. reflexivity.
    + intros _ Hx. congruence.
  - set (s := c0 :: s0) in *.
    apply wp_bind. apply (reserve_wp m own r (len s)); auto. intros m1 r1 ok [P1 P2 P3 P4 P5 P6 P7]. unfold lift.
    destruct ok; cbn [negb].
    2:{ destruct (P5 eq_refl) as (-> & Hh1). apply wp_ret. apply HQ. split.
        - exact P1.
        - discriminate.
        - auto.
        - intros H1 H2. destruct (P6 H1 H2) as (Hbad & _). discriminate.
        - discriminate.
        - discriminate.
        - intros H1 H2. destruct (P6 H1 H2) as (Hbad & _). discriminate.
        - discriminate. }
    destruct (P4 eq_refl) as (Hex1 & Hcap1).
    pose proof (so_mi _ _ _ _ _ P1) as HM1. pose proof (so_h _ _ _ _ _ P1) as Hr1.
    set (l := repr_len r) in *.
    pose proof (text_len m r Hr) as HlT. fold l in HlT.
    pose proof (text_valid m r Hr) as HvT.
    assert (HlM : l + len s <= MAX_LEN).
    { pose proof (cap_of_bound m1 _ r1 HM1 Hr1). lia. }
    destruct r1 as [d|b l1|s1 l1]; [| |contradiction].
    + (* inline *)
      cbn [write_at]. apply wp_bind. apply wp_ret. unfold lift.
      apply wp_bind. apply set_len_wp; [exact HlM|]. unfold lift. apply wp_ret. cbn [with_len].
      destruct Hr1 as (H16 & Hv1 & Htag1). cbn [cap_of] in Hcap1. rewrite max_inline_16 in Hcap1.
      cbn [text_of] in P2. cbn [repr_len] in P3.
      set (d' := write_range d (N.to_nat l) s).
      assert (Hd' : length d' = 16%nat).
      { unfold d'. rewrite write_range_length; [exact H16|]. unfold len in Hcap1. lia. }
      assert (Hpre : firstn (N.to_nat (l + len s)) d' = text_of m r ++ s).
      { unfold d'. replace (N.to_nat (l + len s)) with (N.to_nat l + length s)%nat by (unfold len; lia).
        rewrite write_range_prefix by (unfold len in Hcap1; lia).
        f_equal. rewrite <- P2. unfold inline_text. rewrite P3. reflexivity. }
      assert (Hv' : Valid (firstn (N.to_nat (l + len s)) d')) by (rewrite Hpre; apply valid_app; auto).
      assert (H192 : l + len s = 16 -> nthN d' 15 < 192).
      { intros E. apply full_inline_last; [exact Hd'|]. rewrite E in Hv'. exact Hv'. }
      destruct (finish_inline m1 (adj own r (Inline d)) d d' (l + len s) m1 HM1 Hd' Hcap1 Hv' H192 (same_env_refl m1) eq_refl)
        as (S1 & S2 & S3).
      apply HQ. split.
      * eapply step_ok_trans; eauto.
      * intros _. rewrite S2. exact Hpre.
      * discriminate.
      * intros H1 H2. destruct (P6 H1 H2) as (_ & E & Hh1 & Hn1). rewrite <- E. repeat split; auto.
      * intros _. destruct (P7 eq_refl) as [(_ & _ & Hn)|[(Hh & _)|(_ & _ & _ & _ & Hn)]]; auto. discriminate.
      * intros _ _. exact S3.
      * intros H1 H2. destruct (P6 H1 H2) as (_ & E & Hh1 & Hn1). rewrite <- E. reflexivity.
      * intros _ _ (Hq & Hx) Hlt. exfalso. destruct (P7 eq_refl) as [(E & Hh1 & Hn)|[(Hh & _)|(Hst & _)]].
        -- assert (cap_of m r = 16) by (rewrite <- E; cbn [cap_of]; apply max_inline_16). lia.
        -- discriminate.
        -- destruct r; cbn in Hst, Hx; try discriminate; contradiction.
    + (* exclusive heap *)
      destruct Hex1 as (x & Hb & Hl & Hcx). cbn [cap_of] in Hcap1. rewrite Hb in Hcap1.
      cbn [text_of] in P2. rewrite Hb in P2. cbn [repr_len] in P3. subst l1.
      destruct (MI_lookup _ _ _ _ HM1 Hb Hl) as ((W1 & W2 & W3) & _ & _).
      cbn [write_at]. apply wp_bind. apply wp_bind. eapply write_heap_wp; [exact Hb|exact Hl|lia|].
      intros m2 He2 Hh2 Hn2. unfold lift. apply wp_ret. unfold lift.
      apply wp_bind. apply set_len_wp; [exact HlM|]. unfold lift. apply wp_ret. cbn [with_len].
      set (d' := write_range (data x) (N.to_nat l) s) in *.
      assert (Hd' : len d' = len (data x)).
      { unfold d', len. rewrite write_range_length; [reflexivity|]. unfold len in *. lia. }
      assert (Hpre : firstn (N.to_nat (l + len s)) d' = text_of m r ++ s).
      { unfold d'. replace (N.to_nat (l + len s)) with (N.to_nat l + length s)%nat by (unfold len; lia).
        rewrite write_range_prefix by (unfold len in *; lia). rewrite P2. reflexivity. }
      assert (Hv' : Valid (firstn (N.to_nat (l + len s)) d')) by (rewrite Hpre; apply valid_app; auto).
      destruct (heap_data_step_ok m1 (adj own r (Heap b l)) b l (l + len s) x d' m2 HM1 Hb Hl Hcx Hd' Hcap1 Hv' He2 Hh2)
        as (S1 & S2 & S3 & S4).
      apply HQ. split.
      * eapply step_ok_trans; eauto.
      * intros _. rewrite S2. exact Hpre.
      * discriminate.
      * intros H1 H2. destruct (P6 H1 H2) as (_ & E & Hh1 & Hn1). rewrite <- E. repeat split; auto. lia.
      * intros _. destruct (P7 eq_refl) as [(_ & _ & Hn)|[(Hh & Hc2 & Hn)|(_ & Hh & _)]].
        -- left. lia.
        -- right. repeat split; auto; [|lia]. rewrite S4. cbn [cap_of] in Hc2. rewrite Hb in Hc2. exact Hc2.
        -- discriminate.
      * intros _ _. exact S3.
      * intros H1 H2. destruct (P6 H1 H2) as (_ & E & Hh1 & Hn1). rewrite <- E. rewrite S4.
        cbn [cap_of]. rewrite <- Hh1, Hb. reflexivity.
      * intros _ _ (Hq & Hx) Hlt. destruct (P7 eq_refl) as [(E & Hh1 & Hn)|[(Hh & Hc2 & Hn)|(Hst & _)]].
        -- exfalso. assert (cap_of m r = cap x) by (rewrite <- E; cbn [cap_of]; rewrite <- Hh1, Hb; reflexivity). lia.
        -- split; [lia|]. rewrite S4. cbn [cap_of] in Hc2. rewrite Hb in Hc2. exact Hc2.
        -- exfalso. destruct r; cbn in Hst, Hx; try discriminate; contradiction.
Qed.

(* ---------- as_bytes ---------- *)
Lemma as_bytes_wp m own r (Q : out (list N) -> mem -> Prop) :
  MI (heap m) own -> handle_ok (heap m) (statics m) r ->
  (forall m', same_env m m' -> heap m' = heap m -> nreq m' = nreq m -> Q (OVal (text_of m r)) m') ->
  wp (as_bytes r) Q m.
Proof.
  intros HM Hr HQ. destruct r as [bs|b l|s l]; cbn [as_bytes text_of handle_ok] in *.
  - apply wp_ret. apply HQ; auto.
  - destruct Hr as (x & Hb & Hl & Hlc & Hd & Hv). rewrite Hb in HQ.
    eapply read_heap_wp; [exact Hb|exact Hl|lia|]. intros m' He Hh Hn.
    change (N.to_nat 0) with 0%nat. rewrite slice_0. apply HQ; auto.
  - destruct Hr as (t & Hs & Hl & Hm & Hv). rewrite Hs in HQ.
    eapply read_static_wp; [exact Hs|lia|]. intros m' He Hh Hn.
    change (N.to_nat 0) with 0%nat. rewrite slice_0. apply HQ; auto.
Qed.

(* moving the handle's memory one step along while nothing changed *)
Lemma handle_ok_same m m' r : same_env m m' -> heap m' = heap m -> handle_ok (heap m) (statics m) r -> handle_ok (heap m') (statics m') r.
Proof. intros (E & _) Hh Hr. rewrite Hh, E. exact Hr. Qed.
Lemma MI_same m m' own : heap m' = heap m -> MI (heap m) own -> MI (heap m') own.
Proof. intros ->. auto. Qed.
Lemma exclusive_same m m' r : heap m' = heap m -> exclusive (heap m) r -> exclusive (heap m') r.
Proof. intros ->. auto. Qed.
Lemma xcl_same m m' r : same_env m m' -> heap m' = heap m -> xcl m r -> xcl m' r.
Proof. intros He Hh (Hq & Hx). split; [eapply same_env_quiet; eauto|rewrite Hh; exact Hx]. Qed.
Lemma xcl_same_rev m m' r : same_env m m' -> heap m' = heap m -> xcl m' r -> xcl m r.
Proof. intros He Hh (Hq & Hx). split; [eapply same_env_quiet_rev; eauto|rewrite <- Hh; exact Hx]. Qed.

(* first phase did nothing to the heap (reads only): continue from m' as if from m *)
Lemma step_ok_after_reads m m0 own r m' r' :
  same_env m m0 -> heap m0 = heap m -> step_ok m0 own r m' r' -> step_ok m own r m' r'.
Proof.
  intros He Hh [E M H F]. split; auto.
  - eapply same_env_trans; eauto.
  - rewrite <- Hh. exact F.
Qed.

(* ---------- insert_str ---------- *)
Definition insert_text (T : list N) (idx : N) (s : list N) : list N :=
  firstn (N.to_nat idx) T ++ s ++ skipn (N.to_nat idx) T.

Record insert_post (m : mem) (own : bufid -> N) (r : repr) (idx : N) (s : list N)
       (m' : mem) (r' : repr) (res : res unit) : Prop := {
  ip_step : step_ok m own r m' r';
  ip_panic : is_char_boundary (text_of m r) idx = false -> res = RPanic PIndex /\ r' = r /\ heap m' = heap m /\ nreq m' = nreq m;
  ip_nopanic : is_char_boundary (text_of m r) idx = true -> res <> RPanic PIndex /\ (forall p, res <> RPanic p);
  ip_ok : res = ROk tt -> text_of m' r' = insert_text (text_of m r) idx s;
  ip_fail : res = RErr -> r' = r /\ heap m' = heap m;
  ip_fits : is_char_boundary (text_of m r) idx = true -> xcl m r -> repr_len r + len s <= cap_of m r ->
            res = ROk tt /\ nreq m' = nreq m /\ (forall b, names r' b = names r b) /\ is_heap r' = is_heap r;
  ip_grow : res = ROk tt -> nreq m' = nreq m \/
            (is_heap r' = true /\ cap_of m' r' = amortized_growth (repr_len r) (len s) /\ nreq m' = nreq m + 1);
}.

Lemma skipn_firstn_slice {A} (d : list A) i l : (i <= l)%nat -> skipn i (firstn l d) = slice d i (l - i).
Proof. intros H. unfold slice. rewrite skipn_firstn_comm. reflexivity. Qed.

Lemma insert_text_valid T idx s : Valid T -> Valid s -> is_char_boundary T idx = true -> Valid (insert_text T idx s).
Proof.
  intros HT Hs Hb. destruct (valid_split_boundary T idx HT Hb) as (H1 & H2).
  unfold insert_text. apply valid_app; [exact H1|]. apply valid_app; assumption.
Qed.

Lemma insert_post_unchanged m own r idx s m' res :
  MI (heap m) own -> handle_ok (heap m) (statics m) r -> counted own r ->
  same_env m m' -> heap m' = heap m ->
  (is_char_boundary (text_of m r) idx = false -> res = RPanic PIndex /\ nreq m' = nreq m) ->
  (is_char_boundary (text_of m r) idx = true ->
     res = RErr /\ ~ (xcl m r /\ repr_len r + len s <= cap_of m r)) ->
  insert_post m own r idx s m' r res.
Proof.
  intros HM Hr Hc He Hh Hp He2. split.
  - apply step_ok_refl; auto.
  - intros Hb. destruct (Hp Hb). auto.
  - intros Hb. destruct (He2 Hb) as (-> & _). split; [discriminate|intros p; discriminate].
  - intros ->. destruct (is_char_boundary (text_of m r) idx) eqn:E.
    + destruct (He2 eq_refl). discriminate.
    + destruct (Hp eq_refl). discriminate.
  - intros _. auto.
  - intros Hb H1 H2. destruct (He2 Hb) as (_ & Hno). exfalso. apply Hno. auto.
  - intros ->. destruct (is_char_boundary (text_of m r) idx) eqn:E.
    + destruct (He2 eq_refl). discriminate.
    + destruct (Hp eq_refl). discriminate.
Qed.

Lemma insert_str_wp m own r idx s (Q : out (repr * res unit) -> mem -> Prop) :
  MI (heap m) own -> handle_ok (heap m) (statics m) r -> counted own r -> Valid s ->
  (forall m' r' res, insert_post m own r idx s m' r' res -> Q (OVal (r', res)) m') ->
  wp (insert_str r idx s) Q m.
Proof.
  intros HM Hr Hc Hvs HQ. unfold insert_str.
  apply wp_bind. eapply as_bytes_wp; eauto. intros m0 He0 Hh0 Hn0. unfold lift.
  set (T := text_of m r) in *.
  pose proof (text_len m r Hr) as HlT. pose proof (text_valid m r Hr) as HvT. fold T in HlT, HvT.
  set (l := repr_len r) in *.
  destruct (is_char_boundary T idx) eqn:Hbd; cbn [negb].
  2:{ apply wp_ret. apply HQ. apply insert_post_unchanged; auto.
      intros Hx. change (is_char_boundary T idx = true) in Hx. congruence. }
  pose proof (boundary_le_len T idx Hbd) as Hidx. rewrite HlT in Hidx.
  assert (Hnp : is_char_boundary (text_of m r) idx = false -> @RErr unit = RPanic PIndex /\ nreq m0 = nreq m).
  { intros Hx. change (is_char_boundary T idx = false) in Hx. congruence. }
  unfold checked_add. destruct (N.leb_spec (l + len s) USIZE_MAX) as [Hsum|Hsum].
  2:{ apply wp_ret. apply HQ. apply insert_post_unchanged; auto.
      intros _. split; [reflexivity|]. intros (_ & Hf).
      pose proof (cap_of_bound m own r HM Hr). unfold MAX_LEN, USIZE_MAX in *. lia. }
  apply wp_bind.
  apply (reserve_wp m0 own r (len s)); [eapply MI_same; eauto|eapply handle_ok_same; eauto|exact Hc|].
  intros m1 r1 ok [P1 P2 P3 P4 P5 P6 P7]. unfold lift.
  rewrite (text_of_same m m0 r He0 Hh0) in P2. fold T in P2.
  rewrite (cap_of_same m m0 r Hh0) in P6. rewrite Hh0 in P6.
  assert (P6' := fun H => P6 (xcl_same m m0 r He0 Hh0 H)). clear P6. rename P6' into P6.
  destruct ok; cbn [negb].
  2:{ destruct (P5 eq_refl) as (-> & Hh1). apply wp_ret. apply HQ. apply insert_post_unchanged; auto.
      - eapply same_env_trans; [exact He0|]. exact (so_env _ _ _ _ _ P1).
      - congruence.
      - intros Hx. change (is_char_boundary T idx = false) in Hx. congruence.
      - intros _. split; [reflexivity|]. intros (H1 & H2). destruct (P6 H1 H2) as (Hbad & _). discriminate. }
  destruct (P4 eq_refl) as (Hex1 & Hcap1). fold l in Hcap1, P3.
  pose proof (so_mi _ _ _ _ _ P1) as HM1. pose proof (so_h _ _ _ _ _ P1) as Hr1.
  assert (HlM : l + len s <= MAX_LEN) by (pose proof (cap_of_bound m1 _ r1 HM1 Hr1); lia).
  replace (l + len s - idx - len s) with (l - idx) by lia.
  assert (Hv' : Valid (insert_text T idx s)) by (apply insert_text_valid; auto).
  assert (Hgrow : nreq m1 = nreq m \/ (is_heap r1 = true /\ cap_of m1 r1 = amortized_growth l (len s) /\ nreq m1 = nreq m + 1)).
  { destruct (P7 eq_refl) as [(_ & _ & Hn)|[(Hh & Hc2 & Hn)|(_ & _ & _ & _ & Hn)]]; [left|right|left]; try lia. repeat split; auto. lia. }
  destruct r1 as [d|b l1|s1 l1]; [| |contradiction].
  + (* inline *)
    cbn [move_at write_at]. apply wp_bind. apply wp_ret. unfold lift. apply wp_bind. apply wp_ret. unfold lift.
    apply wp_bind. apply set_len_wp; [exact HlM|]. unfold lift. apply wp_ret. cbn [with_len].
    destruct Hr1 as (H16 & Hv1 & Htag1). cbn [cap_of] in Hcap1. rewrite max_inline_16 in Hcap1.
    cbn [text_of] in P2. cbn [repr_len] in P3.
    set (d' := write_range (move_range d (N.to_nat idx) (N.to_nat (idx + len s)) (N.to_nat (l - idx))) (N.to_nat idx) s).
    assert (Hlen_s : (N.to_nat l + length s <= 16)%nat) by (unfold len in *; lia).
    assert (Hd' : length d' = 16%nat).
    { unfold d'. rewrite write_range_length; rewrite move_range_length; unfold len in *; try lia. }
    assert (Hpre : firstn (N.to_nat (l + len s)) d' = insert_text T idx s).
    { unfold d'. replace (N.to_nat (l + len s)) with (N.to_nat l + length s)%nat by (unfold len; lia).
      replace (N.to_nat (idx + len s)) with (N.to_nat idx + length s)%nat by (unfold len; lia).
      replace (N.to_nat (l - idx)) with (N.to_nat l - N.to_nat idx)%nat by lia.
      rewrite insert_bytes by lia. unfold insert_text. rewrite <- P2. unfold inline_text. rewrite P3.
      rewrite firstn_firstn. replace (Nat.min (N.to_nat idx) (N.to_nat l)) with (N.to_nat idx) by lia.
      rewrite skipn_firstn_slice by lia. reflexivity. }
    assert (Hv2 : Valid (firstn (N.to_nat (l + len s)) d')) by (rewrite Hpre; exact Hv').
    assert (H192 : l + len s = 16 -> nthN d' 15 < 192).
    { intros E. apply full_inline_last; [exact Hd'|]. rewrite E in Hv2. exact Hv2. }
    destruct (finish_inline m1 (adj own r (Inline d)) d d' (l + len s) m1 HM1 Hd' Hcap1 Hv2 H192 (same_env_refl m1) eq_refl)
      as (S1 & S2 & S3).
    apply HQ. split.
    * eapply step_ok_after_reads; eauto. eapply step_ok_trans; eauto.
    * intros Hx. change (is_char_boundary T idx = false) in Hx. congruence.
    * intros _. split; [discriminate|intros p; discriminate].
    * intros _. rewrite S2. exact Hpre.
    * discriminate.
    * intros _ H1 H2. destruct (P6 H1 H2) as (_ & E & Hh1 & Hn1). rewrite <- E. repeat split; auto. lia.
    * intros _. destruct Hgrow as [Hn|(Hh & _)]; [left; exact Hn|discriminate].
  + (* exclusive heap *)
    destruct Hex1 as (x & Hb & Hl & Hcx). cbn [cap_of] in Hcap1. rewrite Hb in Hcap1.
    cbn [text_of] in P2. rewrite Hb in P2. cbn [repr_len] in P3. subst l1.
    destruct (MI_lookup _ _ _ _ HM1 Hb Hl) as ((W1 & W2 & W3) & _ & _).
    cbn [move_at write_at]. apply wp_bind. apply wp_bind.
    eapply move_heap_wp; [exact Hb|exact Hl|lia|lia|].
    intros m2 He2 Hh2 Hn2. unfold lift. apply wp_ret. unfold lift.
    set (d1 := move_range (data x) (N.to_nat idx) (N.to_nat (idx + len s)) (N.to_nat (l - idx))) in *.
    assert (Hd1 : len d1 = len (data x)).
    { unfold d1, len. rewrite move_range_length; unfold len in *; lia. }
    assert (Hb2 : nth_error (heap m2) b = Some (with_data x d1)).
    { rewrite Hh2. apply nth_error_upd_eq. eapply nth_error_lt; eauto. }
    apply wp_bind. apply wp_bind.
    eapply write_heap_wp; [exact Hb2|exact Hl| |].
    { cbn [with_data data]. lia. }
    intros m3 He3 Hh3 Hn3. unfold lift. apply wp_ret. unfold lift.
    apply wp_bind. apply set_len_wp; [exact HlM|]. unfold lift. apply wp_ret. cbn [with_len].
    cbn [with_data data] in Hh3.
    set (d' := write_range d1 (N.to_nat idx) s) in *.
    assert (Hh3' : heap m3 = upd (heap m1) b (with_data x d')).
    { rewrite Hh3, Hh2, upd_upd. reflexivity. }
    assert (Hd' : len d' = len (data x)).
    { unfold d'. unfold len. rewrite write_range_length; unfold len in *; lia. }
    assert (Hpre : firstn (N.to_nat (l + len s)) d' = insert_text T idx s).
    { unfold d', d1. replace (N.to_nat (l + len s)) with (N.to_nat l + length s)%nat by (unfold len; lia).
      replace (N.to_nat (idx + len s)) with (N.to_nat idx + length s)%nat by (unfold len; lia).
      replace (N.to_nat (l - idx)) with (N.to_nat l - N.to_nat idx)%nat by lia.
      rewrite insert_bytes by (unfold len in *; lia). unfold insert_text. rewrite <- P2.
      rewrite firstn_firstn. replace (Nat.min (N.to_nat idx) (N.to_nat l)) with (N.to_nat idx) by lia.
      rewrite skipn_firstn_slice by lia. reflexivity. }
    assert (Hv2 : Valid (firstn (N.to_nat (l + len s)) d')) by (rewrite Hpre; exact Hv').
    assert (He13 : same_env m1 m3) by (eapply same_env_trans; eauto).
    destruct (heap_data_step_ok m1 (adj own r (Heap b l)) b l (l + len s) x d' m3 HM1 Hb Hl Hcx Hd' Hcap1 Hv2 He13 Hh3')
      as (S1 & S2 & S3 & S4).
    apply HQ. split.
    * eapply step_ok_after_reads; eauto. eapply step_ok_trans; eauto.
    * intros Hx. change (is_char_boundary T idx = false) in Hx. congruence.
    * intros _. split; [discriminate|intros p; discriminate].
    * intros _. rewrite S2. exact Hpre.
    * discriminate.
    * intros _ H1 H2. destruct (P6 H1 H2) as (_ & E & Hh1 & Hn1). rewrite <- E. repeat split; auto. lia.
    * intros _. destruct Hgrow as [Hn|(Hh & Hc2 & Hn)]; [left; lia|right].
      repeat split; auto; [|lia]. rewrite S4. cbn [cap_of] in Hc2. rewrite Hb in Hc2. exact Hc2.
Qed.

(* ---------- remove ---------- *)
Definition remove_text (T : list N) (idx : N) : list N :=
  firstn (N.to_nat idx) T ++ skipn (N.to_nat idx + length (first_char (skipn (N.to_nat idx) T))) T.
Definition remove_ok_idx (T : list N) (idx : N) : bool := is_char_boundary T idx && (idx <? len T).

Record remove_post (m : mem) (own : bufid -> N) (r : repr) (idx : N) (m' : mem) (r' : repr) (res : res N) : Prop := {
  rm_step : step_ok m own r m' r';
  rm_panic : remove_ok_idx (text_of m r) idx = false -> res = RPanic PIndex /\ r' = r /\ heap m' = heap m /\ nreq m' = nreq m;
  rm_nopanic : remove_ok_idx (text_of m r) idx = true -> forall p, res <> RPanic p;
  rm_ok : forall c, res = ROk c ->
          text_of m' r' = remove_text (text_of m r) idx /\ c = decode_cp (first_char (skipn (N.to_nat idx) (text_of m r)));
  rm_fail : res = RErr -> r' = r /\ heap m' = heap m;
  rm_excl : remove_ok_idx (text_of m r) idx = true -> xcl m r ->
            (exists c, res = ROk c) /\ nreq m' = nreq m /\ (forall b, names r' b = names r b) /\ is_heap r' = is_heap r;
}.

Lemma remove_post_unchanged m own r idx m' res :
  MI (heap m) own -> handle_ok (heap m) (statics m) r -> counted own r ->
  same_env m m' -> heap m' = heap m ->
  (remove_ok_idx (text_of m r) idx = false -> res = RPanic PIndex /\ nreq m' = nreq m) ->
  (remove_ok_idx (text_of m r) idx = true -> res = RErr /\ ~ xcl m r) ->
  remove_post m own r idx m' r res.
Proof.
  intros HM Hr Hc He Hh Hp He2. split.
  - apply step_ok_refl; auto.
  - intros Hb. destruct (Hp Hb). auto.
  - intros Hb p. destruct (He2 Hb) as (-> & _). discriminate.
  - intros c ->. destruct (remove_ok_idx (text_of m r) idx) eqn:E.
    + destruct (He2 eq_refl). discriminate.
    + destruct (Hp eq_refl). discriminate.
  - intros _. auto.
  - intros Hb H1. destruct (He2 Hb) as (_ & Hno). contradiction.
Qed.

Lemma remove_text_valid T idx :
  Valid T -> remove_ok_idx T idx = true ->
  let ch := first_char (skipn (N.to_nat idx) T) in
  char_ok ch = true /\ Valid (remove_text T idx) /\ (N.to_nat idx + length ch <= length T)%nat.
Proof.
  intros HT Hok ch. unfold remove_ok_idx in Hok. apply andb_true_iff in Hok. destruct Hok as (Hb & Hlt).
  apply N.ltb_lt in Hlt.
  destruct (valid_split_boundary T idx HT Hb) as (H1 & H2).
  assert (Hne : skipn (N.to_nat idx) T <> []).
  { intros E. apply (f_equal (@length N)) in E. rewrite skipn_length in E. cbn [length] in E. unfold len in Hlt. lia. }
  destruct (valid_first_char _ H2 Hne) as (rest & E & Hc & Hr). fold ch in E, Hc.
  split; [exact Hc|]. split.
  - unfold remove_text. fold ch. apply valid_app; [exact H1|].
    replace (skipn (N.to_nat idx + length ch) T) with rest; [exact Hr|].
    rewrite skipn_add. rewrite E. rewrite skipn_app_exact. reflexivity.
  - apply (f_equal (@length N)) in E. rewrite skipn_length, app_length in E. unfold len in Hlt. lia.
Qed.

Lemma remove_wp m own r idx (Q : out (repr * res N) -> mem -> Prop) :
  MI (heap m) own -> handle_ok (heap m) (statics m) r -> counted own r ->
  (forall m' r' res, remove_post m own r idx m' r' res -> Q (OVal (r', res)) m') ->
  wp (remove r idx) Q m.
Proof.
  intros HM Hr Hc HQ. unfold remove.
  apply wp_bind. eapply as_bytes_wp; eauto. intros m0 He0 Hh0 Hn0. unfold lift.
  set (T := text_of m r) in *.
  pose proof (text_len m r Hr) as HlT. pose proof (text_valid m r Hr) as HvT. fold T in HlT, HvT.
  set (l := repr_len r) in *.
  destruct (is_char_boundary T idx) eqn:Hbd; cbn [negb].
  2:{ apply wp_ret. apply HQ. apply remove_post_unchanged; auto.
      intros Hx. change (remove_ok_idx T idx = true) in Hx. unfold remove_ok_idx in Hx. rewrite Hbd in Hx. discriminate. }
  destruct (N.ltb_spec idx l) as [Hlt|Hge]; cbn [negb].
  2:{ apply wp_ret. apply HQ. apply remove_post_unchanged; auto.
      intros Hx. change (remove_ok_idx T idx = true) in Hx. unfold remove_ok_idx in Hx. rewrite Hbd, HlT in Hx.
      cbn [andb] in Hx. apply N.ltb_lt in Hx. lia. }
  assert (Hok : remove_ok_idx T idx = true).
  { unfold remove_ok_idx. rewrite Hbd, HlT. cbn [andb]. apply N.ltb_lt. exact Hlt. }
  destruct (remove_text_valid T idx HvT Hok) as (Hcok & Hv' & Hchlen).
  set (ch := first_char (skipn (N.to_nat idx) T)) in *.
  rewrite (encode_decode ch Hcok).
  set (w := len ch) in *.
  assert (Hw : idx + w <= l) by (unfold w, len in *; lia).
  apply wp_bind.
  apply (ensure_modifiable_wp m0 own r); [eapply MI_same; eauto|eapply handle_ok_same; eauto|exact Hc|].
  intros m1 r1 ok [P1 P2 P3 P4 P5 P6]. unfold lift.
  rewrite (text_of_same m m0 r He0 Hh0) in P2. fold T in P2. rewrite Hh0 in P6.
  assert (P6' := fun H => P6 (xcl_same m m0 r He0 Hh0 H)). clear P6. rename P6' into P6.
  destruct ok; cbn [negb].
  2:{ destruct (P5 eq_refl) as (-> & Hh1). apply wp_ret. apply HQ. apply remove_post_unchanged; auto.
      - eapply same_env_trans; [exact He0|]. exact (so_env _ _ _ _ _ P1).
      - congruence.
      - intros Hx. change (remove_ok_idx T idx = false) in Hx. congruence.
      - intros _. split; [reflexivity|]. intros H1. destruct (P6 H1) as (Hbad & _). discriminate. }
  pose proof (P4 eq_refl) as Hex1. fold l in P3.
  pose proof (so_mi _ _ _ _ _ P1) as HM1. pose proof (so_h _ _ _ _ _ P1) as Hr1.
  pose proof (handle_len_bound m1 _ r1 HM1 Hr1) as HlM. rewrite P3 in HlM.
  pose proof (repr_len_le_cap m1 r1 Hr1) as Hcap1. rewrite P3 in Hcap1.
  destruct r1 as [d|b l1|s1 l1]; [| |contradiction].
  + (* inline *)
    cbn [move_at]. apply wp_bind. apply wp_ret. unfold lift.
    apply wp_bind. apply set_len_wp; [lia|]. unfold lift. apply wp_ret. cbn [with_len].
    destruct Hr1 as (H16 & Hv1 & Htag1). cbn [cap_of] in Hcap1. rewrite max_inline_16 in Hcap1.
    cbn [text_of] in P2. cbn [repr_len] in P3.
    set (d' := move_range d (N.to_nat (idx + w)) (N.to_nat idx) (N.to_nat (l - idx - w))).
    assert (Hd' : length d' = 16%nat) by (unfold d'; rewrite move_range_length; lia).
    assert (Hpre : firstn (N.to_nat (l - w)) d' = remove_text T idx).
    { unfold d'. replace (N.to_nat (l - w)) with (N.to_nat l - N.to_nat w)%nat by lia.
      replace (N.to_nat (idx + w)) with (N.to_nat idx + N.to_nat w)%nat by lia.
      replace (N.to_nat (l - idx - w)) with (N.to_nat l - N.to_nat idx - N.to_nat w)%nat by lia.
      rewrite remove_bytes by lia. unfold remove_text. fold ch. rewrite <- P2. unfold inline_text. rewrite P3.
      rewrite firstn_firstn. replace (Nat.min (N.to_nat idx) (N.to_nat l)) with (N.to_nat idx) by lia.
      unfold w. rewrite len_to_nat. rewrite skipn_firstn_slice by (unfold w, len in *; lia).
      replace (N.to_nat l - (N.to_nat idx + length ch))%nat with (N.to_nat l - N.to_nat idx - length ch)%nat by lia.
      reflexivity. }
    assert (Hv2 : Valid (firstn (N.to_nat (l - w)) d')) by (rewrite Hpre; exact Hv').
    assert (H192 : l - w = 16 -> nthN d' 15 < 192).
    { intros E. apply full_inline_last; [exact Hd'|]. rewrite E in Hv2. exact Hv2. }
    assert (Hle16 : l - w <= 16) by lia.
    destruct (finish_inline m1 (adj own r (Inline d)) d d' (l - w) m1 HM1 Hd' Hle16 Hv2 H192 (same_env_refl m1) eq_refl)
      as (S1 & S2 & S3).
    apply HQ. split.
    * eapply step_ok_after_reads; eauto. eapply step_ok_trans; eauto.
    * intros Hx. change (remove_ok_idx T idx = false) in Hx. congruence.
    * intros _ p. discriminate.
    * intros c Hc0. injection Hc0 as <-. rewrite S2. auto.
    * discriminate.
    * intros _ H1. destruct (P6 H1) as (_ & E & Hh1 & Hn1). rewrite <- E. repeat split; eauto. lia.
  + (* exclusive heap *)
    destruct Hex1 as (x & Hb & Hl & Hcx). cbn [cap_of] in Hcap1. rewrite Hb in Hcap1.
    cbn [text_of] in P2. rewrite Hb in P2. cbn [repr_len] in P3. subst l1.
    destruct (MI_lookup _ _ _ _ HM1 Hb Hl) as ((W1 & W2 & W3) & _ & _).
    cbn [move_at]. apply wp_bind. apply wp_bind.
    eapply move_heap_wp; [exact Hb|exact Hl|lia|lia|].
    intros m2 He2 Hh2 Hn2. unfold lift. apply wp_ret. unfold lift.
    apply wp_bind. apply set_len_wp; [lia|]. unfold lift. apply wp_ret. cbn [with_len].
    set (d' := move_range (data x) (N.to_nat (idx + w)) (N.to_nat idx) (N.to_nat (l - idx - w))) in *.
    assert (Hd' : len d' = len (data x)).
    { unfold d', len. rewrite move_range_length; unfold len in *; lia. }
    assert (Hpre : firstn (N.to_nat (l - w)) d' = remove_text T idx).
    { unfold d'. replace (N.to_nat (l - w)) with (N.to_nat l - N.to_nat w)%nat by lia.
      replace (N.to_nat (idx + w)) with (N.to_nat idx + N.to_nat w)%nat by lia.
      replace (N.to_nat (l - idx - w)) with (N.to_nat l - N.to_nat idx - N.to_nat w)%nat by lia.
      rewrite remove_bytes by (unfold len in *; lia). unfold remove_text. fold ch. rewrite <- P2.
      rewrite firstn_firstn. replace (Nat.min (N.to_nat idx) (N.to_nat l)) with (N.to_nat idx) by lia.
      unfold w. rewrite len_to_nat. rewrite skipn_firstn_slice by (unfold w, len in *; lia).
      replace (N.to_nat l - (N.to_nat idx + length ch))%nat with (N.to_nat l - N.to_nat idx - length ch)%nat by lia.
      reflexivity. }
    assert (Hv2 : Valid (firstn (N.to_nat (l - w)) d')) by (rewrite Hpre; exact Hv').
    assert (Hlc : l - w <= cap x) by lia.
    destruct (heap_data_step_ok m1 (adj own r (Heap b l)) b l (l - w) x d' m2 HM1 Hb Hl Hcx Hd' Hlc Hv2 He2 Hh2)
      as (S1 & S2 & S3 & S4).
    apply HQ. split.
    * eapply step_ok_after_reads; eauto. eapply step_ok_trans; eauto.
    * intros Hx. change (remove_ok_idx T idx = false) in Hx. congruence.
    * intros _ p. discriminate.
    * intros c Hc0. injection Hc0 as <-. rewrite S2. auto.
    * discriminate.
    * intros _ H1. destruct (P6 H1) as (_ & E & Hh1 & Hn1). rewrite <- E. repeat split; eauto. lia.
Qed.

(* ---------- pop / truncate: only the handle-local length changes ---------- *)
Definition pop_text (T : list N) : list N := firstn (length T - length (last_char T)) T.

Record pop_post (m : mem) (own : bufid -> N) (r : repr) (m' : mem) (r' : repr) (res : option N) : Prop := {
  po_step : step_ok m own r m' r';
  po_heap : heap m' = heap m /\ nreq m' = nreq m /\ (forall b, names r' b = names r b) /\ is_heap r' = is_heap r /\ is_static r' = is_static r;
  po_none : text_of m r = [] -> res = None /\ r' = r;
  po_some : text_of m r <> [] ->
            res = Some (decode_cp (last_char (text_of m r))) /\ text_of m' r' = pop_text (text_of m r);
  po_handle : r' = r \/ exists n, n <= repr_len r /\ r' = with_len r n;
}.

Lemma names_same_counted own r r' : (forall b, names r' b = names r b) -> counted own r -> counted own r'.
Proof. intros H Hc b Hb. apply Hc. rewrite <- H. exact Hb. Qed.

Lemma with_len_step m own r n m' :
  MI (heap m) own -> handle_ok (heap m) (statics m) r -> counted own r ->
  n <= repr_len r -> Valid (firstn (N.to_nat n) (text_of m r)) ->
  same_env m m' -> heap m' = heap m ->
  step_ok m own r m' (with_len r n) /\ text_of m' (with_len r n) = firstn (N.to_nat n) (text_of m r).
Proof.
  intros HM Hr Hc Hn Hv He Hh. destruct (with_len_shrink_ok m r n Hr Hn Hv) as (H1 & H2 & H3). split.
  - apply step_ok_local; auto. intros b. apply names_with_len.
  - rewrite (text_of_same m m' _ He Hh). exact H2.
Qed.
Lemma is_heap_with_len r n : is_heap (with_len r n) = is_heap r. Proof. destruct r; reflexivity. Qed.
Lemma is_static_with_len r n : is_static (with_len r n) = is_static r. Proof. destruct r; reflexivity. Qed.

Lemma pop_wp m own r (Q : out (repr * option N) -> mem -> Prop) :
  MI (heap m) own -> handle_ok (heap m) (statics m) r -> counted own r ->
  (forall m' r' res, pop_post m own r m' r' res -> Q (OVal (r', res)) m') ->
  wp (pop r) Q m.
Proof.
  intros HM Hr Hc HQ. unfold pop.
  apply wp_bind. eapply as_bytes_wp; eauto. intros m0 He0 Hh0 Hn0. unfold lift.
  pose proof (text_len m r Hr) as HlT. pose proof (text_valid m r Hr) as HvT.
  remember (text_of m r) as T eqn:ET0.
  destruct T as [|c0 T0] eqn:ET.
  - apply wp_ret. apply HQ. split.
    + apply step_ok_refl; auto.
    + auto.
    + auto.
    + intros Hx. congruence.
    + left. reflexivity.
  - rewrite <- ET in *. assert (Hne : T <> []) by (rewrite ET; discriminate).
    destruct (valid_last_char T HvT Hne) as (pre & Epre & Hcok & Hvpre).
    set (ch := last_char T) in *. rewrite (encode_decode ch Hcok).
    assert (Hlen : length T = (length pre + length ch)%nat) by (rewrite Epre at 1; apply app_length).
    apply wp_bind. apply truncate_unchecked_wp.
    { pose proof (handle_len_bound m own r HM Hr). lia. }
    unfold lift. apply wp_ret.
    assert (Hn : repr_len r - len ch <= repr_len r) by lia.
    assert (Hfn : firstn (N.to_nat (repr_len r - len ch)) T = pre).
    { rewrite <- HlT. replace (N.to_nat (len T - len ch)) with (length pre) by (unfold len; lia).
      rewrite Epre. apply firstn_app_exact. }
    assert (Hv : Valid (firstn (N.to_nat (repr_len r - len ch)) (text_of m r))) by (rewrite <- ET0, Hfn; exact Hvpre).
    destruct (with_len_step m own r (repr_len r - len ch) m0 HM Hr Hc Hn Hv He0 Hh0) as (S1 & S2).
    apply HQ. split.
    + exact S1.
    + repeat split; auto; [apply names_with_len|apply is_heap_with_len|apply is_static_with_len].
    + intros Hx. congruence.
    + intros _. rewrite S2. rewrite <- ET0. split; [reflexivity|]. rewrite Hfn. unfold pop_text. fold ch.
      replace (length T - length ch)%nat with (length pre) by lia. rewrite Epre. symmetry. apply firstn_app_exact.
    + right. exists (repr_len r - len ch). split; [exact Hn|reflexivity].
Qed.

Record truncate_post (m : mem) (own : bufid -> N) (r : repr) (n : N) (m' : mem) (r' : repr) (res : res unit) : Prop := {
  tr_step : step_ok m own r m' r';
  tr_heap : heap m' = heap m /\ nreq m' = nreq m /\ (forall b, names r' b = names r b) /\ is_heap r' = is_heap r /\ is_static r' = is_static r;
  tr_noop : repr_len r <= n -> res = ROk tt /\ r' = r;
  tr_panic : n < repr_len r -> is_char_boundary (text_of m r) n = false -> res = RPanic PIndex /\ r' = r;
  tr_ok : n < repr_len r -> is_char_boundary (text_of m r) n = true ->
          res = ROk tt /\ text_of m' r' = firstn (N.to_nat n) (text_of m r);
  tr_handle : r' = r \/ (n <= repr_len r /\ r' = with_len r n);
}.

Lemma truncate_wp m own r n (Q : out (repr * res unit) -> mem -> Prop) :
  MI (heap m) own -> handle_ok (heap m) (statics m) r -> counted own r ->
  (forall m' r' res, truncate_post m own r n m' r' res -> Q (OVal (r', res)) m') ->
  wp (truncate r n) Q m.
Proof.
  intros HM Hr Hc HQ. unfold truncate, cond_truncate_noop.
  destruct (N.leb_spec (repr_len r) n) as [Hge|Hlt].
  - apply wp_ret. apply HQ. split.
    + apply step_ok_refl; auto.
    + auto.
    + auto.
    + intros Hx. lia.
    + intros Hx. lia.
    + left. reflexivity.
  - apply wp_bind. eapply as_bytes_wp; eauto. intros m0 He0 Hh0 Hn0. unfold lift.
    set (T := text_of m r) in *.
    pose proof (text_valid m r Hr) as HvT. fold T in HvT.
    destruct (is_char_boundary T n) eqn:Hbd; cbn [negb].
    + destruct (valid_split_boundary T n HvT Hbd) as (Hv1 & _).
      apply wp_bind. apply truncate_unchecked_wp.
      { pose proof (handle_len_bound m own r HM Hr). lia. }
      unfold lift. apply wp_ret.
      assert (Hn : n <= repr_len r) by lia.
      destruct (with_len_step m own r n m0 HM Hr Hc Hn Hv1 He0 Hh0) as (S1 & S2).
      apply HQ. split.
      * exact S1.
      * repeat split; auto; [apply names_with_len|apply is_heap_with_len|apply is_static_with_len].
      * intros Hx. lia.
      * intros _ Hx. change (is_char_boundary T n = false) in Hx. congruence.
      * intros _ _. auto.
      * right. split; [exact Hn|reflexivity].
    + apply wp_ret. apply HQ. split.
      * apply step_ok_refl; auto.
      * auto.
      * intros Hx. lia.
      * intros _ _. auto.
      * intros _ Hx. change (is_char_boundary T n = true) in Hx. congruence.
      * left. reflexivity.
Qed.
