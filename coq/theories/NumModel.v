(* NumModel.v — the integer formatter of src/repr/num_to_repr.rs (impl_NumToRepr_for_integers!), 64-bit,
   as executable definitions.  Proofs are in Num.v.  Tables and the LUT come from gen/GenSrc.v. *)
From Coq Require Import ZArith.
From LS Require Import Base.
Open Scope N_scope.

(* ---------- specification: what core::fmt::Display prints for an integer ---------- *)
(* the d least significant decimal digits of n, most significant first, as ASCII *)
Fixpoint digs (d : nat) (n : N) : list N :=
  match d with
  | O => []
  | S d' => digs d' (n / 10) ++ [48 + n mod 10]
  end.
(* number of decimal digits of n (1 for 0); fuel 20 covers n < 10^20 > 2^64 *)
Fixpoint ndig_fuel (fuel : nat) (n p : N) (d : nat) : nat :=
  match fuel with
  | O => d
  | S f => if n <? p then d else ndig_fuel f n (p * 10) (S d)
  end.
Definition ndigits (n : N) : nat := ndig_fuel 20 n 10 1.
Definition dec_N (n : N) : list N := digs (ndigits n) n.
Definition dec (z : Z) : list N :=
  if (z <? 0)%Z then 45 :: dec_N (Z.to_N (- z)) else dec_N (Z.to_N z).

(* ---------- DigitCount: lookup in a `match` table of inclusive ranges ---------- *)
Fixpoint lookup (t : list (Z * Z * N)) (z : Z) : option N :=
  match t with
  | [] => None
  | (lo, hi, k) :: t' => if ((lo <=? z) && (z <=? hi))%Z then Some k else lookup t' z
  end.

(* ---------- the writer ---------- *)
(* `self as u64` for a value of a signed or unsigned type of at most 64 bits, then the negation trick *)
Definition as_u64 (z : Z) : N := Z.to_N (z mod 18446744073709551616).
Definition magnitude (z : Z) : N :=
  if (0 <=? z)%Z then as_u64 z else wrapping_add (USIZE_MAX - as_u64 z) 1.   (* (!(self as u64)).wrapping_add(1) *)

(* a store outside the buffer is an out-of-bounds write: None *)
Definition store1 (buf : list N) (i : N) (x : N) : option (list N) :=
  if i <? len buf then Some (upd buf (N.to_nat i) x) else None.
Definition store2 (lut buf : list N) (i d : N) : option (list N) :=   (* copy_nonoverlapping(lut + d, buf + i, 2) *)
  if d + 1 <? len lut then
    match store1 buf i (nthN lut (N.to_nat d)) with
    | Some b1 => store1 b1 (i + 1) (nthN lut (N.to_nat (d + 1)))
    | None => None
    end
  else None.

(* `curr -= k` on usize: underflow is a bug (debug panic / wrap-around and wild store in release): None *)
Definition dec_curr (curr k : N) : option N := if curr <? k then None else Some (curr - k).

(* while n >= 10000 { ... } ; at most 5 iterations for n < 2^64 *)
Fixpoint loop4 (fuel : nat) (lut : list N) (n curr : N) (buf : list N) : option (N * N * list N) :=
  if n <? 10000 then Some (n, curr, buf) else
  match fuel with
  | O => None
  | S f =>
      let rem := n mod 10000 in
      let n' := n / 10000 in
      let d1 := (rem / 100) * 2 in
      let d2 := (rem mod 100) * 2 in
      match dec_curr curr 4 with
      | None => None
      | Some c =>
          match store2 lut buf c d1 with
          | None => None
          | Some b1 =>
              match store2 lut b1 (c + 2) d2 with
              | None => None
              | Some b2 => loop4 f lut n' c b2
              end
          end
      end
  end.

Definition tail (lut : list N) (n curr : N) (buf : list N) : option (N * list N) :=
  (* if n >= 100 { d1 = (n % 100) << 1; n /= 100; curr -= 2; store } *)
  let step1 :=
    if 100 <=? n then
      match dec_curr curr 2 with
      | None => None
      | Some c => match store2 lut buf c ((n mod 100) * 2) with Some b => Some (n / 100, c, b) | None => None end
      end
    else Some (n, curr, buf) in
  match step1 with
  | None => None
  | Some (n1, c1, b1) =>
      if n1 <? 10 then
        match dec_curr c1 1 with
        | None => None
        | Some c => match store1 b1 c (n1 mod 256 + 48) with Some b => Some (c, b) | None => None end
        end
      else
        match dec_curr c1 2 with
        | None => None
        | Some c => match store2 lut b1 c (n1 * 2) with Some b => Some (c, b) | None => None end
        end
  end.

(* into_repr: buffer of `digits_count` cells (Repr::with_capacity(digits_count)), written back to front;
   returns the text (first digits_count cells) if every store was in bounds and curr ended at 0 *)
Definition write_int (lut : list N) (digits_count : N) (neg : bool) (n : N) : option (list N) :=
  let buf0 := repeat 255 (N.to_nat digits_count) in
  match loop4 6 lut n digits_count buf0 with
  | None => None
  | Some (n1, c1, b1) =>
      match tail lut n1 c1 b1 with
      | None => None
      | Some (c2, b2) =>
          let fin :=
            if neg then
              match dec_curr c2 1 with
              | None => None
              | Some c => match store1 b2 c 45 with Some b => Some (c, b) | None => None end
              end
            else Some (c2, b2) in
          match fin with
          | Some (c3, b3) => if c3 =? 0 then Some b3 else None
          | None => None
          end
      end
  end.

Definition int_to_text (lut : list N) (table : list (Z * Z * N)) (z : Z) : option (list N) :=
  match lookup table z with
  | None => None
  | Some dc => write_int lut dc (negb (0 <=? z)%Z) (magnitude z)
  end.

(* ---------- executable side conditions on the generated data ---------- *)
(* LUT: entry 2x, 2x+1 are the two ASCII digits of x, for x < 100 *)
Definition lut_ok (lut : list N) : bool :=
  (len lut =? 200) &&
  forallb (fun x => (nthN lut (2 * x) =? 48 + N.of_nat x / 10) && (nthN lut (2 * x + 1) =? 48 + N.of_nat x mod 10)) (seq 0 100).

Definition dlen (z : Z) : N :=
  if (z <? 0)%Z then N.of_nat (ndigits (Z.to_N (- z))) + 1 else N.of_nat (ndigits (Z.to_N z)).
(* rows are contiguous, cover [lo, hi], do not straddle 0, and both ends of a row have the row's length *)
Fixpoint check_rows (t : list (Z * Z * N)) (next hi : Z) : bool :=
  match t with
  | [] => (next =? hi + 1)%Z
  | (a, b, k) :: t' =>
      (a =? next)%Z && (a <=? b)%Z && ((b <? 0) || (0 <=? a))%Z && (dlen a =? k) && (dlen b =? k) && check_rows t' (b + 1)%Z hi
  end.
Definition check_table (t : list (Z * Z * N)) (lo hi : Z) : bool :=
  (-9223372036854775808 <=? lo)%Z && (hi <=? 18446744073709551615)%Z && check_rows t lo hi.
