(* Derived.v — the resource-level consequences of the per-operation lemmas (C05 - C13, C18). *)
From Coq Require Import Lia Arith ZArith.
From LS Require Import Base Utf8 Utf8Spec Utf8Facts Cmd Impl Wp ListFacts Growth Inv InlineFacts NumModel Num Exec
     Specs Specs2 SpecsRetain SpecsShrink Specs3 WF Spec Refine Main.
From LSGen Require Import GenSrc.
Open Scope N_scope.

Lemma upd_same {A} (l : list A) i x : nth_error l i = Some x -> upd l i x = l.
Proof. revert i; induction l as [|y l IH]; intros [|i] H; cbn in *; try discriminate; [congruence|]. f_equal. auto. Qed.

Lemma on_result_live w i w' out P r :
  on_result w i w' out P -> nth_error (pool w) i = Some (Some r) ->
  exists r', w' = set_slot w (wmem w') i (Some r') /\ P r (wmem w') r' out /\ WF w' /\ others_same w i (wmem w')
             /\ step_ok (wmem w) (refs (pool w)) r (wmem w') r'.
Proof.
  intros [(Hg & _)|(r0 & r' & Hi & Ew & HP & HW' & Ho & _ & Hs)] Hr.
  - apply get_slot_nth in Hr. congruence.
  - rewrite Hi in Hr. injection Hr as <-. exists r'. auto.
Qed.

Lemma set_same_world w m' i r :
  nth_error (pool w) i = Some (Some r) -> pool (set_slot w m' i (Some r)) = pool w.
Proof. intros H. cbn [set_slot pool]. apply upd_same. exact H. Qed.

Definition is_reserve_failure (o : outcome) : Prop := o = ErrReserve \/ o = PanicReserve.
Lemma fin_failure m ok : is_reserve_failure (fin m ok) -> ok = false.
Proof. destruct m, ok; cbn; intros [H|H]; try discriminate; reflexivity. Qed.
Lemma of_panic_failure p : is_reserve_failure (of_panic p) -> p = PReserve.
Proof. destruct p; cbn; intros [H|H]; try discriminate; reflexivity. Qed.

(* ---------- C05: a failed allocation leaves the pool and the heap exactly as they were ---------- *)
Inductive simple_mutator : op -> nat -> Prop :=
| SM_push m i c : is_scalar c = true -> simple_mutator (OPush m i c) i
| SM_push_str m i s : Valid s -> simple_mutator (OPushStr m i s) i
| SM_insert m i idx c : is_scalar c = true -> simple_mutator (OInsert m i idx c) i
| SM_insert_str m i idx s : Valid s -> simple_mutator (OInsertStr m i idx s) i
| SM_remove m i idx : simple_mutator (ORemove m i idx) i
| SM_retain m i pa bits : simple_mutator (ORetain m i pa bits) i
| SM_reserve m i n : simple_mutator (OReserve m i n) i
| SM_shrink m i n : simple_mutator (OShrinkTo m i n) i.

Theorem failure_changes_nothing w o i w' out :
  WF w -> simple_mutator o i -> exec w o = (w', out) -> is_reserve_failure out ->
  pool w' = pool w /\ heap (wmem w') = heap (wmem w) /\ statics (wmem w') = statics (wmem w) /\ WF w'.
Proof.
  intros HW Hsm He Hf.
  assert (Hskip : get_slot w i = None -> w' = w -> pool w' = pool w /\ heap (wmem w') = heap (wmem w)
                    /\ statics (wmem w') = statics (wmem w) /\ WF w') by (intros _ ->; auto).
  assert (Hfin : forall r r', nth_error (pool w) i = Some (Some r) -> w' = set_slot w (wmem w') i (Some r') -> WF w' ->
                   statics (wmem w') = statics (wmem w) -> r' = r -> heap (wmem w') = heap (wmem w) ->
                   pool w' = pool w /\ heap (wmem w') = heap (wmem w) /\ statics (wmem w') = statics (wmem w) /\ WF w').
  { intros r r' Hi Ew HW' Hs -> Hh. split; [rewrite Ew; apply set_same_world; exact Hi|auto]. }
  destruct Hsm.
  - destruct (op_push w m i c w' out HW H He) as [(Hg & Ew & _)|(r & r' & Hi & Ew & (ok & HP & Eo) & HW' & _ & Hs & _)]; [auto|].
    subst out. apply fin_failure in Hf. subst ok. destruct (pp_fail _ _ _ _ _ _ _ HP eq_refl). eapply Hfin; eauto.
  - destruct (op_push_str w m i s w' out HW H He) as [(Hg & Ew & _)|(r & r' & Hi & Ew & (ok & HP & Eo) & HW' & _ & Hs & _)]; [auto|].
    subst out. apply fin_failure in Hf. subst ok. destruct (pp_fail _ _ _ _ _ _ _ HP eq_refl). eapply Hfin; eauto.
  - destruct (op_insert w m i idx c w' out HW H He) as [(Hg & Ew & _)|(r & r' & Hi & Ew & (res & HP & Eo) & HW' & _ & Hs & _)]; [auto|].
    subst out. destruct res as [[]| |p]; cbn [fin_res] in Hf.
    + destruct Hf as [E|E]; discriminate.
    + destruct (ip_fail _ _ _ _ _ _ _ _ HP eq_refl). eapply Hfin; eauto.
    + apply of_panic_failure in Hf. subst p. exfalso.
      destruct (is_char_boundary (text_of (wmem w) r) idx) eqn:Eb.
      * destruct (ip_nopanic _ _ _ _ _ _ _ _ HP Eb) as (_ & Hn). apply (Hn PReserve). reflexivity.
      * destruct (ip_panic _ _ _ _ _ _ _ _ HP Eb) as (E & _). discriminate.
  - destruct (op_insert_str w m i idx s w' out HW H He) as [(Hg & Ew & _)|(r & r' & Hi & Ew & (res & HP & Eo) & HW' & _ & Hs & _)]; [auto|].
    subst out. destruct res as [[]| |p]; cbn [fin_res] in Hf.
    + destruct Hf as [E|E]; discriminate.
    + destruct (ip_fail _ _ _ _ _ _ _ _ HP eq_refl). eapply Hfin; eauto.
    + apply of_panic_failure in Hf. subst p. exfalso.
      destruct (is_char_boundary (text_of (wmem w) r) idx) eqn:Eb.
      * destruct (ip_nopanic _ _ _ _ _ _ _ _ HP Eb) as (_ & Hn). apply (Hn PReserve). reflexivity.
      * destruct (ip_panic _ _ _ _ _ _ _ _ HP Eb) as (E & _). discriminate.
  - destruct (op_remove w m i idx w' out HW He) as [(Hg & Ew & _)|(r & r' & Hi & Ew & (res & HP & Eo) & HW' & _ & Hs & _)]; [auto|].
    subst out. destruct res as [c| |p]; cbn [fin_res] in Hf.
    + destruct Hf as [E|E]; discriminate.
    + destruct (rm_fail _ _ _ _ _ _ _ HP eq_refl). eapply Hfin; eauto.
    + apply of_panic_failure in Hf. subst p. exfalso.
      destruct (remove_ok_idx (text_of (wmem w) r) idx) eqn:Eb.
      * apply (rm_nopanic _ _ _ _ _ _ _ HP Eb PReserve). reflexivity.
      * destruct (rm_panic _ _ _ _ _ _ _ HP Eb) as (E & _). discriminate.
  - destruct (op_retain w m i pa bits w' out HW He) as [(Hg & Ew & _)|(r & r' & Hi & Ew & (res & HP & Eo) & HW' & _ & Hs & _)]; [auto|].
    subst out. destruct res as [[]| |p]; cbn [fin_res] in Hf.
    + destruct Hf as [E|E]; discriminate.
    + destruct (rt_fail _ _ _ _ _ _ _ HP eq_refl). eapply Hfin; eauto.
    + apply of_panic_failure in Hf. subst p. exfalso.
      destruct (rt_done _ _ _ _ _ _ _ HP ltac:(discriminate)) as (_ & E).
      destruct (retain_done (text_of (wmem w) r) (retain_pred pa bits)); discriminate.
  - destruct (op_reserve w m i n w' out HW He) as [(Hg & Ew & _)|(r & r' & Hi & Ew & (ok & HP & Eo) & HW' & _ & Hs & _)]; [auto|].
    subst out. apply fin_failure in Hf. subst ok. destruct (rp_fail _ _ _ _ _ _ _ HP eq_refl). eapply Hfin; eauto.
  - destruct (op_shrink_to w m i n w' out HW He) as [(Hg & Ew & _)|(r & r' & Hi & Ew & (ok & HP & Eo) & HW' & _ & Hs & _)]; [auto|].
    subst out. apply fin_failure in Hf. subst ok. destruct (sh_fail _ _ _ _ _ _ _ HP eq_refl). eapply Hfin; eauto.
Qed.

(* ---------- C05: iterator-driven operations stop between items ---------- *)
Theorem iter_failure_prefix w i w' out items :
  WF w ->
  ((exists hint pa cs, scalars cs /\ items = map encode_cp cs /\ exec w (OExtendChars i hint pa cs) = (w', out))
   \/ (exists pa, Forall Valid items /\ exec w (OExtendStrs i pa items) = (w', out))
   \/ (exists ea pa, Forall Valid items /\ exec w (OWriteFmt i ea pa items) = (w', out))) ->
  out = PanicReserve -> forall r, nth_error (pool w) i = Some (Some r) ->
  exists r' n, nth_error (pool w') i = Some (Some r') /\ (n < length items)%nat
               /\ text_of (wmem w') r' = text_of (wmem w) r ++ concat (firstn n items) /\ WF w'.
Proof.
  intros HW Hcase -> r Hi.
  assert (G : forall k ea pa, on_result w i w' PanicReserve
                 (fun r m' r' o => pieces_post (wmem w) (refs (pool w)) r items k ea pa m' r' o) ->
              exists r' n, nth_error (pool w') i = Some (Some r') /\ (n < length items)%nat
                           /\ text_of (wmem w') r' = text_of (wmem w) r ++ concat (firstn n items) /\ WF w').
  { intros k ea pa Hres. destruct (on_result_live _ _ _ _ _ r Hres Hi) as (r' & Ew & HP & HW' & _).
    destruct (pc_fail _ _ _ _ _ _ _ _ _ _ HP eq_refl) as (n & Hn & Ht). exists r', n.
    split; [rewrite Ew; cbn [set_slot pool]; apply nth_error_upd_eq; eapply nth_error_lt; eauto|auto]. }
  destruct Hcase as [(hint & pa & cs & Hsc & -> & He)|[(pa & Hv & He)|(ea & pa & Hv & He)]].
  - apply (G 0%nat None pa). apply (op_extend_chars w i hint pa cs w' _ HW Hsc He).
  - apply (G 0%nat None pa). apply (op_extend_strs w i pa items w' _ HW Hv He).
  - apply (G 0%nat ea pa). apply (op_write_fmt w i ea pa items w' _ HW Hv He).
Qed.

(* ---------- C06 / C11: capacity requests of any size ---------- *)
Theorem with_capacity_any w m n w' out :
  WF w -> exec w (OWithCapacity m n) = (w', out) ->
  WF w' /\ (forall u, out <> UbOut u)
  /\ ((out = OkUnit /\ exists r', pool w' = pool w ++ [Some r'] /\ n <= cap_of (wmem w') r' /\ text_of (wmem w') r' = []
                          /\ (n <= 16 -> nreq (wmem w') = nreq (wmem w) /\ is_heap r' = false)
                          /\ (16 < n -> nreq (wmem w') = nreq (wmem w) + 1 /\ cap_of (wmem w') r' = n))
      \/ (out = fin m false /\ pool w' = pool w ++ [None] /\ heap (wmem w') = heap (wmem w) /\ 16 < n)).
Proof.
  intros HW He. destruct (op_with_capacity w m n w' out HW He) as (s & Ew & HW' & Ha & Hs & HP & ->).
  split; [exact HW'|]. split; [intros u; destruct s; [discriminate|apply fin_not_ub]|].
  destruct s as [r'|].
  - left. split; [reflexivity|]. destruct (wc_some _ _ _ _ _ HP r' eq_refl) as (_ & Ht & Hc & _ & Hsm & Hbg).
    exists r'. split; [rewrite Ew; reflexivity|]. split; [exact Hc|]. split; [exact Ht|]. split.
    + intros Hn. destruct (Hsm Hn) as (-> & _ & Hq). auto.
    + intros Hn. destruct (Hbg Hn) as (_ & Hc' & Hq). auto.
  - right. destruct (wc_none _ _ _ _ _ HP eq_refl) as (_ & Hh & Hn). split; [reflexivity|]. split; [rewrite Ew; reflexivity|auto].
Qed.

Theorem reserve_any w m i n w' out r :
  WF w -> exec w (OReserve m i n) = (w', out) -> nth_error (pool w) i = Some (Some r) ->
  WF w' /\ (forall u, out <> UbOut u)
  /\ exists r' ok, nth_error (pool w') i = Some (Some r') /\ out = fin m ok
       /\ text_of (wmem w') r' = text_of (wmem w) r
       /\ (ok = true -> exclusive (heap (wmem w')) r' /\ repr_len r' + n <= cap_of (wmem w') r')
       /\ (ok = false -> pool w' = pool w /\ heap (wmem w') = heap (wmem w))
       /\ (xcl (wmem w) r -> repr_len r + n <= cap_of (wmem w) r ->
           ok = true /\ r' = r /\ heap (wmem w') = heap (wmem w) /\ nreq (wmem w') = nreq (wmem w))
       /\ (ok = true -> nreq (wmem w') <> nreq (wmem w) ->
           is_heap r' = true /\ cap_of (wmem w') r' = amortized_growth (repr_len r) n).
Proof.
  intros HW He Hi. destruct (on_result_live _ _ _ _ _ r (op_reserve w m i n w' out HW He) Hi)
    as (r' & Ew & (ok & HP & ->) & HW' & _ & _).
  split; [exact HW'|]. split; [intros u; apply fin_not_ub|]. exists r', ok.
  assert (Hslot : nth_error (pool w') i = Some (Some r')).
  { rewrite Ew. cbn [set_slot pool]. apply nth_error_upd_eq. eapply nth_error_lt; eauto. }
  split; [exact Hslot|]. split; [reflexivity|]. split; [exact (rp_text _ _ _ _ _ _ _ HP)|]. split.
  - intros Hok. destruct (rp_ok _ _ _ _ _ _ _ HP Hok) as (H1 & H2). rewrite (rp_len _ _ _ _ _ _ _ HP). auto.
  - split.
    + intros Hok. destruct (rp_fail _ _ _ _ _ _ _ HP Hok) as (-> & Hh). split; [rewrite Ew; apply set_same_world; exact Hi|exact Hh].
    + split; [exact (rp_fits _ _ _ _ _ _ _ HP)|].
      intros Hok Hne. destruct (rp_grow _ _ _ _ _ _ _ HP Hok) as [(_ & _ & Hq)|[(H1 & H2 & _)|(_ & _ & _ & _ & Hq)]]; auto; contradiction.
Qed.


(* ---------- C07: an index panic changes nothing, and happens exactly when String panics ---------- *)
Inductive index_op : op -> nat -> Prop :=
| IO_insert m i idx c : is_scalar c = true -> index_op (OInsert m i idx c) i
| IO_insert_str m i idx s : Valid s -> index_op (OInsertStr m i idx s) i
| IO_remove m i idx : index_op (ORemove m i idx) i
| IO_truncate m i n : index_op (OTruncate m i n) i.

Theorem index_panic_noop w o i w' out :
  WF w -> index_op o i -> exec w o = (w', out) -> out = PanicIndex ->
  pool w' = pool w /\ heap (wmem w') = heap (wmem w) /\ nreq (wmem w') = nreq (wmem w)
  /\ statics (wmem w') = statics (wmem w).
Proof.
  intros HW Hio He ->.
  assert (Hfin : forall r r', nth_error (pool w) i = Some (Some r) -> w' = set_slot w (wmem w') i (Some r') ->
                   statics (wmem w') = statics (wmem w) -> r' = r -> heap (wmem w') = heap (wmem w) -> nreq (wmem w') = nreq (wmem w) ->
                   pool w' = pool w /\ heap (wmem w') = heap (wmem w) /\ nreq (wmem w') = nreq (wmem w)
                   /\ statics (wmem w') = statics (wmem w)).
  { intros r r' Hi Ew Hs -> Hh Hn. split; [rewrite Ew; apply set_same_world; exact Hi|auto]. }
  destruct Hio.
  - destruct (op_insert w m i idx c w' _ HW H He) as [(_ & _ & E)|(r & r' & Hi & Ew & (res & HP & Eo) & _ & _ & Hs & _)]; [discriminate|].
    destruct (is_char_boundary (text_of (wmem w) r) idx) eqn:Eb.
    + destruct (ip_nopanic _ _ _ _ _ _ _ _ HP Eb) as (_ & Hn). destruct res as [[]| |p]; cbn [fin_res] in Eo.
      * discriminate.
      * destruct m; discriminate.
      * exfalso. apply (Hn p). reflexivity.
    + destruct (ip_panic _ _ _ _ _ _ _ _ HP Eb) as (_ & Er & Hh & Hn). eapply Hfin; eauto.
  - destruct (op_insert_str w m i idx s w' _ HW H He) as [(_ & _ & E)|(r & r' & Hi & Ew & (res & HP & Eo) & _ & _ & Hs & _)]; [discriminate|].
    destruct (is_char_boundary (text_of (wmem w) r) idx) eqn:Eb.
    + destruct (ip_nopanic _ _ _ _ _ _ _ _ HP Eb) as (_ & Hn). destruct res as [[]| |p]; cbn [fin_res] in Eo.
      * discriminate.
      * destruct m; discriminate.
      * exfalso. apply (Hn p). reflexivity.
    + destruct (ip_panic _ _ _ _ _ _ _ _ HP Eb) as (_ & Er & Hh & Hn). eapply Hfin; eauto.
  - destruct (op_remove w m i idx w' _ HW He) as [(_ & _ & E)|(r & r' & Hi & Ew & (res & HP & Eo) & _ & _ & Hs & _)]; [discriminate|].
    destruct (remove_ok_idx (text_of (wmem w) r) idx) eqn:Eb.
    + pose proof (rm_nopanic _ _ _ _ _ _ _ HP Eb) as Hn. destruct res as [c| |p]; cbn [fin_res] in Eo.
      * discriminate.
      * destruct m; discriminate.
      * exfalso. apply (Hn p). reflexivity.
    + destruct (rm_panic _ _ _ _ _ _ _ HP Eb) as (_ & Er & Hh & Hn). eapply Hfin; eauto.
  - destruct (op_truncate w m i n w' _ HW He) as [(_ & _ & E)|(r & r' & Hi & Ew & (res & HP & Eo) & _ & _ & Hs & _)]; [discriminate|].
    destruct (tr_heap _ _ _ _ _ _ _ HP) as (Hh & Hn & _).
    destruct (N.leb_spec (repr_len r) n) as [Hge|Hlt].
    + destruct (tr_noop _ _ _ _ _ _ _ HP Hge) as (-> & _). discriminate.
    + destruct (is_char_boundary (text_of (wmem w) r) n) eqn:Eb.
      * destruct (tr_ok _ _ _ _ _ _ _ HP Hlt Eb) as (-> & _). discriminate.
      * destruct (tr_panic _ _ _ _ _ _ _ HP Hlt Eb) as (_ & Er). eapply Hfin; eauto.
Qed.

(* the panic condition is String's: whenever Spec (String) panics on the index, so does LeanString, and conversely *)
Theorem index_panic_iff w o i w' out :
  gen_ok -> WF w -> index_op o i -> exec w o = (w', out) ->
  (out = PanicIndex <-> snd (spec_exec (statics (wmem w)) (abs w) o) = PanicIndex).
Proof.
  intros Hg HW Hio He. split.
  - intros ->. assert (Hwf : op_wf (statics (wmem w)) o) by (destruct Hio; cbn; auto).
    pose proof (ep_refine _ _ _ _ (exec_sound w o w' PanicIndex Hg HW Hwf He) eq_refl) as E. rewrite <- E. reflexivity.
  - intros Hsp. destruct Hio; cbn [spec_exec] in Hsp; unfold son in Hsp; rewrite sget_abs in Hsp.
    + destruct (get_slot w i) as [r|] eqn:Hg0; cbn [option_map] in Hsp; [|discriminate]. apply get_slot_nth in Hg0.
      destruct (is_char_boundary (text_of (wmem w) r) idx) eqn:Eb; [discriminate|].
      destruct (on_result_live _ _ _ _ _ r (op_insert w m i idx c w' out HW H He) Hg0) as (r' & _ & (res & HP & ->) & _).
      destruct (ip_panic _ _ _ _ _ _ _ _ HP Eb) as (-> & _). reflexivity.
    + destruct (get_slot w i) as [r|] eqn:Hg0; cbn [option_map] in Hsp; [|discriminate]. apply get_slot_nth in Hg0.
      destruct (is_char_boundary (text_of (wmem w) r) idx) eqn:Eb; [discriminate|].
      destruct (on_result_live _ _ _ _ _ r (op_insert_str w m i idx s w' out HW H He) Hg0) as (r' & _ & (res & HP & ->) & _).
      destruct (ip_panic _ _ _ _ _ _ _ _ HP Eb) as (-> & _). reflexivity.
    + destruct (get_slot w i) as [r|] eqn:Hg0; cbn [option_map] in Hsp; [|discriminate]. apply get_slot_nth in Hg0.
      destruct (remove_ok_idx (text_of (wmem w) r) idx) eqn:Eb; [discriminate|].
      destruct (on_result_live _ _ _ _ _ r (op_remove w m i idx w' out HW He) Hg0) as (r' & _ & (res & HP & ->) & _).
      destruct (rm_panic _ _ _ _ _ _ _ HP Eb) as (-> & _). reflexivity.
    + destruct (get_slot w i) as [r|] eqn:Hg0; cbn [option_map] in Hsp; [|discriminate]. apply get_slot_nth in Hg0.
      pose proof (text_len (wmem w) r (wf_handles _ HW _ _ Hg0)) as Hl. rewrite Hl in Hsp.
      destruct (N.leb_spec (repr_len r) n) as [Hge|Hlt]; [discriminate|].
      destruct (is_char_boundary (text_of (wmem w) r) n) eqn:Eb; [discriminate|].
      destruct (on_result_live _ _ _ _ _ r (op_truncate w m i n w' out HW He) Hg0) as (r' & _ & (res & HP & ->) & _).
      destruct (tr_panic _ _ _ _ _ _ _ HP Hlt Eb) as (-> & _). reflexivity.
Qed.

(* ---------- C08: clone ---------- *)
Theorem clone_is_shallow w i w' out r :
  WF w -> exec w (OClone i) = (w', out) -> nth_error (pool w) i = Some (Some r) ->
  out = OkUnit /\ pool w' = pool w ++ [Some r] /\ nreq (wmem w') = nreq (wmem w)
  /\ text_of (wmem w') r = text_of (wmem w) r /\ statics (wmem w') = statics (wmem w)
  /\ match r with
     | Heap b _ => exists x, nth_error (heap (wmem w)) b = Some x /\ heap (wmem w') = upd (heap (wmem w)) b (bumped x)
     | _ => heap (wmem w') = heap (wmem w)
     end
  /\ WF w'.
Proof.
  intros HW He Hi. destruct (op_clone w i w' out HW He) as [(Hg & _)|(r0 & Hi0 & Ew & -> & HP & HW' & _ & Hs)].
  - apply get_slot_nth in Hi. congruence.
  - rewrite Hi in Hi0. injection Hi0 as <-. split; [reflexivity|]. split; [rewrite Ew; reflexivity|].
    split; [exact (cn_nreq _ _ _ _ _ HP)|]. split; [exact (cn_text _ _ _ _ _ HP)|]. split; [exact Hs|].
    split; [exact (cn_heap _ _ _ _ _ HP)|exact HW'].
Qed.
Theorem clone_from_is_shallow w i j w' out r src :
  WF w -> exec w (OCloneFrom i j) = (w', out) -> i <> j ->
  nth_error (pool w) i = Some (Some r) -> nth_error (pool w) j = Some (Some src) ->
  out = OkUnit /\ nth_error (pool w') i = Some (Some src) /\ nreq (wmem w') = nreq (wmem w)
  /\ text_of (wmem w') src = text_of (wmem w) src /\ WF w'.
Proof.
  intros HW He Hne Hi Hj.
  destruct (op_clone_from w i j w' out HW He) as [(Hwhy & _)|(r0 & s0 & _ & Hi0 & Hj0 & Ew & -> & _ & Hn & Ht & HW' & _)].
  - exfalso. apply get_slot_nth in Hi, Hj. destruct Hwhy as [H|[H|H]]; congruence.
  - rewrite Hj in Hj0. injection Hj0 as <-. split; [reflexivity|]. split.
    + rewrite Ew. cbn [set_slot pool]. apply nth_error_upd_eq. eapply nth_error_lt; eauto.
    + auto.
Qed.

(* ---------- C09: short texts never touch the heap; longer ones allocate once, exactly ---------- *)
Theorem from_str_alloc w m t w' out :
  WF w -> Valid t -> exec w (OFromStr m t) = (w', out) ->
  (len t <= 16 -> out = OkUnit /\ nreq (wmem w') = nreq (wmem w) /\ heap (wmem w') = heap (wmem w)
                  /\ exists r', pool w' = pool w ++ [Some r'] /\ is_heap r' = false /\ is_static r' = false
                                /\ text_of (wmem w') r' = t)
  /\ (16 < len t -> (out = OkUnit /\ nreq (wmem w') = nreq (wmem w) + 1
                     /\ exists r', pool w' = pool w ++ [Some r'] /\ is_heap r' = true /\ cap_of (wmem w') r' = len t
                                   /\ text_of (wmem w') r' = t)
                    \/ (out = fin m false /\ pool w' = pool w ++ [None] /\ heap (wmem w') = heap (wmem w))).
Proof.
  intros HW Hv He. destruct (op_from_str w m t w' out HW Hv He) as (s & Ew & HW' & Ha & Hs & HP & ->). split.
  - intros Hl. destruct s as [r'|].
    + destruct (fs_some _ _ _ _ _ HP r' eq_refl) as (_ & Ht & Hsm & _). destruct (Hsm Hl) as (H1 & H2 & H3 & H4).
      split; [reflexivity|]. split; [exact H4|]. split; [exact H3|]. exists r'. split; [rewrite Ew; reflexivity|auto].
    + destruct (fs_none _ _ _ _ _ HP eq_refl) as (_ & _ & Hb). lia.
  - intros Hl. destruct s as [r'|].
    + left. destruct (fs_some _ _ _ _ _ HP r' eq_refl) as (_ & Ht & _ & Hbg). destruct (Hbg Hl) as (H1 & H2 & H3 & _).
      split; [reflexivity|]. split; [exact H3|]. exists r'. split; [rewrite Ew; reflexivity|auto].
    + right. destruct (fs_none _ _ _ _ _ HP eq_refl) as (_ & Hh & _). split; [reflexivity|]. split; [rewrite Ew; reflexivity|exact Hh].
Qed.

Theorem from_int_alloc w m t z w' out :
  gen_ok -> WF w -> (fst (int_range t) <= z <= snd (int_range t))%Z -> exec w (OFromInt m t z) = (w', out) ->
  (len (dec z) <= 16 -> out = OkUnit /\ nreq (wmem w') = nreq (wmem w) /\ heap (wmem w') = heap (wmem w)
                  /\ exists r', pool w' = pool w ++ [Some r'] /\ is_heap r' = false /\ text_of (wmem w') r' = dec z)
  /\ (16 < len (dec z) -> (out = OkUnit /\ nreq (wmem w') = nreq (wmem w) + 1
                     /\ exists r', pool w' = pool w ++ [Some r'] /\ is_heap r' = true /\ cap_of (wmem w') r' = len (dec z)
                                   /\ text_of (wmem w') r' = dec z)
                    \/ (out = fin m false /\ pool w' = pool w ++ [None] /\ heap (wmem w') = heap (wmem w))).
Proof.
  intros (Hlut & Htab) HW Hz He.
  destruct (op_from_int w m t z _ _ w' out HW Hlut (Htab t) Hz He) as (s & Ew & HW' & Ha & Hs & HP & ->). split.
  - intros Hl. destruct s as [r'|].
    + destruct (fi_some _ _ _ _ _ HP r' eq_refl) as (_ & Ht & Hsm & _). destruct (Hsm Hl) as (H1 & H2 & H3 & H4).
      split; [reflexivity|]. split; [exact H4|]. split; [exact H3|]. exists r'. split; [rewrite Ew; reflexivity|auto].
    + destruct (fi_none _ _ _ _ _ HP eq_refl) as (_ & _ & Hb). lia.
  - intros Hl. destruct s as [r'|].
    + left. destruct (fi_some _ _ _ _ _ HP r' eq_refl) as (_ & Ht & _ & Hbg). destruct (Hbg Hl) as (H1 & H2 & H3).
      split; [reflexivity|]. split; [exact H3|]. exists r'. split; [rewrite Ew; reflexivity|auto].
    + right. destruct (fi_none _ _ _ _ _ HP eq_refl) as (_ & Hh & _). split; [reflexivity|]. split; [rewrite Ew; reflexivity|exact Hh].
Qed.

(* appending / inserting into an exclusively owned string within its capacity: no allocator request, same buffer *)
Theorem push_within_capacity w m i s w' out r :
  WF w -> Valid s -> exec w (OPushStr m i s) = (w', out) -> nth_error (pool w) i = Some (Some r) ->
  xcl (wmem w) r -> repr_len r + len s <= cap_of (wmem w) r ->
  out = OkUnit /\ nreq (wmem w') = nreq (wmem w)
  /\ exists r', nth_error (pool w') i = Some (Some r') /\ (forall b, names r' b = names r b) /\ is_heap r' = is_heap r
                /\ text_of (wmem w') r' = text_of (wmem w) r ++ s.
Proof.
  intros HW Hv He Hi Hex Hfit.
  destruct (on_result_live _ _ _ _ _ r (op_push_str w m i s w' out HW Hv He) Hi) as (r' & Ew & (ok & HP & ->) & _).
  destruct (pp_fits _ _ _ _ _ _ _ HP Hex Hfit) as (-> & Hn & Hnm & Hh). split; [reflexivity|]. split; [exact Hn|].
  exists r'. split; [rewrite Ew; cbn [set_slot pool]; apply nth_error_upd_eq; eapply nth_error_lt; eauto|].
  split; [exact Hnm|]. split; [exact Hh|exact (pp_ok _ _ _ _ _ _ _ HP eq_refl)].
Qed.
Theorem insert_within_capacity w m i idx s w' out r :
  WF w -> Valid s -> exec w (OInsertStr m i idx s) = (w', out) -> nth_error (pool w) i = Some (Some r) ->
  is_char_boundary (text_of (wmem w) r) idx = true ->
  xcl (wmem w) r -> repr_len r + len s <= cap_of (wmem w) r ->
  out = OkUnit /\ nreq (wmem w') = nreq (wmem w)
  /\ exists r', nth_error (pool w') i = Some (Some r') /\ (forall b, names r' b = names r b) /\ is_heap r' = is_heap r
                /\ text_of (wmem w') r' = insert_text (text_of (wmem w) r) idx s.
Proof.
  intros HW Hv He Hi Hb Hex Hfit.
  destruct (on_result_live _ _ _ _ _ r (op_insert_str w m i idx s w' out HW Hv He) Hi) as (r' & Ew & (res & HP & ->) & _).
  destruct (ip_fits _ _ _ _ _ _ _ _ HP Hb Hex Hfit) as (-> & Hn & Hnm & Hh). split; [reflexivity|]. split; [exact Hn|].
  exists r'. split; [rewrite Ew; cbn [set_slot pool]; apply nth_error_upd_eq; eapply nth_error_lt; eauto|].
  split; [exact Hnm|]. split; [exact Hh|exact (ip_ok _ _ _ _ _ _ _ _ HP eq_refl)].
Qed.

(* ---------- C12: growth ---------- *)
Theorem push_growth w m i s w' out r :
  WF w -> Valid s -> exec w (OPushStr m i s) = (w', out) -> nth_error (pool w) i = Some (Some r) ->
  out = OkUnit -> nreq (wmem w') <> nreq (wmem w) ->
  exists r', nth_error (pool w') i = Some (Some r') /\ is_heap r' = true
             /\ cap_of (wmem w') r' = amortized_growth (repr_len r) (len s) /\ nreq (wmem w') = nreq (wmem w) + 1.
Proof.
  intros HW Hv He Hi -> Hne.
  destruct (on_result_live _ _ _ _ _ r (op_push_str w m i s w' _ HW Hv He) Hi) as (r' & Ew & (ok & HP & Eo) & _).
  assert (ok = true) as -> by (destruct m, ok; cbn in Eo; congruence).
  destruct (pp_grow _ _ _ _ _ _ _ HP eq_refl) as [Hn|(H1 & H2 & H3)]; [contradiction|].
  exists r'. split; [rewrite Ew; cbn [set_slot pool]; apply nth_error_upd_eq; eapply nth_error_lt; eauto|auto].
Qed.
(* both bounds of the property, for every old length and request in the region where nothing saturates *)
Theorem growth_bounds l a :
  l <= MAX_LEN -> amortized_growth l a <= MAX_LEN ->
  l + l / 2 <= amortized_growth l a /\ l + a <= amortized_growth l a
  /\ amortized_growth l a <= N.max (l + l / 2) (l + a).
Proof.
  intros Hl Hc. split; [apply growth_ge_amortized; exact Hc|]. split; [apply growth_ge_required; exact Hc|].
  apply growth_le_max; exact Hc.
Qed.

(* ---------- C13: shrinking ---------- *)
Theorem shrink_result w m i n w' out r :
  WF w -> exec w (OShrinkTo m i n) = (w', out) -> nth_error (pool w) i = Some (Some r) ->
  exists r' ok, nth_error (pool w') i = Some (Some r') /\ out = fin m ok /\ WF w'
    /\ shrink_post (wmem w) (refs (pool w)) r n (wmem w') r' ok /\ others_same w i (wmem w').
Proof.
  intros HW He Hi.
  destruct (on_result_live _ _ _ _ _ r (op_shrink_to w m i n w' out HW He) Hi) as (r' & Ew & (ok & HP & ->) & HW' & Ho & _).
  exists r', ok. split; [rewrite Ew; cbn [set_slot pool]; apply nth_error_upd_eq; eapply nth_error_lt; eauto|auto].
Qed.

(* ---------- C10: static handles ---------- *)
Theorem static_pop w m i w' out s l :
  WF w -> nth_error (pool w) i = Some (Some (Static s l)) -> exec w (OPop m i) = (w', out) ->
  heap (wmem w') = heap (wmem w) /\ nreq (wmem w') = nreq (wmem w) /\ statics (wmem w') = statics (wmem w)
  /\ exists l', nth_error (pool w') i = Some (Some (Static s l')) /\ l' <= l.
Proof.
  intros HW Hi He.
  destruct (on_result_live _ _ _ _ _ _ (op_pop w m i w' out HW He) Hi) as (r' & Ew & (res & HP & _) & HW' & _ & S).
  destruct (po_heap _ _ _ _ _ _ HP) as (Hh & Hn & _). split; [exact Hh|]. split; [exact Hn|].
  split; [destruct S as [(E1 & _) _ _ _]; exact E1|].
  assert (Hslot : nth_error (pool w') i = Some (Some r')).
  { rewrite Ew. cbn [set_slot pool]. apply nth_error_upd_eq. eapply nth_error_lt; eauto. }
  destruct (po_handle _ _ _ _ _ _ HP) as [->|(n & Hn' & ->)].
  - exists l. split; [exact Hslot|lia].
  - exists n. cbn [with_len] in Hslot. split; [exact Hslot|exact Hn'].
Qed.
Theorem static_truncate w m i n w' out s l :
  WF w -> nth_error (pool w) i = Some (Some (Static s l)) -> exec w (OTruncate m i n) = (w', out) ->
  heap (wmem w') = heap (wmem w) /\ nreq (wmem w') = nreq (wmem w) /\ statics (wmem w') = statics (wmem w)
  /\ exists l', nth_error (pool w') i = Some (Some (Static s l')) /\ l' <= l.
Proof.
  intros HW Hi He.
  destruct (on_result_live _ _ _ _ _ _ (op_truncate w m i n w' out HW He) Hi) as (r' & Ew & (res & HP & _) & HW' & _ & S).
  destruct (tr_heap _ _ _ _ _ _ _ HP) as (Hh & Hn & _). split; [exact Hh|]. split; [exact Hn|].
  split; [destruct S as [(E1 & _) _ _ _]; exact E1|].
  assert (Hslot : nth_error (pool w') i = Some (Some r')).
  { rewrite Ew. cbn [set_slot pool]. apply nth_error_upd_eq. eapply nth_error_lt; eauto. }
  destruct (tr_handle _ _ _ _ _ _ _ HP) as [->|(Hn' & ->)].
  - exists l. split; [exact Hslot|lia].
  - exists n. cbn [with_len] in Hslot. split; [exact Hslot|exact Hn'].
Qed.
Theorem static_clear w i w' out s l :
  WF w -> nth_error (pool w) i = Some (Some (Static s l)) -> exec w (OClear i) = (w', out) ->
  heap (wmem w') = heap (wmem w) /\ nreq (wmem w') = nreq (wmem w) /\ statics (wmem w') = statics (wmem w)
  /\ nth_error (pool w') i = Some (Some (Static s 0)).
Proof.
  intros HW Hi He.
  destruct (on_result_live _ _ _ _ _ _ (op_clear w i w' out HW He) Hi) as (r' & Ew & (HP & _) & HW' & _ & S).
  destruct (cl_static _ _ _ _ _ HP eq_refl) as (-> & Hh). split; [exact Hh|]. split; [exact (cl_nreq _ _ _ _ _ HP)|].
  split; [destruct S as [(E1 & _) _ _ _]; exact E1|].
  rewrite Ew. cbn [set_slot pool with_len]. apply nth_error_upd_eq. eapply nth_error_lt; eauto.
Qed.
Theorem static_ctor w s t w' out :
  WF w -> nth_error (statics (wmem w)) s = Some t -> exec w (OFromStatic s) = (w', out) ->
  heap (wmem w') = heap (wmem w) /\ nreq (wmem w') = nreq (wmem w) /\ statics (wmem w') = statics (wmem w)
  /\ (16 < len t -> len t <= STATIC_MAX_LENGTH -> out = OkUnit /\ pool w' = pool w ++ [Some (Static s (len t))]).
Proof.
  intros HW Hs He. destruct (op_from_static w s t w' out HW Hs He) as (o & Ew & HW' & _ & Hst & Hh & Hn & HP).
  split; [exact Hh|]. split; [exact Hn|]. split; [exact Hst|]. intros Hb Hm.
  destruct HP as [(_ & _ & Hbig)|(r' & -> & -> & _ & _ & Hr)]; [lia|]. rewrite (Hr Hb) in Ew. split; [reflexivity|rewrite Ew; reflexivity].
Qed.
(* the first write moves the handle to storage of its own *)
Theorem static_first_write w m i x w' out s l :
  WF w -> Valid x -> nth_error (pool w) i = Some (Some (Static s l)) -> exec w (OPushStr m i x) = (w', out) ->
  x <> [] -> out = OkUnit ->
  exists r', nth_error (pool w') i = Some (Some r') /\ is_static r' = false
             /\ text_of (wmem w') r' = text_of (wmem w) (Static s l) ++ x /\ statics (wmem w') = statics (wmem w).
Proof.
  intros HW Hv Hi He Hne ->.
  destruct (on_result_live _ _ _ _ _ _ (op_push_str w m i x w' _ HW Hv He) Hi) as (r' & Ew & (ok & HP & Eo) & HW' & _ & S).
  assert (ok = true) as -> by (destruct m, ok; cbn in Eo; congruence).
  exists r'. split; [rewrite Ew; cbn [set_slot pool]; apply nth_error_upd_eq; eapply nth_error_lt; eauto|].
  split; [|split; [exact (pp_ok _ _ _ _ _ _ _ HP eq_refl)|destruct S as [(E1 & _) _ _ _]; exact E1]].
  pose proof (pp_excl _ _ _ _ _ _ _ HP eq_refl Hne) as Hex. destruct r'; [reflexivity|reflexivity|contradiction].
Qed.

(* ---------- C18: a panicking callback ---------- *)
Theorem retain_panic_state w m i pa bits w' out r :
  WF w -> exec w (ORetain m i pa bits) = (w', out) -> nth_error (pool w) i = Some (Some r) ->
  out = PanicUser ->
  exists r', nth_error (pool w') i = Some (Some r') /\ WF w'
             /\ text_of (wmem w') r' = retain_text (text_of (wmem w) r) (retain_pred pa bits)
             /\ retain_done (text_of (wmem w) r) (retain_pred pa bits) = false.
Proof.
  intros HW He Hi ->.
  destruct (on_result_live _ _ _ _ _ _ (op_retain w m i pa bits w' _ HW He) Hi) as (r' & Ew & (res & HP & Eo) & HW' & _).
  exists r'. split; [rewrite Ew; cbn [set_slot pool]; apply nth_error_upd_eq; eapply nth_error_lt; eauto|]. split; [exact HW'|].
  destruct res as [[]| |p]; cbn [fin_res] in Eo; [discriminate|destruct m; discriminate|].
  destruct (rt_done _ _ _ _ _ _ _ HP ltac:(discriminate)) as (Ht & E). split; [exact Ht|].
  destruct (retain_done (text_of (wmem w) r) (retain_pred pa bits)); [discriminate|reflexivity].
Qed.
(* a constructor whose callback panics (or whose allocation fails) leaves no accumulator behind: the new slot is
   empty and the heap invariant (every live buffer is named by a slot) still holds *)
Theorem ctor_panic_no_garbage w o w' out :
  gen_ok -> WF w -> op_wf (statics (wmem w)) o -> target o = None -> exec w o = (w', out) ->
  out <> OkUnit -> out <> Skip -> WF w' /\ pool w' = pool w ++ [None].
Proof.
  intros Hg HW Hwf Ht He Hne Hns. pose proof (ep_wf _ _ _ _ (exec_sound w o w' out Hg HW Hwf He)) as HW'. split; [exact HW'|].
  destruct Hg as (Hlut & Htab). destruct o; cbn [target] in Ht; try discriminate; cbn [op_wf] in Hwf.
  - cbn [exec] in He. unfold exec_ctor in He. cbn [run] in He. injection He as <- <-. congruence.
  - destruct (op_from_str w m t w' out HW Hwf He) as (s & Ew & _ & _ & _ & _ & Eo). destruct s; [congruence|]. rewrite Ew. reflexivity.
  - destruct Hwf as (t & Hs). destruct (op_from_static w s t w' out HW Hs He) as (o & Ew & _ & _ & _ & _ & _ & HP).
    destruct HP as [(-> & _)|(r' & _ & Eo & _)]; [rewrite Ew; reflexivity|congruence].
  - destruct (op_with_capacity w m n w' out HW He) as (s & Ew & _ & _ & _ & _ & Eo). destruct s; [congruence|]. rewrite Ew. reflexivity.
  - cbn [exec] in He. unfold exec_ctor in He. cbn [run] in He. injection He as <- <-. congruence.
  - cbn [exec] in He. unfold exec_ctor in He. cbn [run] in He. injection He as <- <-. congruence.
  - destruct (op_from_int w m t z _ _ w' out HW Hlut (Htab t) Hwf He) as (s & Ew & _ & _ & _ & _ & Eo).
    destruct s; [congruence|]. rewrite Ew. reflexivity.
  - destruct (op_clone w i w' out HW He) as [(_ & _ & Eo)|(r & _ & _ & Eo & _)]; congruence.
  - destruct (op_collect_chars w hint panic_at cs w' out HW Hwf He) as (s & Ew & [A1 A2] & _).
    destruct s as [r'|]; [|rewrite Ew; reflexivity]. exfalso.
    destruct (alloc_failure out) eqn:Ea; [specialize (A2 eq_refl); discriminate|]. specialize (A1 eq_refl).
    destruct (first_stop None panic_at 0 (length (map encode_cp cs))) as [[n o]|]; [destruct A1; discriminate|].
    destruct A1 as (r'' & _ & Eo & _). congruence.
  - destruct (op_collect_strs w panic_at ss w' out HW Hwf He) as (s & Ew & [A1 A2] & _).
    destruct s as [r'|]; [|rewrite Ew; reflexivity]. exfalso.
    destruct (alloc_failure out) eqn:Ea; [specialize (A2 eq_refl); discriminate|]. specialize (A1 eq_refl).
    destruct (first_stop None panic_at 0 (length ss)) as [[n o]|]; [destruct A1; discriminate|].
    destruct A1 as (r'' & _ & Eo & _). congruence.
  - destruct (op_display w m err_at panic_at pieces w' out HW Hwf He) as (s & Ew & [A1 A2] & _).
    destruct s as [r'|]; [|rewrite Ew; reflexivity]. exfalso.
    destruct (alloc_failure out) eqn:Ea; [specialize (A2 eq_refl); discriminate|]. specialize (A1 eq_refl).
    destruct (first_stop err_at panic_at 0 (length pieces)) as [[n o]|]; [destruct A1; discriminate|].
    destruct A1 as (r'' & _ & Eo & _). congruence.
Qed.
