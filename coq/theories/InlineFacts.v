(* InlineFacts.v — the inline representation: tag arithmetic of byte 15 (generated expressions), inline_new,
   inline_set_len, and the text they denote. *)
From Coq Require Import Lia Arith.
From LS Require Import Base Utf8 Utf8Spec Utf8Facts Cmd Impl ListFacts.
From LSGen Require Import GenSrc.
Open Scope N_scope.

(* finite sweep, lifted *)
Lemma sweep (P : N -> bool) (k : nat) :
  forallb P (map N.of_nat (seq 0 k)) = true -> forall n, n < N.of_nat k -> P n = true.
Proof.
  intros H n Hn. rewrite forallb_forall in H. apply H. apply in_map_iff. exists (N.to_nat n). split; [lia|].
  apply in_seq. lia.
Qed.

Lemma tag_small n : n < 16 -> expr_inline_tag n = 192 + n.
Proof.
  intros H. apply N.eqb_eq. revert n H. apply (sweep (fun n => expr_inline_tag n =? 192 + n) 16).
  vm_compute. reflexivity.
Qed.
Lemma inline_len_spec b : b < 208 -> expr_inline_len b = if b <? 192 then 16 else b - 192.
Proof.
  intros H. apply N.eqb_eq. revert b H.
  apply (sweep (fun b => expr_inline_len b =? (if b <? 192 then 16 else b - 192)) 208).
  vm_compute. reflexivity.
Qed.
Lemma set_len_tag_cond n : cond_inline_set_len_tag n = (n <? 16).
Proof. reflexivity. Qed.
Lemma max_inline_16 : MAX_INLINE_SIZE = 16. Proof. reflexivity. Qed.
Lemma heap_marker_208 : HEAP_MARKER = 208. Proof. reflexivity. Qed.

Lemma nthN_app_r (a b : list N) i : nthN (a ++ b) (length a + i) = nthN b i.
Proof. unfold nthN. rewrite app_nth2 by lia. f_equal. lia. Qed.
Lemma nthN_last16 (a : list N) x : length a = 15%nat -> nthN (a ++ [x]) 15 = x.
Proof. intros H. rewrite <- H. replace (length a) with (length a + 0)%nat by lia. apply nthN_app_r. Qed.

(* ---- inline_new ---- *)
Lemma inline_new_short t : (length t < 16)%nat ->
  inline_new t = t ++ zeros (15 - length t) ++ [192 + len t].
Proof.
  intros H. unfold inline_new, write_range. cbn [firstn app Nat.add]. f_equal.
  rewrite tag_small by (unfold len; lia).
  rewrite skipn_app. unfold zeros. rewrite skipn_repeat, repeat_length.
  replace (length t - 15)%nat with 0%nat by lia. reflexivity.
Qed.
Lemma inline_new_full t : length t = 16%nat -> inline_new t = t.
Proof.
  intros H. unfold inline_new, write_range. cbn [firstn app Nat.add].
  rewrite skipn_all2; [apply app_nil_r|]. rewrite app_length. unfold zeros. rewrite repeat_length. cbn [length]. lia.
Qed.
Lemma inline_new_length t : (length t <= 16)%nat -> length (inline_new t) = 16%nat.
Proof.
  intros H. destruct (Nat.eq_dec (length t) 16) as [E|E].
  - rewrite inline_new_full; auto.
  - rewrite inline_new_short by lia. rewrite !app_length. unfold zeros. rewrite repeat_length. cbn [length]. lia.
Qed.
Lemma inline_new_tag t : (length t < 16)%nat -> nthN (inline_new t) 15 = 192 + len t.
Proof.
  intros H. rewrite inline_new_short by exact H. rewrite app_assoc. apply nthN_last16.
  rewrite app_length. unfold zeros. rewrite repeat_length. lia.
Qed.

Lemma last_nth16 (t : list N) : length t = 16%nat -> nthN t 15 = last t 0.
Proof.
  intros H. do 16 (destruct t as [|? t]; [discriminate|]). destruct t; [reflexivity|discriminate].
Qed.

Lemma inline_new_text t : Valid t -> (length t <= 16)%nat -> inline_text (inline_new t) = t.
Proof.
  intros Hv H. unfold inline_text, inline_len. destruct (Nat.eq_dec (length t) 16) as [E|E].
  - rewrite inline_new_full by exact E.
    assert (nthN t 15 < 192) as Hl.
    { rewrite last_nth16 by exact E. apply valid_last_lt_192; [exact Hv|]. intros ->. discriminate. }
    rewrite inline_len_spec by lia. apply N.ltb_lt in Hl. rewrite Hl.
    change (N.to_nat 16) with 16%nat. rewrite <- E. apply firstn_all.
  - rewrite inline_new_tag by lia. rewrite inline_len_spec by (unfold len; lia).
    replace (192 + len t <? 192) with false by (symmetry; apply N.ltb_ge; lia).
    replace (192 + len t - 192) with (len t) by lia. rewrite len_to_nat.
    rewrite inline_new_short by lia. apply firstn_app_exact.
Qed.
Lemma inline_new_lastbyte t : Valid t -> (length t <= 16)%nat -> nthN (inline_new t) 15 < HEAP_MARKER.
Proof.
  intros Hv H. rewrite heap_marker_208. destruct (Nat.eq_dec (length t) 16) as [E|E].
  - rewrite inline_new_full by exact E. rewrite last_nth16 by exact E.
    assert (last t 0 < 192); [|lia]. apply valid_last_lt_192; [exact Hv|]. intros ->. discriminate.
  - rewrite inline_new_tag by lia. unfold len. lia.
Qed.
Lemma inline_empty_eq : inline_empty = inline_new [].
Proof. reflexivity. Qed.

(* ---- reading the length of a well-formed inline value ---- *)
Definition inline_ok (bs : list N) : Prop :=
  length bs = 16%nat /\ Valid (inline_text bs) /\ nthN bs 15 < HEAP_MARKER.

Lemma inline_len_le bs : nthN bs 15 < HEAP_MARKER -> inline_len bs <= 16.
Proof.
  intros H. unfold inline_len. rewrite inline_len_spec by exact H. rewrite heap_marker_208 in H.
  destruct (nthN bs 15 <? 192); lia.
Qed.
Lemma inline_text_length bs : length bs = 16%nat -> nthN bs 15 < HEAP_MARKER -> len (inline_text bs) = inline_len bs.
Proof.
  intros H1 H2. unfold inline_text. rewrite len_firstn. pose proof (inline_len_le bs H2). unfold len. lia.
Qed.

(* ---- inline_set_len ---- *)
Lemma inline_set_len_length bs n : length (inline_set_len bs n) = length bs.
Proof. unfold inline_set_len. destruct (cond_inline_set_len_tag n); [apply upd_length|reflexivity]. Qed.
Lemma nthN_upd15 (bs : list N) x : length bs = 16%nat -> nthN (upd bs 15 x) 15 = x.
Proof.
  intros H. unfold nthN. do 16 (destruct bs as [|? bs]; [discriminate|]). reflexivity.
Qed.
(* shrinking or keeping the length of an inline value to n <= 16 whose first n bytes are the text wanted *)
Lemma inline_set_len_text bs n :
  length bs = 16%nat -> n <= 16 -> (n = 16 -> nthN bs 15 < 192) ->
  inline_text (inline_set_len bs n) = firstn (N.to_nat n) bs
  /\ (nthN (inline_set_len bs n) 15 < HEAP_MARKER).
Proof.
  intros H Hn H16. unfold inline_set_len. rewrite set_len_tag_cond, heap_marker_208.
  destruct (N.ltb_spec n 16) as [Hlt|Hge].
  - unfold inline_text, inline_len. rewrite nthN_upd15 by exact H. rewrite tag_small by exact Hlt.
    rewrite inline_len_spec by lia.
    replace (192 + n <? 192) with false by (symmetry; apply N.ltb_ge; lia).
    replace (192 + n - 192) with n by lia. split; [|lia].
    apply firstn_upd_ge. lia.
  - assert (n = 16) as -> by lia. specialize (H16 eq_refl). unfold inline_text, inline_len.
    rewrite inline_len_spec by lia. apply N.ltb_lt in H16. rewrite H16. split; [reflexivity|].
    apply N.ltb_lt in H16. lia.
Qed.
