(* Programs.v — the family of concurrent programs C04 quantifies over, for every number of threads and every operation
   sequence: thread 0 owns a handle to the shared buffer, clones it once per child, moves one clone into each spawned
   thread, and then every thread runs its own arbitrary sequence of reads and mutations on its handle and drops it;
   thread 0 finally joins the children.  shared_handles_typed: the initial configuration is well typed; hence
   (shared_handles_safe) no reachable configuration can make a racy / use-after-free / double-free step and
   (Compose.typed_progress) every thread's next event is enabled. *)
From Coq Require Import Lia Arith List Bool NArith.
From LSConc Require Import Clock Mach Inv Top StepSpec.
From LS Require Import Base Utf8 Cmd Impl Proto ProtoOps Compose.
Import ListNotations.
Local Open Scope nat_scope.

Inductive hop :=
| HRead | HPush (s : list N) | HPop | HTruncate (n : N) | HRemove (i : N) | HInsert (i : N) (s : list N)
| HRetain (pred : nat -> option bool) | HClear | HShrink (m : N) | HReserve (n : N) | HCloneDrop.

Definition happly (o : hop) (r : repr) : cmd repr :=
  match o with
  | HRead => _ <- as_bytes r ;; Ret r
  | HPush s => p <- push_str r s ;; Ret (fst p)
  | HPop => p <- pop r ;; Ret (fst p)
  | HTruncate n => p <- truncate r n ;; Ret (fst p)
  | HRemove i => p <- remove r i ;; Ret (fst p)
  | HInsert i s => p <- insert_str r i s ;; Ret (fst p)
  | HRetain pr => p <- retain r pr ;; Ret (fst p)
  | HClear => clear r
  | HShrink m => p <- shrink_to r m ;; Ret (fst p)
  | HReserve n => p <- reserve r n ;; Ret (fst p)
  | HCloneDrop => r' <- make_shallow_clone r ;; _ <- replace_inner r' repr_new ;; Ret r
  end.

Definition hpost (g : ghost) (r : repr) : repr -> ghost -> Prop :=
  fun r' g' => settled g' /\ holds g' r' /\ cons g r g' r'.

Lemma ok_happly o r g : holds g r -> settled g -> okc (happly o r) g (hpost g r).
Proof.
  intros Hh Hs. unfold hpost. destruct o; cbn [happly].
  - apply okc_bind. apply ok_as_bytes; [exact Hh|]. intros t. cbn [okc]. split; [exact Hs|]. split; [exact Hh|apply cons_refl].
  - apply okc_bind. eapply okc_mono; [apply ok_push_str; assumption|]. intros p g' H. exact H.
  - apply okc_bind. eapply okc_mono; [apply ok_pop; assumption|]. intros p g' H. exact H.
  - apply okc_bind. eapply okc_mono; [apply ok_truncate; assumption|]. intros p g' H. exact H.
  - apply okc_bind. eapply okc_mono; [apply ok_remove; assumption|]. intros p g' H. exact H.
  - apply okc_bind. eapply okc_mono; [apply ok_insert_str; assumption|]. intros p g' H. exact H.
  - apply okc_bind. eapply okc_mono; [apply ok_retain; assumption|]. intros p g' H. exact H.
  - apply ok_clear; assumption.
  - apply okc_bind. eapply okc_mono; [apply ok_shrink_to; assumption|]. intros p g' H. exact H.
  - apply okc_bind. eapply okc_mono; [apply ok_reserve; assumption|]. intros p g' (S' & H' & _ & C'). cbn [okc]. auto.
  - apply okc_bind. eapply okc_mono; [apply ok_clone'; assumption|]. intros r' g1 (S1 & H1 & H1' & Hsim & Hcnt).
    apply okc_bind. eapply okc_mono; [apply ok_replace_inner; assumption|]. intros r'' g2 (_ & S2 & Hm). cbn [okc].
    pose proof (released_refs _ _ _ H1' Hm) as Hrel.
    assert (Hsame : forall x, g_refs g2 x = g_refs g x).
    { intros x. specialize (Hrel x). rewrite Hcnt in Hrel. rewrite (nm_sim r r' x Hsim) in Hrel. lia. }
    split; [exact S2|]. split.
    + destruct r as [d|b l|s l]; cbn [holds]; auto. destruct Hh as (Hr & _). split; [rewrite Hsame; exact Hr|apply S2].
    + intros x. rewrite Hsame. reflexivity.
Qed.

Fixpoint hrun (ops : list hop) (r : repr) : cmd unit :=
  match ops with
  | [] => _ <- replace_inner r repr_new ;; Ret tt
  | o :: rest => r' <- happly o r ;; hrun rest r'
  end.

(* a thread that holds exactly the handle r (and no other reference to b0) runs any sequence and ends holding nothing *)
Lemma ok_hrun b0 ops : forall r g (Q : unit -> ghost -> Prop),
  holds g r -> settled g -> g_refs g b0 = nm r b0 ->
  (forall g', settled g' -> g_refs g' b0 = 0 -> Q tt g') -> okc (hrun ops r) g Q.
Proof.
  induction ops as [|o rest IH]; intros r g Q Hh Hs Hex HQ; cbn [hrun].
  - apply okc_bind. eapply okc_mono; [apply ok_replace_inner; assumption|]. intros r' g' (_ & S' & Hm). cbn [okc].
    apply HQ; [exact S'|]. pose proof (released_refs _ _ _ Hh Hm b0). lia.
  - apply okc_bind. eapply okc_mono; [apply ok_happly; assumption|]. intros r' g' (S' & H' & C'). apply IH; try assumption.
    specialize (C' b0). lia.
Qed.

(* n clones of the same handle *)
Fixpoint clone_n (n : nat) (r : repr) : cmd unit :=
  match n with 0 => Ret tt | S k => _ <- make_shallow_clone r ;; clone_n k r end.

Section System.
Variable b0 : bufid.
Variable l0 : N.
Variable n : nat.                       (* number of child threads *)
Variable opsf : nat -> list hop.        (* what each thread does with its handle *)
Let r0 := Heap b0 l0.
Let kof := fun _ : nat => 1.

Definition prog0 : list pitem :=
  POp (clone_n n r0) :: map (fun i => PSpawn i 1) (seq 1 n) ++ POp (hrun (opsf 0) r0) :: map PJoin (seq 1 n).
Definition child_prog (i : nat) : list pitem := [POp (hrun (opsf i) r0)].
Definition tc0 : list tcfg :=
  {| cur := Ret tt; rest := prog0; gh := g_child b0 1 |}
  :: map (fun i => {| cur := Ret tt; rest := child_prog i; gh := g_child b0 1 |}) (seq 1 n).
Definition cfg0 : cfg := {| ms := Mach.init n; tc := tc0 |}.

Lemma ok_clone_n k : forall g (Q : unit -> ghost -> Prop),
  holds g r0 -> settled g ->
  (forall g', settled g' -> g_refs g' b0 = g_refs g b0 + k -> Q tt g') -> okc (clone_n k r0) g Q.
Proof.
  induction k as [|k IH]; intros g Q Hh Hs HQ; cbn [clone_n].
  - cbn [okc]. apply HQ; [exact Hs|lia].
  - apply okc_bind. eapply okc_mono; [apply ok_clone'; assumption|]. intros r' g1 (S1 & H1 & _ & _ & Hcnt).
    apply IH; [exact H1|exact S1|]. intros g' S' E. apply HQ; [exact S'|]. specialize (Hcnt b0). unfold r0 in Hcnt. cbn [nm] in Hcnt. rewrite Nat.eqb_refl in Hcnt. lia.
Qed.

Lemma settled_give g k : settled g -> settled (g_give b0 g k).
Proof. intros H b. apply H. Qed.

Lemma prog_ok_joins l g : g_refs g b0 = 0 -> g_free g b0 = false -> prog_ok b0 kof (map PJoin l) g.
Proof. intros H1 H2. induction l; cbn; auto. Qed.

Lemma prog_ok_spawns l : forall g rest c,
  settled g -> g_refs g b0 = length l + c ->
  (forall g', settled g' -> g_refs g' b0 = c -> prog_ok b0 kof rest g') ->
  prog_ok b0 kof (map (fun i => PSpawn i 1) l ++ rest) g.
Proof.
  induction l as [|i l IH]; intros g rest c Hs Hr HQ; cbn [map app prog_ok length] in *.
  - apply HQ; [exact Hs|lia].
  - split; [lia|]. split; [reflexivity|]. apply (IH _ _ c).
    + apply settled_give. exact Hs.
    + unfold g_give. cbn [g_refs]. unfold setf. rewrite Nat.eqb_refl. lia.
    + exact HQ.
Qed.

Lemma child_ghost_ok : holds (g_child b0 1) r0 /\ settled (g_child b0 1) /\ g_refs (g_child b0 1) b0 = nm r0 b0.
Proof.
  split; [|split; [intros b; reflexivity|]]; unfold r0; cbn [holds g_child g_refs g_free nm]; rewrite Nat.eqb_refl; auto.
Qed.

Lemma prog0_ok : prog_ok b0 kof prog0 (g_child b0 1).
Proof.
  destruct child_ghost_ok as (Hh & Hs & Hex). unfold prog0. cbn [prog_ok].
  apply ok_clone_n; [exact Hh|exact Hs|]. intros g1 S1 E1.
  apply (prog_ok_spawns _ _ _ 1); [exact S1|rewrite seq_length; rewrite E1; cbn [g_child g_refs]; rewrite Nat.eqb_refl; lia|].
  intros g2 S2 R2. cbn [prog_ok]. apply (ok_hrun b0).
  - unfold r0; cbn [holds]; split; [lia|apply S2].
  - exact S2.
  - unfold r0. cbn [nm]. rewrite Nat.eqb_refl. exact R2.
  - intros g3 S3 R3. apply prog_ok_joins; [exact R3|apply S3].
Qed.

Lemma nth_tc0 t : t < S n ->
  nth t tc0 (dtc b0) = {| cur := Ret tt; rest := (if Nat.eqb t 0 then prog0 else child_prog t); gh := g_child b0 1 |}.
Proof.
  intros Ht. unfold tc0. destruct t as [|t]; [reflexivity|]. cbn [nth Nat.eqb].
  rewrite (nth_indep _ _ {| cur := Ret tt; rest := child_prog 0; gh := g_child b0 1 |}) by (rewrite map_length, seq_length; lia).
  rewrite (map_nth (fun i => {| cur := Ret tt; rest := child_prog i; gh := g_child b0 1 |}) (seq 1 n) 0 t).
  rewrite seq_nth by lia. reflexivity.
Qed.

Theorem shared_handles_typed : WT b0 kof cfg0.
Proof.
  split; cbn [ms tc cfg0].
  - apply inv_init.
  - unfold tc0, Mach.init. cbn [length ths]. rewrite map_length, seq_length, repeat_length. reflexivity.
  - intros t Ht Hst. unfold tc0 in Ht. cbn [length] in Ht. rewrite map_length, seq_length in Ht.
    unfold gettc. cbn [tc]. rewrite nth_tc0 by exact Ht. cbn [cur rest gh].
    pose proof (T_init n t) as E. unfold T in E. rewrite E in Hst |- *.
    destruct t as [|t]; cbn [Nat.eqb] in *; [|cbn in Hst; discriminate].
    split; [|cbn [okc]; exact prog0_ok].
    cbn. unfold agree. cbn. rewrite Nat.eqb_refl. repeat split; auto. discriminate.
  - intros t Ht Hst. unfold tc0 in Ht. cbn [length] in Ht. rewrite map_length, seq_length in Ht.
    unfold gettc. cbn [tc]. rewrite nth_tc0 by exact Ht. cbn [cur rest gh].
    pose proof (T_init n t) as E. unfold T in E. rewrite E in Hst.
    destruct t as [|t]; cbn [Nat.eqb] in *; [cbn in Hst; discriminate|].
    split; [reflexivity|]. split; [reflexivity|]. unfold child_prog. cbn [prog_ok].
    destruct child_ghost_ok as (Hh & Hs & Hex). apply (ok_hrun b0); [exact Hh|exact Hs|exact Hex|].
    intros g' S' R'. cbn [prog_ok]. split; [exact R'|apply S'].
  - intros u. pose proof (T_init n u) as E. unfold T in E. rewrite E. destruct u; reflexivity.
Qed.

(* every reachable configuration: well typed (so every thread's next event is enabled, Compose.typed_progress), and no
   machine step from it is a data race, a use after free or a double free *)
Theorem shared_handles_safe cf : csteps b0 cfg0 cf ->
  WT b0 kof cf /\ forall t a e, step (ms cf) t a <> Err e.
Proof.
  intros Hs. split; [exact (typed_steps b0 kof _ _ shared_handles_typed Hs)|].
  intros t a e. exact (typed_safe b0 kof _ _ t a e shared_handles_typed Hs).
Qed.
(* and when every started thread has run to completion the buffer is gone: released exactly once (a second release
   would be a DoubleFree step, excluded above), after the last access (any later access would be a use after free) *)
Theorem shared_handles_released cf : csteps b0 cfg0 cf ->
  (forall t, t < length (tc cf) -> started (getth (ms cf) t) = true -> finished (gettc b0 cf t)) ->
  Mach.live (ms cf) = false.
Proof.
  intros Hs Hfin. apply (all_finished_released b0 kof cf); [|exact Hfin].
  exact (typed_steps b0 kof _ _ shared_handles_typed Hs).
Qed.
End System.
