(* Programs.v — the family of concurrent programs C04 quantifies over, for every number of threads and every operation
   sequence: thread 0 owns a handle to the shared buffer, clones it once per child, moves one clone into each spawned
   thread, and then every thread runs its own arbitrary sequence of reads and mutations on its handle and drops it;
   thread 0 finally joins the children.  shared_handles_typed: the initial configuration is well typed; hence
   (shared_handles_safe) no reachable configuration can make a racy / use-after-free / double-free step and
   (Compose.typed_progress) every thread's next event is enabled. *)
From Coq Require Import Lia Arith List Bool NArith.
From LSConc Require Import Clock Mach Inv Top StepSpec.
From LS Require Import Base Utf8 Cmd Impl Proto ProtoOps Compose.
Import ListNotations.
Local Open Scope nat_scope.

Inductive hop :=
| HRead | HPush (s : list N) | HPop | HTruncate (n : N) | HRemove (i : N) | HInsert (i : N) (s : list N)
| HRetain (pred : nat -> option bool) | HClear | HShrink (m : N) | HReserve (n : N) | HCloneDrop.

Definition happly (o : hop) (r : repr) : cmd repr :=
  match o with
  | HRead => _ <- as_bytes r ;; Ret r
  | HPush s => p <- push_str r s ;; Ret (fst p)
  | HPop => p <- pop r ;; Ret (fst p)
  | HTruncate n => p <- truncate r n ;; Ret (fst p)
  | HRemove i => p <- remove r i ;; Ret (fst p)
  | HInsert i s => p <- insert_str r i s ;; Ret (fst p)
  | HRetain pr => p <- retain r pr ;; Ret (fst p)
  | HClear => clear r
  | HShrink m => p <- shrink_to r m ;; Ret (fst p)
  | HReserve n => p <- reserve r n ;; Ret (fst p)
  | HCloneDrop => r' <- make_shallow_clone r ;; _ <- replace_inner r' repr_new ;; Ret r
  end.

Definition hpost (g : ghost) (r : repr) : repr -> ghost -> Prop :=
  fun r' g' => settled g' /\ holds g' r' /\ cons g r g' r'.

Lemma ok_happly o r g : holds g r -> settled g -> okc (happly o r) g (hpost g r).
Proof.
  intros Hh Hs. unfold hpost. destruct o; cbn [happly].
  - apply okc_bind. apply ok_as_bytes; [exact Hh|]. intros t. cbn [okc]. split; [exact Hs|]. split; [exact Hh|apply cons_refl].
  - apply okc_bind. eapply okc_mono; [apply ok_push_str; assumption|]. intros p g' H. exact H.
  - apply okc_bind. eapply okc_mono; [apply ok_pop; assumption|]. intros p g' H. exact H.
  - apply okc_bind. eapply okc_mono; [apply ok_truncate; assumption|]. intros p g' H. exact H.
  - apply okc_bind. eapply okc_mono; [apply ok_remove; assumption|]. intros p g' H. exact H.
  - apply okc_bind. eapply okc_mono; [apply ok_insert_str; assumption|]. intros p g' H. exact H.
  - apply okc_bind. eapply okc_mono; [apply ok_retain; assumption|]. intros p g' H. exact H.
  - apply ok_clear; assumption.
  - apply okc_bind. eapply okc_mono; [apply ok_shrink_to; assumption|]. intros p g' H. exact H.
  - apply okc_bind. eapply okc_mono; [apply ok_reserve; assumption|]. intros p g' (S' & H' & _ & C'). cbn [okc]. auto.
  - apply okc_bind. eapply okc_mono; [apply ok_clone'; assumption|]. intros r' g1 (S1 & H1 & H1' & Hsim & Hcnt).
    apply okc_bind. eapply okc_mono; [apply ok_replace_inner; assumption|]. intros r'' g2 (_ & S2 & Hm). cbn [okc].
    pose proof (released_refs _ _ _ H1' Hm) as Hrel.
    assert (Hsame : forall x, g_refs g2 x = g_refs g x).
    { intros x. specialize (Hrel x). rewrite Hcnt in Hrel. rewrite (nm_sim r r' x Hsim) in Hrel. lia. }
    split; [exact S2|]. split.
    + destruct r as [d|b l|s l]; cbn [holds]; auto. destruct Hh as (Hr & _). split; [rewrite Hsame; exact Hr|apply S2].
    + intros x. rewrite Hsame. reflexivity.
Qed.

Fixpoint hrun (ops : list hop) (r : repr) : cmd unit :=
  match ops with
  | [] => _ <- replace_inner r repr_new ;; Ret tt
  | o :: rest => r' <- happly o r ;; hrun rest r'
  end.

(* a thread that holds exactly the handle r (and no other reference to b0) runs any sequence and ends holding nothing *)
Lemma ok_hrun b0 ops : forall r g (Q : unit -> ghost -> Prop),
  holds g r -> settled g -> g_refs g b0 = nm r b0 ->
  (forall g', settled g' -> g_refs g' b0 = 0 -> Q tt g') -> okc (hrun ops r) g Q.
Proof.
  induction ops as [|o rest IH]; intros r g Q Hh Hs Hex HQ; cbn [hrun].
  - apply okc_bind. eapply okc_mono; [apply ok_replace_inner; assumption|]. intros r' g' (_ & S' & Hm). cbn [okc].
    apply HQ; [exact S'|]. pose proof (released_refs _ _ _ Hh Hm b0). lia.
  - apply okc_bind. eapply okc_mono; [apply ok_happly; assumption|]. intros r' g' (S' & H' & C'). apply IH; try assumption.
    specialize (C' b0). lia.
Qed.

(* n clones of the same handle *)
Fixpoint clone_n (n : nat) (r : repr) : cmd unit :=
  match n with 0 => Ret tt | S k => _ <- make_shallow_clone r ;; clone_n k r end.

Section System.
Variable b0 : bufid.
Variable l0 : N.
Variable n : nat.                       (* number of child threads *)
Variable opsf : nat -> list hop.        (* what each thread does with its handle *)
Let r0 := Heap b0 l0.
Let kof := fun _ : nat => 1.
Let bof := fun _ : nat => false.

Definition prog0 : list pitem :=
  POp (clone_n n r0) :: map (fun i => PSpawn i 1) (seq 1 n) ++ POp (hrun (opsf 0) r0) :: map PJoin (seq 1 n).
Definition child_prog (i : nat) : list pitem := [POp (hrun (opsf i) r0)].
Definition tc0 : list tcfg :=
  {| cur := Ret tt; rest := prog0; gh := g_child b0 1; lt := [] |}
  :: map (fun i => {| cur := Ret tt; rest := child_prog i; gh := g_child b0 1; lt := [] |}) (seq 1 n).
Definition cfg0 : cfg := {| ms := Mach.init n; tc := tc0 |}.

Lemma ok_clone_n k : forall g (Q : unit -> ghost -> Prop),
  holds g r0 -> settled g ->
  (forall g', settled g' -> g_refs g' b0 = g_refs g b0 + k -> Q tt g') -> okc (clone_n k r0) g Q.
Proof.
  induction k as [|k IH]; intros g Q Hh Hs HQ; cbn [clone_n].
  - cbn [okc]. apply HQ; [exact Hs|lia].
  - apply okc_bind. eapply okc_mono; [apply ok_clone'; assumption|]. intros r' g1 (S1 & H1 & _ & _ & Hcnt).
    apply IH; [exact H1|exact S1|]. intros g' S' E. apply HQ; [exact S'|]. specialize (Hcnt b0). unfold r0 in Hcnt. cbn [nm] in Hcnt. rewrite Nat.eqb_refl in Hcnt. lia.
Qed.

Lemma settled_give g k : settled g -> settled (g_give b0 g k).
Proof. intros H b. apply H. Qed.

Lemma prog_ok_joins l g : g_refs g b0 = 0 -> g_free g b0 = false -> prog_ok b0 kof bof [] (map PJoin l) g.
Proof. intros H1 H2. induction l; cbn; auto. Qed.

Lemma prog_ok_spawns l : forall g rest c,
  settled g -> g_refs g b0 = length l + c ->
  (forall g', settled g' -> g_refs g' b0 = c -> prog_ok b0 kof bof [] rest g') ->
  prog_ok b0 kof bof [] (map (fun i => PSpawn i 1) l ++ rest) g.
Proof.
  induction l as [|i l IH]; intros g rest c Hs Hr HQ; cbn [map app prog_ok length] in *.
  - apply HQ; [exact Hs|lia].
  - split; [lia|]. split; [reflexivity|]. split; [reflexivity|]. apply (IH _ _ c).
    + apply settled_give. exact Hs.
    + unfold g_give. cbn [g_refs]. unfold setf. rewrite Nat.eqb_refl. lia.
    + exact HQ.
Qed.

Lemma child_ghost_ok : holds (g_child b0 1) r0 /\ settled (g_child b0 1) /\ g_refs (g_child b0 1) b0 = nm r0 b0.
Proof.
  split; [|split; [intros b; reflexivity|]]; unfold r0; cbn [holds g_child g_refs g_free nm]; rewrite Nat.eqb_refl; auto.
Qed.

Lemma prog0_ok : prog_ok b0 kof bof [] prog0 (g_child b0 1).
Proof.
  destruct child_ghost_ok as (Hh & Hs & Hex). unfold prog0. cbn [prog_ok].
  apply ok_clone_n; [exact Hh|exact Hs|]. intros g1 S1 E1.
  apply (prog_ok_spawns _ _ _ 1); [exact S1|rewrite seq_length; rewrite E1; cbn [g_child g_refs]; rewrite Nat.eqb_refl; lia|].
  intros g2 S2 R2. cbn [prog_ok]. apply (ok_hrun b0).
  - unfold r0; cbn [holds]; split; [lia|apply S2].
  - exact S2.
  - unfold r0. cbn [nm]. rewrite Nat.eqb_refl. exact R2.
  - intros g3 S3 R3. apply prog_ok_joins; [exact R3|apply S3].
Qed.

Lemma nth_tc0 t : t < S n ->
  nth t tc0 (dtc b0) = {| cur := Ret tt; rest := (if Nat.eqb t 0 then prog0 else child_prog t); gh := g_child b0 1; lt := [] |}.
Proof.
  intros Ht. unfold tc0. destruct t as [|t]; [reflexivity|]. cbn [nth Nat.eqb].
  rewrite (nth_indep _ _ {| cur := Ret tt; rest := child_prog 0; gh := g_child b0 1; lt := [] |}) by (rewrite map_length, seq_length; lia).
  rewrite (map_nth (fun i => {| cur := Ret tt; rest := child_prog i; gh := g_child b0 1; lt := [] |}) (seq 1 n) 0 t).
  rewrite seq_nth by lia. reflexivity.
Qed.

Theorem shared_handles_typed : WT b0 kof bof cfg0.
Proof.
  split; cbn [ms tc cfg0].
  - apply inv_init.
  - unfold tc0, Mach.init. cbn [length ths]. rewrite map_length, seq_length, repeat_length. reflexivity.
  - intros t Ht Hst. unfold tc0 in Ht. cbn [length] in Ht. rewrite map_length, seq_length in Ht.
    unfold gettc. cbn [tc]. rewrite nth_tc0 by exact Ht. cbn [cur rest gh].
    pose proof (T_init n t) as E. unfold T in E. rewrite E in Hst |- *.
    destruct t as [|t]; cbn [Nat.eqb] in *; [|cbn in Hst; discriminate].
    split; [|split; [cbn [okc lt]; exact prog0_ok|cbn [g_child g_bor]; discriminate]].
    cbn. unfold agree, agreeh. cbn. rewrite Nat.eqb_refl. repeat split; auto. discriminate.
  - intros t Ht Hst. unfold tc0 in Ht. cbn [length] in Ht. rewrite map_length, seq_length in Ht.
    unfold gettc. cbn [tc]. rewrite nth_tc0 by exact Ht. cbn [cur rest gh].
    pose proof (T_init n t) as E. unfold T in E. rewrite E in Hst.
    destruct t as [|t]; cbn [Nat.eqb] in *; [cbn in Hst; discriminate|].
    split; [reflexivity|]. split; [reflexivity|]. split; [reflexivity|]. split.
    + unfold g_init, bof. unfold child_prog. cbn [prog_ok].
      destruct child_ghost_ok as (Hh & Hs & Hex). apply (ok_hrun b0); [exact Hh|exact Hs|exact Hex|].
      intros g' S' R'. cbn [prog_ok]. split; [reflexivity|]. split; [exact R'|apply S'].
    + pose proof (T_init n (S t)) as E'. unfold T, getth in E'. unfold getth. rewrite E'. reflexivity.
  - intros u v. pose proof (T_init n u) as E. unfold T in E. rewrite E. split.
    + destruct u; cbn; discriminate.
    + intros (Hv & Hin). unfold tc0 in Hv. cbn [length] in Hv. rewrite map_length, seq_length in Hv.
      unfold gettc in Hin. cbn [tc] in Hin. rewrite nth_tc0 in Hin by exact Hv. cbn [lt] in Hin. contradiction.
Qed.

(* every reachable configuration: well typed (so every thread's next event is enabled, Compose.typed_progress), and no
   machine step from it is a data race, a use after free or a double free *)
Theorem shared_handles_safe cf : csteps b0 cfg0 cf ->
  WT b0 kof bof cf /\ forall t a e, step (ms cf) t a <> Err e.
Proof.
  intros Hs. split; [exact (typed_steps b0 kof bof _ _ shared_handles_typed Hs)|].
  intros t a e. exact (typed_safe b0 kof bof _ _ t a e shared_handles_typed Hs).
Qed.
(* and when every started thread has run to completion the buffer is gone: released exactly once (a second release
   would be a DoubleFree step, excluded above), after the last access (any later access would be a use after free) *)
Theorem shared_handles_released cf : csteps b0 cfg0 cf ->
  (forall t, t < length (tc cf) -> started (getth (ms cf) t) = true -> finished (gettc b0 cf t)) ->
  Mach.live (ms cf) = false.
Proof.
  intros Hs Hfin. apply (all_finished_released b0 kof bof cf); [|exact Hfin].
  exact (typed_steps b0 kof bof _ _ shared_handles_typed Hs).
Qed.
End System.

(* ---------- sharing by reference: std::thread::scope ----------
   Thread 0 owns a handle to the shared buffer and lends &handle to n scoped threads (for every n); each scoped thread
   runs its own arbitrary sequence of reads THROUGH the borrowed handle and clones through it — every clone is then the
   scoped thread's own handle, on which it runs any sequence of reads and mutations before dropping it — and the scope
   ends when all of them have run to completion; afterwards thread 0 runs its own arbitrary sequence on the handle and
   drops it.  scoped_handles_typed: the initial configuration is well typed, hence all of Compose's theorems apply. *)
Inductive bop := BRead | BClone (ops : list hop).
Definition bapply (o : bop) (r : repr) : cmd unit :=
  match o with
  | BRead => _ <- as_bytes r ;; Ret tt
  | BClone ops => r' <- make_shallow_clone r ;; hrun ops r'
  end.
Fixpoint brun (ops : list bop) (r : repr) : cmd unit :=
  match ops with
  | [] => Ret tt
  | o :: rest => _ <- bapply o r ;; brun rest r
  end.

Lemma ok_brun b0 l0 ops : forall g (Q : unit -> ghost -> Prop),
  borrows g (Heap b0 l0) -> settled g -> g_refs g b0 = 0 ->
  (forall g', settled g' -> g_refs g' b0 = 0 -> Q tt g') -> okc (brun ops (Heap b0 l0)) g Q.
Proof.
  induction ops as [|o rest IH]; intros g Q Hb Hs Hr HQ; cbn [brun].
  - cbn [okc]. apply HQ; assumption.
  - apply okc_bind. destruct o as [|ops]; cbn [bapply].
    + apply okc_bind. apply ok_as_bytes_borrowed; [exact Hb|]. intros t. cbn [okc]. apply IH; assumption.
    + apply okc_bind. eapply okc_mono; [apply okc_bor; apply ok_clone_borrowed; assumption|].
      intros r' g1 ((-> & H1 & S1 & Hcnt) & Eb).
      eapply okc_mono; [apply okc_bor; apply (ok_hrun b0 ops (Heap b0 l0) g1 (fun _ g' => settled g' /\ g_refs g' b0 = 0)); auto|].
      * rewrite Hcnt, Hr. reflexivity.
      * intros u g2 ((S2 & R2) & Eb2). apply IH; try assumption.
        cbn [borrows] in *. rewrite Eb2, Eb. split; [exact (proj1 Hb)|apply S2].
Qed.

Section Scoped.
Variable b0 : bufid.
Variable l0 : N.
Variable n : nat.                       (* S n scoped threads *)
Variable bopsf : nat -> list bop.       (* what each scoped thread does through the borrowed handle *)
Variable ops1 : list hop.               (* what the owner does with its OTHER handle while the scope is open *)
Variable lops : list bop.               (* what the owner does through the handle it has lent, while the scope is open *)
Variable ops0 : list hop.               (* what the owner does with its handle after the scope *)
Let r0 := Heap b0 l0.
Let kof := fun _ : nat => 0.
Let bof := fun t : nat => negb (Nat.eqb t 0).

(* the owner holds two handles on the buffer; it lends one of them to S n scoped threads and, while they run, goes on
   editing and finally drops the other one, and reads and clones through the lent one like any borrower; when the scope
   has ended it edits the handle it had lent *)
Definition sprog0 : list pitem :=
  POp (clone_n 1 r0) :: map PLend (seq 1 (S n)) ++ [POp (hrun ops1 r0); POp (brun lops r0)] ++ map PJoinB (rev (seq 1 (S n)))
  ++ [POp (hrun ops0 r0)].
Definition schild_prog (i : nat) : list pitem := [POp (brun (bopsf i) r0)].
Definition stc0 : list tcfg :=
  {| cur := Ret tt; rest := sprog0; gh := g_child b0 1; lt := [] |}
  :: map (fun i => {| cur := Ret tt; rest := schild_prog i; gh := g_childb b0; lt := [] |}) (seq 1 (S n)).
Definition scfg0 : cfg := {| ms := Mach.init (S n); tc := stc0 |}.

Lemma remove_head_notin (a : nat) l : ~ In a l -> List.remove Nat.eq_dec a (a :: l) = l.
Proof.
  intros H. cbn [List.remove]. destruct (Nat.eq_dec a a) as [_|Hne]; [|contradiction]. apply notin_remove. exact H.
Qed.

(* further loans of a handle that is already lent, and their ends: the ghost is untouched *)
Lemma prog_ok_inner l : forall lent g (Pout : ghost -> Prop) mid rest,
  lent <> [] -> NoDup l -> (forall i, In i l -> bof i = true /\ ~ In i lent) ->
  (forall lent' r', (forall g'', Pout g'' -> prog_ok b0 kof bof lent' r' g'') -> prog_ok b0 kof bof lent' (mid ++ r') g) ->
  (forall g'', Pout g'' -> prog_ok b0 kof bof lent rest g'') ->
  prog_ok b0 kof bof lent (map PLend l ++ mid ++ map PJoinB (rev l) ++ rest) g.
Proof.
  induction l as [|a l IH]; intros lent g Pout mid rest Hne Hnd Hl Hmid HQ.
  - cbn [map rev app]. apply Hmid. exact HQ.
  - cbn [map rev app prog_ok]. inversion Hnd as [|? ? Hna Hnd']; subst.
    destruct (Hl a (or_introl eq_refl)) as (Hb & Hnl).
    split; [intros E; contradiction|]. split; [exact Hb|].
    assert (Eg : g_lendout b0 lent g = g) by (destruct lent; [contradiction|reflexivity]). rewrite Eg.
    rewrite map_app. cbn [map]. rewrite <- app_assoc. cbn [app].
    apply (IH (a :: lent) g Pout mid (PJoinB a :: rest)).
    + discriminate.
    + exact Hnd'.
    + intros i Hi. destruct (Hl i (or_intror Hi)) as (Hbi & Hni). split; [exact Hbi|].
      intros [E|Hin]; [subst; contradiction|contradiction].
    + exact Hmid.
    + intros g'' Hg''. cbn [prog_ok]. split; [left; reflexivity|]. rewrite remove_head_notin by exact Hnl.
      assert (Eg' : g_joinb b0 lent g'' = g'') by (destruct lent; [contradiction|reflexivity]). rewrite Eg'. apply HQ. exact Hg''.
Qed.
(* a whole scope: the first loan sets the lent handle aside, the end of the last one gives it back *)
Lemma prog_ok_scope a l : forall g (Pout : ghost -> Prop) mid rest,
  NoDup (a :: l) -> (forall i, In i (a :: l) -> bof i = true) ->
  0 < g_refs g b0 -> g_bor g b0 = false ->
  (forall lent' r', (forall g'', Pout g'' -> prog_ok b0 kof bof lent' r' g'') -> prog_ok b0 kof bof lent' (mid ++ r') (g_hide b0 g)) ->
  (forall g'', Pout g'' -> prog_ok b0 kof bof [] rest (g_unhide b0 g'')) ->
  prog_ok b0 kof bof [] (map PLend (a :: l) ++ mid ++ map PJoinB (rev (a :: l)) ++ rest) g.
Proof.
  intros g Pout mid rest Hnd Hb Hr Hnb Hmid HQ. inversion Hnd as [|? ? Hna Hnd']; subst.
  cbn [map rev app prog_ok]. split; [intros _; split; assumption|]. split; [apply Hb; left; reflexivity|].
  cbn [g_lendout]. rewrite map_app. cbn [map]. rewrite <- app_assoc. cbn [app].
  apply (prog_ok_inner l [a] (g_hide b0 g) Pout mid (PJoinB a :: rest)).
  - discriminate.
  - exact Hnd'.
  - intros i Hi. split; [apply Hb; right; exact Hi|]. intros [E|[]]. subst. contradiction.
  - exact Hmid.
  - intros g'' Hg''. cbn [prog_ok]. split; [left; reflexivity|]. rewrite remove_head_notin by (intros []).
    cbn [g_joinb]. apply HQ. exact Hg''.
Qed.

Lemma sprog0_ok : prog_ok b0 kof bof [] sprog0 (g_child b0 1).
Proof.
  unfold sprog0. cbn [prog_ok].
  assert (H0 : holds (g_child b0 1) r0 /\ settled (g_child b0 1)).
  { unfold r0. cbn [holds g_child g_refs g_free]. rewrite Nat.eqb_refl. split; [split; [lia|reflexivity]|intros b; reflexivity]. }
  destruct H0 as (Hh0 & Hs0).
  eapply okc_mono; [apply okc_bor; apply (ok_clone_n b0 l0 1 (g_child b0 1) (fun _ g' => settled g' /\ g_refs g' b0 = 2)); auto|].
  { intros g' S' E'. split; [exact S'|]. rewrite E'. cbn [g_child g_refs]. rewrite Nat.eqb_refl. reflexivity. }
  intros u g1 ((S1 & R1) & B1).
  change (seq 1 (S n)) with (1 :: seq 2 n).
  apply (prog_ok_scope 1 (seq 2 n) g1 (fun g'' => settled g'' /\ g_refs g'' b0 = 0) [POp (hrun ops1 r0); POp (brun lops r0)]).
  - apply (seq_NoDup (S n) 1).
  - intros i Hi. change (1 :: seq 2 n) with (seq 1 (S n)) in Hi. apply in_seq in Hi. unfold bof. destruct i; [lia|reflexivity].
  - lia.
  - rewrite B1. reflexivity.
  - (* while the scope is open *)
    intros lent' r' HQ. cbn [app prog_ok].
    assert (Sh : settled (g_hide b0 g1)) by (intros b; apply S1).
    assert (Rh : g_refs (g_hide b0 g1) b0 = 1) by (unfold g_hide; cbn [g_refs]; unfold setf; rewrite Nat.eqb_refl; lia).
    assert (Bh : g_bor (g_hide b0 g1) b0 = true) by (unfold g_hide; cbn [g_bor]; unfold setf; rewrite Nat.eqb_refl; reflexivity).
    eapply okc_mono; [apply okc_bor; apply (ok_hrun b0 ops1 r0 (g_hide b0 g1) (fun _ g' => settled g' /\ g_refs g' b0 = 0)); auto|].
    + unfold r0. cbn [holds]. split; [lia|apply Sh].
    + unfold r0. cbn [nm]. rewrite Nat.eqb_refl. exact Rh.
    + intros u2 g2 ((S2 & R2) & B2). cbn [prog_ok].
      apply (ok_brun b0 l0 lops g2); [|exact S2|exact R2|].
      * cbn [borrows]. rewrite B2. split; [exact Bh|apply S2].
      * intros g3 S3 R3. apply HQ. split; assumption.
  - (* after the scope: the handle that was lent *)
    intros g'' (S'' & R''). cbn [prog_ok].
    assert (Su : settled (g_unhide b0 g'')) by (intros b; apply S'').
    assert (Ru : g_refs (g_unhide b0 g'') b0 = 1) by (unfold g_unhide; cbn [g_refs]; unfold setf; rewrite Nat.eqb_refl; lia).
    apply (ok_hrun b0); [unfold r0; cbn [holds]; split; [lia|apply Su]|exact Su| |].
    + unfold r0. cbn [nm]. rewrite Nat.eqb_refl. exact Ru.
    + intros g4 S4 R4. cbn [prog_ok]. split; [reflexivity|]. split; [exact R4|apply S4].
Qed.

Lemma nth_stc0 t : t < S (S n) ->
  nth t stc0 (dtc b0) = {| cur := Ret tt; rest := (if Nat.eqb t 0 then sprog0 else schild_prog t);
                           gh := (if Nat.eqb t 0 then g_child b0 1 else g_childb b0); lt := [] |}.
Proof.
  intros Ht. unfold stc0. destruct t as [|t]; [reflexivity|]. cbn [nth Nat.eqb].
  rewrite (nth_indep _ _ {| cur := Ret tt; rest := schild_prog 0; gh := g_childb b0; lt := [] |}) by (rewrite map_length, seq_length; lia).
  rewrite (map_nth (fun i => {| cur := Ret tt; rest := schild_prog i; gh := g_childb b0; lt := [] |}) (seq 1 (S n)) 0 t).
  rewrite seq_nth by lia. reflexivity.
Qed.

Theorem scoped_handles_typed : WT b0 kof bof scfg0.
Proof.
  split; cbn [ms tc scfg0].
  - apply inv_init.
  - unfold stc0, Mach.init. cbn [length ths]. rewrite map_length, seq_length, repeat_length. reflexivity.
  - intros t Ht Hst. unfold stc0 in Ht. cbn [length] in Ht. rewrite map_length, seq_length in Ht.
    unfold gettc. cbn [tc]. rewrite nth_stc0 by exact Ht. cbn [cur rest gh lt].
    pose proof (T_init (S n) t) as E. unfold T in E. rewrite E in Hst |- *.
    destruct t as [|t]; cbn [Nat.eqb] in *; [|cbn in Hst; discriminate].
    split; [|split; [cbn [okc]; exact sprog0_ok|cbn [g_child g_bor]; discriminate]].
    cbn. unfold agreeh. cbn. rewrite Nat.eqb_refl. repeat split; auto. discriminate.
  - intros t Ht Hst. unfold stc0 in Ht. cbn [length] in Ht. rewrite map_length, seq_length in Ht.
    unfold gettc. cbn [tc]. rewrite nth_stc0 by exact Ht. cbn [cur rest gh lt].
    pose proof (T_init (S n) t) as E. unfold T in E. rewrite E in Hst.
    destruct t as [|t]; cbn [Nat.eqb] in *; [cbn in Hst; discriminate|].
    split; [reflexivity|]. unfold g_init, bof. cbn [Nat.eqb negb]. split; [reflexivity|]. split; [reflexivity|]. split.
    + unfold schild_prog. cbn [prog_ok]. apply (ok_brun b0 l0).
      * cbn [borrows g_childb g_bor g_free]. rewrite Nat.eqb_refl. auto.
      * intros b. reflexivity.
      * reflexivity.
      * intros g' S' R'. cbn [prog_ok]. split; [reflexivity|]. split; [exact R'|apply S'].
    + pose proof (T_init (S n) (S t)) as E'. unfold T, getth in E'. unfold getth. rewrite E'. reflexivity.
  - intros u v. pose proof (T_init (S n) u) as E. unfold T in E. rewrite E. split.
    + destruct u; cbn; discriminate.
    + intros (Hv & Hin). unfold stc0 in Hv. cbn [length] in Hv. rewrite map_length, seq_length in Hv.
      unfold gettc in Hin. cbn [tc] in Hin. rewrite nth_stc0 in Hin by exact Hv. cbn [lt] in Hin. contradiction.
Qed.

Theorem scoped_handles_safe cf : csteps b0 scfg0 cf ->
  WT b0 kof bof cf /\ forall t a e, step (ms cf) t a <> Err e.
Proof.
  intros Hs. split; [exact (typed_steps b0 kof bof _ _ scoped_handles_typed Hs)|].
  intros t a e. exact (typed_safe b0 kof bof _ _ t a e scoped_handles_typed Hs).
Qed.
Theorem scoped_handles_released cf : csteps b0 scfg0 cf ->
  (forall t, t < length (tc cf) -> started (getth (ms cf) t) = true -> finished (gettc b0 cf t)) ->
  Mach.live (ms cf) = false.
Proof.
  intros Hs Hfin. apply (all_finished_released b0 kof bof cf); [|exact Hfin].
  exact (typed_steps b0 kof bof _ _ scoped_handles_typed Hs).
Qed.
End Scoped.
