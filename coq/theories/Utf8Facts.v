From Coq Require Import Lia List Bool.
From LS Require Import Base Utf8 Utf8Spec.
Open Scope N_scope.
(* Utf8Facts.v — facts about well-formed UTF-8 over byte lists. *)
From Coq Require Import PeanoNat ZifyBool ZifyN ZifyNat.

(* ---------- tactics ---------- *)
Ltac ub := unfold in_range, is_cont, is_scalar, width_of_lead in *.
Ltac cases_if :=
  repeat match goal with |- context[if ?c then _ else _] => destruct c eqn:? end.
Ltac blia := ub; cases_if; lia.

(* ---------- list helpers ---------- *)
Lemma firstn_app_exact : forall (A : Type) (a b : list A), firstn (length a) (a ++ b) = a.
Proof.
  intros A a b. rewrite firstn_app, Nat.sub_diag, firstn_all. cbn [firstn]. apply app_nil_r.
Qed.

Lemma skipn_app_exact : forall (A : Type) (a b : list A), skipn (length a) (a ++ b) = b.
Proof.
  intros A a b. rewrite skipn_app, Nat.sub_diag, skipn_all. reflexivity.
Qed.

Lemma last_app_nonnil : forall (A : Type) (l1 l2 : list A) (d : A),
  l2 <> [] -> last (l1 ++ l2) d = last l2 d.
Proof.
  intros A l1 l2 d Hne. induction l1 as [|x l1 IH].
  - reflexivity.
  - cbn [app last]. destruct (l1 ++ l2) eqn:E.
    + apply app_eq_nil in E. destruct E as [_ E]. contradiction.
    + exact IH.
Qed.

Lemma len_app : forall (A : Type) (a b : list A), len (a ++ b) = len a + len b.
Proof. intros A a b. unfold len. rewrite app_length. lia. Qed.

Lemma to_nat_len : forall (A : Type) (a : list A), N.to_nat (len a) = length a.
Proof. intros A a. unfold len. lia. Qed.

(* ---------- 1-4 : closure properties of Valid ---------- *)
Lemma valid_nil : Valid [].
Proof. exists []. split; [constructor | reflexivity]. Qed.

Lemma valid_app : forall a b, Valid a -> Valid b -> Valid (a ++ b).
Proof.
  intros a b [ca [Ha Ea]] [cb [Hb Eb]]. exists (ca ++ cb). split.
  - apply Forall_app. split; assumption.
  - subst a b. symmetry. apply concat_app.
Qed.

Lemma valid_char : forall c, char_ok c = true -> Valid c.
Proof.
  intros c Hc. exists [c]. split.
  - constructor; [exact Hc | constructor].
  - cbn [concat]. symmetry. apply app_nil_r.
Qed.

Lemma valid_concat : forall cs, Forall (fun c => char_ok c = true) cs -> Valid (concat cs).
Proof. intros cs Hcs. exists cs. split; [exact Hcs | reflexivity]. Qed.

(* ---------- 5-8 : shape of one char ---------- *)
Lemma char_ok_length : forall c, char_ok c = true -> (1 <= length c <= 4)%nat.
Proof.
  intros c Hc. destruct c as [|a [|b [|c [|d [|e r]]]]]; cbn [char_ok] in Hc; try discriminate Hc;
    cbn [length]; lia.
Qed.

Lemma char_ok_lead : forall c, char_ok c = true ->
  exists b rest, c = b :: rest /\ is_cont b = false /\ width_of_lead b = len c /\
                 Forall (fun x => is_cont x = true) rest.
Proof.
  intros c Hc. destruct c as [|a [|b [|c [|d [|e r]]]]]; cbn [char_ok] in Hc; try discriminate Hc.
  - exists a, []. split; [reflexivity|]. split; [blia|]. split; [|constructor].
    change (len [a]) with 1. blia.
  - exists a, [b]. split; [reflexivity|]. split; [blia|]. split.
    + change (len [a; b]) with 2. blia.
    + repeat constructor; blia.
  - exists a, [b; c]. split; [reflexivity|]. split; [blia|]. split.
    + change (len [a; b; c]) with 3. blia.
    + repeat constructor; blia.
  - exists a, [b; c; d]. split; [reflexivity|]. split; [blia|]. split.
    + change (len [a; b; c; d]) with 4. blia.
    + repeat constructor; blia.
Qed.

Lemma char_ok_bytes : forall c, char_ok c = true -> Forall (fun b => b <= 244) c.
Proof.
  intros c Hc. destruct c as [|a [|b [|c [|d [|e r]]]]]; cbn [char_ok] in Hc; try discriminate Hc;
    repeat constructor; blia.
Qed.

Lemma valid_bytes : forall t, Valid t -> Forall (fun b => b <= 244) t.
Proof.
  intros t [cs [Hcs Et]]. subst t. induction Hcs as [|c cs Hc Hcs IH].
  - constructor.
  - cbn [concat]. apply Forall_app. split; [apply char_ok_bytes; exact Hc | exact IH].
Qed.

Lemma char_ok_nonnil : forall c, char_ok c = true -> c <> [].
Proof. intros c Hc E. subst c. discriminate Hc. Qed.

(* a nonempty valid text has a first char *)
Lemma valid_uncons : forall t, Valid t -> t <> [] ->
  exists c r, t = c ++ r /\ char_ok c = true /\ Valid r.
Proof.
  intros t [cs [Hcs Et]] Hne. destruct Hcs as [|c cs Hc Hcs].
  - exfalso. apply Hne. exact Et.
  - exists c, (concat cs). split; [exact Et|]. split; [exact Hc|]. apply valid_concat. exact Hcs.
Qed.

(* a nonempty valid text has a last char *)
Lemma valid_unsnoc : forall t, Valid t -> t <> [] ->
  exists pre c, t = pre ++ c /\ char_ok c = true /\ Valid pre.
Proof.
  intros t [cs [Hcs Et]] Hne. destruct (exists_last (l := cs)) as [cs' [c Ecs]].
  - intro E. subst cs. apply Hne. exact Et.
  - subst cs. apply Forall_app in Hcs. destruct Hcs as [Hcs' Hc].
    exists (concat cs'), c. split.
    + subst t. rewrite concat_app. cbn [concat]. rewrite app_nil_r. reflexivity.
    + split; [inversion Hc; assumption | apply valid_concat; exact Hcs'].
Qed.

(* ---------- 13 ---------- *)
Lemma char_ok_last_lt_192 : forall c, char_ok c = true -> last c 0 < 192.
Proof.
  intros c Hc. destruct c as [|a [|b [|c [|d [|e r]]]]]; cbn [char_ok] in Hc; try discriminate Hc;
    cbn [last]; blia.
Qed.

Lemma valid_last_lt_192 : forall t, Valid t -> t <> [] -> last t 0 < 192.
Proof.
  intros t Hv Hne. destruct (valid_unsnoc t Hv Hne) as [pre [c [Et [Hc _]]]]. subst t.
  rewrite last_app_nonnil by (apply char_ok_nonnil; exact Hc).
  apply char_ok_last_lt_192. exact Hc.
Qed.

(* ---------- 14 ---------- *)
Lemma first_char_app : forall c r, char_ok c = true -> first_char (c ++ r) = c.
Proof.
  intros c r Hc. destruct (char_ok_lead c Hc) as [b [rest [Ec [_ [Hw _]]]]].
  unfold first_char. rewrite Ec at 1. cbn [app]. rewrite Hw, to_nat_len.
  apply firstn_app_exact.
Qed.

Lemma valid_first_char : forall t, Valid t -> t <> [] ->
  exists rest, t = first_char t ++ rest /\ char_ok (first_char t) = true /\ Valid rest.
Proof.
  intros t Hv Hne. destruct (valid_uncons t Hv Hne) as [c [r [Et [Hc Hr]]]]. subst t.
  rewrite first_char_app by exact Hc. exists r. split; [reflexivity|]. split; assumption.
Qed.

(* ---------- 15 ---------- *)
Lemma last_char_width_app : forall pre c, char_ok c = true -> last_char_width (pre ++ c) = len c.
Proof.
  intros pre c Hc. unfold last_char_width. rewrite rev_app_distr.
  destruct c as [|a [|b [|c [|d [|e r]]]]]; cbn [char_ok] in Hc; try discriminate Hc; cbn [rev app].
  - assert (Ha : is_cont a = false) by blia. rewrite Ha. reflexivity.
  - assert (Ha : is_cont a = false) by blia. assert (Hb : is_cont b = true) by blia.
    rewrite Ha, Hb. reflexivity.
  - assert (Ha : is_cont a = false) by blia. assert (Hb : is_cont b = true) by blia.
    assert (Hc' : is_cont c = true) by blia.
    rewrite Ha, Hb, Hc'. reflexivity.
  - assert (Ha : is_cont a = false) by blia. assert (Hb : is_cont b = true) by blia.
    assert (Hc' : is_cont c = true) by blia. assert (Hd : is_cont d = true) by blia.
    rewrite Hb, Hc', Hd. reflexivity.
Qed.

Lemma last_char_app : forall pre c, char_ok c = true -> last_char (pre ++ c) = c.
Proof.
  intros pre c Hc. unfold last_char. rewrite last_char_width_app by exact Hc.
  rewrite to_nat_len, app_length.
  replace (length pre + length c - length c)%nat with (length pre) by lia.
  apply skipn_app_exact.
Qed.

Lemma valid_last_char : forall t, Valid t -> t <> [] ->
  exists pre, t = pre ++ last_char t /\ char_ok (last_char t) = true /\ Valid pre.
Proof.
  intros t Hv Hne. destruct (valid_unsnoc t Hv Hne) as [pre [c [Et [Hc Hp]]]]. subst t.
  rewrite last_char_app by exact Hc. exists pre. split; [reflexivity|]. split; assumption.
Qed.

(* ---------- 16-18 : char boundaries ---------- *)
Lemma boundary_le_len : forall t i, is_char_boundary t i = true -> i <= len t.
Proof.
  intros t i H. unfold is_char_boundary in H.
  destruct (i =? 0) eqn:E0; [lia|]. destruct (len t <=? i) eqn:E1; lia.
Qed.

Lemma boundary_nat : forall t i, is_char_boundary t i = true ->
  (N.to_nat i = 0 \/ N.to_nat i = length t \/
   (N.to_nat i < length t /\ is_cont (nth (N.to_nat i) t 0%N) = false))%nat.
Proof.
  intros t i H. unfold is_char_boundary, nthN in H. unfold len in H.
  destruct (i =? 0) eqn:E0; [left; lia|].
  destruct (N.of_nat (length t) <=? i) eqn:E1; [right; left; lia|].
  right; right. split; [lia|]. destruct (is_cont (nth (N.to_nat i) t 0)); [discriminate H | reflexivity].
Qed.

(* inside a char (not at its start) every byte is a continuation byte *)
Lemma char_ok_inner_cont : forall c n, char_ok c = true -> (0 < n < length c)%nat ->
  is_cont (nth n c 0) = true.
Proof.
  intros c n Hc Hn. destruct (char_ok_lead c Hc) as [b [rest [Ec [_ [_ Hrest]]]]]. subst c.
  destruct n as [|n]; [lia|]. cbn [nth]. cbn [length] in Hn.
  rewrite Forall_forall in Hrest. apply Hrest. apply nth_In. lia.
Qed.

Lemma split_at_nat : forall cs n, Forall (fun c => char_ok c = true) cs ->
  (n = 0 \/ n = length (concat cs) \/
   (n < length (concat cs) /\ is_cont (nth n (concat cs) 0%N) = false))%nat ->
  Valid (firstn n (concat cs)) /\ Valid (skipn n (concat cs)).
Proof.
  intros cs n Hcs. revert n. induction Hcs as [|c cs Hc Hcs IH]; intros n Hn.
  - cbn [concat]. rewrite firstn_nil, skipn_nil. split; apply valid_nil.
  - cbn [concat] in *. destruct (Nat.eq_dec n 0) as [En|En].
    { subst n. cbn [firstn skipn]. split; [apply valid_nil|].
      apply valid_app; [apply valid_char; exact Hc | apply valid_concat; exact Hcs]. }
    destruct (Nat.lt_ge_cases n (length c)) as [Hlt|Hge].
    + exfalso. destruct Hn as [Hn|[Hn|[Hn1 Hn2]]].
      * contradiction.
      * rewrite app_length in Hn. lia.
      * rewrite app_nth1 in Hn2 by exact Hlt.
        rewrite char_ok_inner_cont in Hn2 by (try exact Hc; lia). discriminate Hn2.
    + rewrite firstn_app, skipn_app.
      rewrite firstn_all2 by exact Hge. rewrite skipn_all2 by exact Hge. cbn [app].
      destruct (IH (n - length c)%nat) as [IH1 IH2].
      { rewrite app_length in Hn. destruct Hn as [Hn|[Hn|[Hn1 Hn2]]].
        - contradiction.
        - right; left. lia.
        - right; right. split; [lia|]. rewrite app_nth2 in Hn2 by exact Hge. exact Hn2. }
      split; [|exact IH2]. apply valid_app; [apply valid_char; exact Hc | exact IH1].
Qed.

Lemma valid_split_boundary : forall t i, Valid t -> is_char_boundary t i = true ->
  Valid (firstn (N.to_nat i) t) /\ Valid (skipn (N.to_nat i) t).
Proof.
  intros t i [cs [Hcs Et]] Hb. subst t. apply split_at_nat; [exact Hcs|].
  apply boundary_nat. exact Hb.
Qed.

Lemma valid_head_not_cont : forall t, Valid t -> t <> [] -> is_cont (nth 0 t 0) = false.
Proof.
  intros t Hv Hne. destruct (valid_uncons t Hv Hne) as [c [r [Et [Hc _]]]]. subst t.
  destruct (char_ok_lead c Hc) as [b [rest [Ec [Hb _]]]]. subst c. cbn [app nth]. exact Hb.
Qed.

Lemma valid_boundary_seam : forall a b, Valid a -> Valid b -> is_char_boundary (a ++ b) (len a) = true.
Proof.
  intros a b Ha Hb. unfold is_char_boundary. rewrite len_app.
  destruct (len a =? 0) eqn:E0; [reflexivity|].
  destruct (len a + len b <=? len a) eqn:E1; [lia|].
  unfold nthN. rewrite to_nat_len. rewrite app_nth2 by lia. rewrite Nat.sub_diag.
  rewrite valid_head_not_cont; [reflexivity | exact Hb |].
  intro E. subst b. change (len (@nil N)) with 0 in E1. lia.
Qed.

(* ---------- 19-20 : chars_of ---------- *)
Lemma chars_fuel_concat : forall cs fuel, Forall (fun c => char_ok c = true) cs ->
  (length cs <= fuel)%nat -> chars_fuel fuel (concat cs) = cs.
Proof.
  intros cs fuel Hcs. revert fuel. induction Hcs as [|c cs Hc Hcs IH]; intros fuel Hf.
  - cbn [concat]. destruct fuel; reflexivity.
  - cbn [length] in Hf. destruct fuel as [|f]; [lia|].
    cbn [concat]. destruct (char_ok_lead c Hc) as [b [rest [Ec [_ [Hw _]]]]].
    subst c. cbn [app chars_fuel]. rewrite Hw, to_nat_len.
    change (b :: rest ++ concat cs) with ((b :: rest) ++ concat cs).
    rewrite firstn_app_exact, skipn_app_exact. rewrite IH by lia. reflexivity.
Qed.

Lemma concat_length_ge : forall cs, Forall (fun c => char_ok c = true) cs ->
  (length cs <= length (concat cs))%nat.
Proof.
  intros cs Hcs. induction Hcs as [|c cs Hc Hcs IH].
  - cbn. lia.
  - cbn [concat length]. rewrite app_length. pose proof (char_ok_length c Hc) as Hl. lia.
Qed.

Lemma chars_of_concat : forall cs, Forall (fun c => char_ok c = true) cs -> chars_of (concat cs) = cs.
Proof.
  intros cs Hcs. unfold chars_of. apply chars_fuel_concat; [exact Hcs|].
  apply concat_length_ge. exact Hcs.
Qed.

Lemma valid_chars_of : forall t, Valid t ->
  Forall (fun c => char_ok c = true) (chars_of t) /\ concat (chars_of t) = t.
Proof.
  intros t [cs [Hcs Et]]. subst t. rewrite chars_of_concat by exact Hcs.
  split; [exact Hcs | reflexivity].
Qed.

(* ---------- 22 ---------- *)
Lemma valid_ascii : forall t, Forall (fun b => b < 128) t -> Valid t.
Proof.
  intros t Ht. induction Ht as [|b t Hb Ht IH].
  - apply valid_nil.
  - change (b :: t) with ([b] ++ t). apply valid_app; [|exact IH].
    apply valid_char. cbn [char_ok]. lia.
Qed.

(* ---------- 9-12 : encode / decode round trips ---------- *)
Lemma mod_sub : forall a k m, m <> 0 -> k * m <= a < (k + 1) * m -> a mod m = a - k * m.
Proof.
  intros a k m Hm Ha. symmetry. apply N.mod_unique with (q := k); lia.
Qed.

Lemma decomp2 : forall c, c = (c / 64) * 64 + c mod 64 /\ c mod 64 < 64.
Proof.
  intros c. pose proof (N.div_mod c 64) as H. pose proof (N.mod_lt c 64) as H1. lia.
Qed.

Lemma decomp3 : forall c,
  c = (c / 4096) * 4096 + ((c / 64) mod 64) * 64 + c mod 64 /\ (c / 64) mod 64 < 64 /\ c mod 64 < 64.
Proof.
  intros c. pose proof (N.div_mod c 64) as H. pose proof (N.mod_lt c 64) as H1.
  pose proof (N.div_mod (c / 64) 64) as H2. pose proof (N.mod_lt (c / 64) 64) as H3.
  rewrite N.div_div in H2 by lia. change (64 * 64) with 4096 in H2. lia.
Qed.

Lemma decomp4 : forall c,
  c = (c / 262144) * 262144 + ((c / 4096) mod 64) * 4096 + ((c / 64) mod 64) * 64 + c mod 64 /\
  (c / 4096) mod 64 < 64 /\ (c / 64) mod 64 < 64 /\ c mod 64 < 64.
Proof.
  intros c. pose proof (N.div_mod c 64) as H. pose proof (N.mod_lt c 64) as H1.
  pose proof (N.div_mod (c / 64) 64) as H2. pose proof (N.mod_lt (c / 64) 64) as H3.
  rewrite N.div_div in H2 by lia. change (64 * 64) with 4096 in H2.
  pose proof (N.div_mod (c / 4096) 64) as H4. pose proof (N.mod_lt (c / 4096) 64) as H5.
  rewrite N.div_div in H4 by lia. change (4096 * 64) with 262144 in H4. lia.
Qed.

Lemma encode_cp_ok : forall c, is_scalar c = true -> char_ok (encode_cp c) = true.
Proof.
  intros c Hs. unfold encode_cp, is_scalar in *.
  destruct (c <? 128) eqn:E1; [cbn [char_ok]; exact E1|].
  destruct (c <? 2048) eqn:E2.
  { cbn [char_ok]. unfold in_range. destruct (decomp2 c) as [H Hr].
    revert H Hr. generalize (c / 64) (c mod 64). intros q r H Hr. lia. }
  destruct (c <? 65536) eqn:E3.
  { cbn [char_ok]. unfold in_range. destruct (decomp3 c) as [H [Hq Hr]].
    revert H Hq Hr. generalize (c / 4096) ((c / 64) mod 64) (c mod 64). intros q1 q2 r H Hq Hr. lia. }
  cbn [char_ok]. unfold in_range. destruct (decomp4 c) as [H [Hq2 [Hq3 Hr]]].
  revert H Hq2 Hq3 Hr. generalize (c / 262144) ((c / 4096) mod 64) ((c / 64) mod 64) (c mod 64).
  intros q1 q2 q3 r H Hq2 Hq3 Hr. lia.
Qed.

Lemma decode_encode : forall c, is_scalar c = true -> decode_cp (encode_cp c) = c.
Proof.
  intros c Hs. unfold encode_cp, is_scalar in *.
  destruct (c <? 128) eqn:E1; [reflexivity|].
  destruct (c <? 2048) eqn:E2.
  { cbn [decode_cp]. destruct (decomp2 c) as [H Hr].
    revert H Hr. generalize (c / 64) (c mod 64). intros q r H Hr.
    rewrite (mod_sub (192 + q) 6 32) by lia. rewrite (mod_sub (128 + r) 2 64) by lia. lia. }
  destruct (c <? 65536) eqn:E3.
  { cbn [decode_cp]. destruct (decomp3 c) as [H [Hq Hr]].
    revert H Hq Hr. generalize (c / 4096) ((c / 64) mod 64) (c mod 64). intros q1 q2 r H Hq Hr.
    rewrite (mod_sub (224 + q1) 14 16) by lia. rewrite (mod_sub (128 + q2) 2 64) by lia.
    rewrite (mod_sub (128 + r) 2 64) by lia. lia. }
  cbn [decode_cp]. destruct (decomp4 c) as [H [Hq2 [Hq3 Hr]]].
  revert H Hq2 Hq3 Hr. generalize (c / 262144) ((c / 4096) mod 64) ((c / 64) mod 64) (c mod 64).
  intros q1 q2 q3 r H Hq2 Hq3 Hr.
  rewrite (mod_sub (240 + q1) 30 8) by lia. rewrite (mod_sub (128 + q2) 2 64) by lia.
  rewrite (mod_sub (128 + q3) 2 64) by lia. rewrite (mod_sub (128 + r) 2 64) by lia. lia.
Qed.

Lemma digits2 : forall x y, y < 64 ->
  (x * 64 + y) / 64 = x /\ (x * 64 + y) mod 64 = y.
Proof.
  intros x y Hy. split; symmetry.
  - apply N.div_unique with (r := y); lia.
  - apply N.mod_unique with (q := x); lia.
Qed.

Lemma digits3 : forall x y z, y < 64 -> z < 64 ->
  (x * 4096 + y * 64 + z) / 4096 = x /\ ((x * 4096 + y * 64 + z) / 64) mod 64 = y /\
  (x * 4096 + y * 64 + z) mod 64 = z.
Proof.
  intros x y z Hy Hz. split; [|split]; symmetry.
  - apply N.div_unique with (r := y * 64 + z); lia.
  - replace ((x * 4096 + y * 64 + z) / 64) with (x * 64 + y)
      by (apply N.div_unique with (r := z); lia).
    apply N.mod_unique with (q := x); lia.
  - apply N.mod_unique with (q := x * 64 + y); lia.
Qed.

Lemma digits4 : forall x y z w, y < 64 -> z < 64 -> w < 64 ->
  (x * 262144 + y * 4096 + z * 64 + w) / 262144 = x /\
  ((x * 262144 + y * 4096 + z * 64 + w) / 4096) mod 64 = y /\
  ((x * 262144 + y * 4096 + z * 64 + w) / 64) mod 64 = z /\
  (x * 262144 + y * 4096 + z * 64 + w) mod 64 = w.
Proof.
  intros x y z w Hy Hz Hw. split; [|split; [|split]]; symmetry.
  - apply N.div_unique with (r := y * 4096 + z * 64 + w); lia.
  - replace ((x * 262144 + y * 4096 + z * 64 + w) / 4096) with (x * 64 + y)
      by (apply N.div_unique with (r := z * 64 + w); lia).
    apply N.mod_unique with (q := x); lia.
  - replace ((x * 262144 + y * 4096 + z * 64 + w) / 64) with (x * 4096 + y * 64 + z)
      by (apply N.div_unique with (r := w); lia).
    apply N.mod_unique with (q := x * 64 + y); lia.
  - apply N.mod_unique with (q := x * 4096 + y * 64 + z); lia.
Qed.

Lemma encode_decode : forall ch, char_ok ch = true -> encode_cp (decode_cp ch) = ch.
Proof.
  intros ch Hc. destruct ch as [|a [|b [|c [|d [|e r]]]]]; cbn [char_ok] in Hc; try discriminate Hc;
    cbn [decode_cp]; unfold in_range in Hc.
  - unfold encode_cp. rewrite Hc. reflexivity.
  - assert (Hlo : 192 <= a /\ 128 <= b) by lia.
    assert (Ha : a mod 32 = a - 192) by (apply (mod_sub a 6 32); lia).
    assert (Hb : b mod 64 = b - 128) by (apply (mod_sub b 2 64); lia).
    rewrite Ha, Hb. clear Ha Hb. unfold encode_cp.
    destruct (_ <? 128) eqn:E1; [lia|]. destruct (_ <? 2048) eqn:E2; [|lia].
    destruct (digits2 (a - 192) (b - 128)) as [H1 H2]; [lia|]. rewrite H1, H2.
    clear - Hlo. f_equal; [lia|f_equal; lia].
  - assert (Hlo : 224 <= a /\ 128 <= b /\ 128 <= c) by lia.
    assert (Ha : a mod 16 = a - 224) by (apply (mod_sub a 14 16); lia).
    assert (Hb : b mod 64 = b - 128) by (apply (mod_sub b 2 64); lia).
    assert (Hc' : c mod 64 = c - 128) by (apply (mod_sub c 2 64); lia).
    rewrite Ha, Hb, Hc'. clear Ha Hb Hc'. unfold encode_cp.
    destruct (_ <? 128) eqn:E1; [lia|]. destruct (_ <? 2048) eqn:E2; [lia|].
    destruct (_ <? 65536) eqn:E3; [|lia].
    destruct (digits3 (a - 224) (b - 128) (c - 128)) as [H1 [H2 H3]]; [lia|lia|]. rewrite H1, H2, H3.
    clear - Hlo. f_equal; [lia|f_equal; [lia|f_equal; lia]].
  - assert (Hlo : 240 <= a /\ 128 <= b /\ 128 <= c /\ 128 <= d) by lia.
    assert (Ha : a mod 8 = a - 240) by (apply (mod_sub a 30 8); lia).
    assert (Hb : b mod 64 = b - 128) by (apply (mod_sub b 2 64); lia).
    assert (Hc' : c mod 64 = c - 128) by (apply (mod_sub c 2 64); lia).
    assert (Hd : d mod 64 = d - 128) by (apply (mod_sub d 2 64); lia).
    rewrite Ha, Hb, Hc', Hd. clear Ha Hb Hc' Hd. unfold encode_cp.
    destruct (_ <? 128) eqn:E1; [lia|]. destruct (_ <? 2048) eqn:E2; [lia|].
    destruct (_ <? 65536) eqn:E3; [lia|].
    destruct (digits4 (a - 240) (b - 128) (c - 128) (d - 128)) as [H1 [H2 [H3 H4]]]; [lia|lia|lia|].
    rewrite H1, H2, H3, H4.
    clear - Hlo. f_equal; [lia|f_equal; [lia|f_equal; [lia|f_equal; lia]]].
Qed.

Lemma decode_scalar : forall ch, char_ok ch = true -> is_scalar (decode_cp ch) = true.
Proof.
  intros ch Hc. destruct ch as [|a [|b [|c [|d [|e r]]]]]; cbn [char_ok] in Hc; try discriminate Hc;
    cbn [decode_cp]; unfold in_range in Hc; unfold is_scalar.
  - lia.
  - assert (Ha : a mod 32 = a - 192) by (apply (mod_sub a 6 32); lia).
    assert (Hb : b mod 64 = b - 128) by (apply (mod_sub b 2 64); lia).
    rewrite Ha, Hb. lia.
  - assert (Ha : a mod 16 = a - 224) by (apply (mod_sub a 14 16); lia).
    assert (Hb : b mod 64 = b - 128) by (apply (mod_sub b 2 64); lia).
    assert (Hc' : c mod 64 = c - 128) by (apply (mod_sub c 2 64); lia).
    rewrite Ha, Hb, Hc'. lia.
  - assert (Ha : a mod 8 = a - 240) by (apply (mod_sub a 30 8); lia).
    assert (Hb : b mod 64 = b - 128) by (apply (mod_sub b 2 64); lia).
    assert (Hc' : c mod 64 = c - 128) by (apply (mod_sub c 2 64); lia).
    assert (Hd : d mod 64 = d - 128) by (apply (mod_sub d 2 64); lia).
    rewrite Ha, Hb, Hc', Hd. lia.
Qed.

(* ---------- 21 : the boolean automaton decides Valid ---------- *)
Ltac split_andb :=
  repeat match goal with
  | H : _ && _ = true |- _ => apply andb_true_iff in H; destruct H
  end.

(* soundness: for any fuel, acceptance implies validity *)
Lemma utf8_valid_fuel_sound : forall f t, utf8_valid_fuel f t = true -> Valid t.
Proof.
  induction f as [|f IH]; intros t H.
  - destruct t; [apply valid_nil | discriminate H].
  - destruct t as [|a r]; [apply valid_nil|]. cbn [utf8_valid_fuel] in H.
    destruct (a <? 128) eqn:E1.
    { change (a :: r) with ([a] ++ r). apply valid_app; [apply valid_char; exact E1 | apply IH; exact H]. }
    destruct (in_range 194 223 a) eqn:E2.
    { destruct r as [|b r']; [discriminate H|]. split_andb.
      change (a :: b :: r') with ([a; b] ++ r'). apply valid_app; [apply valid_char | apply IH; assumption].
      cbn [char_ok]. unfold in_range in *. lia. }
    assert (H3 : match r with
                 | b :: c :: r' => char_ok [a; b; c] && utf8_valid_fuel f r'
                 | _ => false end = true \/
                 match r with
                 | b :: c :: d :: r' => char_ok [a; b; c; d] && utf8_valid_fuel f r'
                 | _ => false end = true).
    { destruct (a =? 224) eqn:E3.
      { left. destruct r as [|b [|c r']]; try discriminate H. split_andb.
        apply andb_true_iff. split; [|assumption]. cbn [char_ok]. unfold in_range in *. lia. }
      destruct (in_range 225 236 a || in_range 238 239 a) eqn:E4.
      { left. destruct r as [|b [|c r']]; try discriminate H. split_andb.
        apply andb_true_iff. split; [|assumption]. cbn [char_ok]. unfold in_range in *. lia. }
      destruct (a =? 237) eqn:E5.
      { left. destruct r as [|b [|c r']]; try discriminate H. split_andb.
        apply andb_true_iff. split; [|assumption]. cbn [char_ok]. unfold in_range in *. lia. }
      destruct (a =? 240) eqn:E6.
      { right. destruct r as [|b [|c [|d r']]]; try discriminate H. split_andb.
        apply andb_true_iff. split; [|assumption]. cbn [char_ok]. unfold in_range in *. lia. }
      destruct (in_range 241 243 a) eqn:E7.
      { right. destruct r as [|b [|c [|d r']]]; try discriminate H. split_andb.
        apply andb_true_iff. split; [|assumption]. cbn [char_ok]. unfold in_range in *. lia. }
      destruct (a =? 244) eqn:E8; [|discriminate H].
      { right. destruct r as [|b [|c [|d r']]]; try discriminate H. split_andb.
        apply andb_true_iff. split; [|assumption]. cbn [char_ok]. unfold in_range in *. lia. } }
    destruct H3 as [H3|H3].
    + destruct r as [|b [|c r']]; try discriminate H3. split_andb.
      change (a :: b :: c :: r') with ([a; b; c] ++ r').
      apply valid_app; [apply valid_char; assumption | apply IH; assumption].
    + destruct r as [|b [|c [|d r']]]; try discriminate H3. split_andb.
      change (a :: b :: c :: d :: r') with ([a; b; c; d] ++ r').
      apply valid_app; [apply valid_char; assumption | apply IH; assumption].
Qed.

(* completeness: one step *)
Lemma utf8_valid_fuel_step : forall f c r, char_ok c = true ->
  utf8_valid_fuel f r = true -> utf8_valid_fuel (S f) (c ++ r) = true.
Proof.
  intros f c r Hc Hr.
  destruct c as [|a [|b [|c [|d [|e r0]]]]]; cbn [char_ok] in Hc; try discriminate Hc;
    cbn [app utf8_valid_fuel]; rewrite Hr; unfold in_range in *.
  - rewrite Hc. reflexivity.
  - cases_if; lia.
  - cases_if; lia.
  - cases_if; lia.
Qed.

Lemma utf8_valid_fuel_complete : forall cs f, Forall (fun c => char_ok c = true) cs ->
  (length cs <= f)%nat -> utf8_valid_fuel f (concat cs) = true.
Proof.
  intros cs f Hcs. revert f. induction Hcs as [|c cs Hc Hcs IH]; intros f Hf.
  - cbn [concat]. destruct f; reflexivity.
  - cbn [length] in Hf. destruct f as [|f]; [lia|]. cbn [concat].
    apply utf8_valid_fuel_step; [exact Hc | apply IH; lia].
Qed.

Theorem utf8_valid_iff : forall t, utf8_valid t = true <-> Valid t.
Proof.
  intros t. split.
  - apply utf8_valid_fuel_sound.
  - intros [cs [Hcs Et]]. subst t. unfold utf8_valid.
    apply utf8_valid_fuel_complete; [exact Hcs | apply concat_length_ge; exact Hcs].
Qed.

Print Assumptions utf8_valid_iff.
Print Assumptions valid_split_boundary.
Print Assumptions encode_decode.
Print Assumptions valid_chars_of.
