(* ListFacts.v — facts about upd / write_range / slice / move_range / len. *)
From Coq Require Import Lia Arith.
From LS Require Import Base.
Open Scope N_scope.

Lemma len_app {A} (a b : list A) : len (a ++ b) = len a + len b.
Proof. unfold len. rewrite app_length. lia. Qed.
Lemma len_nil {A} : len (@nil A) = 0. Proof. reflexivity. Qed.
Lemma len_cons {A} (x : A) l : len (x :: l) = len l + 1.
Proof. unfold len. cbn [length]. lia. Qed.
Lemma len_repeat {A} (x : A) n : len (repeat x n) = N.of_nat n.
Proof. unfold len. rewrite repeat_length. reflexivity. Qed.
Lemma len_firstn {A} (l : list A) n : len (firstn n l) = N.min (N.of_nat n) (len l).
Proof. unfold len. rewrite firstn_length. lia. Qed.
Lemma len_skipn {A} (l : list A) n : len (skipn n l) = len l - N.of_nat n.
Proof. unfold len. rewrite skipn_length. lia. Qed.
Lemma len_to_nat {A} (l : list A) : N.to_nat (len l) = length l.
Proof. unfold len. lia. Qed.
Lemma len_zero_nil {A} (l : list A) : len l = 0 -> l = [].
Proof. unfold len. destruct l; cbn [length]; [auto|lia]. Qed.

Lemma nth_error_upd_eq {A} (l : list A) n x : (n < length l)%nat -> nth_error (upd l n x) n = Some x.
Proof. revert n; induction l as [|y l IH]; intros [|n] H; cbn in *; try lia; auto. apply IH; lia. Qed.
Lemma nth_error_upd_ne {A} (l : list A) n m x : m <> n -> nth_error (upd l n x) m = nth_error l m.
Proof. revert n m; induction l as [|y l IH]; intros [|n] [|m] H; cbn; try lia; auto. Qed.
Lemma upd_length {A} (l : list A) n x : length (upd l n x) = length l.
Proof. revert n; induction l; destruct n; cbn; auto. Qed.
Lemma upd_app_l {A} (l l' : list A) n x : (n < length l)%nat -> upd (l ++ l') n x = upd l n x ++ l'.
Proof. revert n; induction l as [|y l IH]; intros [|n] H; cbn in *; try lia; auto. f_equal. apply IH. lia. Qed.
Lemma upd_app_r {A} (l : list A) y x : upd (l ++ [y]) (length l) x = l ++ [x].
Proof. induction l; cbn; auto. f_equal. auto. Qed.
Lemma upd_oob {A} (l : list A) n x : (length l <= n)%nat -> upd l n x = l.
Proof. revert n; induction l as [|y l IH]; intros [|n] H; cbn in *; try lia; auto. f_equal. apply IH. lia. Qed.
Lemma nth_error_lt {A} (l : list A) n x : nth_error l n = Some x -> (n < length l)%nat.
Proof. intros H. apply nth_error_Some. congruence. Qed.
Lemma lookup_last {A} (l : list A) y : nth_error (l ++ [y]) (length l) = Some y.
Proof. rewrite nth_error_app2 by lia. rewrite Nat.sub_diag. reflexivity. Qed.
Lemma nth_error_app_l {A} (l l' : list A) n x : nth_error l n = Some x -> nth_error (l ++ l') n = Some x.
Proof. intros H. rewrite nth_error_app1; [exact H|]. eapply nth_error_lt; eauto. Qed.
Lemma firstn_upd_ge {A} (l : list A) n k x : (n <= k)%nat -> firstn n (upd l k x) = firstn n l.
Proof.
  revert n k; induction l as [|y l IH]; intros [|n] [|k] H; cbn; try lia; auto. f_equal. apply IH. lia.
Qed.
Lemma upd_eq_app {A} (pre : list A) y post x : upd (pre ++ y :: post) (length pre) x = pre ++ x :: post.
Proof. induction pre; cbn; auto. f_equal. auto. Qed.

(* write_range *)
Lemma write_range_length {A} (d : list A) off bs :
  (off + length bs <= length d)%nat -> length (write_range d off bs) = length d.
Proof. intros H. unfold write_range. rewrite !app_length, firstn_length, skipn_length. lia. Qed.
Lemma write_range_prefix {A} (d : list A) off bs :
  (off <= length d)%nat -> firstn (off + length bs) (write_range d off bs) = firstn off d ++ bs.
Proof.
  intros H. unfold write_range. rewrite app_assoc.
  rewrite firstn_app. rewrite app_length, firstn_length.
  replace (off + length bs - (Nat.min off (length d) + length bs))%nat with 0%nat by lia.
  cbn [firstn]. rewrite app_nil_r. rewrite firstn_all2; [reflexivity|]. rewrite app_length, firstn_length. lia.
Qed.
Lemma write_range_firstn_before {A} (d : list A) off bs n :
  (n <= off)%nat -> (off <= length d)%nat -> firstn n (write_range d off bs) = firstn n d.
Proof.
  intros H1 H2. unfold write_range. rewrite firstn_app, firstn_firstn, firstn_length.
  replace (Nat.min n off) with n by lia. replace (n - Nat.min off (length d))%nat with 0%nat by lia.
  cbn [firstn]. apply app_nil_r.
Qed.
Lemma write_range_all {A} (d bs : list A) : length bs = length d -> write_range d 0 bs = bs.
Proof.
  intros H. unfold write_range. cbn [firstn Nat.add app]. rewrite skipn_all2 by lia. apply app_nil_r.
Qed.
Lemma write_range_zero_prefix {A} (d bs : list A) :
  (length bs <= length d)%nat -> write_range d 0 bs = bs ++ skipn (length bs) d.
Proof. reflexivity. Qed.

Lemma slice_length {A} (d : list A) off n : (off + n <= length d)%nat -> length (slice d off n) = n.
Proof. intros H. unfold slice. rewrite firstn_length, skipn_length. lia. Qed.
Lemma slice_0 {A} (d : list A) n : slice d 0 n = firstn n d.
Proof. reflexivity. Qed.
Lemma firstn_slice_split {A} (d : list A) i l :
  (i <= l)%nat -> firstn l d = firstn i d ++ slice d i (l - i).
Proof.
  intros H. unfold slice. rewrite <- (firstn_skipn i (firstn l d)) at 1.
  rewrite firstn_firstn. replace (Nat.min i l) with i by lia. f_equal.
  rewrite skipn_firstn_comm. reflexivity.
Qed.

(* insert: move the tail right, then write the new bytes into the gap *)
Lemma insert_bytes {A} (d : list A) l idx (s : list A) :
  (idx <= l)%nat -> (l + length s <= length d)%nat ->
  firstn (l + length s) (write_range (move_range d idx (idx + length s) (l - idx)) idx s)
  = firstn idx d ++ s ++ slice d idx (l - idx).
Proof.
  intros H1 H2. unfold move_range.
  set (tl := slice d idx (l - idx)).
  assert (Htl : length tl = (l - idx)%nat) by (apply slice_length; lia).
  set (d1 := write_range d (idx + length s) tl).
  assert (Hd1 : length d1 = length d) by (apply write_range_length; lia).
  assert (E1 : firstn (idx + length s + length tl) d1 = firstn (idx + length s) d ++ tl) by (apply write_range_prefix; lia).
  unfold write_range at 1.
  replace (l + length s)%nat with (idx + (length s + (l - idx)))%nat by lia.
  assert (Hf : length (firstn idx d1) = idx) by (rewrite firstn_length; lia).
  rewrite firstn_app, Hf. rewrite firstn_all2 by lia.
  replace (idx + (length s + (l - idx)) - idx)%nat with (length s + (l - idx))%nat by lia.
  rewrite firstn_app. rewrite (@firstn_all2 _ (length s + (l - idx)) s) by lia.
  replace (length s + (l - idx) - length s)%nat with (l - idx)%nat by lia.
  f_equal.
  - unfold d1. apply write_range_firstn_before; lia.
  - f_equal.
    (* the moved tail sits at idx + |s| *)
    assert (E2 : skipn (idx + length s) (firstn (idx + length s + length tl) d1) = tl).
    { rewrite E1. rewrite skipn_app. rewrite skipn_all2 by (rewrite firstn_length; lia).
      rewrite firstn_length. replace (idx + length s - Nat.min (idx + length s) (length d))%nat with 0%nat by lia.
      reflexivity. }
    rewrite skipn_firstn_comm in E2.
    replace (idx + length s + length tl - (idx + length s))%nat with (l - idx)%nat in E2 by lia. exact E2.
Qed.

(* remove: move the tail left over the removed bytes *)
Lemma remove_bytes {A} (d : list A) l idx w :
  (idx + w <= l)%nat -> (l <= length d)%nat ->
  firstn (l - w) (move_range d (idx + w) idx (l - idx - w)) = firstn idx d ++ slice d (idx + w) (l - idx - w).
Proof.
  intros H1 H2. unfold move_range.
  set (tl := slice d (idx + w) (l - idx - w)).
  assert (Htl : length tl = (l - idx - w)%nat) by (apply slice_length; lia).
  replace (l - w)%nat with (idx + length tl)%nat by lia.
  apply write_range_prefix. lia.
Qed.
Lemma move_range_length {A} (d : list A) src dst n :
  (src + n <= length d)%nat -> (dst + n <= length d)%nat -> length (move_range d src dst n) = length d.
Proof. intros H1 H2. unfold move_range. apply write_range_length. rewrite slice_length; lia. Qed.
Lemma skipn_repeat {A} (x : A) n m : skipn n (repeat x m) = repeat x (m - n).
Proof.
  revert m; induction n as [|n IH]; intros [|m]; cbn; auto. 
Qed.
Lemma upd_upd {A} (l : list A) n x y : upd (upd l n x) n y = upd l n y.
Proof. revert n; induction l as [|z l IH]; intros [|n]; cbn; auto. f_equal. apply IH. Qed.
Lemma skipn_add {A} (l : list A) a b : skipn (a + b) l = skipn b (skipn a l).
Proof. revert l; induction a as [|a IH]; intros [|x l]; cbn [skipn Nat.add]; auto. destruct b; reflexivity. Qed.
