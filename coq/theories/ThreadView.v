(* ThreadView.v — one thread among others: what its own operations read back.
   [Cmd.run] interprets the atomics of a command tree against a memory whose counts are THIS world's references; what
   the references held outside this world (by other threads) add to a count is supplied, read by read, by the oracle
   [ext] of the memory.  Compose.typed_values_ge_own shows that this is the only way other well-typed threads are visible
   to a thread: every count it reads is its own number of references plus a non-negative rest, nobody writes, moves or
   frees a buffer it holds a reference to (C04_no_interference_while_held), and fresh allocations are private.
   All the sequential theorems (exec_sound, the function specifications) are proved for an arbitrary [ext]; here the
   consequence for histories is stated on its own, with examples in which the rest is never zero. *)
From Coq Require Import Lia Arith ZArith List Bool.
From LS Require Import Base Utf8 Utf8Spec Utf8Facts Cmd Impl NumModel Num Exec Inv Specs WF Spec Refine Main.
Import ListNotations.
Open Scope N_scope.

(* whatever the other threads contribute to the counts this thread reads, in whatever order: from any well-formed world
   of the thread (its handles, among them handles to buffers shared with other threads), every history of its
   operations stays well-formed, reaches nothing undefined, and — unless an allocation failure is reported — reads back
   and returns exactly what Spec (String) does *)
Theorem thread_results_sequential w0 ops :
  gen_ok -> WF w0 -> Forall (op_wf (statics (wmem w0))) ops ->
  let '(w, outs) := execs w0 ops in
  WF w /\ Forall (fun o => forall u, o <> UbOut u) outs
  /\ (forallb (fun o => negb (alloc_failure o)) outs = true ->
      (abs w, outs) = spec_execs (statics (wmem w0)) (abs w0) ops).
Proof.
  intros Hg HW Hwf. pose proof (execs_sound_from w0 ops Hg HW Hwf) as H.
  destruct (execs w0 ops) as [w outs]. destruct H as (H1 & _ & H3 & H4). auto.
Qed.

(* the sequential theorems are the special case of a quiet world *)
Lemma world0_quiet st orc : quiet (wmem (world0 st orc)).
Proof. intros k. reflexivity. Qed.

(* the oracle is never consulted by anything but the value of an atomic read: a world and its memory differ from the
   quiet run only where a count was read.  In a world in which a foreign reference is ALWAYS visible, the uniqueness
   test never succeeds: every mutation of a heap string copies, and dropping the last local handle does not free *)
Definition busy : N -> N := fun _ => 1.

Definition t20 : list N := [97;98;99;100;101;102;103;104;105;106;107;108;109;110;111;112;113;114;115;116].
Definition view_ops : list op :=
  [OFromStr Plain t20; OClone 0%nat; OPush Plain 1%nat 33; ODrop 0%nat; OPush Plain 1%nat 63;
   OTruncate Plain 1%nat 3; OReserve Plain 1%nat 100; OShrinkTo Plain 1%nat 0; OClear 1%nat; OPush Plain 1%nat 65; ODrop 1%nat].

Example view_example_busy :
  (* same texts and results as String, with a foreign reference visible at every atomic read *)
  snd (execs (world0x [] (fun _ _ => false) busy) view_ops) = snd (spec_execs [] [] view_ops)
  /\ abs (fst (execs (world0x [] (fun _ _ => false) busy) view_ops)) = fst (spec_execs [] [] view_ops)
  (* and the allocator traffic differs from the quiet run: the second push copies although this world holds the only
     local handle (4 requests instead of 3) *)
  /\ nreq (wmem (fst (execs (world0x [] (fun _ _ => false) busy) view_ops))) = 4
  /\ nreq (wmem (fst (execs (world0 [] (fun _ _ => false)) view_ops))) = 3.
Proof. vm_compute. repeat split; reflexivity. Qed.

(* a rest that comes and goes (foreign clones and drops between this thread's events) *)
Definition flicker : N -> N := fun k => if N.even k then 0 else 2.
Example view_example_flicker :
  snd (execs (world0x [] (fun _ _ => false) flicker) view_ops) = snd (spec_execs [] [] view_ops)
  /\ abs (fst (execs (world0x [] (fun _ _ => false) flicker) view_ops)) = fst (spec_execs [] [] view_ops).
Proof. vm_compute. repeat split; reflexivity. Qed.

(* ---------- every stream of values the machine can deliver is an oracle ----------
   [runv] is [run] with the values of the atomic reads supplied from outside: the k-th event of the log, if it is an atomic
   read of the count, returns [av k] (what the protocol machine handed to the thread; clamped from below by the world's
   own count, which by Compose.typed_values_ge_own changes nothing: such a value is never below the thread's own number
   of references).  [runv_is_run]: for every such stream there is
   an oracle under which [run] performs exactly the same execution — so the quantification over all oracles in
   [thread_results_sequential] covers every value stream other threads can produce. *)
Definition with_ext (m : mem) (ex : N -> N) : mem :=
  {| heap := heap m; statics := statics m; orc := orc m; nreq := nreq m; log := log m; ext := ex |}.

Fixpoint runv {R} (c : cmd R) (av : N -> N) (m : mem) : out R * mem :=
  match c with
  | Rmw b add o k =>
      match nth_error (heap m) b with
      | None => (OUb UNoBuf, m)
      | Some x => if negb (live x) then (OUb UUseAfterFree, m) else
          let v := N.max (av (len (log m))) (count x) in
          let e := v - count x in
          runv (k v) av (set_buf m b {| live := rmw_live add (count x) e; asize := asize x;
                                        count := if add then count x + 1 else count x - 1;
                                        cap := cap x; data := data x |} (ERmw b add o v))
      end
  | Load b o k =>
      match nth_error (heap m) b with
      | None => (OUb UNoBuf, m)
      | Some x => if negb (live x) then (OUb UUseAfterFree, m) else
          let v := N.max (av (len (log m))) (count x) in runv (k v) av (logm m (ELoad b o v))
      end
  | Ret r => (OVal r, m)
  | Unreachable => (OUb UUnreachable, m)
  | Alloc n k =>
      if orc m (nreq m) n then
        runv (k None) av {| heap := heap m; statics := statics m; orc := orc m; nreq := nreq m + 1;
                            log := EAlloc n None :: log m; ext := ext m |}
      else
        let b := length (heap m) in
        runv (k (Some b)) av
            {| heap := heap m ++ [ {| live := true; asize := n; count := 0; cap := 0;
                                      data := repeat POISON (N.to_nat (n - HDR)) |} ];
               statics := statics m; orc := orc m; nreq := nreq m + 1; log := EAlloc n (Some b) :: log m; ext := ext m |}
  | Realloc b old new k =>
      match nth_error (heap m) b with
      | None => (OUb UNoBuf, m)
      | Some x =>
          if negb (live x) then (OUb UUseAfterFree, m) else
          if negb (old =? asize x) then (OUb UBadSize, m) else
          if orc m (nreq m) new then
            runv (k false) av {| heap := heap m; statics := statics m; orc := orc m; nreq := nreq m + 1;
                                 log := ERealloc b old new false :: log m; ext := ext m |}
          else
            let n' := N.to_nat (new - HDR) in
            let d' := firstn n' (data x) ++ repeat POISON (n' - length (data x)) in
            runv (k true) av {| heap := upd (heap m) b {| live := true; asize := new; count := count x; cap := cap x; data := d' |};
                                statics := statics m; orc := orc m; nreq := nreq m + 1;
                                log := ERealloc b old new true :: log m; ext := ext m |}
      end
  | Dealloc b n k =>
      match nth_error (heap m) b with
      | None => (OUb UNoBuf, m)
      | Some x =>
          if negb (live x) then (OUb UDoubleFree, m) else
          if negb (n =? asize x) then (OUb UBadSize, m) else
          runv k av (set_buf m b {| live := false; asize := asize x; count := count x; cap := cap x; data := data x |}
                             (EDealloc b n))
      end
  | HdrInit b c k =>
      match nth_error (heap m) b with
      | None => (OUb UNoBuf, m)
      | Some x => if negb (live x) then (OUb UUseAfterFree, m) else
          runv k av (set_buf m b {| live := true; asize := asize x; count := 1; cap := c; data := data x |} (EHdrInit b c))
      end
  | HdrCap b k =>
      match nth_error (heap m) b with
      | None => (OUb UNoBuf, m)
      | Some x => if negb (live x) then (OUb UUseAfterFree, m) else runv (k (cap x)) av m
      end
  | Fence o k => runv k av (logm m (EFence o))
  | Read (PHeap b) off n k =>
      match nth_error (heap m) b with
      | None => (OUb UNoBuf, m)
      | Some x => if negb (live x) then (OUb UUseAfterFree, m) else
          if negb (in_bounds off n (data x)) then (OUb UOob, m) else
          runv (k (slice (data x) (N.to_nat off) (N.to_nat n))) av (logm m (ERead (PHeap b) off n))
      end
  | Read (PStatic s) off n k =>
      match nth_error (statics m) s with
      | None => (OUb UNoBuf, m)
      | Some t => if negb (in_bounds off n t) then (OUb UOob, m) else
                  runv (k (slice t (N.to_nat off) (N.to_nat n))) av (logm m (ERead (PStatic s) off n))
      end
  | Write (PHeap b) off bs k =>
      match nth_error (heap m) b with
      | None => (OUb UNoBuf, m)
      | Some x => if negb (live x) then (OUb UUseAfterFree, m) else
          if negb (in_bounds off (len bs) (data x)) then (OUb UOob, m) else
          runv k av (set_buf m b {| live := true; asize := asize x; count := count x; cap := cap x;
                                    data := write_range (data x) (N.to_nat off) bs |} (EWrite (PHeap b) off (len bs)))
      end
  | Write (PStatic _) _ _ _ => (OUb UStaticWrite, m)
  | Move (PHeap b) src dst n k =>
      match nth_error (heap m) b with
      | None => (OUb UNoBuf, m)
      | Some x => if negb (live x) then (OUb UUseAfterFree, m) else
          if negb (in_bounds src n (data x) && in_bounds dst n (data x)) then (OUb UOob, m) else
          runv k av (set_buf m b {| live := true; asize := asize x; count := count x; cap := cap x;
                                    data := move_range (data x) (N.to_nat src) (N.to_nat dst) (N.to_nat n) |}
                             (EMove (PHeap b) src dst n))
      end
  | Move (PStatic _) _ _ _ _ => (OUb UStaticWrite, m)
  end.

Lemma len_cons {A} (a : A) l : len (a :: l) = len l + 1.
Proof. unfold len. cbn [length]. lia. Qed.

(* the statement carries its own irrelevance clause: [run] never consults the oracle below the current log length *)
Definition realises {R} (c : cmd R) (av : N -> N) (m : mem) (ex : N -> N) : Prop :=
  forall ex0, (forall j, len (log m) <= j -> ex0 j = ex j) ->
    run c (with_ext m ex0) = (let (o, m') := runv c av m in (o, with_ext m' ex0)).

Theorem runv_is_run {R} (c : cmd R) : forall av m, exists ex, realises c av m ex.
Proof.
  induction c as [r| |n k IH|b o n k IH|b n k IH|b c k IH|b k IH|b a o k IH|b o k IH|o k IH|p off n k IH|p off bs k IH|p s d n k IH];
    intros av m; unfold realises.
  - exists (fun _ => 0). intros ex0 _. reflexivity.
  - exists (fun _ => 0). intros ex0 _. reflexivity.
  - (* alloc *)
    cbn [run runv with_ext orc nreq heap statics log ext].
    destruct (orc m (nreq m) n) eqn:Eo.
    + destruct (IH None av {| heap := heap m; statics := statics m; orc := orc m; nreq := nreq m + 1; log := EAlloc n None :: log m; ext := ext m |}) as (ex & Hex).
      exists ex. intros ex0 H0. cbn [run with_ext orc nreq heap statics log ext]. rewrite ?Eo.
      apply (Hex ex0). intros j Hj. apply H0. cbn [log] in Hj. rewrite len_cons in Hj. lia.
    + destruct (IH (Some (length (heap m))) av
                   {| heap := heap m ++ [ {| live := true; asize := n; count := 0; cap := 0; data := repeat POISON (N.to_nat (n - HDR)) |} ];
                      statics := statics m; orc := orc m; nreq := nreq m + 1; log := EAlloc n (Some (length (heap m))) :: log m; ext := ext m |}) as (ex & Hex).
      exists ex. intros ex0 H0. cbn [run with_ext orc nreq heap statics log ext]. rewrite ?Eo.
      apply (Hex ex0). intros j Hj. apply H0. cbn [log] in Hj. rewrite len_cons in Hj. lia.
  - (* realloc *)
    cbn [run runv with_ext heap].
    destruct (nth_error (heap m) b) as [x|] eqn:Eb; [|exists (fun _ => 0); intros ex0 _; cbn [run with_ext heap]; rewrite ?Eb; reflexivity].
    destruct (negb (live x)) eqn:El; [exists (fun _ => 0); intros ex0 _; cbn [run with_ext heap]; rewrite ?Eb, ?El; reflexivity|].
    destruct (negb (o =? asize x)) eqn:Es; [exists (fun _ => 0); intros ex0 _; cbn [run with_ext heap]; rewrite ?Eb, ?El, ?Es; reflexivity|].
    cbn [orc nreq]. destruct (orc m (nreq m) n) eqn:Eo.
    + destruct (IH false av {| heap := heap m; statics := statics m; orc := orc m; nreq := nreq m + 1; log := ERealloc b o n false :: log m; ext := ext m |}) as (ex & Hex).
      exists ex. intros ex0 H0. cbn [run with_ext orc nreq heap statics log ext]. rewrite ?Eb, ?El, ?Es, ?Eo.
      apply (Hex ex0). intros j Hj. apply H0. cbn [log] in Hj. rewrite len_cons in Hj. lia.
    + destruct (IH true av {| heap := upd (heap m) b {| live := true; asize := n; count := count x; cap := cap x;
                                                         data := firstn (N.to_nat (n - HDR)) (data x) ++ repeat POISON (N.to_nat (n - HDR) - length (data x)) |};
                              statics := statics m; orc := orc m; nreq := nreq m + 1; log := ERealloc b o n true :: log m; ext := ext m |}) as (ex & Hex).
      exists ex. intros ex0 H0. cbn [run with_ext orc nreq heap statics log ext]. rewrite ?Eb, ?El, ?Es, ?Eo.
      apply (Hex ex0). intros j Hj. apply H0. cbn [log] in Hj. rewrite len_cons in Hj. lia.
  - (* dealloc *)
    cbn [run runv with_ext heap].
    destruct (nth_error (heap m) b) as [x|] eqn:Eb; [|exists (fun _ => 0); intros ex0 _; cbn [run with_ext heap]; rewrite ?Eb; reflexivity].
    destruct (negb (live x)) eqn:El; [exists (fun _ => 0); intros ex0 _; cbn [run with_ext heap]; rewrite ?Eb, ?El; reflexivity|].
    destruct (negb (n =? asize x)) eqn:Es; [exists (fun _ => 0); intros ex0 _; cbn [run with_ext heap]; rewrite ?Eb, ?El, ?Es; reflexivity|].
    destruct (IH av (set_buf m b {| live := false; asize := asize x; count := count x; cap := cap x; data := data x |} (EDealloc b n))) as (ex & Hex).
    exists ex. intros ex0 H0. cbn [run with_ext heap]. rewrite ?Eb, ?El, ?Es.
    apply (Hex ex0). intros j Hj. apply H0. cbn [set_buf log] in Hj. rewrite len_cons in Hj. lia.
  - (* hdr init *)
    cbn [run runv with_ext heap].
    destruct (nth_error (heap m) b) as [x|] eqn:Eb; [|exists (fun _ => 0); intros ex0 _; cbn [run with_ext heap]; rewrite ?Eb; reflexivity].
    destruct (negb (live x)) eqn:El; [exists (fun _ => 0); intros ex0 _; cbn [run with_ext heap]; rewrite ?Eb, ?El; reflexivity|].
    destruct (IH av (set_buf m b {| live := true; asize := asize x; count := 1; cap := c; data := data x |} (EHdrInit b c))) as (ex & Hex).
    exists ex. intros ex0 H0. cbn [run with_ext heap]. rewrite ?Eb, ?El.
    apply (Hex ex0). intros j Hj. apply H0. cbn [set_buf log] in Hj. rewrite len_cons in Hj. lia.
  - (* hdr cap *)
    cbn [run runv with_ext heap].
    destruct (nth_error (heap m) b) as [x|] eqn:Eb; [|exists (fun _ => 0); intros ex0 _; cbn [run with_ext heap]; rewrite ?Eb; reflexivity].
    destruct (negb (live x)) eqn:El; [exists (fun _ => 0); intros ex0 _; cbn [run with_ext heap]; rewrite ?Eb, ?El; reflexivity|].
    destruct (IH (cap x) av m) as (ex & Hex).
    exists ex. intros ex0 H0. cbn [run with_ext heap]. rewrite ?Eb, ?El. apply (Hex ex0). exact H0.
  - (* rmw *)
    cbn [run runv with_ext heap].
    destruct (nth_error (heap m) b) as [x|] eqn:Eb; [|exists (fun _ => 0); intros ex0 _; cbn [run with_ext heap]; rewrite ?Eb; reflexivity].
    destruct (negb (live x)) eqn:El; [exists (fun _ => 0); intros ex0 _; cbn [run with_ext heap]; rewrite ?Eb, ?El; reflexivity|].
    set (i := len (log m)). set (v := N.max (av i) (count x)). set (e := v - count x).
    destruct (IH v av (set_buf m b {| live := rmw_live a (count x) e; asize := asize x;
                                      count := if a then count x + 1 else count x - 1; cap := cap x; data := data x |} (ERmw b a o v))) as (ex1 & Hex).
    exists (fun j => if j =? i then e else ex1 j). intros ex0 H0. cbn [run with_ext heap]. rewrite ?Eb, ?El.
    unfold ext_now. cbn [ext log with_ext]. fold i.
    assert (Ei : ex0 i = e) by (rewrite (H0 i) by (unfold i; lia); rewrite N.eqb_refl; reflexivity).
    rewrite ?Ei. replace (count x + e) with v by (unfold e, v; lia).
    apply (Hex ex0). intros j Hj. cbn [set_buf log] in Hj. rewrite len_cons in Hj. fold i in Hj.
    rewrite (H0 j) by (unfold i in *; lia). destruct (N.eqb_spec j i); [lia|reflexivity].
  - (* load *)
    cbn [run runv with_ext heap].
    destruct (nth_error (heap m) b) as [x|] eqn:Eb; [|exists (fun _ => 0); intros ex0 _; cbn [run with_ext heap]; rewrite ?Eb; reflexivity].
    destruct (negb (live x)) eqn:El; [exists (fun _ => 0); intros ex0 _; cbn [run with_ext heap]; rewrite ?Eb, ?El; reflexivity|].
    set (i := len (log m)). set (v := N.max (av i) (count x)). set (e := v - count x).
    destruct (IH v av (logm m (ELoad b o v))) as (ex1 & Hex).
    exists (fun j => if j =? i then e else ex1 j). intros ex0 H0. cbn [run with_ext heap]. rewrite ?Eb, ?El.
    unfold ext_now. cbn [ext log with_ext]. fold i.
    assert (Ei : ex0 i = e) by (rewrite (H0 i) by (unfold i; lia); rewrite N.eqb_refl; reflexivity).
    rewrite ?Ei. replace (count x + e) with v by (unfold e, v; lia).
    apply (Hex ex0). intros j Hj. cbn [logm log] in Hj. rewrite len_cons in Hj. fold i in Hj.
    rewrite (H0 j) by (unfold i in *; lia). destruct (N.eqb_spec j i); [lia|reflexivity].
  - (* fence *)
    destruct (IH av (logm m (EFence o))) as (ex & Hex).
    exists ex. intros ex0 H0. cbn [run runv]. apply (Hex ex0). intros j Hj. apply H0. cbn [logm log] in Hj. rewrite len_cons in Hj. lia.
  - (* read *)
    destruct p as [b|sid]; cbn [run runv with_ext heap statics].
    + destruct (nth_error (heap m) b) as [x|] eqn:Eb; [|exists (fun _ => 0); intros ex0 _; cbn [run with_ext heap]; rewrite ?Eb; reflexivity].
      destruct (negb (live x)) eqn:El; [exists (fun _ => 0); intros ex0 _; cbn [run with_ext heap]; rewrite ?Eb, ?El; reflexivity|].
      destruct (negb (in_bounds off n (data x))) eqn:Ei; [exists (fun _ => 0); intros ex0 _; cbn [run with_ext heap]; rewrite ?Eb, ?El, ?Ei; reflexivity|].
      destruct (IH (slice (data x) (N.to_nat off) (N.to_nat n)) av (logm m (ERead (PHeap b) off n))) as (ex & Hex).
      exists ex. intros ex0 H0. cbn [run with_ext heap]. rewrite ?Eb, ?El, ?Ei.
      apply (Hex ex0). intros j Hj. apply H0. cbn [logm log] in Hj. rewrite len_cons in Hj. lia.
    + destruct (nth_error (statics m) sid) as [t|] eqn:Es; [|exists (fun _ => 0); intros ex0 _; cbn [run with_ext statics]; rewrite ?Es; reflexivity].
      destruct (negb (in_bounds off n t)) eqn:Ei; [exists (fun _ => 0); intros ex0 _; cbn [run with_ext statics]; rewrite ?Es, ?Ei; reflexivity|].
      destruct (IH (slice t (N.to_nat off) (N.to_nat n)) av (logm m (ERead (PStatic sid) off n))) as (ex & Hex).
      exists ex. intros ex0 H0. cbn [run with_ext statics]. rewrite ?Es, ?Ei.
      apply (Hex ex0). intros j Hj. apply H0. cbn [logm log] in Hj. rewrite len_cons in Hj. lia.
  - (* write *)
    destruct p as [b|sid]; cbn [run runv with_ext heap]; [|exists (fun _ => 0); intros ex0 _; reflexivity].
    destruct (nth_error (heap m) b) as [x|] eqn:Eb; [|exists (fun _ => 0); intros ex0 _; cbn [run with_ext heap]; rewrite ?Eb; reflexivity].
    destruct (negb (live x)) eqn:El; [exists (fun _ => 0); intros ex0 _; cbn [run with_ext heap]; rewrite ?Eb, ?El; reflexivity|].
    destruct (negb (in_bounds off (len bs) (data x))) eqn:Ei; [exists (fun _ => 0); intros ex0 _; cbn [run with_ext heap]; rewrite ?Eb, ?El, ?Ei; reflexivity|].
    destruct (IH av (set_buf m b {| live := true; asize := asize x; count := count x; cap := cap x;
                                    data := write_range (data x) (N.to_nat off) bs |} (EWrite (PHeap b) off (len bs)))) as (ex & Hex).
    exists ex. intros ex0 H0. cbn [run with_ext heap]. rewrite ?Eb, ?El, ?Ei.
    apply (Hex ex0). intros j Hj. apply H0. cbn [set_buf log] in Hj. rewrite len_cons in Hj. lia.
  - (* move *)
    destruct p as [b|sid]; cbn [run runv with_ext heap]; [|exists (fun _ => 0); intros ex0 _; reflexivity].
    destruct (nth_error (heap m) b) as [x|] eqn:Eb; [|exists (fun _ => 0); intros ex0 _; cbn [run with_ext heap]; rewrite ?Eb; reflexivity].
    destruct (negb (live x)) eqn:El; [exists (fun _ => 0); intros ex0 _; cbn [run with_ext heap]; rewrite ?Eb, ?El; reflexivity|].
    destruct (negb (in_bounds s n (data x) && in_bounds d n (data x))) eqn:Ei; [exists (fun _ => 0); intros ex0 _; cbn [run with_ext heap]; rewrite ?Eb, ?El, ?Ei; reflexivity|].
    destruct (IH av (set_buf m b {| live := true; asize := asize x; count := count x; cap := cap x;
                                    data := move_range (data x) (N.to_nat s) (N.to_nat d) (N.to_nat n) |} (EMove (PHeap b) s d n))) as (ex & Hex).
    exists ex. intros ex0 H0. cbn [run with_ext heap]. rewrite ?Eb, ?El, ?Ei.
    apply (Hex ex0). intros j Hj. apply H0. cbn [set_buf log] in Hj. rewrite len_cons in Hj. lia.
Qed.

(* the corollary in the form used: for every value stream there is an oracle under which [run] is that execution *)
Corollary every_value_stream_is_an_oracle {R} (c : cmd R) av m :
  exists ex, run c (with_ext m ex) = (let (o, m') := runv c av m in (o, with_ext m' ex)).
Proof. destruct (runv_is_run c av m) as (ex & H). exists ex. apply H. intros j _. reflexivity. Qed.
