(* ThreadView.v — one thread among others: what its own operations read back.
   [Cmd.run] interprets the atomics of a command tree against a memory whose counts are THIS world's references; what
   the references held outside this world (by other threads) add to a count is supplied, read by read, by the oracle
   [ext] of the memory.  Compose.typed_values_ge_own shows that this is the only way other well-typed threads are visible
   to a thread: every count it reads is its own number of references plus a non-negative rest, nobody writes, moves or
   frees a buffer it holds a reference to (C04_no_interference_while_held), and fresh allocations are private.
   All the sequential theorems (exec_sound, the function specifications) are proved for an arbitrary [ext]; here the
   consequence for histories is stated on its own, with examples in which the rest is never zero. *)
From Coq Require Import Lia Arith ZArith List Bool.
From LS Require Import Base Utf8 Utf8Spec Utf8Facts Cmd Impl NumModel Num Exec Inv Specs WF Spec Refine Main.
Import ListNotations.
Open Scope N_scope.

(* whatever the other threads contribute to the counts this thread reads, in whatever order: from any well-formed world
   of the thread (its handles, among them handles to buffers shared with other threads), every history of its
   operations stays well-formed, reaches nothing undefined, and — unless an allocation failure is reported — reads back
   and returns exactly what Spec (String) does *)
Theorem thread_results_sequential w0 ops :
  gen_ok -> WF w0 -> Forall (op_wf (statics (wmem w0))) ops ->
  let '(w, outs) := execs w0 ops in
  WF w /\ Forall (fun o => forall u, o <> UbOut u) outs
  /\ (forallb (fun o => negb (alloc_failure o)) outs = true ->
      (abs w, outs) = spec_execs (statics (wmem w0)) (abs w0) ops).
Proof.
  intros Hg HW Hwf. pose proof (execs_sound_from w0 ops Hg HW Hwf) as H.
  destruct (execs w0 ops) as [w outs]. destruct H as (H1 & _ & H3 & H4). auto.
Qed.

(* the sequential theorems are the special case of a quiet world *)
Lemma world0_quiet st orc : quiet (wmem (world0 st orc)).
Proof. intros k. reflexivity. Qed.

(* the oracle is never consulted by anything but the value of an atomic read: a world and its memory differ from the
   quiet run only where a count was read.  In a world in which a foreign reference is ALWAYS visible, the uniqueness
   test never succeeds: every mutation of a heap string copies, and dropping the last local handle does not free *)
Definition busy : N -> N := fun _ => 1.

Definition t20 : list N := [97;98;99;100;101;102;103;104;105;106;107;108;109;110;111;112;113;114;115;116].
Definition view_ops : list op :=
  [OFromStr Plain t20; OClone 0%nat; OPush Plain 1%nat 33; ODrop 0%nat; OPush Plain 1%nat 63;
   OTruncate Plain 1%nat 3; OReserve Plain 1%nat 100; OShrinkTo Plain 1%nat 0; OClear 1%nat; OPush Plain 1%nat 65; ODrop 1%nat].

Example view_example_busy :
  (* same texts and results as String, with a foreign reference visible at every atomic read *)
  snd (execs (world0x [] (fun _ _ => false) busy) view_ops) = snd (spec_execs [] [] view_ops)
  /\ abs (fst (execs (world0x [] (fun _ _ => false) busy) view_ops)) = fst (spec_execs [] [] view_ops)
  (* and the allocator traffic differs from the quiet run: the second push copies although this world holds the only
     local handle (4 requests instead of 3) *)
  /\ nreq (wmem (fst (execs (world0x [] (fun _ _ => false) busy) view_ops))) = 4
  /\ nreq (wmem (fst (execs (world0 [] (fun _ _ => false)) view_ops))) = 3.
Proof. vm_compute. repeat split; reflexivity. Qed.

(* a rest that comes and goes (foreign clones and drops between this thread's events) *)
Definition flicker : N -> N := fun k => if N.even k then 0 else 2.
Example view_example_flicker :
  snd (execs (world0x [] (fun _ _ => false) flicker) view_ops) = snd (spec_execs [] [] view_ops)
  /\ abs (fst (execs (world0x [] (fun _ _ => false) flicker) view_ops)) = fst (spec_execs [] [] view_ops).
Proof. vm_compute. repeat split; reflexivity. Qed.
