(* Sched.v — an executable scheduler for the interleaving semantics of Compose.v (non-vacuity: concrete executions of
   typed programs exist, run to completion and release the buffer exactly once).  run_sched is sound for csteps. *)
From Coq Require Import Lia Arith List Bool NArith.
From LSConc Require Import Clock Mach Inv Top StepSpec.
From LS Require Import Base Utf8 Cmd Impl Proto ProtoOps Compose Programs.
Import ListNotations.
Local Open Scope nat_scope.

Section Sched.
Variable b0 : bufid.

Definition mstep (s : st) (t : nat) (a : act) : option st := match step s t a with Ok s' => Some s' | _ => None end.
Definition rstep (s : st) (t : nat) : option st :=
  match mstep s t ARead with
  | Some s' => Some s'
  | None => match mstep s t AReadM with Some s' => Some s' | None => mstep s t AReadB end
  end.
(* an increment: through an own handle, else through the borrowed one *)
Definition istep (s : st) (t : nat) : option st :=
  match mstep s t AClone with Some s' => Some s' | None => mstep s t ACloneB end.

(* one event of thread t; [p]: which message a load reads; [fresh]: the id the allocator hands out (None = refuses);
   values read from other buffers are [vo] *)
Definition estep_fun (t : nat) (s : st) (c : cmd unit) (g : ghost) (p : nat) (fresh : option bufid) (vo : N)
  : option (st * cmd unit * ghost) :=
  match c with
  | Ret _ | Unreachable => None
  | Alloc n k =>
      match fresh with
      | None => Some (s, k None, g)
      | Some b => if negb (Nat.eqb b b0) && Nat.eqb (g_refs g b) 0 && negb (g_excl g b) && negb (g_free g b)
                  then Some (s, k (Some b), g_alloc g b) else None
      end
  | Realloc b o n k =>
      if Nat.eqb b b0 then match mstep s t AWrite with Some s' => Some (s', k true, g) | None => None end
      else Some (s, k true, g)
  | Dealloc b n k =>
      if Nat.eqb b b0 then match mstep s t AFree with Some s' => Some (s', k, g_dealloc g b0) | None => None end
      else Some (s, k, g_dealloc g b)
  | HdrInit b c0 k =>
      if Nat.eqb b b0 then match mstep s t AWrite with Some s' => Some (s', k, g) | None => None end
      else Some (s, k, g)
  | HdrCap b k =>
      if Nat.eqb b b0 then match rstep s t with Some s' => Some (s', k vo, g) | None => None end
      else Some (s, k vo, g)
  | Rmw b true o k =>
      if Nat.eqb b b0 then match istep s t with Some s' => Some (s', k (N.of_nat (val (hdm s))), g_inc g b0) | None => None end
      else Some (s, k vo, g_inc g b)
  | Rmw b false o k =>
      if Nat.eqb b b0 then
        match mstep s t ARelease with
        | Some s' => Some (s', k (N.of_nat (val (hdm s))), g_dec g b0 (N.of_nat (val (hdm s))))
        | None => None end
      else Some (s, k vo, g_dec g b vo)
  | Load b o k =>
      if Nat.eqb b b0 then
        match nth_error (msgs s) p, mstep s t (AProbe p) with
        | Some m, Some s' => Some (s', k (N.of_nat (val m)), g_load g b0 (N.of_nat (val m)))
        | _, _ => None end
      else Some (s, k vo, g_load g b vo)
  | Fence o k =>
      if acq o then match mstep s t AFence with Some s' => Some (s', k, g_fence g o) | None => None end
      else Some (s, k, g_fence g o)
  | Read (PStatic sid) off n k => Some (s, k [], g)
  | Read (PHeap b) off n k =>
      if Nat.eqb b b0 then match rstep s t with Some s' => Some (s', k [], g) | None => None end
      else Some (s, k [], g)
  | Write (PHeap b) off bs k =>
      if Nat.eqb b b0 then match mstep s t AWrite with Some s' => Some (s', k, g) | None => None end
      else Some (s, k, g)
  | Write (PStatic _) _ _ _ => None
  | Move (PHeap b) x y n k =>
      if Nat.eqb b b0 then match mstep s t AWrite with Some s' => Some (s', k, g) | None => None end
      else Some (s, k, g)
  | Move (PStatic _) _ _ _ _ => None
  end.

Lemma mstep_some s t a s' : mstep s t a = Some s' -> step s t a = Ok s'.
Proof. unfold mstep. destruct (step s t a); congruence. Qed.
Lemma rstep_some s t s' : rstep s t = Some s' -> read_step s t s'.
Proof.
  unfold rstep, read_step. destruct (mstep s t ARead) eqn:E.
  - intros [= <-]. left. apply mstep_some. exact E.
  - destruct (mstep s t AReadM) eqn:E2.
    + intros [= <-]. right. left. apply mstep_some. exact E2.
    + intros E'. right. right. apply mstep_some. exact E'.
Qed.

Ltac eqb_case b :=
  destruct (Nat.eqb_spec b b0) as [->|?].

Lemma estep_fun_sound t s c g p fresh vo s' c' g' :
  estep_fun t s c g p fresh vo = Some (s', c', g') -> estep b0 t s c g s' c' g'.
Proof.
  destruct c as [r| |n k|b o n k|b n k|b c0 k|b k|b a o k|b o k|o k|q off n k|q off bs k|q x y n k]; cbn [estep_fun]; try discriminate.
  - destruct fresh as [b|]; [|intros [= <- <- <-]; constructor].
    destruct (Nat.eqb_spec b b0) as [->|Hne]; cbn [negb andb]; [discriminate|].
    destruct (Nat.eqb_spec (g_refs g b) 0) as [Hr|]; cbn [andb]; [|discriminate].
    destruct (g_excl g b) eqn:He; cbn [negb andb]; [discriminate|].
    destruct (g_free g b) eqn:Hf; cbn [negb]; [discriminate|]. intros [= <- <- <-]. constructor; auto.
  - eqb_case b.
    + destruct (mstep s t AWrite) eqn:E; [|discriminate]. intros [= <- <- <-]. constructor. apply mstep_some; auto.
    + intros [= <- <- <-]. constructor; auto.
  - eqb_case b.
    + destruct (mstep s t AFree) eqn:E; [|discriminate]. intros [= <- <- <-]. constructor. apply mstep_some; auto.
    + intros [= <- <- <-]. constructor; auto.
  - eqb_case b.
    + destruct (mstep s t AWrite) eqn:E; [|discriminate]. intros [= <- <- <-]. constructor. apply mstep_some; auto.
    + intros [= <- <- <-]. constructor; auto.
  - eqb_case b.
    + destruct (rstep s t) eqn:E; [|discriminate]. intros [= <- <- <-]. constructor. apply rstep_some; auto.
    + intros [= <- <- <-]. constructor; auto.
  - destruct a; eqb_case b.
    + unfold istep. destruct (mstep s t AClone) eqn:E.
      * intros [= <- <- <-]. apply S_inc. apply mstep_some; auto.
      * destruct (mstep s t ACloneB) eqn:E2; [|discriminate]. intros [= <- <- <-]. apply S_inc_b. apply mstep_some; auto.
    + intros [= <- <- <-]. constructor; auto.
    + destruct (mstep s t ARelease) eqn:E; [|discriminate]. intros [= <- <- <-]. constructor. apply mstep_some; auto.
    + intros [= <- <- <-]. constructor; auto.
  - eqb_case b.
    + destruct (nth_error (msgs s) p) as [m|] eqn:Em; [|discriminate].
      destruct (mstep s t (AProbe p)) eqn:E; [|discriminate]. intros [= <- <- <-]. econstructor; eauto. apply mstep_some; auto.
    + intros [= <- <- <-]. constructor; auto.
  - destruct (acq o) eqn:Ha.
    + destruct (mstep s t AFence) eqn:E; [|discriminate]. intros [= <- <- <-]. apply S_fence_acq; [exact Ha|]. apply mstep_some; auto.
    + intros [= <- <- <-]. apply S_fence_no. exact Ha.
  - destruct q as [b|sid]; [|intros [= <- <- <-]; constructor]. eqb_case b.
    + destruct (rstep s t) eqn:E; [|discriminate]. intros [= <- <- <-]. constructor. apply rstep_some; auto.
    + intros [= <- <- <-]. constructor; auto.
  - destruct q as [b|sid]; [|discriminate]. eqb_case b.
    + destruct (mstep s t AWrite) eqn:E; [|discriminate]. intros [= <- <- <-]. constructor. apply mstep_some; auto.
    + intros [= <- <- <-]. constructor; auto.
  - destruct q as [b|sid]; [|discriminate]. eqb_case b.
    + destruct (mstep s t AWrite) eqn:E; [|discriminate]. intros [= <- <- <-]. constructor. apply mstep_some; auto.
    + intros [= <- <- <-]. constructor; auto.
Qed.

(* one scheduling decision: thread t moves (if it can), with the given nondeterministic choices *)
Record choice := { who : nat; probe : nat; fresh_id : option bufid }.

Definition cstep_fun (cf : cfg) (ch : choice) : option cfg :=
  let t := who ch in
  if negb (Nat.ltb t (length (tc cf))) then None else
  if negb (started (getth (ms cf) t)) then None else
  let x := gettc b0 cf t in
  match cur x with
  | Ret _ =>
      match rest x with
      | [] => None
      | POp c :: r => Some {| ms := ms cf; tc := upd (tc cf) t {| cur := c; rest := r; gh := gh x; lt := lt x |} |}
      | PSpawn c k :: r =>
          match mstep (ms cf) t (ASpawn c k) with
          | Some s' => Some {| ms := s'; tc := upd (tc cf) t {| cur := Ret tt; rest := r; gh := g_give b0 (gh x) k; lt := lt x |} |}
          | None => None end
      | PJoin c :: r =>
          match mstep (ms cf) t (AJoin c) with
          | Some s' => Some {| ms := s'; tc := upd (tc cf) t {| cur := Ret tt; rest := r; gh := gh x; lt := lt x |} |}
          | None => None end
      | PLend c :: r =>
          match mstep (ms cf) t (ALend c) with
          | Some s' => Some {| ms := s'; tc := upd (tc cf) t {| cur := Ret tt; rest := r; gh := g_lendout b0 (lt x) (gh x); lt := c :: lt x |} |}
          | None => None end
      | PJoinB c :: r =>
          match cur (gettc b0 cf c), rest (gettc b0 cf c), mstep (ms cf) t (AJoinB c) with
          | Ret tt, [], Some s' =>
              Some {| ms := s'; tc := upd (tc cf) t {| cur := Ret tt; rest := r; gh := g_joinb b0 (List.remove Nat.eq_dec c (lt x)) (gh x);
                                                     lt := List.remove Nat.eq_dec c (lt x) |} |}
          | _, _, _ => None end
      end
  | c =>
      match estep_fun t (ms cf) c (gh x) (probe ch) (fresh_id ch) 2%N with
      | Some (s', c', g') => Some {| ms := s'; tc := upd (tc cf) t {| cur := c'; rest := rest x; gh := g'; lt := lt x |} |}
      | None => None
      end
  end.

Lemma cstep_fun_sound cf ch cf' : cstep_fun cf ch = Some cf' -> cstep b0 cf cf'.
Proof.
  unfold cstep_fun. destruct (Nat.ltb_spec (who ch) (length (tc cf))) as [Ht|]; cbn [negb]; [|discriminate].
  destruct (started (getth (ms cf) (who ch))) eqn:Hst; cbn [negb]; [|discriminate].
  assert (Hev : forall c, cur (gettc b0 cf (who ch)) = c ->
     match estep_fun (who ch) (ms cf) c (gh (gettc b0 cf (who ch))) (probe ch) (fresh_id ch) 2%N with
     | Some (s', c', g') => Some {| ms := s'; tc := upd (tc cf) (who ch) {| cur := c'; rest := rest (gettc b0 cf (who ch)); gh := g'; lt := lt (gettc b0 cf (who ch)) |} |}
     | None => None end = Some cf' -> cstep b0 cf cf').
  { intros c Ec. destruct (estep_fun _ _ _ _ _ _ _) as [[[s' c'] g']|] eqn:E; [|discriminate]. intros [= <-].
    apply C_event; auto. rewrite Ec. apply estep_fun_sound in E. exact E. }
  destruct (cur (gettc b0 cf (who ch))) as [[]| | | | | | | | | | | | ] eqn:Ec; try (apply Hev; reflexivity).
  destruct (rest (gettc b0 cf (who ch))) as [|[c|c k|c|c|c] r] eqn:Er; [discriminate| | | | |].
  - intros [= <-]. eapply C_next; eauto.
  - destruct (mstep _ _ _) as [s0|] eqn:E; [|discriminate]. intros [= <-]. apply (C_spawn b0 cf (who ch) c k r s0); auto. apply mstep_some; auto.
  - destruct (mstep _ _ _) as [s0|] eqn:E; [|discriminate]. intros [= <-]. apply (C_join b0 cf (who ch) c r s0); auto. apply mstep_some; auto.
  - destruct (mstep _ _ _) as [s0|] eqn:E; [|discriminate]. intros [= <-]. apply (C_lend b0 cf (who ch) c r s0); auto. apply mstep_some; auto.
  - destruct (cur (gettc b0 cf c)) as [[]| | | | | | | | | | | | ] eqn:Ecc; try discriminate.
    destruct (rest (gettc b0 cf c)) eqn:Erc; [|discriminate].
    destruct (mstep _ _ _) as [s0|] eqn:E; [|discriminate]. intros [= <-].
    apply (C_joinb b0 cf (who ch) c r s0); auto; [split; assumption|apply mstep_some; auto].
Qed.

(* a schedule: decisions that are not enabled are skipped *)
Fixpoint run_sched (cf : cfg) (l : list choice) : cfg :=
  match l with
  | [] => cf
  | ch :: l' => match cstep_fun cf ch with Some cf' => run_sched cf' l' | None => run_sched cf l' end
  end.

Theorem run_sched_sound l : forall cf, csteps b0 cf (run_sched cf l).
Proof.
  induction l as [|ch l IH]; intros cf; cbn [run_sched]; [constructor|].
  destruct (cstep_fun cf ch) as [cf'|] eqn:E; [|apply IH].
  eapply cs_step; [apply (cstep_fun_sound cf ch cf' E)|apply IH].
Qed.
End Sched.
