(* SpecsRetain.v — specification of Repr::retain as a weakest-precondition rule. *)
From Coq Require Import Lia Arith.
From LS Require Import Base Utf8 Utf8Spec Utf8Facts Cmd Impl Wp ListFacts Growth Inv InlineFacts Exec Specs Specs2.
From LSGen Require Import GenSrc.
Open Scope N_scope.

(* what std's String::retain leaves: the kept chars, and whether the predicate ran to completion *)
Fixpoint retain_spec (chars : list (list N)) (k : nat) (pred : nat -> option bool) : list (list N) * bool :=
  match chars with
  | [] => ([], true)
  | ch :: rest =>
      match pred k with
      | None => ([], false)
      | Some true => let (kept, c) := retain_spec rest (S k) pred in (ch :: kept, c)
      | Some false => retain_spec rest (S k) pred
      end
  end.
Definition retain_text (T : list N) (pred : nat -> option bool) : list N := concat (fst (retain_spec (chars_of T) 0 pred)).
Definition retain_done (T : list N) (pred : nat -> option bool) : bool := snd (retain_spec (chars_of T) 0 pred).

Record retain_post (m : mem) (own : bufid -> N) (r : repr) (pred : nat -> option bool)
       (m' : mem) (r' : repr) (res : res unit) : Prop := {
  rt_step : step_ok m own r m' r';
  rt_done : res <> RErr ->
            text_of m' r' = retain_text (text_of m r) pred
            /\ res = (if retain_done (text_of m r) pred then ROk tt else RPanic PUser);
  rt_fail : res = RErr -> r' = r /\ heap m' = heap m;
  rt_excl : xcl m r ->
            res <> RErr /\ nreq m' = nreq m /\ (forall b, names r' b = names r b) /\ is_heap r' = is_heap r;
}.

(* ---------- the kept chars are a sub-list of the chars ---------- *)
Lemma retain_spec_Forall (P : list N -> Prop) pred cs : forall k,
  Forall P cs -> Forall P (fst (retain_spec cs k pred)).
Proof.
  induction cs as [|ch rest IH]; intros k H; cbn [retain_spec].
  - cbn [fst]. constructor.
  - inversion H as [|ch0 rest0 Hch Hrest]; subst ch0 rest0.
    destruct (pred k) as [[|]|].
    + specialize (IH (S k) Hrest). destruct (retain_spec rest (S k) pred) as (kept, c).
      cbn [fst] in *. constructor; [exact Hch|exact IH].
    + apply IH. exact Hrest.
    + cbn [fst]. constructor.
Qed.

Lemma retain_spec_length pred cs : forall k,
  (length (concat (fst (retain_spec cs k pred))) <= length (concat cs))%nat.
Proof.
  induction cs as [|ch rest IH]; intros k; cbn [retain_spec].
  - cbn [fst concat length]. lia.
  - cbn [concat]. rewrite app_length. destruct (pred k) as [[|]|].
    + specialize (IH (S k)). destruct (retain_spec rest (S k) pred) as (kept, c).
      cbn [fst concat] in *. rewrite app_length. lia.
    + specialize (IH (S k)). lia.
    + cbn [fst concat length]. lia.
Qed.

Lemma upd_same {A} (l : list A) n x : nth_error l n = Some x -> upd l n x = l.
Proof.
  revert n; induction l as [|y l IH]; intros [|n] H; cbn [upd nth_error] in *; try discriminate H.
  - injection H as ->. reflexivity.
  - f_equal. apply IH. exact H.
Qed.
Lemma with_data_same y : with_data y (data y) = y.
Proof. destruct y; reflexivity. Qed.

(* ---------- the loop on an inline value: no events ---------- *)
Lemma retain_loop_inline_wp pred cs : forall k d dst (Q : out (repr * N * bool) -> mem -> Prop) m,
  Forall (fun c => char_ok c = true) cs ->
  (N.to_nat dst + length (concat cs) <= length d)%nat ->
  (forall d' dst' c,
      length d' = length d ->
      dst' = dst + len (concat (fst (retain_spec cs k pred))) ->
      c = snd (retain_spec cs k pred) ->
      firstn (N.to_nat dst') d' = firstn (N.to_nat dst) d ++ concat (fst (retain_spec cs k pred)) ->
      Q (OVal (Inline d', dst', c)) m) ->
  wp (retain_loop (Inline d) cs k pred dst) Q m.
Proof.
  induction cs as [|ch rest IH]; intros k d dst Q m Hcs Hfit HQ.
  - cbn [retain_loop]. apply wp_ret. apply HQ.
    + reflexivity.
    + cbn [retain_spec fst concat]. unfold len. cbn [length]. lia.
    + reflexivity.
    + cbn [retain_spec fst concat]. rewrite app_nil_r. reflexivity.
  - inversion Hcs as [|ch0 rest0 Hch Hrest]; subst ch0 rest0.
    cbn [concat] in Hfit. rewrite app_length in Hfit.
    cbn [retain_loop]. cbn [retain_spec] in HQ.
    destruct (pred k) as [[|]|].
    + rewrite (encode_decode ch Hch). cbn [write_at]. apply wp_bind. apply wp_ret. unfold lift.
      destruct (retain_spec rest (S k) pred) as (kept, c0) eqn:Espec. cbn [fst snd] in HQ.
      apply IH.
      * exact Hrest.
      * rewrite write_range_length by lia. unfold len. lia.
      * intros d' dst' c Hd' Hdst Hcc Hpre. rewrite Espec in Hdst, Hcc, Hpre. cbn [fst snd] in Hdst, Hcc, Hpre.
        apply HQ.
        -- rewrite Hd'. apply write_range_length. lia.
        -- cbn [concat]. rewrite len_app. lia.
        -- exact Hcc.
        -- rewrite Hpre. cbn [concat]. rewrite app_assoc. f_equal.
           replace (N.to_nat (dst + len ch)) with (N.to_nat dst + length ch)%nat by (unfold len; lia).
           apply write_range_prefix. lia.
    + apply IH.
      * exact Hrest.
      * lia.
      * exact HQ.
    + apply wp_ret. apply HQ.
      * reflexivity.
      * cbn [fst concat]. unfold len. cbn [length]. lia.
      * reflexivity.
      * cbn [fst concat]. rewrite app_nil_r. reflexivity.
Qed.

(* ---------- the loop on a heap buffer: one write per kept char ---------- *)
Lemma retain_loop_heap_wp pred b l cs : forall k y dst (Q : out (repr * N * bool) -> mem -> Prop) m,
  nth_error (heap m) b = Some y -> live y = true ->
  Forall (fun c => char_ok c = true) cs ->
  (N.to_nat dst + length (concat cs) <= length (data y))%nat ->
  (forall m' d' dst' c,
      same_env m m' -> heap m' = upd (heap m) b (with_data y d') -> nreq m' = nreq m ->
      length d' = length (data y) ->
      dst' = dst + len (concat (fst (retain_spec cs k pred))) ->
      c = snd (retain_spec cs k pred) ->
      firstn (N.to_nat dst') d' = firstn (N.to_nat dst) (data y) ++ concat (fst (retain_spec cs k pred)) ->
      Q (OVal (Heap b l, dst', c)) m') ->
  wp (retain_loop (Heap b l) cs k pred dst) Q m.
Proof.
  induction cs as [|ch rest IH]; intros k y dst Q m Hb Hl Hcs Hfit HQ.
  - cbn [retain_loop]. apply wp_ret. apply (HQ m (data y)).
    + apply same_env_refl.
    + rewrite with_data_same. symmetry. apply upd_same. exact Hb.
    + reflexivity.
    + reflexivity.
    + cbn [retain_spec fst concat]. unfold len. cbn [length]. lia.
    + reflexivity.
    + cbn [retain_spec fst concat]. rewrite app_nil_r. reflexivity.
  - inversion Hcs as [|ch0 rest0 Hch Hrest]; subst ch0 rest0.
    cbn [concat] in Hfit. rewrite app_length in Hfit.
    cbn [retain_loop]. cbn [retain_spec] in HQ.
    destruct (pred k) as [[|]|].
    + rewrite (encode_decode ch Hch). cbn [write_at]. apply wp_bind. apply wp_bind.
      eapply write_heap_wp; [exact Hb|exact Hl|unfold len; lia|].
      intros m1 He1 Hh1 Hn1. unfold lift. apply wp_ret. unfold lift.
      set (d1 := write_range (data y) (N.to_nat dst) ch) in *.
      assert (Hd1 : length d1 = length (data y)) by (unfold d1; apply write_range_length; lia).
      assert (Hb1 : nth_error (heap m1) b = Some (with_data y d1)).
      { rewrite Hh1. apply nth_error_upd_eq. eapply nth_error_lt; exact Hb. }
      destruct (retain_spec rest (S k) pred) as (kept, c0) eqn:Espec. cbn [fst snd] in HQ.
      apply (IH (S k) (with_data y d1)).
      * exact Hb1.
      * exact Hl.
      * exact Hrest.
      * cbn [with_data data]. rewrite Hd1. unfold len. lia.
      * intros m' d' dst' c He' Hh' Hn' Hd' Hdst Hcc Hpre. rewrite Espec in Hdst, Hcc, Hpre.
        cbn [fst snd] in Hdst, Hcc, Hpre. cbn [with_data data] in Hd', Hpre.
        apply (HQ m' d').
        -- eapply same_env_trans; [exact He1|exact He'].
        -- rewrite Hh', Hh1, upd_upd. reflexivity.
        -- lia.
        -- lia.
        -- cbn [concat]. rewrite len_app. lia.
        -- exact Hcc.
        -- rewrite Hpre. cbn [concat]. rewrite app_assoc. f_equal.
           replace (N.to_nat (dst + len ch)) with (N.to_nat dst + length ch)%nat by (unfold len; lia).
           unfold d1. apply write_range_prefix. lia.
    + apply (IH (S k) y).
      * exact Hb.
      * exact Hl.
      * exact Hrest.
      * lia.
      * exact HQ.
    + apply wp_ret. apply (HQ m (data y)).
      * apply same_env_refl.
      * rewrite with_data_same. symmetry. apply upd_same. exact Hb.
      * reflexivity.
      * reflexivity.
      * cbn [fst concat]. unfold len. cbn [length]. lia.
      * reflexivity.
      * cbn [fst concat]. rewrite app_nil_r. reflexivity.
Qed.

(* ---------- retain ---------- *)
Lemma retain_wp m own r pred (Q : out (repr * res unit) -> mem -> Prop) :
  MI (heap m) own -> handle_ok (heap m) (statics m) r -> counted own r ->
  (forall m' r' res, retain_post m own r pred m' r' res -> Q (OVal (r', res)) m') ->
  wp (retain r pred) Q m.
Proof.
  intros HM Hr Hc HQ. unfold retain.
  apply wp_bind. apply (ensure_modifiable_wp m own r); [exact HM|exact Hr|exact Hc|].
  intros m1 r1 ok [P1 P2 P3 P4 P5 P6]. unfold lift.
  destruct ok; cbn [negb].
  2:{ destruct (P5 eq_refl) as (-> & Hh1). apply wp_ret. apply HQ. split.
      - exact P1.
      - intros Hx. exfalso. apply Hx. reflexivity.
      - intros _. split; [reflexivity|exact Hh1].
      - intros Hex. destruct (P6 Hex) as (Hbad & _). discriminate Hbad. }
  pose proof (P4 eq_refl) as Hex1.
  pose proof (so_mi _ _ _ _ _ P1) as HM1. pose proof (so_h _ _ _ _ _ P1) as Hr1.
  pose proof (text_len m r Hr) as HlT. pose proof (text_valid m r Hr) as HvT.
  pose proof (handle_len_bound m own r HM Hr) as HlM.
  pose proof (repr_len_le_cap m1 r1 Hr1) as Hcap1. rewrite P3 in Hcap1.
  set (T := text_of m r) in *. set (l := repr_len r) in *.
  destruct (valid_chars_of T HvT) as (Hcs & Econc).
  assert (HlenT : length T = N.to_nat l) by (unfold len in HlT; lia).
  pose proof (retain_spec_Forall (fun c => char_ok c = true) pred (chars_of T) 0%nat Hcs) as Hkept.
  pose proof (retain_spec_length pred (chars_of T) 0%nat) as Hklen. rewrite Econc in Hklen.
  apply wp_bind. apply (as_bytes_wp m1 (adj own r r1) r1); [exact HM1|exact Hr1|].
  intros m2 He2 Hh2 Hn2. unfold lift. rewrite P2.
  destruct r1 as [d|b l1|s1 l1]; [| |contradiction].
  - (* inline *)
    destruct Hr1 as (H16 & Hv1 & Htag1). cbn [cap_of] in Hcap1. rewrite max_inline_16 in Hcap1.
    apply wp_bind. apply retain_loop_inline_wp.
    + exact Hcs.
    + rewrite Econc. change (N.to_nat 0) with 0%nat. lia.
    + intros d' dst' c Hd' Hdst Hcc Hpre. unfold lift.
      change (N.to_nat 0) with 0%nat in Hpre. cbn [firstn app] in Hpre.
      assert (Hdl : dst' <= l) by (unfold len in Hdst; lia).
      apply wp_bind. apply set_len_wp; [lia|]. unfold lift. apply wp_ret. cbn [with_len].
      assert (Hd16 : length d' = 16%nat) by lia.
      assert (Hle16 : dst' <= 16) by lia.
      assert (Hv2 : Valid (firstn (N.to_nat dst') d')) by (rewrite Hpre; apply valid_concat; exact Hkept).
      assert (H192 : dst' = 16 -> nthN d' 15 < 192).
      { intros E. apply full_inline_last; [exact Hd16|]. rewrite E in Hv2. exact Hv2. }
      destruct (finish_inline m1 (adj own r (Inline d)) d d' dst' m2 HM1 Hd16 Hle16 Hv2 H192 He2 Hh2)
        as (S1 & S2 & S3).
      apply HQ. split.
      * eapply step_ok_trans; [exact P1|exact S1].
      * intros _. split.
        -- rewrite S2. exact Hpre.
        -- rewrite Hcc. reflexivity.
      * intros Hx. destruct c; discriminate Hx.
      * intros Hex. destruct (P6 Hex) as (_ & E & Hh1 & Hn1). split; [|split; [|split]].
        -- destruct c; discriminate.
        -- lia.
        -- intros b0. rewrite <- E. reflexivity.
        -- rewrite <- E. reflexivity.
  - (* exclusive heap *)
    destruct Hex1 as (x & Hb & Hl & Hcx). cbn [cap_of] in Hcap1. rewrite Hb in Hcap1.
    cbn [text_of] in P2. rewrite Hb in P2. cbn [repr_len] in P3. subst l1.
    destruct (MI_lookup _ _ _ _ HM1 Hb Hl) as ((W1 & W2 & W3) & _ & _).
    assert (Hb2 : nth_error (heap m2) b = Some x) by (rewrite Hh2; exact Hb).
    apply wp_bind. apply (retain_loop_heap_wp pred b l (chars_of T) 0%nat x 0).
    + exact Hb2.
    + exact Hl.
    + exact Hcs.
    + rewrite Econc. change (N.to_nat 0) with 0%nat. unfold len in W2. lia.
    + intros m3 d' dst' c He3 Hh3 Hn3 Hd' Hdst Hcc Hpre. unfold lift.
      change (N.to_nat 0) with 0%nat in Hpre. cbn [firstn app] in Hpre.
      assert (Hdl : dst' <= l) by (unfold len in Hdst; lia).
      apply wp_bind. apply set_len_wp; [lia|]. unfold lift. apply wp_ret. cbn [with_len].
      assert (Hdlen : len d' = len (data x)) by (unfold len; lia).
      assert (Hlc : dst' <= cap x) by lia.
      assert (Hv2 : Valid (firstn (N.to_nat dst') d')) by (rewrite Hpre; apply valid_concat; exact Hkept).
      assert (He13 : same_env m1 m3) by (eapply same_env_trans; [exact He2|exact He3]).
      assert (Hh13 : heap m3 = upd (heap m1) b (with_data x d')) by (rewrite Hh3, Hh2; reflexivity).
      destruct (heap_data_step_ok m1 (adj own r (Heap b l)) b l dst' x d' m3 HM1 Hb Hl Hcx Hdlen Hlc Hv2 He13 Hh13)
        as (S1 & S2 & S3 & S4).
      apply HQ. split.
      * eapply step_ok_trans; [exact P1|exact S1].
      * intros _. split.
        -- rewrite S2. exact Hpre.
        -- rewrite Hcc. reflexivity.
      * intros Hx. destruct c; discriminate Hx.
      * intros Hex. destruct (P6 Hex) as (_ & E & Hh1 & Hn1). split; [|split; [|split]].
        -- destruct c; discriminate.
        -- lia.
        -- intros b0. rewrite <- E. reflexivity.
        -- rewrite <- E. reflexivity.
Qed.

Print Assumptions retain_wp.
