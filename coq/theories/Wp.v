(* Wp.v — weakest preconditions for [run]: run_bind once, then one rule per event. *)
From LS Require Import Base Cmd.

Definition wp {R} (c : cmd R) (Q : out R -> mem -> Prop) (m : mem) : Prop :=
  let (o, m') := run c m in Q o m'.

Lemma run_bind {A B} (c : cmd A) (f : A -> cmd B) m :
  run (bind c f) m =
  match run c m with
  | (OVal r, m') => run (f r) m'
  | (OUb u, m') => (OUb u, m')
  end.
Proof.
  revert m; induction c as [r| |n k IH|b o n k IH|b n k IH|b c k IH|b k IH|b a o k IH|b o k IH|o k IH|p off n k IH|p off bs k IH|p s d n k IH];
    intros m; cbn [bind run]; try reflexivity.
  - destruct (orc m (nreq m) n); apply IH.
  - destruct (nth_error (heap m) b) as [x|]; [|reflexivity].
    destruct (negb (live x)); [reflexivity|]. destruct (negb (o =? asize x)); [reflexivity|].
    destruct (orc m (nreq m) n); apply IH.
  - destruct (nth_error (heap m) b) as [x|]; [|reflexivity].
    destruct (negb (live x)); [reflexivity|]. destruct (negb (n =? asize x)); [reflexivity|]. apply IH.
  - destruct (nth_error (heap m) b) as [x|]; [|reflexivity]. destruct (negb (live x)); [reflexivity|]. apply IH.
  - destruct (nth_error (heap m) b) as [x|]; [|reflexivity]. destruct (negb (live x)); [reflexivity|]. apply IH.
  - destruct (nth_error (heap m) b) as [x|]; [|reflexivity]. destruct (negb (live x)); [reflexivity|]. apply IH.
  - destruct (nth_error (heap m) b) as [x|]; [|reflexivity]. destruct (negb (live x)); [reflexivity|]. apply IH.
  - apply IH.
  - destruct p as [b|s].
    + destruct (nth_error (heap m) b) as [x|]; [|reflexivity]. destruct (negb (live x)); [reflexivity|].
      destruct (negb _); [reflexivity|]. apply IH.
    + destruct (nth_error (statics m) s) as [t|]; [|reflexivity]. destruct (negb _); [reflexivity|]. apply IH.
  - destruct p as [b|s]; [|reflexivity].
    destruct (nth_error (heap m) b) as [x|]; [|reflexivity]. destruct (negb (live x)); [reflexivity|].
    destruct (negb _); [reflexivity|]. apply IH.
  - destruct p as [b|s0]; [|reflexivity].
    destruct (nth_error (heap m) b) as [x|]; [|reflexivity]. destruct (negb (live x)); [reflexivity|].
    destruct (negb _); [reflexivity|]. apply IH.
Qed.

Definition lift {A B} (f : A -> cmd B) (Q : out B -> mem -> Prop) : out A -> mem -> Prop :=
  fun o m => match o with
             | OVal r => wp (f r) Q m
             | OUb u => Q (OUb u) m
             end.

Lemma wp_bind {A B} (c : cmd A) (f : A -> cmd B) (Q : out B -> mem -> Prop) m : wp c (lift f Q) m -> wp (bind c f) Q m.
Proof. unfold wp, lift. rewrite run_bind. destruct (run c m) as [[r|u] m']; auto. Qed.
Lemma wp_ret {R} (r : R) (Q : out R -> mem -> Prop) m : Q (OVal r) m -> wp (Ret r) Q m.
Proof. auto. Qed.
Lemma wp_mono {R} (c : cmd R) (Q Q' : out R -> mem -> Prop) m :
  wp c Q m -> (forall o m', Q o m' -> Q' o m') -> wp c Q' m.
Proof. unfold wp. destruct (run c m). auto. Qed.

(* memory after the events *)
Definition m_alloc_fail (m : mem) (n : N) : mem :=
  {| heap := heap m; statics := statics m; orc := orc m; nreq := nreq m + 1; log := EAlloc n None :: log m; ext := ext m |}.
Definition fresh_buf (n : N) : buf :=
  {| live := true; asize := n; count := 0; cap := 0; data := repeat POISON (N.to_nat (n - HDR)) |}.
Definition m_alloc_ok (m : mem) (n : N) : mem :=
  {| heap := heap m ++ [fresh_buf n]; statics := statics m; orc := orc m; nreq := nreq m + 1;
     log := EAlloc n (Some (length (heap m))) :: log m; ext := ext m |}.

Lemma wp_alloc {R} n (k : option bufid -> cmd R) (Q : out R -> mem -> Prop) m :
  (orc m (nreq m) n = true -> wp (k None) Q (m_alloc_fail m n)) ->
  (orc m (nreq m) n = false -> wp (k (Some (length (heap m)))) Q (m_alloc_ok m n)) ->
  wp (Alloc n k) Q m.
Proof. intros H1 H2. unfold wp. cbn [run]. destruct (orc m (nreq m) n); [apply H1|apply H2]; reflexivity. Qed.

Section Buf.
  Context {R : Type}.
  Variables (m : mem) (b : bufid) (x : buf).
  Hypothesis Hb : nth_error (heap m) b = Some x.
  Hypothesis Hl : live x = true.
  Implicit Type Q : out R -> mem -> Prop.

  Lemma wp_hdrcap (k : N -> cmd R) Q : wp (k (cap x)) Q m -> wp (HdrCap b k) Q m.
  Proof. unfold wp. cbn [run]. rewrite Hb, Hl. auto. Qed.
  Lemma wp_hdrinit c (k : cmd R) Q :
    wp k Q (set_buf m b {| live := true; asize := asize x; count := 1; cap := c; data := data x |} (EHdrInit b c)) ->
    wp (HdrInit b c k) Q m.
  Proof. unfold wp. cbn [run]. rewrite Hb, Hl. auto. Qed.
  Lemma wp_load o (k : N -> cmd R) Q :
    wp (k (count x + ext_now m)) Q (logm m (ELoad b o (count x + ext_now m))) -> wp (Load b o k) Q m.
  Proof. unfold wp. cbn [run]. rewrite Hb, Hl. auto. Qed.
  Lemma wp_rmw (add : bool) o (k : N -> cmd R) Q :
    wp (k (count x + ext_now m)) Q
       (set_buf m b {| live := rmw_live add (count x) (ext_now m); asize := asize x;
                       count := if add then count x + 1 else count x - 1;
                       cap := cap x; data := data x |} (ERmw b add o (count x + ext_now m))) ->
    wp (Rmw b add o k) Q m.
  Proof. unfold wp. cbn [run]. rewrite Hb, Hl. auto. Qed.
  Lemma wp_dealloc n (k : cmd R) Q :
    n = asize x ->
    wp k Q (set_buf m b {| live := false; asize := asize x; count := count x; cap := cap x; data := data x |} (EDealloc b n)) ->
    wp (Dealloc b n k) Q m.
  Proof. intros ->. unfold wp. cbn [run]. rewrite Hb, Hl. cbn [negb]. rewrite N.eqb_refl. auto. Qed.
  Lemma wp_read off n (k : list N -> cmd R) Q :
    off + n <= len (data x) ->
    wp (k (slice (data x) (N.to_nat off) (N.to_nat n))) Q (logm m (ERead (PHeap b) off n)) ->
    wp (Read (PHeap b) off n k) Q m.
  Proof.
    intros Hin. unfold wp. cbn [run]. rewrite Hb, Hl. cbn [negb]. unfold in_bounds.
    replace (off + n <=? len (data x)) with true by (symmetry; apply N.leb_le; exact Hin). auto.
  Qed.
  Lemma wp_write off bs (k : cmd R) Q :
    off + len bs <= len (data x) ->
    wp k Q (set_buf m b {| live := true; asize := asize x; count := count x; cap := cap x;
                           data := write_range (data x) (N.to_nat off) bs |} (EWrite (PHeap b) off (len bs))) ->
    wp (Write (PHeap b) off bs k) Q m.
  Proof.
    intros Hin. unfold wp. cbn [run]. rewrite Hb, Hl. cbn [negb]. unfold in_bounds.
    replace (off + len bs <=? len (data x)) with true by (symmetry; apply N.leb_le; exact Hin). auto.
  Qed.
  Lemma wp_move src dst n (k : cmd R) Q :
    src + n <= len (data x) -> dst + n <= len (data x) ->
    wp k Q (set_buf m b {| live := true; asize := asize x; count := count x; cap := cap x;
                           data := move_range (data x) (N.to_nat src) (N.to_nat dst) (N.to_nat n) |}
                    (EMove (PHeap b) src dst n)) ->
    wp (Move (PHeap b) src dst n k) Q m.
  Proof.
    intros H1 H2. unfold wp. cbn [run]. rewrite Hb, Hl. cbn [negb]. unfold in_bounds.
    replace (src + n <=? len (data x)) with true by (symmetry; apply N.leb_le; exact H1).
    replace (dst + n <=? len (data x)) with true by (symmetry; apply N.leb_le; exact H2). auto.
  Qed.

  Definition m_realloc_fail (old new : N) : mem :=
    {| heap := heap m; statics := statics m; orc := orc m; nreq := nreq m + 1; log := ERealloc b old new false :: log m; ext := ext m |}.
  Definition resize (d : list N) (n : nat) : list N := firstn n d ++ repeat POISON (n - length d).
  Definition m_realloc_ok (old new : N) : mem :=
    {| heap := upd (heap m) b {| live := true; asize := new; count := count x; cap := cap x;
                                 data := resize (data x) (N.to_nat (new - HDR)) |};
       statics := statics m; orc := orc m; nreq := nreq m + 1; log := ERealloc b old new true :: log m; ext := ext m |}.
  Lemma wp_realloc old new (k : bool -> cmd R) Q :
    old = asize x ->
    (orc m (nreq m) new = true -> wp (k false) Q (m_realloc_fail old new)) ->
    (orc m (nreq m) new = false -> wp (k true) Q (m_realloc_ok old new)) ->
    wp (Realloc b old new k) Q m.
  Proof.
    intros -> H1 H2. unfold wp. cbn [run]. rewrite Hb, Hl. cbn [negb]. rewrite N.eqb_refl. cbn [negb].
    destruct (orc m (nreq m) new); [apply H1|apply H2]; reflexivity.
  Qed.
End Buf.

Lemma wp_fence {R} o (k : cmd R) (Q : out R -> mem -> Prop) m : wp k Q (logm m (EFence o)) -> wp (Fence o k) Q m.
Proof. unfold wp. cbn [run]. auto. Qed.
Lemma wp_read_static {R} m s t off n (k : list N -> cmd R) (Q : out R -> mem -> Prop) :
  nth_error (statics m) s = Some t -> off + n <= len t ->
  wp (k (slice t (N.to_nat off) (N.to_nat n))) Q (logm m (ERead (PStatic s) off n)) ->
  wp (Read (PStatic s) off n k) Q m.
Proof.
  intros Hs Hin. unfold wp. cbn [run]. rewrite Hs. unfold in_bounds.
  replace (off + n <=? len t) with true by (symmetry; apply N.leb_le; exact Hin). auto.
Qed.
