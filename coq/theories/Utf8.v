(* Utf8.v — the parts of core::str the crate relies on, over byte lists. *)
From LS Require Import Base.

Definition byte_ok (b : N) : bool := b <? 256.
Definition is_cont (b : N) : bool := (128 <=? b) && (b <? 192).

(* str::is_char_boundary *)
Definition is_char_boundary (t : list N) (i : N) : bool :=
  if i =? 0 then true
  else if len t <=? i then i =? len t
  else negb (is_cont (nthN t (N.to_nat i))).

(* width of the char whose lead byte is b (core::str::utf8_char_width for valid lead bytes) *)
Definition width_of_lead (b : N) : N :=
  if b <? 128 then 1 else if b <? 224 then 2 else if b <? 240 then 3 else 4.

(* code point of one encoded char (as next_code_point computes it) *)
Definition decode_cp (bs : list N) : N :=
  match bs with
  | [a] => a
  | [a; b] => (a mod 32) * 64 + b mod 64
  | [a; b; c] => (a mod 16) * 4096 + (b mod 64) * 64 + c mod 64
  | [a; b; c; d] => (a mod 8) * 262144 + (b mod 64) * 4096 + (c mod 64) * 64 + d mod 64
  | _ => 0
  end.

(* char::encode_utf8 *)
Definition encode_cp (c : N) : list N :=
  if c <? 128 then [c]
  else if c <? 2048 then [192 + c / 64; 128 + c mod 64]
  else if c <? 65536 then [224 + c / 4096; 128 + (c / 64) mod 64; 128 + c mod 64]
  else [240 + c / 262144; 128 + (c / 4096) mod 64; 128 + (c / 64) mod 64; 128 + c mod 64].

Definition is_scalar (c : N) : bool := (c <? 55296) || ((57344 <=? c) && (c <? 1114112)).

(* first char of t: (bytes of the char) — chars().next() *)
Definition first_char (t : list N) : list N :=
  match t with
  | [] => []
  | b :: _ => firstn (N.to_nat (width_of_lead b)) t
  end.

(* width of the last char — chars().next_back(): walk back over continuation bytes (at most 3) *)
Definition last_char_width (t : list N) : N :=
  match rev t with
  | [] => 0
  | b0 :: r1 =>
      if negb (is_cont b0) then 1 else
      match r1 with
      | [] => 1
      | b1 :: r2 =>
          if negb (is_cont b1) then 2 else
          match r2 with
          | [] => 2
          | b2 :: _ => if negb (is_cont b2) then 3 else 4
          end
      end
  end.
Definition last_char (t : list N) : list N :=
  skipn (length t - N.to_nat (last_char_width t)) t.

(* split a text into its chars by lead-byte widths; fuel = length *)
Fixpoint chars_fuel (fuel : nat) (t : list N) : list (list N) :=
  match fuel with
  | O => []
  | S f =>
      match t with
      | [] => []
      | b :: _ => let w := N.to_nat (width_of_lead b) in firstn w t :: chars_fuel f (skipn w t)
      end
  end.
Definition chars_of (t : list N) : list (list N) := chars_fuel (length t) t.

(* ---------- validity (Unicode table 3-7), as a boolean automaton ---------- *)
Definition in_range (lo hi b : N) : bool := (lo <=? b) && (b <=? hi).
Fixpoint utf8_valid_fuel (fuel : nat) (t : list N) : bool :=
  match fuel with
  | O => match t with [] => true | _ => false end
  | S f =>
      match t with
      | [] => true
      | a :: r =>
          if a <? 128 then utf8_valid_fuel f r
          else if in_range 194 223 a then
            match r with b :: r' => in_range 128 191 b && utf8_valid_fuel f r' | _ => false end
          else if a =? 224 then
            match r with b :: c :: r' => in_range 160 191 b && in_range 128 191 c && utf8_valid_fuel f r' | _ => false end
          else if in_range 225 236 a || in_range 238 239 a then
            match r with b :: c :: r' => in_range 128 191 b && in_range 128 191 c && utf8_valid_fuel f r' | _ => false end
          else if a =? 237 then
            match r with b :: c :: r' => in_range 128 159 b && in_range 128 191 c && utf8_valid_fuel f r' | _ => false end
          else if a =? 240 then
            match r with b :: c :: d :: r' => in_range 144 191 b && in_range 128 191 c && in_range 128 191 d && utf8_valid_fuel f r' | _ => false end
          else if in_range 241 243 a then
            match r with b :: c :: d :: r' => in_range 128 191 b && in_range 128 191 c && in_range 128 191 d && utf8_valid_fuel f r' | _ => false end
          else if a =? 244 then
            match r with b :: c :: d :: r' => in_range 128 143 b && in_range 128 191 c && in_range 128 191 d && utf8_valid_fuel f r' | _ => false end
          else false
      end
  end.
Definition utf8_valid (t : list N) : bool := utf8_valid_fuel (length t) t.
