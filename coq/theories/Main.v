(* Main.v — the operation-level theorem: every operation preserves WF, never reaches UB, leaves every other
   slot alone, and refines Spec unless it reports an allocation failure. *)
From Coq Require Import Lia Arith ZArith.
From LS Require Import Base Utf8 Utf8Spec Utf8Facts Cmd Impl Wp ListFacts Growth Inv InlineFacts NumModel Num Exec
     Specs Specs2 SpecsRetain SpecsShrink Specs3 WF Spec Refine.
From LSGen Require Import GenSrc.
Open Scope N_scope.

Definition int_range (t : int_ty) : Z * Z :=
  match t with
  | TI8 => (-128, 127) | TU8 => (0, 255) | TI16 => (-32768, 32767) | TU16 => (0, 65535)
  | TI32 => (-2147483648, 2147483647) | TU32 => (0, 4294967295)
  | TI64 | TIsize => (-9223372036854775808, 9223372036854775807)
  | TU64 | TUsize => (0, 18446744073709551615)
  end%Z.
(* the generated integer tables and LUT satisfy their side conditions (discharged by vm_compute in props/) *)
Definition gen_ok : Prop :=
  lut_ok dec_digits_lut = true /\ forall t, check_table (table_of t) (fst (int_range t)) (snd (int_range t)) = true.

(* arguments are what the Rust types guarantee: &str is valid UTF-8, char is a scalar value, integers are in range *)
Definition scalars (cs : list N) : Prop := Forall (fun c => is_scalar c = true) cs.
Definition op_wf (st : list (list N)) (o : op) : Prop :=
  match o with
  | OFromStr _ t => Valid t
  | OFromStatic s => exists t, nth_error st s = Some t
  | OFromChar c | OPush _ _ c | OInsert _ _ _ c => is_scalar c = true
  | OFromInt _ t z => (fst (int_range t) <= z <= snd (int_range t))%Z
  | OCollectChars _ _ cs | OExtendChars _ _ _ cs => scalars cs
  | OCollectStrs _ ss | OExtendStrs _ _ ss => Forall Valid ss
  | ODisplay _ _ _ ps | OWriteFmt _ _ _ ps => Forall Valid ps
  | OPushStr _ _ s | OAdd _ s | OInsertStr _ _ _ s => Valid s
  | _ => True
  end.

(* the slot an operation may change *)
Definition target (o : op) : option nat :=
  match o with
  | OCloneFrom i _ | ODrop i | OPush _ i _ | OPushStr _ i _ | OAdd i _ | OPop _ i | ORemove _ i _ | OInsert _ i _ _
  | OInsertStr _ i _ _ | OTruncate _ i _ | OClear i | ORetain _ i _ _ | OReserve _ i _ | OShrinkTo _ i _
  | OExtendChars i _ _ _ | OExtendStrs i _ _ | OWriteFmt i _ _ _ => Some i
  | _ => None
  end.

Record exec_post (w : world) (o : op) (w' : world) (out : outcome) : Prop := {
  ep_wf : WF w';
  ep_noub : forall u, out <> UbOut u;
  ep_statics : statics (wmem w') = statics (wmem w);
  ep_refine : alloc_failure out = false -> (abs w', out) = spec_exec (statics (wmem w)) (abs w) o;
  ep_frame : forall j rj, target o <> Some j -> nth_error (pool w) j = Some (Some rj) ->
             nth_error (pool w') j = Some (Some rj)
             /\ text_of (wmem w') rj = text_of (wmem w) rj /\ cap_of (wmem w') rj = cap_of (wmem w) rj;
}.

Lemma set_slot_other w m' i s j x : j <> i -> nth_error (pool w) j = Some x -> nth_error (pool (set_slot w m' i s)) j = Some x.
Proof. intros Hne Hj. cbn [set_slot pool]. rewrite nth_error_upd_ne by exact Hne. exact Hj. Qed.
Lemma append_slot_other w m' s j x : nth_error (pool w) j = Some x -> nth_error (pool (append_slot w m' s)) j = Some x.
Proof. intros Hj. cbn [append_slot pool]. apply nth_error_app_l. exact Hj. Qed.

(* class A: an in-place operation *)
Lemma on_result_post w i w' out (P : repr -> mem -> repr -> outcome -> Prop) o fs :
  WF w -> on_result w i w' out P -> target o = Some i ->
  (forall p, spec_exec (statics (wmem w)) p o = son p i fs) ->
  (forall r m' r', handle_ok (heap (wmem w)) (statics (wmem w)) r -> P r m' r' out ->
      (forall u, out <> UbOut u) /\ (alloc_failure out = false -> (text_of m' r', out) = fs (text_of (wmem w) r))) ->
  exec_post w o w' out.
Proof.
  intros HW [(Hg & -> & ->)|(r & r' & Hi & Ew & HP & HW' & Ho & Hs & _)] Ht Hspec HPs.
  - split; auto.
    + discriminate.
    + intros _. rewrite Hspec. unfold son. rewrite sget_abs, Hg. reflexivity.
  - destruct (HPs r (wmem w') r' (wf_handles _ HW _ _ Hi) HP) as (Hnu & Href). split; auto.
    + intros Haf. rewrite Hspec. rewrite Ew. apply (son_refines w i (wmem w') r r'); auto.
    + intros j rj Hne Hj. rewrite Ht in Hne. assert (j <> i) by congruence.
      split; [rewrite Ew; apply set_slot_other; auto|]. apply (Ho j rj); auto.
Qed.

(* class B: a constructor-like operation appends one slot *)
Lemma ctor_post w w' out o s :
  w' = append_slot w (wmem w') s -> WF w' -> all_same w (wmem w') -> statics (wmem w') = statics (wmem w) ->
  (forall u, out <> UbOut u) -> target o = None ->
  (alloc_failure out = false ->
     spec_exec (statics (wmem w)) (abs w) o = (abs w ++ [option_map (text_of (wmem w')) s], out)) ->
  exec_post w o w' out.
Proof.
  intros Ew HW' Ha Hs Hnu Ht Href. split; auto.
  - intros Haf. rewrite (Href Haf). rewrite Ew at 1. rewrite abs_append_slot by exact Ha. reflexivity.
  - intros j rj _ Hj. split; [rewrite Ew; apply append_slot_other; exact Hj|]. apply (Ha j rj Hj).
Qed.

Lemma fin_not_ub m ok u : fin m ok <> UbOut u.
Proof. destruct m, ok; discriminate. Qed.
Lemma fin_ok_iff m ok : alloc_failure (fin m ok) = false -> ok = true /\ fin m ok = OkUnit.
Proof. destruct m, ok; cbn; intros H; try discriminate; auto. Qed.

Lemma fin_res_not_ub {A} m (r : res A) okv u : (forall a, okv a <> UbOut u) -> fin_res m r okv <> UbOut u.
Proof. intros H. destruct r as [a| |p]; cbn [fin_res]; [apply H|apply fin_not_ub|destruct p; discriminate]. Qed.

Lemma pieces_not_ub m own r ps k ea pa m' r' out u : pieces_post m own r ps k ea pa m' r' out -> out <> UbOut u.
Proof.
  intros [_ P2 _] ->. assert (Hne : UbOut u <> PanicReserve) by discriminate. specialize (P2 Hne).
  destruct (first_stop ea pa k (length ps)) as [[n o]|] eqn:E.
  - destruct P2 as (Eo & _). destruct (first_stop_outcome _ _ _ _ _ _ E) as [->| ->]; discriminate.
  - destruct P2 as (Eo & _). discriminate.
Qed.
Lemma pieces_refine m own r ps ea pa m' r' out :
  pieces_post m own r ps 0 ea pa m' r' out -> alloc_failure out = false ->
  (text_of m' r', out) = match first_stop ea pa 0 (length ps) with
                         | Some (n, o) => (text_of m r ++ concat (firstn n ps), o)
                         | None => (text_of m r ++ concat ps, OkUnit)
                         end.
Proof.
  intros [_ P2 _] Haf. assert (Hne : out <> PanicReserve) by (intros ->; discriminate). specialize (P2 Hne).
  destruct (first_stop ea pa 0 (length ps)) as [[n o]|]; destruct P2 as (-> & ->); reflexivity.
Qed.

Lemma all_same_refl w : all_same w (wmem w).
Proof. intros j rj Hj. auto. Qed.

Theorem exec_sound w o w' out :
  gen_ok -> WF w -> op_wf (statics (wmem w)) o -> exec w o = (w', out) -> exec_post w o w' out.
Proof.
  intros (Hlut & Htab) HW Hwf He. destruct o; cbn [op_wf] in Hwf.
  - (* ONew *)
    cbn [exec] in He. change repr_new with (Inline (inline_new [])) in He.
    destruct (op_inline_ctor w [] w' out HW valid_nil ltac:(cbn; lia) He) as (-> & -> & HW' & Ht).
    apply (ctor_post w _ OkUnit ONew (Some (Inline (inline_new []))) eq_refl HW' (all_same_refl w) eq_refl);
      [discriminate|reflexivity|].
    intros _. cbn [spec_exec option_map append_slot wmem]. rewrite Ht. reflexivity.
  - (* OFromStr *)
    destruct (op_from_str w m t w' out HW Hwf He) as (s & Ew & HW' & Ha & Hs & HP & ->).
    apply (ctor_post w w' _ (OFromStr m t) s Ew HW' Ha Hs); [|reflexivity|].
    + intros u. destruct s; [discriminate|apply fin_not_ub].
    + intros Haf. destruct s as [r'|]; [|apply fin_ok_iff in Haf; destruct Haf; discriminate].
      destruct (fs_some _ _ _ _ _ HP r' eq_refl) as (_ & Ht & _). cbn [spec_exec option_map]. rewrite Ht. reflexivity.
  - (* OFromStatic *)
    destruct Hwf as (t & Hs). destruct (op_from_static w s t w' out HW Hs He) as (o & Ew & HW' & Ha & Hst & _ & _ & HP).
    apply (ctor_post w w' out (OFromStatic s) o Ew HW' Ha Hst); [|reflexivity|].
    + intros u. destruct HP as [(_ & -> & _)|(r' & _ & -> & _)]; discriminate.
    + intros Haf. destruct HP as [(_ & -> & _)|(r' & -> & -> & Ht & _)]; [discriminate|].
      cbn [spec_exec option_map]. rewrite Hs, Ht. reflexivity.
  - (* OWithCapacity *)
    destruct (op_with_capacity w m n w' out HW He) as (s & Ew & HW' & Ha & Hs & HP & ->).
    apply (ctor_post w w' _ (OWithCapacity m n) s Ew HW' Ha Hs); [|reflexivity|].
    + intros u. destruct s; [discriminate|apply fin_not_ub].
    + intros Haf. destruct s as [r'|]; [|apply fin_ok_iff in Haf; destruct Haf; discriminate].
      destruct (wc_some _ _ _ _ _ HP r' eq_refl) as (_ & Ht & _). cbn [spec_exec option_map]. rewrite Ht. reflexivity.
  - (* OFromChar *)
    cbn [exec] in He.
    assert (Hc : char_ok (encode_cp c) = true) by (apply encode_cp_ok; exact Hwf).
    assert (Hl : (length (encode_cp c) <= 16)%nat) by (pose proof (char_ok_length _ Hc); lia).
    destruct (op_inline_ctor w (encode_cp c) w' out HW (valid_char _ Hc) Hl He) as (-> & -> & HW' & Ht).
    apply (ctor_post w _ OkUnit (OFromChar c) (Some (Inline (inline_new (encode_cp c)))) eq_refl HW' (all_same_refl w) eq_refl);
      [discriminate|reflexivity|].
    intros _. cbn [spec_exec option_map append_slot wmem]. rewrite Ht. reflexivity.
  - (* OFromBool *)
    cbn [exec] in He.
    set (t := if b then [116; 114; 117; 101] else [102; 97; 108; 115; 101]) in *.
    assert (Hv : Valid t) by (apply valid_ascii; destruct b; repeat constructor; lia).
    assert (Hl : (length t <= 16)%nat) by (destruct b; cbn; lia).
    destruct (op_inline_ctor w t w' out HW Hv Hl He) as (-> & -> & HW' & Ht).
    apply (ctor_post w _ OkUnit (OFromBool b) (Some (Inline (inline_new t))) eq_refl HW' (all_same_refl w) eq_refl);
      [discriminate|reflexivity|].
    intros _. cbn [spec_exec option_map append_slot wmem]. rewrite Ht. reflexivity.
  - (* OFromInt *)
    destruct (op_from_int w m t z _ _ w' out HW Hlut (Htab t) Hwf He) as (s & Ew & HW' & Ha & Hs & HP & ->).
    apply (ctor_post w w' _ (OFromInt m t z) s Ew HW' Ha Hs); [|reflexivity|].
    + intros u. destruct s; [discriminate|apply fin_not_ub].
    + intros Haf. destruct s as [r'|]; [|apply fin_ok_iff in Haf; destruct Haf; discriminate].
      destruct (fi_some _ _ _ _ _ HP r' eq_refl) as (_ & Ht & _). cbn [spec_exec option_map]. rewrite Ht. reflexivity.
  - (* OClone *)
    destruct (op_clone w i w' out HW He) as [(Hg & -> & ->)|(r & Hi & Ew & -> & HP & HW' & Ha & Hs)].
    + assert (HW0 : WF (append_slot w (wmem w) None)).
      { apply wf_append_none; [exact HW|apply same_env_refl|exact (wf_mi _ HW)|apply frame_refl]. }
      apply (ctor_post w _ Skip (OClone i) None eq_refl HW0 (all_same_refl w) eq_refl); [discriminate|reflexivity|].
      intros _. cbn [spec_exec]. rewrite sget_abs, Hg. reflexivity.
    + apply (ctor_post w w' OkUnit (OClone i) (Some r) Ew HW' Ha Hs); [discriminate|reflexivity|].
      intros _. cbn [spec_exec option_map]. rewrite sget_abs. apply get_slot_nth in Hi. rewrite Hi. cbn [option_map].
      rewrite (cn_text _ _ _ _ _ HP). reflexivity.
  - (* OCollectChars *)
    destruct (op_collect_chars w hint panic_at cs w' out HW Hwf He) as (s & Ew & [A1 A2] & HW' & Ha & Hs & _).
    apply (ctor_post w w' out (OCollectChars hint panic_at cs) s Ew HW' Ha Hs); [|reflexivity|].
    + intros u ->. specialize (A1 eq_refl). rewrite map_length in A1.
      destruct (first_stop None panic_at 0 (length cs)) as [[n o]|] eqn:E.
      * destruct A1 as (_ & Eo). destruct (first_stop_outcome _ _ _ _ _ _ E) as [E1|E1]; rewrite E1 in Eo; discriminate.
      * destruct A1 as (r' & _ & Eo & _). discriminate.
    + intros Haf. specialize (A1 Haf). rewrite map_length in A1. cbn [spec_exec].
      destruct (first_stop None panic_at 0 (length cs)) as [[n o]|].
      * destruct A1 as (-> & ->). reflexivity.
      * destruct A1 as (r' & -> & -> & Ht). cbn [option_map]. rewrite Ht. reflexivity.
  - (* OCollectStrs *)
    destruct (op_collect_strs w panic_at ss w' out HW Hwf He) as (s & Ew & [A1 A2] & HW' & Ha & Hs & _).
    apply (ctor_post w w' out (OCollectStrs panic_at ss) s Ew HW' Ha Hs); [|reflexivity|].
    + intros u ->. specialize (A1 eq_refl).
      destruct (first_stop None panic_at 0 (length ss)) as [[n o]|] eqn:E.
      * destruct A1 as (_ & Eo). destruct (first_stop_outcome _ _ _ _ _ _ E) as [E1|E1]; rewrite E1 in Eo; discriminate.
      * destruct A1 as (r' & _ & Eo & _). discriminate.
    + intros Haf. specialize (A1 Haf). cbn [spec_exec].
      destruct (first_stop None panic_at 0 (length ss)) as [[n o]|].
      * destruct A1 as (-> & ->). reflexivity.
      * destruct A1 as (r' & -> & -> & Ht). cbn [option_map]. rewrite Ht. reflexivity.
  - (* ODisplay *)
    destruct (op_display w m err_at panic_at pieces w' out HW Hwf He) as (s & Ew & [A1 A2] & HW' & Ha & Hs & _).
    apply (ctor_post w w' out (ODisplay m err_at panic_at pieces) s Ew HW' Ha Hs); [|reflexivity|].
    + intros u ->. specialize (A1 eq_refl).
      destruct (first_stop err_at panic_at 0 (length pieces)) as [[n o]|] eqn:E.
      * destruct A1 as (_ & Eo). destruct (first_stop_outcome _ _ _ _ _ _ E) as [E1|E1]; rewrite E1 in Eo; discriminate.
      * destruct A1 as (r' & _ & Eo & _). discriminate.
    + intros Haf. specialize (A1 Haf). cbn [spec_exec].
      destruct (first_stop err_at panic_at 0 (length pieces)) as [[n o]|].
      * destruct A1 as (-> & ->). reflexivity.
      * destruct A1 as (r' & -> & -> & Ht). cbn [option_map]. rewrite Ht. reflexivity.
  - (* OCloneFrom *)
    destruct (op_clone_from w i j w' out HW He) as [(Hwhy & -> & ->)|(r & src & Hne & Hi & Hj & Ew & -> & Hstep & Hn & Ht & HW' & Ho & Hs)].
    + split; auto; [discriminate|].
      intros _. cbn [spec_exec]. rewrite sget_abs.
      destruct (get_slot w j) as [src|] eqn:Hj; cbn [option_map]; [|reflexivity].
      destruct (Nat.eqb_spec i j) as [->|Hne]; [reflexivity|].
      destruct Hwhy as [Hx|[Hx|Hx]]; [discriminate|contradiction|].
      unfold son. rewrite sget_abs, Hx. reflexivity.
    + split; auto; [discriminate| |].
      * intros _. cbn [spec_exec]. rewrite sget_abs. apply get_slot_nth in Hj. rewrite Hj. cbn [option_map].
        apply Nat.eqb_neq in Hne. rewrite Hne. rewrite Ew. apply (son_refines w i (wmem w') r src); auto.
        rewrite Ht. reflexivity.
      * intros j0 rj Hne0 Hj0. cbn [target] in Hne0. assert (j0 <> i) by congruence.
        split; [rewrite Ew; apply set_slot_other; auto|]. apply (Ho j0 rj); auto.
  - (* ODrop *)
    destruct (op_drop w i w' out HW He) as [(Hg & -> & ->)|(r & Hi & Ew & -> & HP & HW' & Ho & Hs)].
    + split; auto; [discriminate|]. intros _. cbn [spec_exec]. rewrite sget_abs, Hg. reflexivity.
    + split; auto; [discriminate| |].
      * intros _. cbn [spec_exec]. rewrite sget_abs. apply get_slot_nth in Hi. rewrite Hi. cbn [option_map].
        rewrite Ew. rewrite abs_set_slot by exact Ho. reflexivity.
      * intros j rj Hne Hj. cbn [target] in Hne. assert (j <> i) by congruence.
        split; [rewrite Ew; apply set_slot_other; auto|]. apply (Ho j rj); auto.
  - (* OPush *)
    eapply on_result_post; [exact HW|apply (op_push w m i c w' out HW Hwf He)|reflexivity|reflexivity|].
    intros r m' r' Hr (ok & HP & ->). split; [intros u; apply fin_not_ub|].
    intros Haf. destruct (fin_ok_iff _ _ Haf) as (-> & ->). rewrite (pp_ok _ _ _ _ _ _ _ HP eq_refl). reflexivity.
  - (* OPushStr *)
    eapply on_result_post; [exact HW|apply (op_push_str w m i s w' out HW Hwf He)|reflexivity|reflexivity|].
    intros r m' r' Hr (ok & HP & ->). split; [intros u; apply fin_not_ub|].
    intros Haf. destruct (fin_ok_iff _ _ Haf) as (-> & ->). rewrite (pp_ok _ _ _ _ _ _ _ HP eq_refl). reflexivity.
  - (* OAdd *)
    destruct (op_add w i s w' out HW Hwf He) as [(Hg & -> & ->)|(r & Hi & HW' & Ho & Hs & [(r' & Ew & -> & HP)|(Ew & ->)])].
    + split; auto; [discriminate|]. intros _. cbn [spec_exec]. unfold son. rewrite sget_abs, Hg. reflexivity.
    + split; auto; [discriminate| |].
      * intros _. cbn [spec_exec]. rewrite Ew. apply (son_refines w i (wmem w') r r'); auto.
        rewrite (pp_ok _ _ _ _ _ _ _ HP eq_refl). reflexivity.
      * intros j rj Hne Hj. cbn [target] in Hne. assert (j <> i) by congruence.
        split; [rewrite Ew; apply set_slot_other; auto|]. apply (Ho j rj); auto.
    + split; auto; [discriminate|discriminate|].
      intros j rj Hne Hj. cbn [target] in Hne. assert (j <> i) by congruence.
      split; [rewrite Ew; apply set_slot_other; auto|]. apply (Ho j rj); auto.
  - (* OPop *)
    eapply on_result_post; [exact HW|apply (op_pop w m i w' out HW He)|reflexivity|reflexivity|].
    intros r m' r' Hr (res & HP & ->). split; [intros u; destruct res; discriminate|]. intros _.
    destruct (text_of (wmem w) r) as [|c0 T0] eqn:ET.
    + destruct (po_none _ _ _ _ _ _ HP ET) as (-> & ->). rewrite (text_of_same (wmem w) m' r); [rewrite ET; reflexivity| |].
      * exact (so_env _ _ _ _ _ (po_step _ _ _ _ _ _ HP)).
      * destruct (po_heap _ _ _ _ _ _ HP) as (Hh & _). exact Hh.
    + assert (Hne : text_of (wmem w) r <> []) by (rewrite ET; discriminate).
      destruct (po_some _ _ _ _ _ _ HP Hne) as (-> & Ht). rewrite Ht, ET. reflexivity.
  - (* ORemove *)
    eapply on_result_post; [exact HW|apply (op_remove w m i idx w' out HW He)|reflexivity|reflexivity|].
    intros r m' r' Hr (res & HP & ->). split; [intros u; apply fin_res_not_ub; discriminate|]. intros Haf.
    destruct (remove_ok_idx (text_of (wmem w) r) idx) eqn:Eok.
    + destruct res as [c| |p].
      * destruct (rm_ok _ _ _ _ _ _ _ HP c eq_refl) as (Ht & ->). cbn [fin_res]. rewrite Ht. reflexivity.
      * cbn [fin_res] in Haf. apply fin_ok_iff in Haf. destruct Haf; discriminate.
      * exfalso. apply (rm_nopanic _ _ _ _ _ _ _ HP Eok p). reflexivity.
    + destruct (rm_panic _ _ _ _ _ _ _ HP Eok) as (-> & -> & Hh & _). cbn [fin_res of_panic].
      rewrite (text_of_same (wmem w) m' r); [reflexivity|exact (so_env _ _ _ _ _ (rm_step _ _ _ _ _ _ _ HP))|exact Hh].
  - (* OInsert *)
    eapply on_result_post; [exact HW|apply (op_insert w m i idx c w' out HW Hwf He)|reflexivity|reflexivity|].
    intros r m' r' Hr (res & HP & ->). split; [intros u; apply fin_res_not_ub; discriminate|]. intros Haf.
    destruct (is_char_boundary (text_of (wmem w) r) idx) eqn:Eok.
    + destruct res as [[]| |p].
      * cbn [fin_res]. rewrite (ip_ok _ _ _ _ _ _ _ _ HP eq_refl). reflexivity.
      * cbn [fin_res] in Haf. apply fin_ok_iff in Haf. destruct Haf; discriminate.
      * exfalso. destruct (ip_nopanic _ _ _ _ _ _ _ _ HP Eok) as (_ & Hn). apply (Hn p). reflexivity.
    + destruct (ip_panic _ _ _ _ _ _ _ _ HP Eok) as (-> & -> & Hh & _). cbn [fin_res of_panic].
      rewrite (text_of_same (wmem w) m' r); [reflexivity|exact (so_env _ _ _ _ _ (ip_step _ _ _ _ _ _ _ _ HP))|exact Hh].
  - (* OInsertStr *)
    eapply on_result_post; [exact HW|apply (op_insert_str w m i idx s w' out HW Hwf He)|reflexivity|reflexivity|].
    intros r m' r' Hr (res & HP & ->). split; [intros u; apply fin_res_not_ub; discriminate|]. intros Haf.
    destruct (is_char_boundary (text_of (wmem w) r) idx) eqn:Eok.
    + destruct res as [[]| |p].
      * cbn [fin_res]. rewrite (ip_ok _ _ _ _ _ _ _ _ HP eq_refl). reflexivity.
      * cbn [fin_res] in Haf. apply fin_ok_iff in Haf. destruct Haf; discriminate.
      * exfalso. destruct (ip_nopanic _ _ _ _ _ _ _ _ HP Eok) as (_ & Hn). apply (Hn p). reflexivity.
    + destruct (ip_panic _ _ _ _ _ _ _ _ HP Eok) as (-> & -> & Hh & _). cbn [fin_res of_panic].
      rewrite (text_of_same (wmem w) m' r); [reflexivity|exact (so_env _ _ _ _ _ (ip_step _ _ _ _ _ _ _ _ HP))|exact Hh].
  - (* OTruncate *)
    eapply on_result_post; [exact HW|apply (op_truncate w m i n w' out HW He)|reflexivity|reflexivity|].
    intros r m' r' Hr (res & HP & ->).
    split; [intros u; apply fin_res_not_ub; discriminate|]. intros Haf.
    assert (Hsame : r' = r -> text_of m' r' = text_of (wmem w) r).
    { intros ->. apply text_of_same; [exact (so_env _ _ _ _ _ (tr_step _ _ _ _ _ _ _ HP))|].
      destruct (tr_heap _ _ _ _ _ _ _ HP) as (Hh & _). exact Hh. }
    rewrite (text_len (wmem w) r Hr).
    destruct (N.leb_spec (repr_len r) n) as [Hge|Hlt].
    + destruct (tr_noop _ _ _ _ _ _ _ HP Hge) as (-> & Er). cbn [fin_res]. rewrite (Hsame Er). reflexivity.
    + destruct (is_char_boundary (text_of (wmem w) r) n) eqn:Eb.
      * destruct (tr_ok _ _ _ _ _ _ _ HP Hlt Eb) as (-> & Ht). cbn [fin_res]. rewrite Ht. reflexivity.
      * destruct (tr_panic _ _ _ _ _ _ _ HP Hlt Eb) as (-> & Er). cbn [fin_res of_panic]. rewrite (Hsame Er). reflexivity.
  - (* OClear *)
    eapply on_result_post; [exact HW|apply (op_clear w i w' out HW He)|reflexivity|reflexivity|].
    intros r m' r' Hr (HP & ->). split; [discriminate|]. intros _. rewrite (cl_text _ _ _ _ _ HP). reflexivity.
  - (* ORetain *)
    eapply on_result_post; [exact HW|apply (op_retain w m i panic_at bits w' out HW He)|reflexivity|reflexivity|].
    intros r m' r' Hr (res & HP & ->). split; [intros u; apply fin_res_not_ub; discriminate|]. intros Haf.
    destruct res as [[]| |p].
    + destruct (rt_done _ _ _ _ _ _ _ HP ltac:(discriminate)) as (Ht & Eres). cbn [fin_res]. rewrite Ht.
      destruct (retain_done (text_of (wmem w) r) (retain_pred panic_at bits)); [reflexivity|discriminate].
    + cbn [fin_res] in Haf. apply fin_ok_iff in Haf. destruct Haf; discriminate.
    + destruct (rt_done _ _ _ _ _ _ _ HP ltac:(discriminate)) as (Ht & Eres). cbn [fin_res]. rewrite Ht.
      destruct (retain_done (text_of (wmem w) r) (retain_pred panic_at bits)); [discriminate|].
      injection Eres as ->. reflexivity.
  - (* OReserve *)
    eapply on_result_post; [exact HW|apply (op_reserve w m i n w' out HW He)|reflexivity|reflexivity|].
    intros r m' r' Hr (ok & HP & ->). split; [intros u; apply fin_not_ub|].
    intros Haf. destruct (fin_ok_iff _ _ Haf) as (-> & ->). rewrite (rp_text _ _ _ _ _ _ _ HP). reflexivity.
  - (* OShrinkTo *)
    eapply on_result_post; [exact HW|apply (op_shrink_to w m i n w' out HW He)|reflexivity|reflexivity|].
    intros r m' r' Hr (ok & HP & ->). split; [intros u; apply fin_not_ub|].
    intros Haf. destruct (fin_ok_iff _ _ Haf) as (-> & ->). rewrite (sh_text _ _ _ _ _ _ _ HP). reflexivity.
  - (* OExtendChars *)
    eapply on_result_post; [exact HW|apply (op_extend_chars w i hint panic_at cs w' out HW Hwf He)|reflexivity|reflexivity|].
    intros r m' r' Hr HP. cbv beta in HP. split; [intros u; exact (pieces_not_ub _ _ _ _ _ _ _ _ _ _ u HP)|].
    intros Haf. rewrite (pieces_refine _ _ _ _ _ _ _ _ _ HP Haf). rewrite map_length. reflexivity.
  - (* OExtendStrs *)
    eapply on_result_post; [exact HW|apply (op_extend_strs w i panic_at ss w' out HW Hwf He)|reflexivity|reflexivity|].
    intros r m' r' Hr HP. cbv beta in HP. split; [intros u; exact (pieces_not_ub _ _ _ _ _ _ _ _ _ _ u HP)|].
    intros Haf. rewrite (pieces_refine _ _ _ _ _ _ _ _ _ HP Haf). reflexivity.
  - (* OWriteFmt *)
    eapply on_result_post; [exact HW|apply (op_write_fmt w i err_at panic_at pieces w' out HW Hwf He)|reflexivity|reflexivity|].
    intros r m' r' Hr HP. cbv beta in HP. split; [intros u; exact (pieces_not_ub _ _ _ _ _ _ _ _ _ _ u HP)|].
    intros Haf. rewrite (pieces_refine _ _ _ _ _ _ _ _ _ HP Haf). reflexivity.
Qed.

(* ---------- histories ---------- *)
Definition spec_execs (st : list (list N)) (p : sstate) (ops : list op) : sstate * list outcome :=
  fold_left (fun acc o => let '(p1, outs) := acc in let '(p2, out) := spec_exec st p1 o in (p2, outs ++ [out])) ops (p, []).

Lemma execs_snoc w ops o :
  execs w (ops ++ [o]) = let '(w1, outs) := execs w ops in let '(w2, out) := exec w1 o in (w2, outs ++ [out]).
Proof. unfold execs. rewrite fold_left_app. cbn [fold_left]. reflexivity. Qed.
Lemma spec_execs_snoc st p ops o :
  spec_execs st p (ops ++ [o]) =
  let '(p1, outs) := spec_execs st p ops in let '(p2, out) := spec_exec st p1 o in (p2, outs ++ [out]).
Proof. unfold spec_execs. rewrite fold_left_app. cbn [fold_left]. reflexivity. Qed.

(* every world reachable from a well-formed one: well-formed, statics untouched, no operation reached UB; and if no
   operation reported an allocation failure, the texts and every returned value are exactly Spec's.  The starting world is
   ANY well-formed world — in particular its [ext] (what the references held outside this world add to every count an
   atomic reads) is arbitrary: this is the statement for one thread among others, whatever the others do to the counts. *)
Theorem execs_sound_from w0 ops :
  gen_ok -> WF w0 -> Forall (op_wf (statics (wmem w0))) ops ->
  let '(w, outs) := execs w0 ops in
  WF w /\ statics (wmem w) = statics (wmem w0) /\ Forall (fun o => forall u, o <> UbOut u) outs
  /\ (forallb (fun o => negb (alloc_failure o)) outs = true ->
      (abs w, outs) = spec_execs (statics (wmem w0)) (abs w0) ops).
Proof.
  intros Hg HW0. induction ops as [|o ops IH] using rev_ind; intros Hwf.
  - cbn. split; [exact HW0|]. split; [reflexivity|]. split; [constructor|]. intros _. reflexivity.
  - apply Forall_app in Hwf. destruct Hwf as (Hwf1 & Hwf2). inversion Hwf2 as [|? ? Hwo _]; subst.
    specialize (IH Hwf1). rewrite execs_snoc, spec_execs_snoc.
    destruct (execs w0 ops) as [w1 outs1]. destruct IH as (HW1 & Hs1 & Hu1 & Hr1).
    destruct (exec w1 o) as [w2 out] eqn:He.
    assert (Hwo' : op_wf (statics (wmem w1)) o) by (rewrite Hs1; exact Hwo).
    pose proof (exec_sound w1 o w2 out Hg HW1 Hwo' He) as [P1 P2 P3 P4 P5].
    split; [exact P1|]. split; [congruence|]. split.
    + apply Forall_app. split; [exact Hu1|]. constructor; [exact P2|constructor].
    + intros Hall. rewrite forallb_app in Hall. apply andb_true_iff in Hall. destruct Hall as (Ha1 & Ha2).
      cbn [forallb] in Ha2. rewrite andb_true_r in Ha2. apply negb_true_iff in Ha2.
      specialize (Hr1 Ha1). rewrite <- Hr1. specialize (P4 Ha2). rewrite Hs1 in P4. rewrite <- P4. reflexivity.
Qed.

(* from the empty world of one thread among others *)
Theorem execs_sound_x st orc ex ops :
  gen_ok -> Forall Valid st -> Forall (op_wf st) ops ->
  let '(w, outs) := execs (world0x st orc ex) ops in
  WF w /\ statics (wmem w) = st /\ Forall (fun o => forall u, o <> UbOut u) outs
  /\ (forallb (fun o => negb (alloc_failure o)) outs = true ->
      (abs w, outs) = spec_execs st [] ops).
Proof.
  intros Hg Hst Hwf. exact (execs_sound_from (world0x st orc ex) ops Hg (wf_world0x st orc ex Hst) Hwf).
Qed.

(* the sequential case: nobody else *)
Theorem execs_sound st orc ops :
  gen_ok -> Forall Valid st -> Forall (op_wf st) ops ->
  let '(w, outs) := execs (world0 st orc) ops in
  WF w /\ statics (wmem w) = st /\ Forall (fun o => forall u, o <> UbOut u) outs
  /\ (forallb (fun o => negb (alloc_failure o)) outs = true ->
      (abs w, outs) = spec_execs st [] ops).
Proof. intros Hg Hst Hwf. exact (execs_sound_x st orc (fun _ => 0) ops Hg Hst Hwf). Qed.
