(* Growth.v — arithmetic facts about the generated [amortized_growth] and the capacity limits (C06, C12). *)
From Coq Require Import ZArith Lia.
From LS Require Import Base Cmd.
From LSGen Require Import GenSrc.
Require Import ZifyBool ZifyN.
Open Scope N_scope.

Local Ltac zlia := zify; lia.

Lemma sat_add_spec a b : sat_add a b = if a + b <=? USIZE_MAX then a + b else USIZE_MAX.
Proof. unfold sat_add. destruct (a + b <=? USIZE_MAX) eqn:E; lia. Qed.
Lemma sat_mul_spec a b : sat_mul a b = if a * b <=? USIZE_MAX then a * b else USIZE_MAX.
Proof. unfold sat_mul. destruct (a * b <=? USIZE_MAX) eqn:E; lia. Qed.

(* the growth rule, in the region where nothing saturates *)
Lemma growth_exact l a :
  l * 3 <= USIZE_MAX -> l + a <= USIZE_MAX ->
  amortized_growth l a = N.max (l + l / 2) (l + a).
Proof.
  intros H1 H2. unfold amortized_growth, sat_add, sat_mul.
  assert (l * 3 / 2 = l + l / 2) as E.
  { zlia. }
  rewrite (N.min_l (l * 3)) by lia. rewrite (N.min_l (l + a)) by lia. rewrite E. reflexivity.
Qed.

(* whatever saturates, an accepted capacity covers the request *)
Lemma growth_ge_required l a :
  amortized_growth l a <= MAX_LEN -> l + a <= amortized_growth l a.
Proof.
  unfold amortized_growth, sat_add, sat_mul, MAX_LEN, USIZE_MAX. intros H. zlia.
Qed.
Lemma growth_ge_len l a : l <= USIZE_MAX -> l <= amortized_growth l a.
Proof. unfold amortized_growth, sat_add, sat_mul, USIZE_MAX. zlia. Qed.
Lemma growth_ge_amortized l a :
  amortized_growth l a <= MAX_LEN -> l + l / 2 <= amortized_growth l a.
Proof.
  unfold amortized_growth, sat_add, sat_mul, MAX_LEN, USIZE_MAX. intros H. zlia.
Qed.
Lemma growth_le_max l a :
  amortized_growth l a <= MAX_LEN -> amortized_growth l a <= N.max (l + l / 2) (l + a).
Proof.
  unfold amortized_growth, sat_add, sat_mul, MAX_LEN, USIZE_MAX. intros H. zlia.
Qed.

(* 16 + cap cannot wrap for an accepted capacity: what the wrapping_add in realloc relies on *)
Lemma layout_size_no_wrap c : c <= MAX_LEN -> wrapping_add HDR c = HDR + c.
Proof.
  unfold wrapping_add, HDR, MAX_LEN, USIZE_MAX. intros H. apply N.mod_small. lia.
Qed.
Lemma header_is_hdr : HEADER_SIZE = HDR.
Proof. reflexivity. Qed.
