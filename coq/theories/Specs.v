(* Specs.v — specifications of the Repr-level functions (repr.rs) as weakest-precondition rules.
   Each rule says: from a well-formed memory and handle, the function does not reach UB, and whatever it returns
   satisfies the stated relation between the old and the new memory/handle. *)
From Coq Require Import Lia Arith.
From LS Require Import Base Utf8 Utf8Spec Utf8Facts Cmd Impl Wp ListFacts Growth Inv InlineFacts Exec.
From LSGen Require Import GenSrc.
Open Scope N_scope.

Definition counted (own : bufid -> N) (r : repr) : Prop := forall b, names r b = true -> 1 <= own b.
Definition adj (own : bufid -> N) (r r' : repr) : bufid -> N :=
  fun b => own b - one (names r b) + one (names r' b).
(* buffers still named by some other handle once r's reference is taken away *)
Definition others (own : bufid -> N) (r : repr) : bufid -> Prop := fun b => 1 <= own b - one (names r b).

Definition exclusive (h : list buf) (r : repr) : Prop :=
  match r with
  | Inline _ => True
  | Heap b _ => exists x, nth_error h b = Some x /\ live x = true /\ count x = 1
  | Static _ _ => False
  end.

(* exclusive, and no handle outside this world either (the sequential case, or after all foreign owners are known to
   be gone): the premise of every "edits in place" clause *)
Definition xcl (m : mem) (r : repr) : Prop := quiet m /\ exclusive (heap m) r.

Record step_ok (m : mem) (own : bufid -> N) (r : repr) (m' : mem) (r' : repr) : Prop := {
  so_env : same_env m m';
  so_mi : MI (heap m') (adj own r r');
  so_h : handle_ok (heap m') (statics m') r';
  so_frame : frame (heap m) (heap m') (others own r);
}.

Lemma names_heap_eq b l b' : names (Heap b l) b' = Nat.eqb b b'. Proof. reflexivity. Qed.
Lemma handle_ok_env h st st' r : st' = st -> handle_ok h st r -> handle_ok h st' r.
Proof. intros ->. auto. Qed.

(* nothing changed *)
Lemma step_ok_refl m own r m' :
  MI (heap m) own -> handle_ok (heap m) (statics m) r -> counted own r ->
  same_env m m' -> heap m' = heap m -> step_ok m own r m' r.
Proof.
  intros HM Hr Hc He Hh. split; auto.
  - rewrite Hh. eapply MI_ext; [exact HM|]. intros b. unfold adj.
    destruct (names r b) eqn:E; cbn [one]; [|lia]. specialize (Hc b E). lia.
  - rewrite Hh. destruct He as (-> & _). exact Hr.
  - rewrite Hh. apply frame_refl.
Qed.
(* only the handle-local part changed (length word / inline bytes), same buffer *)
Lemma step_ok_local m own r r' m' :
  MI (heap m) own -> counted own r -> (forall b, names r' b = names r b) ->
  same_env m m' -> heap m' = heap m -> handle_ok (heap m) (statics m) r' -> step_ok m own r m' r'.
Proof.
  intros HM Hc Hn He Hh Hr'. split; auto.
  - rewrite Hh. eapply MI_ext; [exact HM|]. intros b. unfold adj. rewrite Hn.
    destruct (names r b) eqn:E; cbn [one]; [|lia]. specialize (Hc b E). lia.
  - rewrite Hh. destruct He as (-> & _). exact Hr'.
  - rewrite Hh. apply frame_refl.
Qed.

Lemma text_of_heap m b l x : nth_error (heap m) b = Some x -> text_of m (Heap b l) = firstn (N.to_nat l) (data x).
Proof. intros H. cbn [text_of]. rewrite H. reflexivity. Qed.
Lemma cap_of_heap m b l x : nth_error (heap m) b = Some x -> cap_of m (Heap b l) = cap x.
Proof. intros H. cbn [cap_of]. rewrite H. reflexivity. Qed.

Lemma text_len m r : handle_ok (heap m) (statics m) r -> len (text_of m r) = repr_len r.
Proof.
  destruct r as [bs|b l|s l]; cbn [handle_ok text_of repr_len].
  - intros (H1 & _ & H3). apply inline_text_length; assumption.
  - intros (x & -> & _ & Hl & Hd & _). rewrite len_firstn. lia.
  - intros (t & -> & Hl & _). rewrite len_firstn. lia.
Qed.
Lemma text_valid m r : handle_ok (heap m) (statics m) r -> Valid (text_of m r).
Proof.
  destruct r as [bs|b l|s l]; cbn [handle_ok text_of].
  - intros (_ & H & _). exact H.
  - intros (x & -> & _ & _ & _ & H). exact H.
  - intros (t & -> & _ & _ & H). exact H.
Qed.
Lemma repr_len_le_cap m r : handle_ok (heap m) (statics m) r -> repr_len r <= cap_of m r.
Proof.
  destruct r as [bs|b l|s l]; cbn [handle_ok cap_of repr_len].
  - intros (_ & _ & H). rewrite max_inline_16. apply inline_len_le. exact H.
  - intros (x & -> & _ & Hl & _). exact Hl.
  - intros _. lia.
Qed.
Lemma repr_len_bound m r : handle_ok (heap m) (statics m) r -> MI (heap m) (fun _ => 0) \/ True -> True.
Proof. auto. Qed.

(* ---------- a private copy replaces a shared heap handle ---------- *)
Lemma private_copy_ok m own b l x c m1 m2 :
  MI (heap m) own -> handle_ok (heap m) (statics m) (Heap b l) -> counted own (Heap b l) ->
  nth_error (heap m) b = Some x -> live x = true ->
  l <= c -> c <= MAX_LEN ->
  same_env m m1 -> heap m1 = heap m ++ [mkbuf c (filled c (firstn (N.to_nat l) (data x)))] ->
  same_env m1 m2 -> heap m2 = upd (heap m1) b (released x) ->
  step_ok m own (Heap b l) m2 (Heap (length (heap m)) l)
  /\ text_of m2 (Heap (length (heap m)) l) = firstn (N.to_nat l) (data x)
  /\ exclusive (heap m2) (Heap (length (heap m)) l)
  /\ cap_of m2 (Heap (length (heap m)) l) = c.
Proof.
  intros HM Hr Hc Hb Hl Hlc Hcm He1 Hh1 He2 Hh2.
  destruct Hr as (x0 & Hb0 & _ & Hlx & Hdx & Hv). rewrite Hb in Hb0. injection Hb0 as <-.
  set (t := firstn (N.to_nat l) (data x)) in *.
  assert (Hlt : len t = l) by (unfold t; rewrite len_firstn; lia).
  assert (Hbl : (b < length (heap m))%nat) by (eapply nth_error_lt; eauto).
  set (nb := mkbuf c (filled c t)) in *.
  assert (Hnew : nth_error (heap m2) (length (heap m)) = Some nb).
  { rewrite Hh2, Hh1. rewrite nth_error_upd_ne by lia. apply lookup_last. }
  assert (Hfill : len (filled c t) = c) by (apply len_filled; lia).
  split; [|split; [|split]].
  - split.
    + eapply same_env_trans; eauto.
    + rewrite Hh2, Hh1.
      eapply (MI_release _ (fun b' => own b' + one (Nat.eqb b' (length (heap m))))).
      * eapply MI_new; eauto; try reflexivity. unfold nb, mkbuf, buf_wf. cbn [asize cap data]. auto.
      * apply nth_error_app_l. exact Hb.
      * exact Hl.
      * intros b'. unfold adj. cbn [names]. rewrite (Nat.eqb_sym b' b), (Nat.eqb_sym b' (length (heap m))).
        destruct (Nat.eqb_spec b b') as [<-|Hne]; cbn [one].
        -- specialize (Hc b). cbn [names] in Hc. rewrite Nat.eqb_refl in Hc. specialize (Hc eq_refl).
           destruct (Nat.eqb_spec (length (heap m)) b); cbn [one]; lia.
        -- lia.
    + cbn [handle_ok]. exists nb. rewrite Hnew. unfold nb, mkbuf. cbn [live cap data].
      repeat split; auto. rewrite <- Hlt at 1. rewrite firstn_filled. exact Hv.
    + rewrite Hh2, Hh1. eapply frame_trans; [apply frame_app|].
      apply frame_release; [apply nth_error_app_l; exact Hb|exact Hl|].
      unfold others. cbn [names]. rewrite Nat.eqb_refl. cbn [one]. intros Ho.
      destruct (MI_lookup _ _ _ _ HM Hb Hl) as (_ & Hcx & _). lia.
  - cbn [text_of]. rewrite Hnew. unfold nb, mkbuf. cbn [data]. rewrite <- Hlt at 1. apply firstn_filled.
  - cbn [exclusive]. exists nb. rewrite Hnew. auto.
  - cbn [cap_of]. rewrite Hnew. reflexivity.
Qed.

(* a fresh buffer replaces a handle that owns no buffer (inline or static) *)
Lemma fresh_copy_ok m own r t c m1 :
  MI (heap m) own -> is_heap r = false -> Valid t -> len t <= c -> c <= MAX_LEN ->
  same_env m m1 -> heap m1 = heap m ++ [mkbuf c (filled c t)] ->
  step_ok m own r m1 (Heap (length (heap m)) (len t))
  /\ text_of m1 (Heap (length (heap m)) (len t)) = t
  /\ exclusive (heap m1) (Heap (length (heap m)) (len t))
  /\ cap_of m1 (Heap (length (heap m)) (len t)) = c.
Proof.
  intros HM Hnh Hv Hlc Hcm He Hh.
  set (nb := mkbuf c (filled c t)) in *.
  assert (Hnew : nth_error (heap m1) (length (heap m)) = Some nb) by (rewrite Hh; apply lookup_last).
  assert (Hfill : len (filled c t) = c) by (apply len_filled; lia).
  assert (Hnames : forall b, names r b = false) by (destruct r; cbn in *; auto; discriminate).
  split; [|split; [|split]].
  - split.
    + exact He.
    + rewrite Hh. eapply MI_new; eauto; try reflexivity.
      * unfold nb, mkbuf, buf_wf. cbn [asize cap data]. auto.
      * intros b. unfold adj. rewrite Hnames. cbn [names one]. rewrite (Nat.eqb_sym b). lia.
    + cbn [handle_ok]. exists nb. rewrite Hnew. unfold nb, mkbuf. cbn [live cap data].
      repeat split; auto. rewrite firstn_filled. exact Hv.
    + rewrite Hh. apply frame_app.
  - cbn [text_of]. rewrite Hnew. unfold nb, mkbuf. cbn [data]. apply firstn_filled.
  - cbn [exclusive]. exists nb. rewrite Hnew. auto.
  - cbn [cap_of]. rewrite Hnew. reflexivity.
Qed.

(* ---------- reserve ---------- *)
Record reserve_post (m : mem) (own : bufid -> N) (r : repr) (add : N) (m' : mem) (r' : repr) (ok : bool) : Prop := {
  rp_step : step_ok m own r m' r';
  rp_text : text_of m' r' = text_of m r;
  rp_len : repr_len r' = repr_len r;
  rp_ok : ok = true -> exclusive (heap m') r' /\ repr_len r + add <= cap_of m' r';
  rp_fail : ok = false -> r' = r /\ heap m' = heap m;
  rp_fits : xcl m r -> repr_len r + add <= cap_of m r ->
            ok = true /\ r' = r /\ heap m' = heap m /\ nreq m' = nreq m;
  rp_grow : ok = true ->
            (r' = r /\ heap m' = heap m /\ nreq m' = nreq m)
            \/ (is_heap r' = true /\ cap_of m' r' = amortized_growth (repr_len r) add /\ nreq m' = nreq m + 1)
            \/ (is_static r = true /\ is_heap r' = false /\ is_static r' = false /\ heap m' = heap m /\ nreq m' = nreq m);
}.

Lemma handle_len_bound m own r :
  MI (heap m) own -> handle_ok (heap m) (statics m) r -> repr_len r <= MAX_LEN.
Proof.
  intros HM Hr. destruct r as [bs|b l|s l]; cbn [handle_ok repr_len] in *.
  - destruct Hr as (_ & _ & H). pose proof (inline_len_le bs H). unfold MAX_LEN. lia.
  - destruct Hr as (x & Hb & Hl & Hlc & _). destruct (MI_lookup _ _ _ _ HM Hb Hl) as ((_ & _ & W) & _). lia.
  - destruct Hr as (t & _ & Hl & Hm & _). unfold STATIC_MAX_LENGTH, MAX_LEN in *. lia.
Qed.

Lemma text_of_same m m' r : same_env m m' -> heap m' = heap m -> text_of m' r = text_of m r.
Proof. intros (E & _) Hh. destruct r; cbn [text_of]; rewrite ?Hh, ?E; reflexivity. Qed.
Lemma cap_of_same m m' r : heap m' = heap m -> cap_of m' r = cap_of m r.
Proof. intros Hh. destruct r; cbn [cap_of]; rewrite ?Hh; reflexivity. Qed.

(* the call failed (or had nothing to do): memory and handle unchanged *)
Lemma reserve_post_fail m own r add m' :
  MI (heap m) own -> handle_ok (heap m) (statics m) r -> counted own r ->
  same_env m m' -> heap m' = heap m ->
  ~ (xcl m r /\ repr_len r + add <= cap_of m r) ->
  reserve_post m own r add m' r false.
Proof.
  intros HM Hr Hc He Hh Hno. split.
  - apply step_ok_refl; auto.
  - apply text_of_same; auto.
  - reflexivity.
  - discriminate.
  - intros _. auto.
  - intros H1 H2. exfalso. apply Hno. auto.
  - discriminate.
Qed.
Lemma reserve_post_same m own r add m' :
  MI (heap m) own -> handle_ok (heap m) (statics m) r -> counted own r ->
  same_env m m' -> heap m' = heap m -> nreq m' = nreq m ->
  exclusive (heap m) r -> repr_len r + add <= cap_of m r ->
  reserve_post m own r add m' r true.
Proof.
  intros HM Hr Hc He Hh Hn Hex Hfit. split.
  - apply step_ok_refl; auto.
  - apply text_of_same; auto.
  - reflexivity.
  - intros _. rewrite Hh, (cap_of_same m m') by exact Hh. auto.
  - discriminate.
  - intros _ _. auto.
  - intros _. left. auto.
Qed.

Lemma cap_of_bound m own r : MI (heap m) own -> handle_ok (heap m) (statics m) r -> cap_of m r <= MAX_LEN.
Proof.
  intros HM Hr. destruct r as [bs|b l|s l]; cbn [cap_of handle_ok] in *.
  - rewrite max_inline_16. unfold MAX_LEN. lia.
  - destruct Hr as (x & Hb & Hl & _). rewrite Hb. destruct (MI_lookup _ _ _ _ HM Hb Hl) as ((_ & _ & W) & _). exact W.
  - eapply (handle_len_bound m own (Static s l)); eauto.
Qed.

Lemma reserve_wp m own r add (Q : out (repr * bool) -> mem -> Prop) :
  MI (heap m) own -> handle_ok (heap m) (statics m) r -> counted own r ->
  (forall m' r' ok, reserve_post m own r add m' r' ok -> Q (OVal (r', ok)) m') ->
  wp (reserve r add) Q m.
Proof.
  intros HM Hr Hc HQ.
  pose proof (handle_len_bound m own r HM Hr) as Hlen.
  pose proof (cap_of_bound m own r HM Hr) as Hcapb.
  unfold reserve, checked_add.
  destruct (N.leb_spec (repr_len r + add) USIZE_MAX) as [Hsum|Hsum].
  2:{ (* len + additional overflows usize *)
      apply wp_ret. apply HQ. apply reserve_post_fail; auto.
      intros (_ & Hf). unfold MAX_LEN, USIZE_MAX in *. lia. }
  destruct r as [bs|b l|s l].
  - (* inline *)
    cbn [repr_len] in *. pose proof Hr as Hr0. destruct Hr as (H16 & Hv & Htag).
    unfold cond_reserve_inline_grow. rewrite max_inline_16.
    destruct (N.ltb_spec 16 (inline_len bs + add)) as [Hgrow|Hfit].
    + assert (Hno : ~ (xcl m (Inline bs) /\ repr_len (Inline bs) + add <= cap_of m (Inline bs))).
      { intros (_ & Hf). cbn [cap_of repr_len] in Hf. rewrite max_inline_16 in Hf. lia. }
      apply wp_bind.
      assert (Htl : len (inline_text bs) = inline_len bs) by (apply inline_text_length; auto).
      apply heap_with_additional_wp.
      * rewrite Htl. unfold MAX_LEN, USIZE_MAX in *. lia.
      * intros Hbig. unfold lift. apply wp_ret. apply HQ. apply reserve_post_fail; auto.
      * intros m' He Hh Hn. unfold lift. apply wp_ret. apply HQ. apply reserve_post_fail; auto.
      * intros m' He Hh Hn Hcap. unfold lift. apply wp_ret. rewrite Htl in *.
        assert (G1 : len (inline_text bs) <= amortized_growth (inline_len bs) add).
        { rewrite Htl. apply growth_ge_len. unfold MAX_LEN, USIZE_MAX in *. lia. }
        destruct (fresh_copy_ok m own (Inline bs) (inline_text bs) (amortized_growth (inline_len bs) add) m'
                    HM eq_refl Hv G1 Hcap He Hh) as (S1 & S2 & S3 & S4).
        rewrite Htl in S1, S2, S3, S4. apply HQ. split.
        -- exact S1.
        -- rewrite S2. reflexivity.
        -- reflexivity.
        -- intros _. split; [exact S3|]. rewrite S4. cbn [repr_len]. apply growth_ge_required. exact Hcap.
        -- discriminate.
        -- intros H1 H2. exfalso. apply Hno. auto.
        -- intros _. right. left. cbn [is_heap repr_len]. rewrite S4. auto.
    + apply wp_ret. apply HQ. apply reserve_post_same; auto; try exact I.
      all: cbn [cap_of repr_len]; rewrite max_inline_16; lia.
  - (* heap *)
    cbn [repr_len] in *. pose proof Hr as Hr0. destruct Hr as (x & Hb & Hl & Hlc & Hd & Hv).
    destruct (MI_lookup _ _ _ _ HM Hb Hl) as (Hw & Hcx & Hox).
    assert (Hcapx : cap_of m (Heap b l) = cap x) by (cbn [cap_of]; rewrite Hb; reflexivity).
    apply wp_bind. eapply is_unique_wp; [exact Hb|exact Hl|lia|]. intros m1 u He1 Hh1 Hn1 Hu1 Huq. unfold lift.
    assert (Hb1 : nth_error (heap m1) b = Some x) by (rewrite Hh1; exact Hb).
    destruct u; [assert (Hu : count x = 1) by (apply Hu1; reflexivity)|].
    + (* unique *)
      assert (Hex : exclusive (heap m) (Heap b l)) by (exists x; auto).
      apply wp_bind. eapply hdr_cap_wp; [exact Hb1|exact Hl|]. unfold lift.
      unfold cond_reserve_enough. destruct (N.leb_spec (l + add) (cap x)) as [Hfit|Hgrow].
      * apply wp_ret. apply HQ. apply reserve_post_same; auto. rewrite Hcapx. exact Hfit.
      * assert (Hno : ~ (xcl m (Heap b l) /\ repr_len (Heap b l) + add <= cap_of m (Heap b l))).
        { intros (_ & Hf). rewrite Hcapx in Hf. cbn [repr_len] in Hf. lia. }
        apply wp_bind. eapply heap_realloc_wp; [exact Hb1|exact Hl|exact Hw| | |].
        -- intros Hbig. unfold lift. apply wp_ret. apply HQ. apply reserve_post_fail; auto.
        -- intros m2 He2 Hh2 Hn2. unfold lift. apply wp_ret. apply HQ. apply reserve_post_fail; auto.
           ++ eapply same_env_trans; eauto.
           ++ congruence.
        -- intros m2 He2 Hh2 Hn2 Hnc. unfold lift. apply wp_ret.
           set (nc := amortized_growth l add) in *.
           assert (Hge : l <= nc) by (apply growth_ge_len; unfold MAX_LEN, USIZE_MAX in *; lia).
           assert (Hlt : (b < length (heap m))%nat) by (eapply nth_error_lt; eauto).
           assert (Hb2 : nth_error (heap m2) b = Some (resized x nc)).
           { rewrite Hh2, Hh1. apply nth_error_upd_eq. exact Hlt. }
           destruct Hw as (W1 & W2 & W3).
           apply HQ. split.
           ++ split.
              ** eapply same_env_trans; eauto.
              ** rewrite Hh2, Hh1. eapply MI_upd; [exact HM|exact Hb| |].
                 --- unfold resized. cbn [live]. unfold buf_wf, adj. cbn [asize cap data count names].
                     rewrite Nat.eqb_refl. cbn [one]. rewrite len_resize. repeat split; auto; lia.
                 --- intros b' Hne. unfold adj. cbn [names]. apply Nat.eqb_neq in Hne. rewrite Nat.eqb_sym, Hne.
                     cbn [one]. lia.
              ** cbn [handle_ok]. exists (resized x nc). rewrite Hb2. unfold resized. cbn [live cap data].
                 rewrite len_resize. repeat split; auto; try lia.
                 rewrite firstn_resize; [exact Hv|lia|unfold len in *; lia].
              ** rewrite Hh2, Hh1. apply frame_upd. unfold others. cbn [names]. intros b' Ho ->.
                 rewrite Nat.eqb_refl in Ho. cbn [one] in Ho. lia.
           ++ cbn [text_of]. rewrite Hb2, Hb. unfold resized. cbn [data].
              apply firstn_resize; [lia|unfold len in *; lia].
           ++ reflexivity.
           ++ intros _. cbn [exclusive cap_of]. rewrite Hb2. split; [exists (resized x nc); auto|].
              unfold resized. cbn [cap]. apply growth_ge_required. exact Hnc.
           ++ discriminate.
           ++ intros H1 H2. exfalso. apply Hno. auto.
           ++ intros _. right. left. cbn [is_heap cap_of]. rewrite Hb2. repeat split; auto. congruence.
    + (* shared: copy out, then release *)
      assert (Hno : ~ (xcl m (Heap b l) /\ repr_len (Heap b l) + add <= cap_of m (Heap b l))).
      { intros ((Hq & y & Hy & _ & Hy1) & _). rewrite Hb in Hy. injection Hy as <-.
        specialize (Huq Hq). rewrite Hy1 in Huq. discriminate. }
      apply wp_bind. eapply read_heap_wp; [exact Hb1|exact Hl|lia|]. intros m2 He2 Hh2 Hn2. unfold lift.
      change (N.to_nat 0) with 0%nat. rewrite slice_0.
      set (t := firstn (N.to_nat l) (data x)) in *.
      assert (Hlt : len t = l) by (unfold t; rewrite len_firstn; lia).
      assert (He12 : same_env m m2) by (eapply same_env_trans; eauto).
      assert (Hh12 : heap m2 = heap m) by congruence.
      apply wp_bind. apply heap_with_additional_wp.
      * rewrite Hlt. unfold MAX_LEN, USIZE_MAX in *. lia.
      * intros Hbig. unfold lift. apply wp_ret. apply HQ. apply reserve_post_fail; auto.
      * intros m3 He3 Hh3 Hn3. unfold lift. apply wp_ret. apply HQ. apply reserve_post_fail; auto.
        -- eapply same_env_trans; eauto.
        -- congruence.
      * intros m3 He3 Hh3 Hn3 Hcap. unfold lift. rewrite Hlt in *.
        apply wp_bind. eapply replace_inner_heap_wp.
        { rewrite Hh3, Hh12. apply nth_error_app_l. exact Hb. }
        { exact Hl. } { exact Hw. } { lia. }
        intros m4 He4 Hh4 Hn4. unfold lift. apply wp_ret.
        rewrite Hh12.
        assert (G1 : l <= amortized_growth l add) by (apply growth_ge_len; unfold MAX_LEN, USIZE_MAX in *; lia).
        assert (G2 : same_env m m3) by (eapply same_env_trans; eauto).
        assert (G3 : heap m3 = heap m ++ [mkbuf (amortized_growth l add) (filled (amortized_growth l add) (firstn (N.to_nat l) (data x)))]).
        { rewrite Hh3, Hh12. reflexivity. }
        destruct (private_copy_ok m own b l x (amortized_growth l add) m3 m4 HM Hr0 Hc Hb Hl G1 Hcap G2 G3 He4 Hh4)
          as (S1 & S2 & S3 & S4).
        apply HQ. split.
        -- exact S1.
        -- rewrite S2. cbn [text_of]. rewrite Hb. reflexivity.
        -- reflexivity.
        -- intros _. split; [exact S3|]. rewrite S4. apply growth_ge_required. exact Hcap.
        -- discriminate.
        -- intros H1 H2. exfalso. apply Hno. auto.
        -- intros _. right. left. cbn [is_heap]. rewrite S4. repeat split; auto. lia.
  - (* static *)
    cbn [repr_len] in *. pose proof Hr as Hr0. destruct Hr as (t0 & Hs & Hl & Hmax & Hv).
    assert (Hno : ~ (xcl m (Static s l) /\ repr_len (Static s l) + add <= cap_of m (Static s l))).
    { intros ((_ & Hex) & _). exact Hex. }
    apply wp_bind. eapply read_static_wp; [exact Hs|lia|]. intros m1 He1 Hh1 Hn1. unfold lift.
    change (N.to_nat 0) with 0%nat. rewrite slice_0.
    set (t := firstn (N.to_nat l) t0) in *.
    assert (Hlt : len t = l) by (unfold t; rewrite len_firstn; lia).
    unfold cond_reserve_static_inline. rewrite max_inline_16.
    destruct (N.leb_spec (l + add) 16) as [Hsmall|Hbig].
    + apply wp_ret. apply HQ.
      assert (Hl16 : (length t <= 16)%nat) by (unfold len in Hlt; lia).
      split.
      * split; auto.
        -- rewrite Hh1. eapply MI_ext; [exact HM|]. intros b. unfold adj. cbn [names one]. lia.
        -- cbn [handle_ok]. split; [apply inline_new_length; exact Hl16|].
           split; [rewrite inline_new_text; auto|apply inline_new_lastbyte; auto].
        -- rewrite Hh1. apply frame_refl.
      * cbn [text_of]. rewrite Hs. apply inline_new_text; auto.
      * cbn [repr_len]. rewrite <- inline_text_length.
        -- rewrite inline_new_text; auto.
        -- apply inline_new_length; exact Hl16.
        -- apply inline_new_lastbyte; auto.
      * intros _. cbn [exclusive cap_of]. rewrite max_inline_16. split; [exact I|exact Hsmall].
      * discriminate.
      * intros H1 H2. exfalso. apply Hno. auto.
      * intros _. right. right. cbn [is_static is_heap]. repeat split; auto.
    + apply wp_bind. apply heap_with_additional_wp.
      * rewrite Hlt. unfold MAX_LEN, USIZE_MAX in *. lia.
      * intros Hb. unfold lift. apply wp_ret. apply HQ. apply reserve_post_fail; auto.
      * intros m2 He2 Hh2 Hn2. unfold lift. apply wp_ret. apply HQ. apply reserve_post_fail; auto.
        -- eapply same_env_trans; eauto.
        -- congruence.
      * intros m2 He2 Hh2 Hn2 Hcap. unfold lift. apply wp_ret. rewrite Hlt in *.
        rewrite Hh1.
        assert (G1 : len t <= amortized_growth l add).
        { rewrite Hlt. apply growth_ge_len. unfold MAX_LEN, USIZE_MAX in *. lia. }
        assert (G2 : same_env m m2) by (eapply same_env_trans; eauto).
        assert (G3 : heap m2 = heap m ++ [mkbuf (amortized_growth l add) (filled (amortized_growth l add) t)]).
        { rewrite Hh2, Hh1. reflexivity. }
        destruct (fresh_copy_ok m own (Static s l) t (amortized_growth l add) m2 HM eq_refl Hv G1 Hcap G2 G3)
          as (S1 & S2 & S3 & S4).
        rewrite Hlt in S1, S2, S3, S4. apply HQ. split.
        -- exact S1.
        -- rewrite S2. cbn [text_of]. rewrite Hs. reflexivity.
        -- reflexivity.
        -- intros _. split; [exact S3|]. rewrite S4. apply growth_ge_required. exact Hcap.
        -- discriminate.
        -- intros H1 H2. exfalso. apply Hno. auto.
        -- intros _. right. left. cbn [is_heap]. rewrite S4. repeat split; auto. lia.
Qed.

(* ---------- ensure_modifiable ---------- *)
Record modifiable_post (m : mem) (own : bufid -> N) (r : repr) (m' : mem) (r' : repr) (ok : bool) : Prop := {
  mp_step : step_ok m own r m' r';
  mp_text : text_of m' r' = text_of m r;
  mp_len : repr_len r' = repr_len r;
  mp_ok : ok = true -> exclusive (heap m') r';
  mp_fail : ok = false -> r' = r /\ heap m' = heap m;
  mp_same : xcl m r -> ok = true /\ r' = r /\ heap m' = heap m /\ nreq m' = nreq m;
}.

Lemma filled_exact c t : len t = c -> filled c t = t.
Proof. intros <-. unfold filled. rewrite N.sub_diag. unfold poison. change (N.to_nat 0) with 0%nat. cbn [repeat]. apply app_nil_r. Qed.

Lemma modifiable_post_fail m own r m' :
  MI (heap m) own -> handle_ok (heap m) (statics m) r -> counted own r ->
  same_env m m' -> heap m' = heap m -> ~ xcl m r ->
  modifiable_post m own r m' r false.
Proof.
  intros HM Hr Hc He Hh Hno. split.
  - apply step_ok_refl; auto.
  - apply text_of_same; auto.
  - reflexivity.
  - discriminate.
  - auto.
  - intros H. contradiction.
Qed.
Lemma modifiable_post_same m own r m' :
  MI (heap m) own -> handle_ok (heap m) (statics m) r -> counted own r ->
  same_env m m' -> heap m' = heap m -> nreq m' = nreq m -> exclusive (heap m) r ->
  modifiable_post m own r m' r true.
Proof.
  intros HM Hr Hc He Hh Hn Hex. split.
  - apply step_ok_refl; auto.
  - apply text_of_same; auto.
  - reflexivity.
  - intros _. rewrite Hh. exact Hex.
  - discriminate.
  - auto.
Qed.

Lemma ensure_modifiable_wp m own r (Q : out (repr * bool) -> mem -> Prop) :
  MI (heap m) own -> handle_ok (heap m) (statics m) r -> counted own r ->
  (forall m' r' ok, modifiable_post m own r m' r' ok -> Q (OVal (r', ok)) m') ->
  wp (ensure_modifiable r) Q m.
Proof.
  intros HM Hr Hc HQ.
  pose proof (handle_len_bound m own r HM Hr) as Hlen.
  unfold ensure_modifiable. destruct r as [bs|b l|s l].
  - apply wp_ret. apply HQ. apply modifiable_post_same; auto. exact I.
  - cbn [repr_len] in *. pose proof Hr as Hr0. destruct Hr as (x & Hb & Hl & Hlc & Hd & Hv).
    destruct (MI_lookup _ _ _ _ HM Hb Hl) as (Hw & Hcx & Hox).
    apply wp_bind. eapply is_unique_wp; [exact Hb|exact Hl|lia|]. intros m1 u He1 Hh1 Hn1 Hu1 Huq. unfold lift.
    assert (Hb1 : nth_error (heap m1) b = Some x) by (rewrite Hh1; exact Hb).
    destruct u; [assert (Hu : count x = 1) by (apply Hu1; reflexivity)|].
    + apply wp_ret. apply HQ. apply modifiable_post_same; auto. exists x. auto.
    + assert (Hno : ~ xcl m (Heap b l)).
      { intros (Hq & y & Hy & _ & Hy1). rewrite Hb in Hy. injection Hy as <-.
        specialize (Huq Hq). rewrite Hy1 in Huq. discriminate. }
      apply wp_bind. eapply read_heap_wp; [exact Hb1|exact Hl|lia|]. intros m2 He2 Hh2 Hn2. unfold lift.
      change (N.to_nat 0) with 0%nat. rewrite slice_0.
      set (t := firstn (N.to_nat l) (data x)) in *.
      assert (Hlt : len t = l) by (unfold t; rewrite len_firstn; lia).
      assert (He12 : same_env m m2) by (eapply same_env_trans; eauto).
      assert (Hh12 : heap m2 = heap m) by congruence.
      apply wp_bind. apply heap_new_wp.
      * intros Hbig. lia.
      * intros m3 He3 Hh3 Hn3. unfold lift. apply wp_ret. apply HQ. apply modifiable_post_fail; auto.
        -- eapply same_env_trans; eauto.
        -- congruence.
      * intros m3 He3 Hh3 Hn3. unfold lift. rewrite Hlt in *.
        apply wp_bind. eapply replace_inner_heap_wp.
        { rewrite Hh3, Hh12. apply nth_error_app_l. exact Hb. }
        { exact Hl. } { exact Hw. } { lia. }
        intros m4 He4 Hh4 Hn4. unfold lift. apply wp_ret. rewrite Hh12.
        assert (G1 : l <= l) by lia.
        assert (G2 : same_env m m3) by (eapply same_env_trans; eauto).
        assert (G3 : heap m3 = heap m ++ [mkbuf l (filled l (firstn (N.to_nat l) (data x)))]).
        { rewrite Hh3, Hh12. fold t. rewrite (filled_exact l t Hlt). reflexivity. }
        destruct (private_copy_ok m own b l x l m3 m4 HM Hr0 Hc Hb Hl G1 Hlen G2 G3 He4 Hh4) as (S1 & S2 & S3 & S4).
        apply HQ. split.
        -- exact S1.
        -- rewrite S2. cbn [text_of]. rewrite Hb. reflexivity.
        -- reflexivity.
        -- intros _. exact S3.
        -- discriminate.
        -- intros H. contradiction.
  - cbn [repr_len] in *. pose proof Hr as Hr0. destruct Hr as (t0 & Hs & Hl & Hmax & Hv).
    assert (Hno : ~ xcl m (Static s l)) by (intros (_ & H); exact H).
    apply wp_bind. eapply read_static_wp; [exact Hs|lia|]. intros m1 He1 Hh1 Hn1. unfold lift.
    change (N.to_nat 0) with 0%nat. rewrite slice_0.
    set (t := firstn (N.to_nat l) t0) in *.
    assert (Hlt : len t = l) by (unfold t; rewrite len_firstn; lia).
    apply wp_bind. unfold from_str, cond_from_str_inline. rewrite max_inline_16.
    destruct (N.leb_spec (len t) 16) as [Hsmall|Hbig].
    + apply wp_ret. unfold lift. apply wp_bind. apply replace_inner_other_wp; [reflexivity|]. unfold lift. apply wp_ret.
      assert (Hl16 : (length t <= 16)%nat) by (unfold len in Hsmall; lia).
      apply HQ. split.
      * split; auto.
        -- rewrite Hh1. eapply MI_ext; [exact HM|]. intros b. unfold adj. cbn [names one]. lia.
        -- cbn [handle_ok]. split; [apply inline_new_length; exact Hl16|].
           split; [rewrite inline_new_text; auto|apply inline_new_lastbyte; auto].
        -- rewrite Hh1. apply frame_refl.
      * cbn [text_of]. rewrite Hs. apply inline_new_text; auto.
      * cbn [repr_len]. rewrite <- inline_text_length.
        -- rewrite inline_new_text; auto.
        -- apply inline_new_length; exact Hl16.
        -- apply inline_new_lastbyte; auto.
      * intros _. exact I.
      * discriminate.
      * intros H. contradiction.
    + apply heap_new_wp.
      * intros Hb. lia.
      * intros m2 He2 Hh2 Hn2. unfold lift. apply wp_ret. apply HQ. apply modifiable_post_fail; auto.
        -- eapply same_env_trans; eauto.
        -- congruence.
      * intros m2 He2 Hh2 Hn2. unfold lift. apply wp_bind. apply replace_inner_other_wp; [reflexivity|].
        unfold lift. apply wp_ret. rewrite Hh1.
        assert (G1 : len t <= len t) by lia.
        assert (G0 : len t <= MAX_LEN) by lia.
        assert (G2 : same_env m m2) by (eapply same_env_trans; eauto).
        assert (G3 : heap m2 = heap m ++ [mkbuf (len t) (filled (len t) t)]).
        { rewrite Hh2, Hh1. rewrite (filled_exact (len t) t eq_refl). reflexivity. }
        destruct (fresh_copy_ok m own (Static s l) t (len t) m2 HM eq_refl Hv G1 G0 G2 G3) as (S1 & S2 & S3 & S4).
        rewrite Hlt in S1, S2, S3, S4. rewrite Hlt. apply HQ. split.
        -- exact S1.
        -- rewrite S2. cbn [text_of]. rewrite Hs. reflexivity.
        -- reflexivity.
        -- intros _. exact S3.
        -- discriminate.
        -- intros H. contradiction.
Qed.
