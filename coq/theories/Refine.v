(* Refine.v — every operation of Exec preserves WF, never reaches UB, leaves the other slots alone and,
   unless it reports an allocation failure, does to the texts exactly what Spec (String) does. *)
From Coq Require Import Lia Arith ZArith.
From LS Require Import Base Utf8 Utf8Spec Utf8Facts Cmd Impl Wp ListFacts Growth Inv InlineFacts NumModel Num Exec
     Specs Specs2 SpecsRetain SpecsShrink Specs3 WF Spec.
From LSGen Require Import GenSrc.
Open Scope N_scope.

(* ---------- abs and slot updates ---------- *)
Lemma abs_length w : length (abs w) = length (pool w).
Proof. unfold abs. apply map_length. Qed.
Lemma sget_abs w i : sget (abs w) i = option_map (text_of (wmem w)) (get_slot w i).
Proof.
  unfold sget, get_slot, abs. rewrite nth_error_map. destruct (nth_error (pool w) i) as [[r|]|]; reflexivity.
Qed.
Lemma map_upd {A B} (f : A -> B) l i x : map f (upd l i x) = upd (map f l) i (f x).
Proof. revert i; induction l as [|y l IH]; intros [|i]; cbn; auto. f_equal. apply IH. Qed.
Lemma map_ext_nth {A B} (f g : A -> B) l :
  (forall i x, nth_error l i = Some x -> f x = g x) -> map f l = map g l.
Proof.
  induction l as [|y l IH]; intros H; cbn [map]; [reflexivity|]. f_equal.
  - apply (H 0%nat y). reflexivity.
  - apply IH. intros i x Hi. apply (H (S i) x). exact Hi.
Qed.

(* the other slots read the same in m' *)
Definition others_same (w : world) (i : nat) (m' : mem) : Prop :=
  forall j rj, j <> i -> nth_error (pool w) j = Some (Some rj) ->
               text_of m' rj = text_of (wmem w) rj /\ cap_of m' rj = cap_of (wmem w) rj.
Definition all_same (w : world) (m' : mem) : Prop :=
  forall j rj, nth_error (pool w) j = Some (Some rj) ->
               text_of m' rj = text_of (wmem w) rj /\ cap_of m' rj = cap_of (wmem w) rj.

Lemma upd_map_agree {A B} (f g : A -> B) p i y :
  (forall j x, j <> i -> nth_error p j = Some x -> f x = g x) -> upd (map f p) i y = upd (map g p) i y.
Proof.
  revert i; induction p as [|z p IH]; intros [|i] H; cbn [map upd]; try reflexivity.
  - f_equal. apply map_ext_nth. intros j x Hj. apply (H (S j) x); [lia|exact Hj].
  - f_equal; [apply (H 0%nat z); [lia|reflexivity]|]. apply IH. intros j x Hne Hj. apply (H (S j) x); [lia|exact Hj].
Qed.

Lemma abs_set_slot w i m' s :
  others_same w i m' -> abs (set_slot w m' i s) = upd (abs w) i (option_map (text_of m') s).
Proof.
  intros Ho. unfold abs. cbn [set_slot pool wmem]. rewrite map_upd. apply upd_map_agree.
  intros j [rj|] Hne Hj; cbn [option_map]; [|reflexivity]. f_equal. apply (Ho j rj Hne Hj).
Qed.
Lemma abs_append_slot w m' s :
  all_same w m' -> abs (append_slot w m' s) = abs w ++ [option_map (text_of m') s].
Proof.
  intros Ha. unfold abs. cbn [append_slot pool wmem]. rewrite map_app. cbn [map]. f_equal.
  apply map_ext_nth. intros j [rj|] Hj; cbn [option_map]; [|reflexivity]. f_equal. apply (Ha j rj Hj).
Qed.
Lemma abs_same_pool w m' :
  all_same w m' -> abs {| pool := pool w; wmem := m' |} = abs w.
Proof.
  intros Ha. unfold abs. cbn [pool wmem]. apply map_ext_nth.
  intros j [rj|] Hj; cbn [option_map]; [|reflexivity]. f_equal. apply (Ha j rj Hj).
Qed.

(* ---------- generic soundness of an in-place operation ---------- *)
Definition ok_out {A} (o : out A) : Prop := match o with OVal _ => True | OUb _ => False end.

Lemma exec_on_sound w i (f : repr -> cmd (repr * outcome)) (P : repr -> mem -> repr -> outcome -> Prop) :
  WF w ->
  (forall r, nth_error (pool w) i = Some (Some r) ->
     wp (f r) (fun o m' => exists r' out, o = OVal (r', out)
                            /\ step_ok (wmem w) (refs (pool w)) r m' r' /\ P r m' r' out) (wmem w)) ->
  forall w' out, exec_on w i f = (w', out) ->
  (get_slot w i = None /\ w' = w /\ out = Skip)
  \/ (exists r r', nth_error (pool w) i = Some (Some r) /\ w' = set_slot w (wmem w') i (Some r')
                   /\ P r (wmem w') r' out /\ WF w' /\ others_same w i (wmem w')
                   /\ statics (wmem w') = statics (wmem w)
                   /\ step_ok (wmem w) (refs (pool w)) r (wmem w') r').
Proof.
  intros HW Hf w' out He. unfold exec_on in He. destruct (get_slot w i) as [r|] eqn:Hg.
  - right. apply get_slot_nth in Hg. specialize (Hf r Hg). apply wp_run in Hf.
    destruct (run (f r) (wmem w)) as [[[r' o]|u] m'] eqn:Hrun; cbn [fst snd] in Hf.
    + destruct Hf as (r'' & out' & E & Hs & HP). injection E as <- <-. injection He as <- <-.
      destruct (wf_set_slot w i r m' r' HW Hg Hs) as (HW' & Hoth).
      exists r, r'. cbn [set_slot wmem].
      split; [exact Hg|]. split; [reflexivity|]. split; [exact HP|]. split; [exact HW'|]. split; [|split].
      * intros j rj Hne Hj. apply (Hoth j rj Hne Hj).
      * destruct Hs as [(E1 & _) _ _ _]. exact E1.
      * exact Hs.
    + destruct Hf as (r'' & out' & E & _). discriminate.
  - left. injection He as <- <-. auto.
Qed.

(* what refinement of an in-place operation needs from the function's postcondition *)
Lemma son_refines w i m' r r' (fs : list N -> list N * outcome) out :
  nth_error (pool w) i = Some (Some r) -> others_same w i m' ->
  (text_of m' r', out) = fs (text_of (wmem w) r) ->
  (abs (set_slot w m' i (Some r')), out) = son (abs w) i fs.
Proof.
  intros Hi Ho E. unfold son. rewrite sget_abs. apply get_slot_nth in Hi. rewrite Hi. cbn [option_map].
  rewrite <- E. rewrite abs_set_slot by exact Ho. reflexivity.
Qed.

(* ---------- per-operation lemmas: the function's postcondition, lifted to the pool ---------- *)
(* shape of the conclusion for an in-place op whose function-level postcondition is [P r m' r' x] and whose
   outcome is [mk x] *)
Definition on_result (w : world) (i : nat) (w' : world) (out : outcome)
           (P : repr -> mem -> repr -> outcome -> Prop) : Prop :=
  (get_slot w i = None /\ w' = w /\ out = Skip)
  \/ (exists r r', nth_error (pool w) i = Some (Some r) /\ w' = set_slot w (wmem w') i (Some r')
                   /\ P r (wmem w') r' out /\ WF w' /\ others_same w i (wmem w')
                   /\ statics (wmem w') = statics (wmem w)
                   /\ step_ok (wmem w) (refs (pool w)) r (wmem w') r').

Ltac start_on HW :=
  eapply exec_on_sound; [exact HW|];
  let r := fresh "r" in let Hi := fresh "Hi" in
  intros r Hi;
  pose proof (wf_mi _ HW) as HM; pose proof (wf_handles _ HW _ _ Hi) as Hr; pose proof (counted_refs _ _ _ Hi) as Hc.

Lemma op_push_str w m i s w' out :
  WF w -> Valid s -> exec w (OPushStr m i s) = (w', out) ->
  on_result w i w' out (fun r m' r' o => exists ok, push_post (wmem w) (refs (pool w)) r s m' r' ok /\ o = fin m ok).
Proof.
  intros HW Hv He. cbn [exec] in He. revert w' out He. start_on HW.
  apply wp_bind. apply (push_str_wp (wmem w) (refs (pool w))); auto. intros m' r' ok HP. unfold lift. apply wp_ret.
  exists r', (fin m ok). split; [reflexivity|]. split; [exact (pp_step _ _ _ _ _ _ _ HP)|]. exists ok. auto.
Qed.
Lemma op_push w m i c w' out :
  WF w -> is_scalar c = true -> exec w (OPush m i c) = (w', out) ->
  on_result w i w' out (fun r m' r' o => exists ok, push_post (wmem w) (refs (pool w)) r (encode_cp c) m' r' ok /\ o = fin m ok).
Proof.
  intros HW Hv He. cbn [exec] in He. revert w' out He. start_on HW.
  apply wp_bind. apply (push_str_wp (wmem w) (refs (pool w))); auto. { apply valid_char. apply encode_cp_ok. exact Hv. }
  intros m' r' ok HP. unfold lift. apply wp_ret.
  exists r', (fin m ok). split; [reflexivity|]. split; [exact (pp_step _ _ _ _ _ _ _ HP)|]. exists ok. auto.
Qed.
Lemma op_pop w m i w' out :
  WF w -> exec w (OPop m i) = (w', out) ->
  on_result w i w' out (fun r m' r' o => exists res, pop_post (wmem w) (refs (pool w)) r m' r' res
                                          /\ o = match res with Some c => OkChar c | None => OkNone end).
Proof.
  intros HW He. cbn [exec] in He. revert w' out He. start_on HW.
  apply wp_bind. apply (pop_wp (wmem w) (refs (pool w))); auto. intros m' r' res HP. unfold lift. apply wp_ret.
  eexists r', _. split; [reflexivity|]. split; [exact (po_step _ _ _ _ _ _ HP)|]. exists res. auto.
Qed.
Lemma op_remove w m i idx w' out :
  WF w -> exec w (ORemove m i idx) = (w', out) ->
  on_result w i w' out (fun r m' r' o => exists res, remove_post (wmem w) (refs (pool w)) r idx m' r' res
                                          /\ o = fin_res m res OkChar).
Proof.
  intros HW He. cbn [exec] in He. revert w' out He. start_on HW.
  apply wp_bind. apply (remove_wp (wmem w) (refs (pool w))); auto. intros m' r' res HP. unfold lift. apply wp_ret.
  eexists r', _. split; [reflexivity|]. split; [exact (rm_step _ _ _ _ _ _ _ HP)|]. exists res. auto.
Qed.
Lemma op_insert_str w m i idx s w' out :
  WF w -> Valid s -> exec w (OInsertStr m i idx s) = (w', out) ->
  on_result w i w' out (fun r m' r' o => exists res, insert_post (wmem w) (refs (pool w)) r idx s m' r' res
                                          /\ o = fin_res m res (fun _ => OkUnit)).
Proof.
  intros HW Hv He. cbn [exec] in He. revert w' out He. start_on HW.
  apply wp_bind. apply (insert_str_wp (wmem w) (refs (pool w))); auto. intros m' r' res HP. unfold lift. apply wp_ret.
  eexists r', _. split; [reflexivity|]. split; [exact (ip_step _ _ _ _ _ _ _ _ HP)|]. exists res. auto.
Qed.
Lemma op_insert w m i idx c w' out :
  WF w -> is_scalar c = true -> exec w (OInsert m i idx c) = (w', out) ->
  on_result w i w' out (fun r m' r' o => exists res, insert_post (wmem w) (refs (pool w)) r idx (encode_cp c) m' r' res
                                          /\ o = fin_res m res (fun _ => OkUnit)).
Proof.
  intros HW Hv He. cbn [exec] in He. revert w' out He. start_on HW.
  apply wp_bind. apply (insert_str_wp (wmem w) (refs (pool w))); auto. { apply valid_char. apply encode_cp_ok. exact Hv. }
  intros m' r' res HP. unfold lift. apply wp_ret.
  eexists r', _. split; [reflexivity|]. split; [exact (ip_step _ _ _ _ _ _ _ _ HP)|]. exists res. auto.
Qed.
Lemma op_truncate w m i n w' out :
  WF w -> exec w (OTruncate m i n) = (w', out) ->
  on_result w i w' out (fun r m' r' o => exists res, truncate_post (wmem w) (refs (pool w)) r n m' r' res
                                          /\ o = fin_res m res (fun _ => OkUnit)).
Proof.
  intros HW He. cbn [exec] in He. revert w' out He. start_on HW.
  apply wp_bind. apply (truncate_wp (wmem w) (refs (pool w))); auto. intros m' r' res HP. unfold lift. apply wp_ret.
  eexists r', _. split; [reflexivity|]. split; [exact (tr_step _ _ _ _ _ _ _ HP)|]. exists res. auto.
Qed.
Lemma op_clear w i w' out :
  WF w -> exec w (OClear i) = (w', out) ->
  on_result w i w' out (fun r m' r' o => clear_post (wmem w) (refs (pool w)) r m' r' /\ o = OkUnit).
Proof.
  intros HW He. cbn [exec] in He. revert w' out He. start_on HW.
  apply wp_bind. apply (clear_wp (wmem w) (refs (pool w))); auto. intros m' r' HP. unfold lift. apply wp_ret.
  eexists r', _. split; [reflexivity|]. split; [exact (cl_step _ _ _ _ _ HP)|]. auto.
Qed.
Lemma op_retain w m i pa bits w' out :
  WF w -> exec w (ORetain m i pa bits) = (w', out) ->
  on_result w i w' out (fun r m' r' o => exists res, retain_post (wmem w) (refs (pool w)) r (retain_pred pa bits) m' r' res
                                          /\ o = fin_res m res (fun _ => OkUnit)).
Proof.
  intros HW He. cbn [exec] in He. revert w' out He. start_on HW.
  apply wp_bind. apply (retain_wp (wmem w) (refs (pool w))); auto. intros m' r' res HP. unfold lift. apply wp_ret.
  eexists r', _. split; [reflexivity|]. split; [exact (rt_step _ _ _ _ _ _ _ HP)|]. exists res. auto.
Qed.
Lemma op_reserve w m i n w' out :
  WF w -> exec w (OReserve m i n) = (w', out) ->
  on_result w i w' out (fun r m' r' o => exists ok, reserve_post (wmem w) (refs (pool w)) r n m' r' ok /\ o = fin m ok).
Proof.
  intros HW He. cbn [exec] in He. revert w' out He. start_on HW.
  apply wp_bind. apply (reserve_wp (wmem w) (refs (pool w))); auto. intros m' r' ok HP. unfold lift. apply wp_ret.
  eexists r', _. split; [reflexivity|]. split; [exact (rp_step _ _ _ _ _ _ _ HP)|]. exists ok. auto.
Qed.
Lemma op_shrink_to w m i n w' out :
  WF w -> exec w (OShrinkTo m i n) = (w', out) ->
  on_result w i w' out (fun r m' r' o => exists ok, shrink_post (wmem w) (refs (pool w)) r n m' r' ok /\ o = fin m ok).
Proof.
  intros HW He. cbn [exec] in He. revert w' out He. start_on HW.
  apply wp_bind. apply (shrink_to_wp (wmem w) (refs (pool w))); auto. intros m' r' ok HP. unfold lift. apply wp_ret.
  eexists r', _. split; [reflexivity|]. split; [exact (sh_step _ _ _ _ _ _ _ HP)|]. exists ok. auto.
Qed.
Lemma op_write_fmt w i ea pa ps w' out :
  WF w -> Forall Valid ps -> exec w (OWriteFmt i ea pa ps) = (w', out) ->
  on_result w i w' out (fun r m' r' o => pieces_post (wmem w) (refs (pool w)) r ps 0 ea pa m' r' o).
Proof.
  intros HW Hv He. cbn [exec] in He. revert w' out He. start_on HW.
  apply (write_pieces_wp _ (wmem w) (refs (pool w))); auto. intros m' r' o HP.
  eexists r', _. split; [reflexivity|]. split; [exact (pc_step _ _ _ _ _ _ _ _ _ _ HP)|]. exact HP.
Qed.
Lemma op_extend_strs w i pa ss w' out :
  WF w -> Forall Valid ss -> exec w (OExtendStrs i pa ss) = (w', out) ->
  on_result w i w' out (fun r m' r' o => pieces_post (wmem w) (refs (pool w)) r ss 0 None pa m' r' o).
Proof.
  intros HW Hv He. cbn [exec] in He. revert w' out He. start_on HW.
  unfold push_strs. apply (write_pieces_wp _ (wmem w) (refs (pool w))); auto. intros m' r' o HP.
  eexists r', _. split; [reflexivity|]. split; [exact (pc_step _ _ _ _ _ _ _ _ _ _ HP)|]. exact HP.
Qed.

(* ---------- extend_chars: reserve(hint) ignoring the result, then the push loop ---------- *)
Lemma pieces_after_reserve m own r add m1 r1 ok ps k ea pa m' r' out :
  reserve_post m own r add m1 r1 ok ->
  pieces_post m1 (adj own r r1) r1 ps k ea pa m' r' out ->
  pieces_post m own r ps k ea pa m' r' out.
Proof.
  intros [P1 P2 _ _ _ _ _] [R1 R2 R3]. rewrite P2 in R2, R3. split.
  - eapply step_ok_trans; eauto.
  - exact R2.
  - exact R3.
Qed.
Lemma Forall_valid_encode cs : Forall (fun c => is_scalar c = true) cs -> Forall Valid (map encode_cp cs).
Proof.
  induction 1 as [|c cs Hc _ IH]; cbn [map]; constructor; auto. apply valid_char. apply encode_cp_ok. exact Hc.
Qed.
Lemma op_extend_chars w i hint pa cs w' out :
  WF w -> Forall (fun c => is_scalar c = true) cs -> exec w (OExtendChars i hint pa cs) = (w', out) ->
  on_result w i w' out (fun r m' r' o => pieces_post (wmem w) (refs (pool w)) r (map encode_cp cs) 0 None pa m' r' o).
Proof.
  intros HW Hv He. cbn [exec] in He. revert w' out He. start_on HW.
  unfold extend_chars. apply wp_bind. apply (reserve_wp (wmem w) (refs (pool w))); auto.
  intros m1 r1 ok HP1. unfold lift. cbn [fst]. unfold push_chars.
  apply (write_pieces_wp _ m1 (adj (refs (pool w)) r r1)).
  - exact (so_mi _ _ _ _ _ (rp_step _ _ _ _ _ _ _ HP1)).
  - exact (so_h _ _ _ _ _ (rp_step _ _ _ _ _ _ _ HP1)).
  - apply counted_adj.
  - apply Forall_valid_encode. exact Hv.
  - intros m' r' o HP2. pose proof (pieces_after_reserve _ _ _ _ _ _ _ _ _ _ _ _ _ _ HP1 HP2) as HP.
    eexists r', _. split; [reflexivity|]. split; [exact (pc_step _ _ _ _ _ _ _ _ _ _ HP)|]. exact HP.
Qed.

(* ---------- replace_inner with an arbitrary new value (clone_from) ---------- *)
Lemma replace_any_wp m own r other (Q : out repr -> mem -> Prop) :
  MI (heap m) own -> handle_ok (heap m) (statics m) r -> counted own r ->
  handle_ok (heap m) (statics m) other -> (forall b, names other b = true -> others own r b) ->
  (forall m', same_env m m' -> MI (heap m') (fun b => own b - one (names r b)) ->
              handle_ok (heap m') (statics m') other -> frame (heap m) (heap m') (others own r) -> nreq m' = nreq m ->
              Q (OVal other) m') ->
  wp (replace_inner r other) Q m.
Proof.
  intros HM Hr Hc Ho Hk HQ.
  assert (Hsame : forall m', same_env m m' -> heap m' = heap m -> nreq m' = nreq m -> names r = (fun _ => false) -> Q (OVal other) m').
  { intros m' He Hh Hn Hnm. apply HQ; auto.
    - rewrite Hh. eapply MI_ext; [exact HM|]. intros b. rewrite Hnm. cbn [one]. lia.
    - eapply handle_ok_same; eauto.
    - rewrite Hh. apply frame_refl. }
  destruct r as [bs|b l|s l].
  - apply replace_inner_other_wp; [reflexivity|]. apply Hsame; auto.
  - destruct Hr as (x & Hb & Hl & _). destruct (MI_lookup _ _ _ _ HM Hb Hl) as (Hw & Hcx & Hox).
    eapply replace_inner_heap_wp; [exact Hb|exact Hl|exact Hw|]. intros m' He Hh Hn.
    assert (F : frame (heap m) (heap m') (others own (Heap b l))).
    { rewrite Hh. apply frame_release; auto. unfold others. cbn [names]. rewrite Nat.eqb_refl. cbn [one]. lia. }
    apply HQ; auto.
    + rewrite Hh. eapply MI_release; eauto. intros b'. cbn [names]. rewrite (Nat.eqb_sym b' b). reflexivity.
    + destruct He as (E1 & _). rewrite E1. eapply handle_ok_frame; [exact Ho|exact F|exact Hk].
  - apply replace_inner_other_wp; [reflexivity|]. apply Hsame; auto.
Qed.

Lemma op_clone_from w i j w' out :
  WF w -> exec w (OCloneFrom i j) = (w', out) ->
  (w' = w /\ out = Skip)
  \/ (exists r src, i <> j /\ nth_error (pool w) i = Some (Some r) /\ nth_error (pool w) j = Some (Some src)
        /\ w' = set_slot w (wmem w') i (Some src) /\ out = OkUnit
        /\ step_ok (wmem w) (refs (pool w)) r (wmem w') src /\ nreq (wmem w') = nreq (wmem w)
        /\ text_of (wmem w') src = text_of (wmem w) src
        /\ WF w' /\ others_same w i (wmem w') /\ statics (wmem w') = statics (wmem w)).
Proof.
  intros HW He. cbn [exec] in He. destruct (get_slot w j) as [src|] eqn:Hj; [|left; injection He as <- <-; auto].
  destruct (Nat.eqb_spec i j) as [->|Hne]; [left; injection He as <- <-; auto|].
  apply get_slot_nth in Hj.
  pose proof (exec_on_sound w i (fun r => c <- make_shallow_clone src ;; r' <- replace_inner r c ;; Ret (r', OkUnit))
                (fun r m' r' o => r' = src /\ o = OkUnit /\ nreq m' = nreq (wmem w)
                                  /\ text_of m' src = text_of (wmem w) src) HW) as H.
  match type of H with (?A -> _) => assert (HA : A) end.
  { intros r Hi.
    pose proof (wf_mi _ HW) as HM. pose proof (wf_handles _ HW _ _ Hi) as Hr. pose proof (counted_refs _ _ _ Hi) as Hc.
    pose proof (wf_handles _ HW _ _ Hj) as Hsrc. pose proof (counted_refs _ _ _ Hj) as Hcs.
    apply wp_bind. apply (clone_wp (wmem w) (refs (pool w)) src); auto.
    intros m1 c [-> [E1 M1 H1 F1] Hn1 Ht1 _]. unfold lift.
    apply wp_bind.
    apply (replace_any_wp m1 (fun b => refs (pool w) b + one (names src b)) r src).
    - exact M1.
    - destruct E1 as (Es & _). rewrite Es. eapply handle_ok_frame; [exact Hr|exact F1|]. intros; exact I.
    - intros b Hb. specialize (Hc b Hb). lia.
    - exact H1.
    - intros b Hb. unfold others. rewrite Hb. cbn [one].
      pose proof (refs_ge2 (pool w) i j _ _ b Hne Hi Hj) as G. cbn [slot_names] in G. rewrite Hb in G. cbn [one] in G.
      pose proof (one_le (names r b)). lia.
    - intros m2 E2 M2 H2 F2 Hn2. unfold lift. apply wp_ret.
      exists src, OkUnit. split; [reflexivity|]. split.
      + split.
        * eapply same_env_trans; eauto.
        * eapply MI_ext; [exact M2|]. intros b. unfold adj. pose proof (one_le (names r b)).
          destruct (names r b) eqn:Eb; cbn [one]; [specialize (Hc b Eb)|]; lia.
        * exact H2.
        * eapply frame_trans; [eapply frame_weaken; [exact F1|intros; exact I]|].
          eapply frame_weaken; [exact F2|]. intros b. unfold others. pose proof (one_le (names r b)). lia.
      + split; [reflexivity|]. split; [reflexivity|]. split; [lia|].
        rewrite <- Ht1. eapply text_of_frame; [exact H1|exact F2|destruct E2 as (Es & _); exact Es|].
        intros b Hb. unfold others. rewrite Hb. cbn [one].
        pose proof (refs_ge2 (pool w) i j _ _ b Hne Hi Hj) as G. cbn [slot_names] in G. rewrite Hb in G. cbn [one] in G.
        pose proof (one_le (names r b)). lia. }
  specialize (H HA w' out He).
  destruct H as [(Hg & -> & ->)|(r & r' & Hi & Ew & (-> & -> & Hn & Ht) & HW' & Ho & Hs & Hstep)].
  - left. auto.
  - right. exists r, src.
    split; [exact Hne|]. split; [exact Hi|]. split; [exact Hj|]. split; [exact Ew|]. split; [reflexivity|].
    split; [exact Hstep|]. split; [exact Hn|]. split; [exact Ht|]. split; [exact HW'|]. split; [exact Ho|exact Hs].
Qed.

(* ---------- drop ---------- *)
Lemma repr_new_names b : names repr_new b = false. Proof. reflexivity. Qed.
Lemma op_drop w i w' out :
  WF w -> exec w (ODrop i) = (w', out) ->
  (get_slot w i = None /\ w' = w /\ out = Skip)
  \/ (exists r, nth_error (pool w) i = Some (Some r) /\ w' = set_slot w (wmem w') i None /\ out = OkUnit
        /\ drop_post (wmem w) (refs (pool w)) r repr_new (wmem w') repr_new
        /\ WF w' /\ others_same w i (wmem w') /\ statics (wmem w') = statics (wmem w)).
Proof.
  intros HW He. cbn [exec] in He. destruct (get_slot w i) as [r|] eqn:Hg; [|left; injection He as <- <-; auto].
  right. apply get_slot_nth in Hg.
  pose proof (wf_mi _ HW) as HM. pose proof (wf_handles _ HW _ _ Hg) as Hr. pose proof (counted_refs _ _ _ Hg) as Hc.
  assert (HA : wp (replace_inner r repr_new)
                  (fun o m' => exists r', o = OVal r' /\ drop_post (wmem w) (refs (pool w)) r repr_new m' r') (wmem w)).
  { apply (replace_nonheap_wp (wmem w) (refs (pool w))); auto.
    - intros h. apply repr_new_ok.
    - intros m' r' HP. exists r'. auto. }
  apply wp_run in HA. destruct (run (replace_inner r repr_new) (wmem w)) as [[r2|u] m2]; cbn [fst snd] in HA.
  - destruct HA as (r3 & E & HP). injection E as <-. injection He as <- <-.
    pose proof HP as [-> Hs Hn Hh].
    destruct (wf_clear_slot w i r m2 repr_new HW Hg Hs repr_new_names) as (HW' & Ho).
    exists r. cbn [set_slot wmem]. split; [exact Hg|]. split; [reflexivity|]. split; [reflexivity|].
    split; [exact HP|]. split; [exact HW'|]. split; [exact Ho|]. destruct Hs as [(E1 & _) _ _ _]. exact E1.
  - destruct HA as (r3 & E & _). discriminate.
Qed.

(* ---------- constructors ---------- *)
Definition ctor_inv (w : world) (m' : mem) (s : option repr) : Prop :=
  match s with
  | Some r' => ctor_ok (wmem w) (refs (pool w)) m' r'
  | None => same_env (wmem w) m' /\ MI (heap m') (refs (pool w)) /\ frame (heap (wmem w)) (heap m') (fun _ => True)
  end.

Lemma exec_ctor_sound w (c : cmd (option repr * outcome)) (P : mem -> option repr -> outcome -> Prop) :
  WF w ->
  wp c (fun o m' => exists s out, o = OVal (s, out) /\ ctor_inv w m' s /\ P m' s out) (wmem w) ->
  forall w' out, exec_ctor w c = (w', out) ->
  exists s, w' = append_slot w (wmem w') s /\ P (wmem w') s out /\ WF w' /\ all_same w (wmem w')
            /\ statics (wmem w') = statics (wmem w) /\ ctor_inv w (wmem w') s.
Proof.
  intros HW Hc w' out He. unfold exec_ctor in He. apply wp_run in Hc.
  destruct (run c (wmem w)) as [[[s o]|u] m'] eqn:Hrun; cbn [fst snd] in Hc.
  - destruct Hc as (s' & out' & E & Hinv & HP). injection E as <- <-. injection He as <- <-.
    exists s. cbn [append_slot wmem]. split; [reflexivity|]. split; [exact HP|].
    destruct s as [r'|]; cbn [ctor_inv] in Hinv.
    + destruct (wf_append_some w m' r' HW Hinv) as (HW' & Ha). split; [exact HW'|]. split; [exact Ha|].
      split; [|exact Hinv]. destruct Hinv as [(E1 & _) _ _ _]. exact E1.
    + destruct Hinv as (E & M & F). destruct (wf_append_none w m' HW E M F) as (HW' & Ha).
      split; [exact HW'|]. split; [exact Ha|]. split; [destruct E as (E1 & _); exact E1|].
      cbn [ctor_inv]. split; [exact E|]. split; [exact M|exact F].
  - destruct Hc as (s' & out' & E & _). discriminate.
Qed.

Lemma ctor_inv_none_same w m' : same_env (wmem w) m' -> heap m' = heap (wmem w) -> WF w -> ctor_inv w m' None.
Proof.
  intros He Hh HW. cbn [ctor_inv]. split; [exact He|]. split; [rewrite Hh; exact (wf_mi _ HW)|]. rewrite Hh. apply frame_refl.
Qed.

Lemma op_from_str w m t w' out :
  WF w -> Valid t -> exec w (OFromStr m t) = (w', out) ->
  exists s, w' = append_slot w (wmem w') s /\ WF w' /\ all_same w (wmem w') /\ statics (wmem w') = statics (wmem w)
            /\ from_str_post (wmem w) (refs (pool w)) t (wmem w') s
            /\ out = match s with Some _ => OkUnit | None => fin m false end.
Proof.
  intros HW Hv He. cbn [exec] in He.
  destruct (exec_ctor_sound w (opt_ctor m (from_str t)) (fun m' s o => from_str_post (wmem w) (refs (pool w)) t m' s
                                    /\ o = match s with Some _ => OkUnit | None => fin m false end) HW) with (w' := w') (out := out)
    as (s & Ew & (HP & Ho) & HW' & Ha & Hs & _); [|exact He|].
  - unfold opt_ctor. apply wp_bind. apply (from_str_wp (wmem w) (refs (pool w))); [exact (wf_mi _ HW)|exact Hv|].
    intros m' o HP. unfold lift. destruct o as [r'|]; apply wp_ret.
    + exists (Some r'), OkUnit. split; [reflexivity|]. split; [|auto]. cbn [ctor_inv].
      destruct (fs_some _ _ _ _ _ HP r' eq_refl) as (H1 & _). exact H1.
    + exists None, (fin m false). split; [reflexivity|]. split; [|auto].
      destruct (fs_none _ _ _ _ _ HP eq_refl) as (E & Hh & _). apply ctor_inv_none_same; auto.
  - exists s. auto 10.
Qed.

Lemma op_with_capacity w m n w' out :
  WF w -> exec w (OWithCapacity m n) = (w', out) ->
  exists s, w' = append_slot w (wmem w') s /\ WF w' /\ all_same w (wmem w') /\ statics (wmem w') = statics (wmem w)
            /\ with_capacity_post (wmem w) (refs (pool w)) n (wmem w') s
            /\ out = match s with Some _ => OkUnit | None => fin m false end.
Proof.
  intros HW He. cbn [exec] in He.
  destruct (exec_ctor_sound w (opt_ctor m (with_capacity n)) (fun m' s o => with_capacity_post (wmem w) (refs (pool w)) n m' s
                                    /\ o = match s with Some _ => OkUnit | None => fin m false end) HW) with (w' := w') (out := out)
    as (s & Ew & (HP & Ho) & HW' & Ha & Hs & _); [|exact He|].
  - unfold opt_ctor. apply wp_bind. apply (with_capacity_wp (wmem w) (refs (pool w))); [exact (wf_mi _ HW)|].
    intros m' o HP. unfold lift. destruct o as [r'|]; apply wp_ret.
    + exists (Some r'), OkUnit. split; [reflexivity|]. split; [|auto]. cbn [ctor_inv].
      destruct (wc_some _ _ _ _ _ HP r' eq_refl) as (H1 & _). exact H1.
    + exists None, (fin m false). split; [reflexivity|]. split; [|auto].
      destruct (wc_none _ _ _ _ _ HP eq_refl) as (E & Hh & _). apply ctor_inv_none_same; auto.
  - exists s. auto 10.
Qed.

(* pure inline constructors: new, from_char, from_bool *)
Lemma op_inline_ctor w t w' out :
  WF w -> Valid t -> (length t <= 16)%nat ->
  exec_ctor w (Ret (Some (Inline (inline_new t)), OkUnit)) = (w', out) ->
  w' = append_slot w (wmem w) (Some (Inline (inline_new t))) /\ out = OkUnit /\ WF w'
  /\ text_of (wmem w) (Inline (inline_new t)) = t.
Proof.
  intros HW Hv Hl He. unfold exec_ctor in He. cbn [run] in He. injection He as <- <-.
  split; [reflexivity|]. split; [reflexivity|]. split.
  - apply wf_append_some; [exact HW|]. apply ctor_ok_nonheap; auto; [exact (wf_mi _ HW)|apply inline_handle_ok; auto].
  - cbn [text_of]. apply inline_new_text; auto.
Qed.
