(* Refine.v — every operation of Exec preserves WF, never reaches UB, leaves the other slots alone and,
   unless it reports an allocation failure, does to the texts exactly what Spec (String) does. *)
From Coq Require Import Lia Arith ZArith.
From LS Require Import Base Utf8 Utf8Spec Utf8Facts Cmd Impl Wp ListFacts Growth Inv InlineFacts NumModel Num Exec
     Specs Specs2 SpecsRetain SpecsShrink Specs3 WF Spec.
From LSGen Require Import GenSrc.
Open Scope N_scope.

(* ---------- abs and slot updates ---------- *)
Lemma abs_length w : length (abs w) = length (pool w).
Proof. unfold abs. apply map_length. Qed.
Lemma sget_abs w i : sget (abs w) i = option_map (text_of (wmem w)) (get_slot w i).
Proof.
  unfold sget, get_slot, abs. rewrite nth_error_map. destruct (nth_error (pool w) i) as [[r|]|]; reflexivity.
Qed.
Lemma map_upd {A B} (f : A -> B) l i x : map f (upd l i x) = upd (map f l) i (f x).
Proof. revert i; induction l as [|y l IH]; intros [|i]; cbn; auto. f_equal. apply IH. Qed.
Lemma map_ext_nth {A B} (f g : A -> B) l :
  (forall i x, nth_error l i = Some x -> f x = g x) -> map f l = map g l.
Proof.
  induction l as [|y l IH]; intros H; cbn [map]; [reflexivity|]. f_equal.
  - apply (H 0%nat y). reflexivity.
  - apply IH. intros i x Hi. apply (H (S i) x). exact Hi.
Qed.

(* the other slots read the same in m' *)
Definition others_same (w : world) (i : nat) (m' : mem) : Prop :=
  forall j rj, j <> i -> nth_error (pool w) j = Some (Some rj) ->
               text_of m' rj = text_of (wmem w) rj /\ cap_of m' rj = cap_of (wmem w) rj.
Definition all_same (w : world) (m' : mem) : Prop :=
  forall j rj, nth_error (pool w) j = Some (Some rj) ->
               text_of m' rj = text_of (wmem w) rj /\ cap_of m' rj = cap_of (wmem w) rj.

Lemma upd_map_agree {A B} (f g : A -> B) p i y :
  (forall j x, j <> i -> nth_error p j = Some x -> f x = g x) -> upd (map f p) i y = upd (map g p) i y.
Proof.
  revert i; induction p as [|z p IH]; intros [|i] H; cbn [map upd]; try reflexivity.
  - f_equal. apply map_ext_nth. intros j x Hj. apply (H (S j) x); [lia|exact Hj].
  - f_equal; [apply (H 0%nat z); [lia|reflexivity]|]. apply IH. intros j x Hne Hj. apply (H (S j) x); [lia|exact Hj].
Qed.

Lemma abs_set_slot w i m' s :
  others_same w i m' -> abs (set_slot w m' i s) = upd (abs w) i (option_map (text_of m') s).
Proof.
  intros Ho. unfold abs. cbn [set_slot pool wmem]. rewrite map_upd. apply upd_map_agree.
  intros j [rj|] Hne Hj; cbn [option_map]; [|reflexivity]. f_equal. apply (Ho j rj Hne Hj).
Qed.
Lemma abs_append_slot w m' s :
  all_same w m' -> abs (append_slot w m' s) = abs w ++ [option_map (text_of m') s].
Proof.
  intros Ha. unfold abs. cbn [append_slot pool wmem]. rewrite map_app. cbn [map]. f_equal.
  apply map_ext_nth. intros j [rj|] Hj; cbn [option_map]; [|reflexivity]. f_equal. apply (Ha j rj Hj).
Qed.
Lemma abs_same_pool w m' :
  all_same w m' -> abs {| pool := pool w; wmem := m' |} = abs w.
Proof.
  intros Ha. unfold abs. cbn [pool wmem]. apply map_ext_nth.
  intros j [rj|] Hj; cbn [option_map]; [|reflexivity]. f_equal. apply (Ha j rj Hj).
Qed.

(* ---------- generic soundness of an in-place operation ---------- *)
Definition ok_out {A} (o : out A) : Prop := match o with OVal _ => True | OUb _ => False end.

Lemma exec_on_sound w i (f : repr -> cmd (repr * outcome)) (P : repr -> mem -> repr -> outcome -> Prop) :
  WF w ->
  (forall r, nth_error (pool w) i = Some (Some r) ->
     wp (f r) (fun o m' => exists r' out, o = OVal (r', out)
                            /\ step_ok (wmem w) (refs (pool w)) r m' r' /\ P r m' r' out) (wmem w)) ->
  forall w' out, exec_on w i f = (w', out) ->
  (get_slot w i = None /\ w' = w /\ out = Skip)
  \/ (exists r r', nth_error (pool w) i = Some (Some r) /\ w' = set_slot w (wmem w') i (Some r')
                   /\ P r (wmem w') r' out /\ WF w' /\ others_same w i (wmem w')
                   /\ statics (wmem w') = statics (wmem w)
                   /\ step_ok (wmem w) (refs (pool w)) r (wmem w') r').
Proof.
  intros HW Hf w' out He. unfold exec_on in He. destruct (get_slot w i) as [r|] eqn:Hg.
  - right. apply get_slot_nth in Hg. specialize (Hf r Hg). apply wp_run in Hf.
    destruct (run (f r) (wmem w)) as [[[r' o]|u] m'] eqn:Hrun; cbn [fst snd] in Hf.
    + destruct Hf as (r'' & out' & E & Hs & HP). injection E as <- <-. injection He as <- <-.
      destruct (wf_set_slot w i r m' r' HW Hg Hs) as (HW' & Hoth).
      exists r, r'. cbn [set_slot wmem].
      split; [exact Hg|]. split; [reflexivity|]. split; [exact HP|]. split; [exact HW'|]. split; [|split].
      * intros j rj Hne Hj. apply (Hoth j rj Hne Hj).
      * destruct Hs as [(E1 & _) _ _ _]. exact E1.
      * exact Hs.
    + destruct Hf as (r'' & out' & E & _). discriminate.
  - left. injection He as <- <-. auto.
Qed.

(* what refinement of an in-place operation needs from the function's postcondition *)
Lemma son_refines w i m' r r' (fs : list N -> list N * outcome) out :
  nth_error (pool w) i = Some (Some r) -> others_same w i m' ->
  (text_of m' r', out) = fs (text_of (wmem w) r) ->
  (abs (set_slot w m' i (Some r')), out) = son (abs w) i fs.
Proof.
  intros Hi Ho E. unfold son. rewrite sget_abs. apply get_slot_nth in Hi. rewrite Hi. cbn [option_map].
  rewrite <- E. rewrite abs_set_slot by exact Ho. reflexivity.
Qed.

(* ---------- per-operation lemmas: the function's postcondition, lifted to the pool ---------- *)
(* shape of the conclusion for an in-place op whose function-level postcondition is [P r m' r' x] and whose
   outcome is [mk x] *)
Definition on_result (w : world) (i : nat) (w' : world) (out : outcome)
           (P : repr -> mem -> repr -> outcome -> Prop) : Prop :=
  (get_slot w i = None /\ w' = w /\ out = Skip)
  \/ (exists r r', nth_error (pool w) i = Some (Some r) /\ w' = set_slot w (wmem w') i (Some r')
                   /\ P r (wmem w') r' out /\ WF w' /\ others_same w i (wmem w')
                   /\ statics (wmem w') = statics (wmem w)
                   /\ step_ok (wmem w) (refs (pool w)) r (wmem w') r').

Ltac start_on HW :=
  eapply exec_on_sound; [exact HW|];
  let r := fresh "r" in let Hi := fresh "Hi" in
  intros r Hi;
  pose proof (wf_mi _ HW) as HM; pose proof (wf_handles _ HW _ _ Hi) as Hr; pose proof (counted_refs _ _ _ Hi) as Hc.

Lemma op_push_str w m i s w' out :
  WF w -> Valid s -> exec w (OPushStr m i s) = (w', out) ->
  on_result w i w' out (fun r m' r' o => exists ok, push_post (wmem w) (refs (pool w)) r s m' r' ok /\ o = fin m ok).
Proof.
  intros HW Hv He. cbn [exec] in He. revert w' out He. start_on HW.
  apply wp_bind. apply (push_str_wp (wmem w) (refs (pool w))); auto. intros m' r' ok HP. unfold lift. apply wp_ret.
  exists r', (fin m ok). split; [reflexivity|]. split; [exact (pp_step _ _ _ _ _ _ _ HP)|]. exists ok. auto.
Qed.
Lemma op_push w m i c w' out :
  WF w -> is_scalar c = true -> exec w (OPush m i c) = (w', out) ->
  on_result w i w' out (fun r m' r' o => exists ok, push_post (wmem w) (refs (pool w)) r (encode_cp c) m' r' ok /\ o = fin m ok).
Proof.
  intros HW Hv He. cbn [exec] in He. revert w' out He. start_on HW.
  apply wp_bind. apply (push_str_wp (wmem w) (refs (pool w))); auto. { apply valid_char. apply encode_cp_ok. exact Hv. }
  intros m' r' ok HP. unfold lift. apply wp_ret.
  exists r', (fin m ok). split; [reflexivity|]. split; [exact (pp_step _ _ _ _ _ _ _ HP)|]. exists ok. auto.
Qed.
Lemma op_pop w m i w' out :
  WF w -> exec w (OPop m i) = (w', out) ->
  on_result w i w' out (fun r m' r' o => exists res, pop_post (wmem w) (refs (pool w)) r m' r' res
                                          /\ o = match res with Some c => OkChar c | None => OkNone end).
Proof.
  intros HW He. cbn [exec] in He. revert w' out He. start_on HW.
  apply wp_bind. apply (pop_wp (wmem w) (refs (pool w))); auto. intros m' r' res HP. unfold lift. apply wp_ret.
  eexists r', _. split; [reflexivity|]. split; [exact (po_step _ _ _ _ _ _ HP)|]. exists res. auto.
Qed.
Lemma op_remove w m i idx w' out :
  WF w -> exec w (ORemove m i idx) = (w', out) ->
  on_result w i w' out (fun r m' r' o => exists res, remove_post (wmem w) (refs (pool w)) r idx m' r' res
                                          /\ o = fin_res m res OkChar).
Proof.
  intros HW He. cbn [exec] in He. revert w' out He. start_on HW.
  apply wp_bind. apply (remove_wp (wmem w) (refs (pool w))); auto. intros m' r' res HP. unfold lift. apply wp_ret.
  eexists r', _. split; [reflexivity|]. split; [exact (rm_step _ _ _ _ _ _ _ HP)|]. exists res. auto.
Qed.
Lemma op_insert_str w m i idx s w' out :
  WF w -> Valid s -> exec w (OInsertStr m i idx s) = (w', out) ->
  on_result w i w' out (fun r m' r' o => exists res, insert_post (wmem w) (refs (pool w)) r idx s m' r' res
                                          /\ o = fin_res m res (fun _ => OkUnit)).
Proof.
  intros HW Hv He. cbn [exec] in He. revert w' out He. start_on HW.
  apply wp_bind. apply (insert_str_wp (wmem w) (refs (pool w))); auto. intros m' r' res HP. unfold lift. apply wp_ret.
  eexists r', _. split; [reflexivity|]. split; [exact (ip_step _ _ _ _ _ _ _ _ HP)|]. exists res. auto.
Qed.
Lemma op_insert w m i idx c w' out :
  WF w -> is_scalar c = true -> exec w (OInsert m i idx c) = (w', out) ->
  on_result w i w' out (fun r m' r' o => exists res, insert_post (wmem w) (refs (pool w)) r idx (encode_cp c) m' r' res
                                          /\ o = fin_res m res (fun _ => OkUnit)).
Proof.
  intros HW Hv He. cbn [exec] in He. revert w' out He. start_on HW.
  apply wp_bind. apply (insert_str_wp (wmem w) (refs (pool w))); auto. { apply valid_char. apply encode_cp_ok. exact Hv. }
  intros m' r' res HP. unfold lift. apply wp_ret.
  eexists r', _. split; [reflexivity|]. split; [exact (ip_step _ _ _ _ _ _ _ _ HP)|]. exists res. auto.
Qed.
Lemma op_truncate w m i n w' out :
  WF w -> exec w (OTruncate m i n) = (w', out) ->
  on_result w i w' out (fun r m' r' o => exists res, truncate_post (wmem w) (refs (pool w)) r n m' r' res
                                          /\ o = fin_res m res (fun _ => OkUnit)).
Proof.
  intros HW He. cbn [exec] in He. revert w' out He. start_on HW.
  apply wp_bind. apply (truncate_wp (wmem w) (refs (pool w))); auto. intros m' r' res HP. unfold lift. apply wp_ret.
  eexists r', _. split; [reflexivity|]. split; [exact (tr_step _ _ _ _ _ _ _ HP)|]. exists res. auto.
Qed.
Lemma op_clear w i w' out :
  WF w -> exec w (OClear i) = (w', out) ->
  on_result w i w' out (fun r m' r' o => clear_post (wmem w) (refs (pool w)) r m' r' /\ o = OkUnit).
Proof.
  intros HW He. cbn [exec] in He. revert w' out He. start_on HW.
  apply wp_bind. apply (clear_wp (wmem w) (refs (pool w))); auto. intros m' r' HP. unfold lift. apply wp_ret.
  eexists r', _. split; [reflexivity|]. split; [exact (cl_step _ _ _ _ _ HP)|]. auto.
Qed.
Lemma op_retain w m i pa bits w' out :
  WF w -> exec w (ORetain m i pa bits) = (w', out) ->
  on_result w i w' out (fun r m' r' o => exists res, retain_post (wmem w) (refs (pool w)) r (retain_pred pa bits) m' r' res
                                          /\ o = fin_res m res (fun _ => OkUnit)).
Proof.
  intros HW He. cbn [exec] in He. revert w' out He. start_on HW.
  apply wp_bind. apply (retain_wp (wmem w) (refs (pool w))); auto. intros m' r' res HP. unfold lift. apply wp_ret.
  eexists r', _. split; [reflexivity|]. split; [exact (rt_step _ _ _ _ _ _ _ HP)|]. exists res. auto.
Qed.
Lemma op_reserve w m i n w' out :
  WF w -> exec w (OReserve m i n) = (w', out) ->
  on_result w i w' out (fun r m' r' o => exists ok, reserve_post (wmem w) (refs (pool w)) r n m' r' ok /\ o = fin m ok).
Proof.
  intros HW He. cbn [exec] in He. revert w' out He. start_on HW.
  apply wp_bind. apply (reserve_wp (wmem w) (refs (pool w))); auto. intros m' r' ok HP. unfold lift. apply wp_ret.
  eexists r', _. split; [reflexivity|]. split; [exact (rp_step _ _ _ _ _ _ _ HP)|]. exists ok. auto.
Qed.
Lemma op_shrink_to w m i n w' out :
  WF w -> exec w (OShrinkTo m i n) = (w', out) ->
  on_result w i w' out (fun r m' r' o => exists ok, shrink_post (wmem w) (refs (pool w)) r n m' r' ok /\ o = fin m ok).
Proof.
  intros HW He. cbn [exec] in He. revert w' out He. start_on HW.
  apply wp_bind. apply (shrink_to_wp (wmem w) (refs (pool w))); auto. intros m' r' ok HP. unfold lift. apply wp_ret.
  eexists r', _. split; [reflexivity|]. split; [exact (sh_step _ _ _ _ _ _ _ HP)|]. exists ok. auto.
Qed.
Lemma op_write_fmt w i ea pa ps w' out :
  WF w -> Forall Valid ps -> exec w (OWriteFmt i ea pa ps) = (w', out) ->
  on_result w i w' out (fun r m' r' o => pieces_post (wmem w) (refs (pool w)) r ps 0 ea pa m' r' o).
Proof.
  intros HW Hv He. cbn [exec] in He. revert w' out He. start_on HW.
  apply (write_pieces_wp _ (wmem w) (refs (pool w))); auto. intros m' r' o HP.
  eexists r', _. split; [reflexivity|]. split; [exact (pc_step _ _ _ _ _ _ _ _ _ _ HP)|]. exact HP.
Qed.
Lemma op_extend_strs w i pa ss w' out :
  WF w -> Forall Valid ss -> exec w (OExtendStrs i pa ss) = (w', out) ->
  on_result w i w' out (fun r m' r' o => pieces_post (wmem w) (refs (pool w)) r ss 0 None pa m' r' o).
Proof.
  intros HW Hv He. cbn [exec] in He. revert w' out He. start_on HW.
  unfold push_strs. apply (write_pieces_wp _ (wmem w) (refs (pool w))); auto. intros m' r' o HP.
  eexists r', _. split; [reflexivity|]. split; [exact (pc_step _ _ _ _ _ _ _ _ _ _ HP)|]. exact HP.
Qed.

(* ---------- extend_chars: reserve(hint) ignoring the result, then the push loop ---------- *)
Lemma pieces_after_reserve m own r add m1 r1 ok ps k ea pa m' r' out :
  reserve_post m own r add m1 r1 ok ->
  pieces_post m1 (adj own r r1) r1 ps k ea pa m' r' out ->
  pieces_post m own r ps k ea pa m' r' out.
Proof.
  intros [P1 P2 _ _ _ _ _] [R1 R2 R3]. rewrite P2 in R2, R3. split.
  - eapply step_ok_trans; eauto.
  - exact R2.
  - exact R3.
Qed.
Lemma Forall_valid_encode cs : Forall (fun c => is_scalar c = true) cs -> Forall Valid (map encode_cp cs).
Proof.
  induction 1 as [|c cs Hc _ IH]; cbn [map]; constructor; auto. apply valid_char. apply encode_cp_ok. exact Hc.
Qed.
Lemma op_extend_chars w i hint pa cs w' out :
  WF w -> Forall (fun c => is_scalar c = true) cs -> exec w (OExtendChars i hint pa cs) = (w', out) ->
  on_result w i w' out (fun r m' r' o => pieces_post (wmem w) (refs (pool w)) r (map encode_cp cs) 0 None pa m' r' o).
Proof.
  intros HW Hv He. cbn [exec] in He. revert w' out He. start_on HW.
  unfold extend_chars. apply wp_bind. apply (reserve_wp (wmem w) (refs (pool w))); auto.
  intros m1 r1 ok HP1. unfold lift. cbn [fst]. unfold push_chars.
  apply (write_pieces_wp _ m1 (adj (refs (pool w)) r r1)).
  - exact (so_mi _ _ _ _ _ (rp_step _ _ _ _ _ _ _ HP1)).
  - exact (so_h _ _ _ _ _ (rp_step _ _ _ _ _ _ _ HP1)).
  - apply counted_adj.
  - apply Forall_valid_encode. exact Hv.
  - intros m' r' o HP2. pose proof (pieces_after_reserve _ _ _ _ _ _ _ _ _ _ _ _ _ _ HP1 HP2) as HP.
    eexists r', _. split; [reflexivity|]. split; [exact (pc_step _ _ _ _ _ _ _ _ _ _ HP)|]. exact HP.
Qed.

(* ---------- replace_inner with an arbitrary new value (clone_from) ---------- *)
Lemma replace_any_wp m own r other (Q : out repr -> mem -> Prop) :
  MI (heap m) own -> handle_ok (heap m) (statics m) r -> counted own r ->
  handle_ok (heap m) (statics m) other -> (forall b, names other b = true -> others own r b) ->
  (forall m', same_env m m' -> MI (heap m') (fun b => own b - one (names r b)) ->
              handle_ok (heap m') (statics m') other -> frame (heap m) (heap m') (others own r) -> nreq m' = nreq m ->
              Q (OVal other) m') ->
  wp (replace_inner r other) Q m.
Proof.
  intros HM Hr Hc Ho Hk HQ.
  assert (Hsame : forall m', same_env m m' -> heap m' = heap m -> nreq m' = nreq m -> names r = (fun _ => false) -> Q (OVal other) m').
  { intros m' He Hh Hn Hnm. apply HQ; auto.
    - rewrite Hh. eapply MI_ext; [exact HM|]. intros b. rewrite Hnm. cbn [one]. lia.
    - eapply handle_ok_same; eauto.
    - rewrite Hh. apply frame_refl. }
  destruct r as [bs|b l|s l].
  - apply replace_inner_other_wp; [reflexivity|]. apply Hsame; auto.
  - destruct Hr as (x & Hb & Hl & _). destruct (MI_lookup _ _ _ _ HM Hb Hl) as (Hw & Hcx & Hox).
    eapply replace_inner_heap_wp; [exact Hb|exact Hl|exact Hw|lia|]. intros m' He Hh Hn.
    assert (F : frame (heap m) (heap m') (others own (Heap b l))).
    { rewrite Hh. apply frame_release; auto. unfold others. cbn [names]. rewrite Nat.eqb_refl. cbn [one]. lia. }
    apply HQ; auto.
    + rewrite Hh. eapply MI_release; eauto. intros b'. cbn [names]. rewrite (Nat.eqb_sym b' b). reflexivity.
    + destruct He as (E1 & _). rewrite E1. eapply handle_ok_frame; [exact Ho|exact F|exact Hk].
  - apply replace_inner_other_wp; [reflexivity|]. apply Hsame; auto.
Qed.

Lemma op_clone_from w i j w' out :
  WF w -> exec w (OCloneFrom i j) = (w', out) ->
  ((get_slot w j = None \/ i = j \/ get_slot w i = None) /\ w' = w /\ out = Skip)
  \/ (exists r src, i <> j /\ nth_error (pool w) i = Some (Some r) /\ nth_error (pool w) j = Some (Some src)
        /\ w' = set_slot w (wmem w') i (Some src) /\ out = OkUnit
        /\ step_ok (wmem w) (refs (pool w)) r (wmem w') src /\ nreq (wmem w') = nreq (wmem w)
        /\ text_of (wmem w') src = text_of (wmem w) src
        /\ WF w' /\ others_same w i (wmem w') /\ statics (wmem w') = statics (wmem w)).
Proof.
  intros HW He. cbn [exec] in He. destruct (get_slot w j) as [src|] eqn:Hj; [|left; injection He as <- <-; auto].
  destruct (Nat.eqb_spec i j) as [->|Hne]; [left; injection He as <- <-; auto|].
  apply get_slot_nth in Hj.
  pose proof (exec_on_sound w i (fun r => c <- make_shallow_clone src ;; r' <- replace_inner r c ;; Ret (r', OkUnit))
                (fun r m' r' o => r' = src /\ o = OkUnit /\ nreq m' = nreq (wmem w)
                                  /\ text_of m' src = text_of (wmem w) src) HW) as H.
  match type of H with (?A -> _) => assert (HA : A) end.
  { intros r Hi.
    pose proof (wf_mi _ HW) as HM. pose proof (wf_handles _ HW _ _ Hi) as Hr. pose proof (counted_refs _ _ _ Hi) as Hc.
    pose proof (wf_handles _ HW _ _ Hj) as Hsrc. pose proof (counted_refs _ _ _ Hj) as Hcs.
    apply wp_bind. apply (clone_wp (wmem w) (refs (pool w)) src); auto.
    intros m1 c [-> [E1 M1 H1 F1] Hn1 Ht1 _]. unfold lift.
    apply wp_bind.
    apply (replace_any_wp m1 (fun b => refs (pool w) b + one (names src b)) r src).
    - exact M1.
    - destruct E1 as (Es & _). rewrite Es. eapply handle_ok_frame; [exact Hr|exact F1|]. exact Hc.
    - intros b Hb. specialize (Hc b Hb). lia.
    - exact H1.
    - intros b Hb. unfold others. rewrite Hb. cbn [one].
      pose proof (refs_ge2 (pool w) i j _ _ b Hne Hi Hj) as G. cbn [slot_names] in G. rewrite Hb in G. cbn [one] in G.
      pose proof (one_le (names r b)). lia.
    - intros m2 E2 M2 H2 F2 Hn2. unfold lift. apply wp_ret.
      exists src, OkUnit. split; [reflexivity|]. split.
      + split.
        * eapply same_env_trans; eauto.
        * eapply MI_ext; [exact M2|]. intros b. unfold adj. pose proof (one_le (names r b)).
          destruct (names r b) eqn:Eb; cbn [one]; [specialize (Hc b Eb)|]; lia.
        * exact H2.
        * eapply frame_trans; [eapply frame_weaken; [exact F1|intros b Hb; unfold others in Hb; cbv beta; lia]|].
          eapply frame_weaken; [exact F2|]. intros b. unfold others. pose proof (one_le (names r b)). lia.
      + split; [reflexivity|]. split; [reflexivity|]. split; [lia|].
        rewrite <- Ht1. eapply text_of_frame; [exact H1|exact F2|destruct E2 as (Es & _); exact Es|].
        intros b Hb. unfold others. rewrite Hb. cbn [one].
        pose proof (refs_ge2 (pool w) i j _ _ b Hne Hi Hj) as G. cbn [slot_names] in G. rewrite Hb in G. cbn [one] in G.
        pose proof (one_le (names r b)). lia. }
  specialize (H HA w' out He).
  destruct H as [(Hg & -> & ->)|(r & r' & Hi & Ew & (-> & -> & Hn & Ht) & HW' & Ho & Hs & Hstep)].
  - left. auto.
  - right. exists r, src.
    split; [exact Hne|]. split; [exact Hi|]. split; [exact Hj|]. split; [exact Ew|]. split; [reflexivity|].
    split; [exact Hstep|]. split; [exact Hn|]. split; [exact Ht|]. split; [exact HW'|]. split; [exact Ho|exact Hs].
Qed.

(* ---------- drop ---------- *)
Lemma repr_new_names b : names repr_new b = false. Proof. reflexivity. Qed.
Lemma op_drop w i w' out :
  WF w -> exec w (ODrop i) = (w', out) ->
  (get_slot w i = None /\ w' = w /\ out = Skip)
  \/ (exists r, nth_error (pool w) i = Some (Some r) /\ w' = set_slot w (wmem w') i None /\ out = OkUnit
        /\ drop_post (wmem w) (refs (pool w)) r repr_new (wmem w') repr_new
        /\ WF w' /\ others_same w i (wmem w') /\ statics (wmem w') = statics (wmem w)).
Proof.
  intros HW He. cbn [exec] in He. destruct (get_slot w i) as [r|] eqn:Hg; [|left; injection He as <- <-; auto].
  right. apply get_slot_nth in Hg.
  pose proof (wf_mi _ HW) as HM. pose proof (wf_handles _ HW _ _ Hg) as Hr. pose proof (counted_refs _ _ _ Hg) as Hc.
  assert (HA : wp (replace_inner r repr_new)
                  (fun o m' => exists r', o = OVal r' /\ drop_post (wmem w) (refs (pool w)) r repr_new m' r') (wmem w)).
  { apply (replace_nonheap_wp (wmem w) (refs (pool w))); auto.
    - intros h. apply repr_new_ok.
    - intros m' r' HP. exists r'. auto. }
  apply wp_run in HA. destruct (run (replace_inner r repr_new) (wmem w)) as [[r2|u] m2]; cbn [fst snd] in HA.
  - destruct HA as (r3 & E & HP). injection E as <-. injection He as <- <-.
    pose proof HP as [-> Hs Hn Hh].
    destruct (wf_clear_slot w i r m2 repr_new HW Hg Hs repr_new_names) as (HW' & Ho).
    exists r. cbn [set_slot wmem]. split; [exact Hg|]. split; [reflexivity|]. split; [reflexivity|].
    split; [exact HP|]. split; [exact HW'|]. split; [exact Ho|]. destruct Hs as [(E1 & _) _ _ _]. exact E1.
  - destruct HA as (r3 & E & _). discriminate.
Qed.

(* ---------- constructors ---------- *)
Definition ctor_inv (w : world) (m' : mem) (s : option repr) : Prop :=
  match s with
  | Some r' => ctor_ok (wmem w) (refs (pool w)) m' r'
  | None => same_env (wmem w) m' /\ MI (heap m') (refs (pool w)) /\ frame (heap (wmem w)) (heap m') (fun b => 1 <= refs (pool w) b)
  end.

Lemma exec_ctor_sound w (c : cmd (option repr * outcome)) (P : mem -> option repr -> outcome -> Prop) :
  WF w ->
  wp c (fun o m' => exists s out, o = OVal (s, out) /\ ctor_inv w m' s /\ P m' s out) (wmem w) ->
  forall w' out, exec_ctor w c = (w', out) ->
  exists s, w' = append_slot w (wmem w') s /\ P (wmem w') s out /\ WF w' /\ all_same w (wmem w')
            /\ statics (wmem w') = statics (wmem w) /\ ctor_inv w (wmem w') s.
Proof.
  intros HW Hc w' out He. unfold exec_ctor in He. apply wp_run in Hc.
  destruct (run c (wmem w)) as [[[s o]|u] m'] eqn:Hrun; cbn [fst snd] in Hc.
  - destruct Hc as (s' & out' & E & Hinv & HP). injection E as <- <-. injection He as <- <-.
    exists s. cbn [append_slot wmem]. split; [reflexivity|]. split; [exact HP|].
    destruct s as [r'|]; cbn [ctor_inv] in Hinv.
    + destruct (wf_append_some w m' r' HW Hinv) as (HW' & Ha). split; [exact HW'|]. split; [exact Ha|].
      split; [|exact Hinv]. destruct Hinv as [(E1 & _) _ _ _]. exact E1.
    + destruct Hinv as (E & M & F). destruct (wf_append_none w m' HW E M F) as (HW' & Ha).
      split; [exact HW'|]. split; [exact Ha|]. split; [destruct E as (E1 & _); exact E1|].
      cbn [ctor_inv]. split; [exact E|]. split; [exact M|exact F].
  - destruct Hc as (s' & out' & E & _). discriminate.
Qed.

Lemma ctor_inv_none_same w m' : same_env (wmem w) m' -> heap m' = heap (wmem w) -> WF w -> ctor_inv w m' None.
Proof.
  intros He Hh HW. cbn [ctor_inv]. split; [exact He|]. split; [rewrite Hh; exact (wf_mi _ HW)|]. rewrite Hh. apply frame_refl.
Qed.

Lemma op_from_str w m t w' out :
  WF w -> Valid t -> exec w (OFromStr m t) = (w', out) ->
  exists s, w' = append_slot w (wmem w') s /\ WF w' /\ all_same w (wmem w') /\ statics (wmem w') = statics (wmem w)
            /\ from_str_post (wmem w) (refs (pool w)) t (wmem w') s
            /\ out = match s with Some _ => OkUnit | None => fin m false end.
Proof.
  intros HW Hv He. cbn [exec] in He.
  destruct (exec_ctor_sound w (opt_ctor m (from_str t)) (fun m' s o => from_str_post (wmem w) (refs (pool w)) t m' s
                                    /\ o = match s with Some _ => OkUnit | None => fin m false end) HW) with (w' := w') (out := out)
    as (s & Ew & (HP & Ho) & HW' & Ha & Hs & _); [|exact He|].
  - unfold opt_ctor. apply wp_bind. apply (from_str_wp (wmem w) (refs (pool w))); [exact (wf_mi _ HW)|exact Hv|].
    intros m' o HP. unfold lift. destruct o as [r'|]; apply wp_ret.
    + exists (Some r'), OkUnit. split; [reflexivity|]. split; [|auto]. cbn [ctor_inv].
      destruct (fs_some _ _ _ _ _ HP r' eq_refl) as (H1 & _). exact H1.
    + exists None, (fin m false). split; [reflexivity|]. split; [|auto].
      destruct (fs_none _ _ _ _ _ HP eq_refl) as (E & Hh & _). apply ctor_inv_none_same; auto.
  - exists s. auto 10.
Qed.

Lemma op_with_capacity w m n w' out :
  WF w -> exec w (OWithCapacity m n) = (w', out) ->
  exists s, w' = append_slot w (wmem w') s /\ WF w' /\ all_same w (wmem w') /\ statics (wmem w') = statics (wmem w)
            /\ with_capacity_post (wmem w) (refs (pool w)) n (wmem w') s
            /\ out = match s with Some _ => OkUnit | None => fin m false end.
Proof.
  intros HW He. cbn [exec] in He.
  destruct (exec_ctor_sound w (opt_ctor m (with_capacity n)) (fun m' s o => with_capacity_post (wmem w) (refs (pool w)) n m' s
                                    /\ o = match s with Some _ => OkUnit | None => fin m false end) HW) with (w' := w') (out := out)
    as (s & Ew & (HP & Ho) & HW' & Ha & Hs & _); [|exact He|].
  - unfold opt_ctor. apply wp_bind. apply (with_capacity_wp (wmem w) (refs (pool w))); [exact (wf_mi _ HW)|].
    intros m' o HP. unfold lift. destruct o as [r'|]; apply wp_ret.
    + exists (Some r'), OkUnit. split; [reflexivity|]. split; [|auto]. cbn [ctor_inv].
      destruct (wc_some _ _ _ _ _ HP r' eq_refl) as (H1 & _). exact H1.
    + exists None, (fin m false). split; [reflexivity|]. split; [|auto].
      destruct (wc_none _ _ _ _ _ HP eq_refl) as (E & Hh & _). apply ctor_inv_none_same; auto.
  - exists s. auto 10.
Qed.

(* pure inline constructors: new, from_char, from_bool *)
Lemma op_inline_ctor w t w' out :
  WF w -> Valid t -> (length t <= 16)%nat ->
  exec_ctor w (Ret (Some (Inline (inline_new t)), OkUnit)) = (w', out) ->
  w' = append_slot w (wmem w) (Some (Inline (inline_new t))) /\ out = OkUnit /\ WF w'
  /\ text_of (wmem w) (Inline (inline_new t)) = t.
Proof.
  intros HW Hv Hl He. unfold exec_ctor in He. cbn [run] in He. injection He as <- <-.
  split; [reflexivity|]. split; [reflexivity|]. split.
  - apply wf_append_some; [exact HW|]. apply ctor_ok_nonheap; auto; [exact (wf_mi _ HW)|apply inline_handle_ok; auto].
  - cbn [text_of]. apply inline_new_text; auto.
Qed.

Lemma op_from_static w s t w' out :
  WF w -> nth_error (statics (wmem w)) s = Some t -> exec w (OFromStatic s) = (w', out) ->
  exists o, w' = append_slot w (wmem w') o /\ WF w' /\ all_same w (wmem w')
        /\ statics (wmem w') = statics (wmem w) /\ heap (wmem w') = heap (wmem w) /\ nreq (wmem w') = nreq (wmem w)
        /\ ((o = None /\ out = PanicTooLong /\ STATIC_MAX_LENGTH < len t)
            \/ (exists r', o = Some r' /\ out = OkUnit /\ text_of (wmem w') r' = t /\ is_heap r' = false
                           /\ (16 < len t -> r' = Static s (len t)))).
Proof.
  intros HW Hs He. cbn [exec] in He. unfold static_len in He. rewrite Hs in He.
  assert (Hv : Valid t).
  { pose proof (wf_statics _ HW) as F. rewrite Forall_forall in F. apply F. eapply nth_error_In; eauto. }
  destruct (exec_ctor_sound w (r <- from_static_str s (len t) ;;
                   match r with ROk x => Ret (Some x, OkUnit) | RErr => Ret (None, PanicReserve)
                              | RPanic p => Ret (None, of_panic p) end)
              (fun m' o out => heap m' = heap (wmem w) /\ nreq m' = nreq (wmem w)
              /\ ((o = None /\ out = PanicTooLong /\ STATIC_MAX_LENGTH < len t)
                  \/ (exists r', o = Some r' /\ out = OkUnit /\ text_of m' r' = t /\ is_heap r' = false
                                 /\ (16 < len t -> r' = Static s (len t))))) HW) with (w' := w') (out := out)
    as (o & Ew & (Hh & Hn & HP) & HW' & Ha & Hst & _); [|exact He|].
  - apply wp_bind. apply (from_static_str_wp (wmem w) (refs (pool w)) s t); [exact (wf_mi _ HW)|exact Hs|exact Hv|].
    intros m' res [(E & Hh & Hn) Herr Hp Hok]. unfold lift. destruct res as [r'| |p]; apply wp_ret.
    + destruct (Hok r' eq_refl) as (C1 & C2 & C3 & C4).
      exists (Some r'), OkUnit. split; [reflexivity|]. split; [exact C1|]. split; [exact Hh|]. split; [exact Hn|].
      right. exists r'. auto.
    + congruence.
    + destruct (Hp p eq_refl) as (-> & Hbig).
      exists None, PanicTooLong. split; [reflexivity|]. split; [apply ctor_inv_none_same; auto|].
      split; [exact Hh|]. split; [exact Hn|]. left. auto.
  - exists o. auto 12.
Qed.

Lemma op_clone w i w' out :
  WF w -> exec w (OClone i) = (w', out) ->
  (get_slot w i = None /\ w' = append_slot w (wmem w) None /\ out = Skip)
  \/ (exists r, nth_error (pool w) i = Some (Some r) /\ w' = append_slot w (wmem w') (Some r) /\ out = OkUnit
        /\ clone_post (wmem w) (refs (pool w)) r (wmem w') r
        /\ WF w' /\ all_same w (wmem w') /\ statics (wmem w') = statics (wmem w)).
Proof.
  intros HW He. cbn [exec] in He. destruct (get_slot w i) as [r|] eqn:Hg; [|left; injection He as <- <-; auto].
  right. apply get_slot_nth in Hg.
  pose proof (wf_mi _ HW) as HM. pose proof (wf_handles _ HW _ _ Hg) as Hr. pose proof (counted_refs _ _ _ Hg) as Hc.
  destruct (exec_ctor_sound w (c <- make_shallow_clone r ;; Ret (Some c, OkUnit))
              (fun m' s o => s = Some r /\ o = OkUnit /\ clone_post (wmem w) (refs (pool w)) r m' r) HW)
    with (w' := w') (out := out) as (s & Ew & (-> & -> & HP) & HW' & Ha & Hs & _); [|exact He|].
  - apply wp_bind. apply (clone_wp (wmem w) (refs (pool w)) r); auto. intros m' c HP. unfold lift. apply wp_ret.
    pose proof HP as [-> C _ _ _]. exists (Some r), OkUnit. split; [reflexivity|]. split; [exact C|]. auto.
  - exists r. auto 10.
Qed.

(* ---------- constructors that build in an owned accumulator (collect, to_lean_string on a Display type) ---------- *)
Lemma finish_acc_wp w m1 r1 oc (Q : out (option repr * outcome) -> mem -> Prop) :
  ctor_ok (wmem w) (refs (pool w)) m1 r1 ->
  (oc = OkUnit -> Q (OVal (Some r1, OkUnit)) m1) ->
  (oc <> OkUnit -> forall m2, ctor_inv w m2 None -> Q (OVal (None, oc)) m2) ->
  wp (finish_acc (r1, oc)) Q m1.
Proof.
  intros [E M H F] Hok Hno. unfold finish_acc.
  assert (Hdrop : oc <> OkUnit -> wp (replace_inner r1 repr_new;;; Ret (None, oc)) Q m1).
  { intros Hne. apply wp_bind.
    apply (replace_nonheap_wp m1 (fun b => refs (pool w) b + one (names r1 b)) r1 repr_new); auto.
    - intros b Hb. rewrite Hb. cbn [one]. lia.
    - intros h. apply repr_new_ok.
    - intros m2 r2 [-> [E2 M2 H2 F2] Hn2 _]. unfold lift. apply wp_ret. apply Hno; [exact Hne|].
      cbn [ctor_inv]. split; [eapply same_env_trans; eauto|]. split.
      + eapply MI_ext; [exact M2|]. intros b. unfold adj. cbn [names repr_new one]. pose proof (one_le (names r1 b)). lia.
      + eapply frame_trans; [exact F|]. eapply frame_weaken; [exact F2|]. intros b Hb. unfold others. cbv beta in Hb.
        pose proof (one_le (names r1 b)). lia. }
  destruct oc; try (apply Hdrop; discriminate). apply wp_ret. apply Hok. reflexivity.
Qed.

Record acc_post (ps : list (list N)) (ea pa : option nat) (m' : mem) (s : option repr) (out : outcome) : Prop := {
  ac_done : alloc_failure out = false ->
            match first_stop ea pa 0 (length ps) with
            | Some (_, o) => s = None /\ out = o
            | None => exists r', s = Some r' /\ out = OkUnit /\ text_of m' r' = concat ps
            end;
  ac_fail : alloc_failure out = true -> s = None;
}.

Lemma first_stop_outcome ea pa k n x o : first_stop ea pa k n = Some (x, o) -> o = ErrFmt \/ o = PanicUser.
Proof.
  unfold first_stop. destruct (stop_at ea k n), (stop_at pa k n); try discriminate.
  - destruct (Nat.leb n0 n1); intros E; injection E as _ <-; auto.
  - intros E; injection E as _ <-; auto.
  - intros E; injection E as _ <-; auto.
Qed.

Lemma outcome_eq_dec_reserve (o : outcome) : o = PanicReserve \/ o <> PanicReserve.
Proof. destruct o; (left; reflexivity) || (right; discriminate). Qed.

(* the loop over an accumulator r0 that is owned once and not in the pool *)
Lemma acc_loop_wp w m0 r0 ps ea pa (fx : outcome -> outcome) (Q : out (option repr * outcome) -> mem -> Prop) :
  WF w -> ctor_ok (wmem w) (refs (pool w)) m0 r0 -> text_of m0 r0 = [] -> Forall Valid ps ->
  (forall o, fx o = OkUnit <-> o = OkUnit) -> (forall o, o <> PanicReserve -> fx o = o) -> alloc_failure (fx PanicReserve) = true ->
  (forall m' s out, ctor_inv w m' s -> acc_post ps ea pa m' s out -> Q (OVal (s, out)) m') ->
  wp (p <- write_pieces r0 ps 0 ea pa ;; let '(r, o) := p in finish_acc (r, fx o)) Q m0.
Proof.
  intros HW [E0 M0 H0 F0] Ht0 Hv Hfx1 Hfx2 Hfx3 HQ.
  apply wp_bind. apply (write_pieces_wp ps m0 (fun b => refs (pool w) b + one (names r0 b)) r0 0 ea pa); auto.
  { intros b Hb. rewrite Hb. cbn [one]. lia. }
  intros m1 r1 o [[E1 M1 H1 F1] P2 P3]. unfold lift. rewrite Ht0 in P2, P3. cbn [app] in P2, P3.
  assert (C1 : ctor_ok (wmem w) (refs (pool w)) m1 r1).
  { split.
    - eapply same_env_trans; eauto.
    - eapply MI_ext; [exact M1|]. intros b. unfold adj. pose proof (one_le (names r0 b)). lia.
    - exact H1.
    - eapply frame_trans; [exact F0|]. eapply frame_weaken; [exact F1|]. intros b Hb. unfold others. cbv beta in Hb.
      pose proof (one_le (names r0 b)). lia. }
  apply (finish_acc_wp w); [exact C1| |].
  - intros Eo. apply (proj1 (Hfx1 o)) in Eo. subst o. apply HQ; [exact C1|]. split.
    + intros _. assert (Hne : OkUnit <> PanicReserve) by discriminate. specialize (P2 Hne).
      destruct (first_stop ea pa 0 (length ps)) as [[n o]|] eqn:Efs.
      * destruct P2 as (Eo & _). destruct (first_stop_outcome _ _ _ _ _ _ Efs) as [->| ->]; discriminate.
      * exists r1. destruct P2 as (_ & Ht). auto.
    + cbn [alloc_failure]. discriminate.
  - intros Hne m2 Hinv. apply HQ; [exact Hinv|]. split.
    + intros Haf. destruct (outcome_eq_dec_reserve o) as [->|Hnr].
      * rewrite Hfx3 in Haf. discriminate.
      * rewrite (Hfx2 o Hnr) in *. specialize (P2 Hnr).
        destruct (first_stop ea pa 0 (length ps)) as [[n o']|].
        -- destruct P2 as (-> & _). auto.
        -- destruct P2 as (-> & _). exfalso. apply Hne. reflexivity.
    + intros _. reflexivity.
Qed.

Definition ctor_result (w w' : world) (P : mem -> option repr -> Prop) : Prop :=
  exists s, w' = append_slot w (wmem w') s /\ P (wmem w') s /\ WF w' /\ all_same w (wmem w')
            /\ statics (wmem w') = statics (wmem w) /\ ctor_inv w (wmem w') s.

Lemma fx_id_props : (forall o : outcome, o = OkUnit <-> o = OkUnit) /\ (forall o : outcome, o <> PanicReserve -> o = o)
                    /\ alloc_failure PanicReserve = true.
Proof. repeat split; auto. Qed.

Lemma op_display w m ea pa ps w' out :
  WF w -> Forall Valid ps -> exec w (ODisplay m ea pa ps) = (w', out) ->
  ctor_result w w' (fun m' s => acc_post ps ea pa m' s out).
Proof.
  intros HW Hv He. cbn [exec] in He. unfold ctor_result.
  eapply (exec_ctor_sound w (display m ea pa ps) (fun m' s o => acc_post ps ea pa m' s o)); [exact HW| |exact He].
  unfold display.
  apply (acc_loop_wp w (wmem w) repr_new ps ea pa (fun o => match o with PanicReserve => fin m false | _ => o end));
    [exact HW| | |exact Hv| | | |].
  - apply ctor_ok_nonheap; [exact (wf_mi _ HW)|apply same_env_refl|reflexivity|reflexivity|apply repr_new_ok].
  - apply repr_new_text.
  - intros o. destruct o, m; cbn [fin]; split; intros H; try discriminate; auto.
  - intros o Hne. destruct o; auto. congruence.
  - destruct m; reflexivity.
  - intros m' s o Hinv HP. exists s, o. auto.
Qed.

Lemma acc_pair_wp w m0 r0 ps pa :
  WF w -> ctor_ok (wmem w) (refs (pool w)) m0 r0 -> text_of m0 r0 = [] -> Forall Valid ps ->
  wp (p <- write_pieces r0 ps 0 None pa ;; finish_acc p)
     (fun o0 m' => exists s out0, o0 = OVal (s, out0) /\ ctor_inv w m' s /\ acc_post ps None pa m' s out0) m0.
Proof.
  intros HW [E0 M0 H0 F0] Ht0 Hv.
  apply wp_bind. apply (write_pieces_wp ps m0 (fun b => refs (pool w) b + one (names r0 b)) r0 0 None pa).
  - exact M0.
  - exact H0.
  - intros b Hb. rewrite Hb. cbn [one]. lia.
  - exact Hv.
  - intros m1 r1 o HP1. unfold lift.
    pose proof HP1 as [[E1 M1 H1 F1] P2 P3]. rewrite Ht0 in P2, P3. cbn [app] in P2, P3.
    assert (C1 : ctor_ok (wmem w) (refs (pool w)) m1 r1).
    { split.
      - eapply same_env_trans; eauto.
      - eapply MI_ext; [exact M1|]. intros b. unfold adj. pose proof (one_le (names r0 b)). lia.
      - exact H1.
      - eapply frame_trans; [exact F0|]. eapply frame_weaken; [exact F1|]. intros b Hb. unfold others. cbv beta in Hb.
        pose proof (one_le (names r0 b)). lia. }
    apply (finish_acc_wp w); [exact C1| |].
    + intros ->. exists (Some r1), OkUnit. split; [reflexivity|]. split; [exact C1|]. split.
      * intros _. assert (Hne : OkUnit <> PanicReserve) by discriminate. specialize (P2 Hne).
        destruct (first_stop None pa 0 (length ps)) as [[n o]|] eqn:Efs.
        -- destruct P2 as (Eo & _). destruct (first_stop_outcome _ _ _ _ _ _ Efs) as [->| ->]; discriminate.
        -- exists r1. destruct P2 as (_ & Ht). auto.
      * discriminate.
    + intros Hne m2 Hinv. exists None, o. split; [reflexivity|]. split; [exact Hinv|]. split.
      * intros Haf. assert (Hnr : o <> PanicReserve) by (intros ->; discriminate). specialize (P2 Hnr).
        destruct (first_stop None pa 0 (length ps)) as [[n o']|].
        -- destruct P2 as (-> & _). auto.
        -- destruct P2 as (-> & _). exfalso. apply Hne. reflexivity.
      * intros _. reflexivity.
Qed.

Lemma op_collect_strs w pa ss w' out :
  WF w -> Forall Valid ss -> exec w (OCollectStrs pa ss) = (w', out) ->
  ctor_result w w' (fun m' s => acc_post ss None pa m' s out).
Proof.
  intros HW Hv He. cbn [exec] in He. unfold ctor_result.
  eapply (exec_ctor_sound w (collect_strs pa ss) (fun m' s o => acc_post ss None pa m' s o)); [exact HW| |exact He].
  unfold collect_strs, push_strs. apply acc_pair_wp; [exact HW| |apply repr_new_text|exact Hv].
  apply ctor_ok_nonheap; [exact (wf_mi _ HW)|apply same_env_refl|reflexivity|reflexivity|apply repr_new_ok].
Qed.

Lemma op_collect_chars w hint pa cs w' out :
  WF w -> Forall (fun c => is_scalar c = true) cs -> exec w (OCollectChars hint pa cs) = (w', out) ->
  ctor_result w w' (fun m' s => acc_post (map encode_cp cs) None pa m' s out).
Proof.
  intros HW Hv He. cbn [exec] in He. unfold ctor_result.
  eapply (exec_ctor_sound w (collect_chars hint pa cs) (fun m' s o => acc_post (map encode_cp cs) None pa m' s o));
    [exact HW| |exact He].
  unfold collect_chars, push_chars. apply wp_bind.
  apply (with_capacity_wp (wmem w) (refs (pool w))); [exact (wf_mi _ HW)|].
  intros m0 oc HP. unfold lift. destruct oc as [r0|].
  - destruct (wc_some _ _ _ _ _ HP r0 eq_refl) as (C0 & T0 & _).
    apply acc_pair_wp; [exact HW|exact C0|exact T0|apply Forall_valid_encode; exact Hv].
  - destruct (wc_none _ _ _ _ _ HP eq_refl) as (E0 & Hh0 & _).
    apply acc_pair_wp; [exact HW| |apply repr_new_text|apply Forall_valid_encode; exact Hv].
    apply ctor_ok_nonheap; [exact (wf_mi _ HW)|exact E0|exact Hh0|reflexivity|apply repr_new_ok].
Qed.

(* ---------- a constructor followed by in-place steps on the new handle ---------- *)
Lemma ctor_step_trans m own m1 r1 m2 r2 :
  ctor_ok m own m1 r1 -> step_ok m1 (fun b => own b + one (names r1 b)) r1 m2 r2 -> ctor_ok m own m2 r2.
Proof.
  intros [E0 M0 H0 F0] [E1 M1 H1 F1]. split.
  - eapply same_env_trans; eauto.
  - eapply MI_ext; [exact M1|]. intros b. unfold adj. pose proof (one_le (names r1 b)). lia.
  - exact H1.
  - eapply frame_trans; [exact F0|]. eapply frame_weaken; [exact F1|]. intros b Hb. unfold others. cbv beta in Hb.
    pose proof (one_le (names r1 b)). lia.
Qed.

Lemma ascii_valid_dec z : Valid (dec z).
Proof.
  apply valid_ascii. eapply Forall_impl; [|apply dec_ascii]. intros b [->|H]; lia.
Qed.

Record from_int_post (m : mem) (own : bufid -> N) (z : Z) (m' : mem) (o : option repr) : Prop := {
  fi_none : o = None -> same_env m m' /\ heap m' = heap m /\ 16 < len (dec z);
  fi_some : forall r', o = Some r' ->
            ctor_ok m own m' r' /\ text_of m' r' = dec z
            /\ (len (dec z) <= 16 -> is_heap r' = false /\ is_static r' = false /\ heap m' = heap m /\ nreq m' = nreq m)
            /\ (16 < len (dec z) -> is_heap r' = true /\ cap_of m' r' = len (dec z) /\ nreq m' = nreq m + 1);
}.

Lemma from_int_wp m own t z lo hi (Q : out (option repr) -> mem -> Prop) :
  MI (heap m) own -> lut_ok dec_digits_lut = true -> check_table (table_of t) lo hi = true -> (lo <= z <= hi)%Z ->
  (forall m' o, from_int_post m own z m' o -> Q (OVal o) m') ->
  wp (from_int t z) Q m.
Proof.
  intros HM Hlut Htab Hz HQ. unfold from_int.
  assert (Hr : (-9223372036854775808 <= z <= 18446744073709551615)%Z).
  { unfold check_table in Htab. apply andb_true_iff in Htab. destruct Htab as (H1 & _).
    apply andb_true_iff in H1. destruct H1 as (H1 & H2). apply Z.leb_le in H1, H2. lia. }
  pose proof (lookup_is_length _ _ _ Htab z Hz) as Hlk. rewrite <- (dec_length z Hr) in Hlk. rewrite Hlk.
  pose proof (int_to_text_correct _ _ _ _ Hlut Htab z Hz) as Hw. unfold int_to_text in Hw. rewrite Hlk in Hw. rewrite Hw.
  set (txt := dec z) in *. pose proof (ascii_valid_dec z) as Hv. fold txt in Hv.
  pose proof (dlen_le_20 z Hr) as H20. rewrite <- (dec_length z Hr) in H20. fold txt in H20.
  apply wp_bind. apply (with_capacity_wp m own); [exact HM|]. intros m1 oc HP. unfold lift.
  destruct oc as [r1|].
  2:{ destruct (wc_none _ _ _ _ _ HP eq_refl) as (E & Hh & Hb). apply wp_ret. apply HQ. split; [auto|discriminate]. }
  destruct (wc_some _ _ _ _ _ HP r1 eq_refl) as (C1 & T1 & Hcap & Hex & Hsm & Hbg).
  pose proof (co_mi _ _ _ _ C1) as M1. pose proof (co_h _ _ _ _ C1) as H1.
  destruct (N.leb_spec (len txt) 16) as [Hs|Hb].
  - destruct (Hsm Hs) as (-> & Hh1 & Hn1). cbn [write_at repr_new].
    apply wp_bind. apply wp_ret. unfold lift. apply wp_bind. apply set_len_wp; [unfold MAX_LEN; lia|]. unfold lift. apply wp_ret.
    cbn [with_len]. change (N.to_nat 0) with 0%nat.
    set (d' := write_range inline_empty 0 txt).
    assert (Hl16 : (length txt <= 16)%nat) by (unfold len in Hs; lia).
    assert (Hd' : length d' = 16%nat) by (unfold d'; rewrite write_range_length; [reflexivity|cbn [length inline_empty zeros repeat app]; lia]).
    assert (Hpre : firstn (N.to_nat (len txt)) d' = txt).
    { unfold d'. rewrite len_to_nat. replace (length txt) with (0 + length txt)%nat at 1 by lia.
      rewrite write_range_prefix by lia. reflexivity. }
    assert (Hv2 : Valid (firstn (N.to_nat (len txt)) d')) by (rewrite Hpre; exact Hv).
    assert (H192 : len txt = 16 -> nthN d' 15 < 192).
    { intros E. apply full_inline_last; [exact Hd'|]. rewrite E in Hv2. exact Hv2. }
    destruct (finish_inline m1 (fun b => own b + one (names repr_new b)) inline_empty d' (len txt) m1 M1 Hd' Hs Hv2 H192
                (same_env_refl m1) eq_refl) as (S1 & S2 & S3).
    apply HQ. split; [discriminate|]. intros r' E. injection E as <-.
    split; [eapply ctor_step_trans; eauto|]. split; [rewrite S2; exact Hpre|]. split; [intros _; auto|intros Hx; lia].
  - destruct (Hbg Hb) as (Hh1 & Hc1 & Hn1).
    destruct r1 as [d|b l1|s1 l1]; try discriminate.
    destruct Hex as (x & Hbx & Hlx & Hcx). cbn [cap_of] in Hc1. rewrite Hbx in Hc1.
    destruct (MI_lookup _ _ _ _ M1 Hbx Hlx) as ((W1 & W2 & W3) & _ & _).
    cbn [write_at]. apply wp_bind. apply wp_bind. eapply write_heap_wp; [exact Hbx|exact Hlx|lia|].
    intros m2 He2 Hh2 Hn2. unfold lift. apply wp_ret. unfold lift.
    apply wp_bind. apply set_len_wp; [unfold MAX_LEN; lia|]. unfold lift. apply wp_ret. cbn [with_len].
    change (N.to_nat 0) with 0%nat in Hh2.
    set (d' := write_range (data x) 0 txt) in *.
    assert (Hd' : len d' = len (data x)).
    { unfold d', len. rewrite write_range_length; [reflexivity|]. unfold len in *. lia. }
    assert (Hpre : firstn (N.to_nat (len txt)) d' = txt).
    { unfold d'. rewrite len_to_nat. replace (length txt) with (0 + length txt)%nat at 1 by lia.
      rewrite write_range_prefix by lia. reflexivity. }
    assert (Hv2 : Valid (firstn (N.to_nat (len txt)) d')) by (rewrite Hpre; exact Hv).
    assert (Hlc : len txt <= cap x) by lia.
    destruct (heap_data_step_ok m1 (fun b' => own b' + one (names (Heap b l1) b')) b l1 (len txt) x d' m2 M1 Hbx Hlx Hcx Hd' Hlc Hv2 He2 Hh2)
      as (S1 & S2 & S3 & S4).
    apply HQ. split; [discriminate|]. intros r' E. injection E as <-.
    split; [eapply ctor_step_trans; eauto|]. split; [rewrite S2; exact Hpre|]. split; [intros Hx; lia|].
    intros _. split; [reflexivity|]. split; [rewrite S4; exact Hc1|lia].
Qed.

Lemma op_from_int w m t z lo hi w' out :
  WF w -> lut_ok dec_digits_lut = true -> check_table (table_of t) lo hi = true -> (lo <= z <= hi)%Z ->
  exec w (OFromInt m t z) = (w', out) ->
  exists s, w' = append_slot w (wmem w') s /\ WF w' /\ all_same w (wmem w') /\ statics (wmem w') = statics (wmem w)
            /\ from_int_post (wmem w) (refs (pool w)) z (wmem w') s
            /\ out = match s with Some _ => OkUnit | None => fin m false end.
Proof.
  intros HW Hlut Htab Hz He. cbn [exec] in He.
  destruct (exec_ctor_sound w (opt_ctor m (from_int t z)) (fun m' s o => from_int_post (wmem w) (refs (pool w)) z m' s
                                    /\ o = match s with Some _ => OkUnit | None => fin m false end) HW) with (w' := w') (out := out)
    as (s & Ew & (HP & Ho) & HW' & Ha & Hs & _); [|exact He|].
  - unfold opt_ctor. apply wp_bind. apply (from_int_wp (wmem w) (refs (pool w)) t z lo hi); auto; [exact (wf_mi _ HW)|].
    intros m' o HP. unfold lift. destruct o as [r'|]; apply wp_ret.
    + exists (Some r'), OkUnit. split; [reflexivity|]. split; [|auto]. cbn [ctor_inv].
      destruct (fi_some _ _ _ _ _ HP r' eq_refl) as (H1 & _). exact H1.
    + exists None, (fin m false). split; [reflexivity|]. split; [|auto].
      destruct (fi_none _ _ _ _ _ HP eq_refl) as (E & Hh & _). apply ctor_inv_none_same; auto.
  - exists s. auto 10.
Qed.

(* ---------- s = s + x ---------- *)
Lemma op_add w i s w' out :
  WF w -> Valid s -> exec w (OAdd i s) = (w', out) ->
  (get_slot w i = None /\ w' = w /\ out = Skip)
  \/ (exists r, nth_error (pool w) i = Some (Some r) /\ WF w' /\ others_same w i (wmem w')
        /\ statics (wmem w') = statics (wmem w)
        /\ ((exists r', w' = set_slot w (wmem w') i (Some r') /\ out = OkUnit
                        /\ push_post (wmem w) (refs (pool w)) r s (wmem w') r' true)
            \/ (w' = set_slot w (wmem w') i None /\ out = PanicReserve))).
Proof.
  intros HW Hv He. cbn [exec] in He. destruct (get_slot w i) as [r|] eqn:Hg; [|left; injection He as <- <-; auto].
  right. apply get_slot_nth in Hg.
  pose proof (wf_mi _ HW) as HM. pose proof (wf_handles _ HW _ _ Hg) as Hr. pose proof (counted_refs _ _ _ Hg) as Hc.
  match type of He with (match run ?c _ with _ => _ end = _) =>
    assert (HA : wp c (fun o m' => match o with
                       | OVal (Some r') => push_post (wmem w) (refs (pool w)) r s m' r' true
                       | OVal None => exists r1, step_ok (wmem w) (refs (pool w)) r m' r1 /\ (forall b, names r1 b = false)
                       | OUb _ => False end) (wmem w)) end.
  { apply wp_bind. apply (push_str_wp (wmem w) (refs (pool w))); auto. intros m1 r1 ok HP. unfold lift. cbn [fst snd].
    destruct ok.
    - apply wp_ret. exact HP.
    - pose proof (pp_step _ _ _ _ _ _ _ HP) as S1.
      apply wp_bind. apply (replace_nonheap_wp m1 (adj (refs (pool w)) r r1) r1 repr_new).
      + exact (so_mi _ _ _ _ _ S1).
      + exact (so_h _ _ _ _ _ S1).
      + apply counted_adj.
      + reflexivity.
      + intros h. apply repr_new_ok.
      + intros m2 r2 [-> S2 _ _]. unfold lift. apply wp_ret. exists repr_new. split; [|apply repr_new_names].
        eapply step_ok_trans; eauto. }
  apply wp_run in HA. destruct (run _ (wmem w)) as [[[r'|]|u] m'] eqn:Hrun; cbn [fst snd] in HA; [| |contradiction].
  - injection He as <- <-. pose proof (pp_step _ _ _ _ _ _ _ HA) as S.
    destruct (wf_set_slot w i r m' r' HW Hg S) as (HW' & Ho).
    exists r. cbn [set_slot wmem]. split; [exact Hg|]. split; [exact HW'|]. split.
    { intros j rj Hne Hj. apply (Ho j rj Hne Hj). }
    split; [destruct S as [(E1 & _) _ _ _]; exact E1|]. left. exists r'. auto.
  - injection He as <- <-. destruct HA as (r1 & S & Hn).
    destruct (wf_clear_slot w i r m' r1 HW Hg S Hn) as (HW' & Ho).
    exists r. cbn [set_slot wmem]. split; [exact Hg|]. split; [exact HW'|]. split; [exact Ho|].
    split; [destruct S as [(E1 & _) _ _ _]; exact E1|]. right. auto.
Qed.
