From Coq Require Import List Arith Lia Bool.
Import ListNotations.
From LSConc Require Import Clock Mach Inv.

Lemma T_upd s t x u (msgs' : list msg) W R l :
  t < length (ths s) ->
  T {| msgs := msgs'; Wc := W; Rc := R; live := l; ths := upd (ths s) t x |} u
  = if Nat.eqb u t then x else T s u.
Proof.
  intros Ht. unfold T, getth. cbn [ths].
  destruct (Nat.eqb_spec u t) as [->|Hne]; [apply nth_upd_eq; auto | apply nth_upd_ne; auto].
Qed.

Lemma get_tick c t u : get (tick c t) u = if Nat.eqb u t then S (get c t) else get c u.
Proof. unfold tick. rewrite get_setc. reflexivity. Qed.

Lemma hb_own_tick c t m : wt m = t -> we m = get (tick c t) t -> hb m (tick c t).
Proof. unfold hb. intros -> ->. lia. Qed.

Definition J10P (s : st) : Prop :=
  forall c p, lend (T s c) = S p ->
    started (T s c) = true /\ p <> c /\ refs (T s p) > 0 /\ lend (T s p) = 0 /\ excl (T s p) = false
    /\ cle (Wc s) (clk (T s c)).
(* one thread's local state changes, its clock grows, it keeps its borrowing status, the write clock is untouched, and
   if it is lending it keeps a reference and stays non-exclusive *)
Lemma J10_upd s t x' M R l :
  Inv s -> t < length (ths s) -> lend x' = lend (T s t) -> started x' = true -> cle (clk (T s t)) (clk x') ->
  ((exists c, lend (T s c) = S t) -> refs x' > 0 /\ excl x' = false) ->
  J10P {| msgs := M; Wc := Wc s; Rc := R; live := l; ths := upd (ths s) t x' |}.
Proof.
  intros I Ht Hl Hst Hcc Hlender c p. rewrite !T_upd by exact Ht. cbn [Wc].
  destruct (Nat.eqb_spec c t) as [->|Hct].
  - rewrite Hl. intros E. destruct (J10 s I t p E) as (_ & Hpt & Hr & Hlp & Hep & HW).
    destruct (Nat.eqb_spec p t) as [->|_]; [congruence|].
    split; [exact Hst|]. split; [exact Hpt|]. split; [exact Hr|]. split; [exact Hlp|]. split; [exact Hep|].
    eapply cle_trans; [exact HW|exact Hcc].
  - intros E. destruct (J10 s I c p E) as (Hsc & Hpc & Hr & Hlp & Hep & HW).
    destruct (Nat.eqb_spec p t) as [->|_].
    + destruct (Hlender (ex_intro _ c E)) as (Hr' & He').
      split; [exact Hsc|]. split; [exact Hpc|]. split; [exact Hr'|]. split; [congruence|]. split; [exact He'|exact HW].
    + auto 10.
Qed.

Definition J7P (s : st) : Prop :=
  forall u q m, refs (T s u) > 0 -> q > 0 -> nth_error (msgs s) q = Some m -> unseen s u q -> refs (T s u) + 1 <= val m.
(* clocks only grow and nobody stops borrowing: what was unseen afterwards was unseen before *)
Lemma unseen_mono s s' u q :
  msgs s' = msgs s -> cle (clk (T s u)) (clk (T s' u)) ->
  (forall c, lend (T s c) = S u -> lend (T s' c) = S u /\ cle (clk (T s c)) (clk (T s' c))) ->
  unseen s' u q -> unseen s u q.
Proof.
  intros Hm Hu Hb H m' Hin. rewrite <- Hm in Hin. destruct (H m' Hin) as (H1 & H2). split.
  - intros Hhb. apply H1. eapply hb_mono; eauto.
  - intros c Hc Hhb. destruct (Hb c Hc) as (Hl & Hcl). apply (H2 c Hl). eapply hb_mono; eauto.
Qed.
(* one thread's clock grows, messages and reference counts stay: the stale-read bound is kept *)
Lemma J7_upd s t x' W R l :
  Inv s -> t < length (ths s) -> lend x' = lend (T s t) -> cle (clk (T s t)) (clk x') -> refs x' = refs (T s t) ->
  J7P {| msgs := msgs s; Wc := W; Rc := R; live := l; ths := upd (ths s) t x' |}.
Proof.
  intros I Ht Hl Hcc Hr u q m. cbn [msgs].
  set (s' := {| msgs := msgs s; Wc := W; Rc := R; live := l; ths := upd (ths s) t x' |}).
  assert (HT : forall v, T s' v = if Nat.eqb v t then x' else T s v) by (intros v; apply T_upd; exact Ht).
  assert (Hclk : forall v, cle (clk (T s v)) (clk (T s' v))).
  { intros v. rewrite HT. destruct (Nat.eqb_spec v t) as [->|]; [exact Hcc|apply cle_refl]. }
  assert (Hlend : forall v, lend (T s' v) = lend (T s v)).
  { intros v. rewrite HT. destruct (Nat.eqb_spec v t) as [->|]; [exact Hl|reflexivity]. }
  assert (Hrefs : refs (T s' u) = refs (T s u)).
  { rewrite HT. destruct (Nat.eqb_spec u t) as [->|]; [exact Hr|reflexivity]. }
  rewrite Hrefs. intros Hru Hq Hn Hun. apply (J7 s I u q m Hru Hq Hn).
  apply (unseen_mono s s' u q); [reflexivity|apply Hclk| |exact Hun].
  intros c Hc. split; [rewrite Hlend; exact Hc|apply Hclk].
Qed.

(* thread t publishes a message m (an RMW on the count) *)
Lemma unseen_cons s t x' m W R l u p :
  t < length (ths s) -> lend x' = lend (T s t) -> cle (clk (T s t)) (clk x') -> u <> t ->
  unseen {| msgs := m :: msgs s; Wc := W; Rc := R; live := l; ths := upd (ths s) t x' |} u (S p) -> unseen s u p.
Proof.
  intros Ht Hl Hcc Hut H m' Hin.
  set (s' := {| msgs := m :: msgs s; Wc := W; Rc := R; live := l; ths := upd (ths s) t x' |}) in *.
  assert (HT : forall v, T s' v = if Nat.eqb v t then x' else T s v) by (intros v; apply T_upd; exact Ht).
  destruct (H m') as (H1 & H2); [cbn [s' msgs firstn]; right; exact Hin|]. split.
  - rewrite HT in H1. destruct (Nat.eqb_spec u t); [contradiction|exact H1].
  - intros c Hc Hhb. apply (H2 c).
    + rewrite HT. destruct (Nat.eqb_spec c t) as [->|]; [rewrite Hl; exact Hc|exact Hc].
    + rewrite HT. destruct (Nat.eqb_spec c t) as [->|]; [eapply hb_mono; [exact Hcc|exact Hhb]|exact Hhb].
Qed.
(* its own message is never unseen by the writer, nor by the thread whose handle the writer borrows *)
Lemma unseen_own s t x' m W R l p :
  t < length (ths s) -> hb m (clk x') ->
  ~ unseen {| msgs := m :: msgs s; Wc := W; Rc := R; live := l; ths := upd (ths s) t x' |} t (S p).
Proof.
  intros Ht Hhb H. destruct (H m) as (H1 & _); [cbn [msgs firstn]; left; reflexivity|].
  apply H1. rewrite T_upd by exact Ht. rewrite Nat.eqb_refl. exact Hhb.
Qed.
Lemma unseen_lender s t x' m W R l u p :
  t < length (ths s) -> lend x' = S u -> hb m (clk x') ->
  ~ unseen {| msgs := m :: msgs s; Wc := W; Rc := R; live := l; ths := upd (ths s) t x' |} u (S p).
Proof.
  intros Ht Hl Hhb H. destruct (H m) as (_ & H2); [cbn [msgs firstn]; left; reflexivity|].
  apply (H2 t); rewrite T_upd by exact Ht; rewrite Nat.eqb_refl; [exact Hl|exact Hhb].
Qed.

Definition J11P (s : st) : Prop :=
  forall u p m, refs (T s u) > 0 -> nth_error (msgs s) p = Some m ->
    (forall m', In m' (firstn p (msgs s)) -> ~ hb m' (clk (T s u))) -> refs (T s u) <= val m.
(* one thread's clock grows, it gains no reference, the messages stay *)
Lemma J11_upd s t x' W R l :
  Inv s -> t < length (ths s) -> cle (clk (T s t)) (clk x') -> refs x' <= refs (T s t) ->
  J11P {| msgs := msgs s; Wc := W; Rc := R; live := l; ths := upd (ths s) t x' |}.
Proof.
  intros I Ht Hcc Hr u p m. cbn [msgs]. rewrite T_upd by exact Ht.
  destruct (Nat.eqb_spec u t) as [->|Hne]; [|apply (J11 s I u p m)].
  intros Hr' Hn Hun. assert (refs (T s t) <= val m); [|lia].
  apply (J11 s I t p m); [lia|exact Hn|]. intros m' Hin Hhb. apply (Hun m' Hin). eapply hb_mono; eauto.
Qed.
(* thread t publishes a message m0 that counts at least everybody's references afterwards *)
Lemma J11_cons s t x' m0 W R l :
  Inv s -> t < length (ths s) -> hb m0 (clk x') ->
  (forall u, refs (T {| msgs := m0 :: msgs s; Wc := W; Rc := R; live := l; ths := upd (ths s) t x' |} u) <= val m0) ->
  J11P {| msgs := m0 :: msgs s; Wc := W; Rc := R; live := l; ths := upd (ths s) t x' |}.
Proof.
  intros I Ht Hhb Hall u p m. destruct p as [|p]; cbn [msgs nth_error firstn].
  - intros _ [= <-] _. apply Hall.
  - clear Hall. rewrite T_upd by exact Ht. destruct (Nat.eqb_spec u t) as [->|Hne].
    + intros _ _ Hun. exfalso. apply (Hun m0); [left; reflexivity|exact Hhb].
    + intros Hr Hn Hun. apply (J11 s I u p m Hr Hn). intros m' Hin. apply Hun. right. exact Hin.
Qed.

Ltac pw_rw := repeat rewrite ?get_setc, ?get_tick, ?get_join, ?get_single, ?get_nil, ?Nat.eqb_refl.
Ltac pw_case := repeat match goal with |- context[Nat.eqb ?a ?b] => destruct (Nat.eqb_spec a b); subst end.
Ltac pw :=
  let v := fresh "v" in
  unfold cle; intros v;
  repeat match goal with H : cle _ _ |- _ => generalize (H v); clear H end;
  pw_rw; pw_case; pw_rw; intros; try lia.

Ltac inv_step H :=
  unfold step in H;
  match type of H with context [Nat.ltb ?t (length ?l)] =>
    destruct (Nat.ltb_spec t (length l)) as [Ht|Ht]; cbn [negb] in H; [|discriminate] end.

(* ---------- ARead ---------- *)
Lemma pres_read s t s' : Inv s -> step s t ARead = Ok s' -> Inv s'.
Proof.
  intros I H. inv_step H. fold (T s t) in H.
  destruct (started (T s t)) eqn:Hst; cbn [negb] in H; [|discriminate].
  destruct (Nat.ltb_spec 0 (refs (T s t))) as [Hr|Hr]; cbn [negb] in H; [|discriminate].
  destruct (live s) eqn:Hl; cbn [negb] in H; [|discriminate].
  destruct (cleb (Wc s) (clk (T s t))) eqn:HW; cbn [negb] in H; [|discriminate].
  injection H as <-.
  set (x' := {| clk := tick (clk (T s t)) t; pend := pend (T s t); refs := refs (T s t);
                excl := excl (T s t); mustfree := mustfree (T s t); started := true; lend := lend (T s t) |}).
  assert (HT : forall M W R l u, T {| msgs := M; Wc := W; Rc := R; live := l; ths := upd (ths s) t x' |} u
                         = if Nat.eqb u t then x' else T s u) by (intros; apply T_upd; auto).
  assert (Htot : total (upd (ths s) t x') = total (ths s)).
  { pose proof (total_upd (ths s) t x' Ht). unfold T, getth in *. cbn [refs x'] in H. subst x'; cbn [refs] in *. lia. }
  assert (Hcc : cle (clk (T s t)) (clk x')) by (cbn [clk x']; apply cle_tick).
  constructor; cbn [msgs Wc Rc live ths]; unfold hdm; cbn [msgs].
  - intros Hl'. destruct (J1 s I Hl) as [Hne Hv]. split; [auto|]. rewrite Htot. exact Hv.
  - intros u. rewrite HT. destruct (Nat.eqb_spec u t) as [->|Hne]; cbn [refs clk x'].
    + intros _. eapply cle_trans; [apply (J2 s I t Hr) | apply cle_tick].
    + apply (J2 s I u).
  - intros _ u. rewrite get_setc. destruct (Nat.eqb_spec u t) as [->|Hne].
    + right. left. exists t. rewrite HT, Nat.eqb_refl. cbn [refs clk x']. split; [lia|lia].
    + destruct (J3 s I Hl u) as [H3|[[h [Hh H3]]|[[h [Hm H3]]|[h [Hb H3]]]]]; [left; exact H3| | |].
      * right. left. exists h. rewrite HT. destruct (Nat.eqb_spec h t) as [->|Hne']; cbn [refs clk x'].
        -- split; [lia|]. rewrite get_tick. destruct (Nat.eqb_spec u t); [lia|exact H3].
        -- auto.
      * exfalso. exact (mustfree_no_refs s h t I Hm Hr).
      * right. right. right. exists h. rewrite HT. destruct (Nat.eqb_spec h t) as [->|Hne']; cbn [lend clk x']; [|auto].
        split; [exact Hb|]. specialize (Hcc u). cbn [clk x'] in Hcc. lia.
  - intros u. rewrite HT. destruct (Nat.eqb_spec u t) as [->|Hne]; cbn [mustfree clk pend x'].
    + intros Hm. destruct (J4 s I t Hm) as (_ & H0 & _). unfold T, getth in Hr. pose proof (total_ge (ths s) t). lia.
    + intros Hm. destruct (J4 s I u Hm) as (_ & H0 & _). unfold T, getth in Hr. pose proof (total_ge (ths s) t). lia.
  - intros u. rewrite HT. destruct (Nat.eqb_spec u t) as [->|Hne]; cbn [excl refs clk x'].
    + intros He. destruct (J5 s I t He) as (_ & H1 & Ht1 & HWc & HRc).
      repeat split; auto; try (rewrite Htot; auto).
      * pw.
      * pw.
    + intros He. destruct (J5 s I u He) as (_ & H1 & Ht1 & _).
      pose proof (total_ge2 (ths s) u t Hne). unfold T, getth in *. lia.
  - discriminate.
  - apply J7_upd; auto.
  - intros u. rewrite HT. destruct (Nat.eqb_spec u t) as [->|Hne]; cbn [started refs mustfree excl x'].
    + discriminate.
    + apply (J8 s I u).
  - intros _ H0. rewrite Htot in H0. pose proof (total_ge (ths s) t). unfold T, getth in *. lia.
  - apply J10_upd; auto. intros (c & Hc). destruct (J10 s I c t Hc) as (_ & _ & Hr' & _ & He' & _). auto.
  - apply J11_upd; auto.
Qed.
