From Coq Require Import List Arith Lia Bool.
Import ListNotations.
From LSConc Require Import Clock Mach Inv Pres Pres2 Pres3.

(* ---------- AWrite ---------- *)
Lemma pres_write s t s' : Inv s -> step s t AWrite = Ok s' -> Inv s'.
Proof.
  intros I H. inv_step H. fold (T s t) in H.
  destruct (started (T s t)) eqn:Hst; cbn [negb] in H; [|discriminate].
  destruct (excl (T s t)) eqn:Hex; cbn [negb orb] in H; [|discriminate].
  destruct (lends_from s t) eqn:Hlf; [discriminate|].
  destruct (live s) eqn:Hl; cbn [negb] in H; [|discriminate].
  destruct (cleb _ _ && cleb _ _) eqn:Hc; cbn [negb] in H; [|discriminate].
  injection H as <-.
  destruct (J5 s I t Hex) as (_ & Hr1 & Htot1 & HWc & HRc).
  destruct (J1 s I Hl) as [Hne Hv].
  set (c' := tick (clk (T s t)) t).
  set (x' := {| clk := c'; pend := pend (T s t); refs := refs (T s t);
                excl := true; mustfree := mustfree (T s t); started := true; lend := lend (T s t) |}).
  assert (HT : forall M W R l u, T {| msgs := M; Wc := W; Rc := R; live := l; ths := upd (ths s) t x' |} u
                         = if Nat.eqb u t then x' else T s u) by (intros; apply T_upd; auto).
  assert (Htot : total (upd (ths s) t x') = total (ths s)).
  { pose proof (total_upd (ths s) t x' Ht). unfold T, getth in *. subst x'; cbn [refs] in *. lia. }
  assert (Hcc : cle (clk (T s t)) c') by (subst c'; pw).
  assert (Hall0 : forall w, w <> t -> refs (T s w) = 0).
  { intros w Hw. pose proof (T2_le_total s t w (not_eq_sym Hw)). lia. }
  constructor; cbn [msgs Wc Rc live ths]; unfold hdm; cbn [msgs].
  - intros _. split; [auto|]. rewrite Htot. exact Hv.
  - intros u. rewrite HT. destruct (Nat.eqb_spec u t) as [->|Hne']; cbn [refs clk x'].
    + intros _. subst c'. pw.
    + intros Hu. specialize (Hall0 u Hne'). lia.
  - intros _ u. destruct (J3 s I Hl u) as [H3|[[h [Hh H3]]|[[h [Hm H3]]|[h [Hb H3]]]]]; [left; exact H3| | |].
    + right. left. exists h. rewrite HT. destruct (Nat.eqb_spec h t) as [->|Hne']; cbn [refs clk x']; [|auto].
      split; [lia|]. specialize (Hcc u). lia.
    + exfalso. apply (mustfree_no_refs s h t I Hm). lia.
    + right. right. right. exists h. rewrite HT. destruct (Nat.eqb_spec h t) as [->|Hne']; cbn [lend clk x']; [|auto].
      split; [exact Hb|]. specialize (Hcc u). lia.
  - intros u. rewrite HT. destruct (Nat.eqb_spec u t) as [->|Hne']; cbn [mustfree clk pend x'];
      intros Hm; [destruct (J4 s I t Hm) as (_ & H0 & _)|destruct (J4 s I u Hm) as (_ & H0 & _)]; lia.
  - intros u. rewrite HT. destruct (Nat.eqb_spec u t) as [->|Hne']; cbn [excl refs clk x'].
    + intros _. repeat split; auto; try (rewrite Htot; auto); subst c'; pw.
    + intros He. destruct (J5 s I u He) as (_ & H1 & _). specialize (Hall0 u Hne'). lia.
  - discriminate.
  - apply J7_upd; auto.
  - intros u. rewrite HT. destruct (Nat.eqb_spec u t) as [->|Hne']; cbn [started x']; [discriminate|].
    apply (J8 s I u).
  - intros _ H0. rewrite Htot in H0. lia.
  - intros c0 p0. rewrite HT. intros El. exfalso.
    destruct (Nat.eqb_spec c0 t) as [->|_]; cbn [lend x'] in El; exact (borrower_no_excl s _ p0 t I El Hex).
  - apply J11_upd; auto.
Qed.

(* ---------- AClone ---------- *)
Lemma pres_clone s t s' : Inv s -> step s t AClone = Ok s' -> Inv s'.
Proof.
  intros I H. inv_step H. fold (T s t) in H.
  destruct (started (T s t)) eqn:Hst; cbn [negb] in H; [|discriminate].
  destruct (Nat.ltb_spec 0 (refs (T s t))) as [Hr|Hr]; cbn [negb] in H; [|discriminate].
  destruct (live s) eqn:Hl; cbn [negb] in H; [|discriminate].
  injection H as <-.
  destruct (J1 s I Hl) as [Hne Hv].
  set (c' := tick (clk (T s t)) t).
  set (x' := {| clk := c'; pend := join (pend (T s t)) (view (hdm s)); refs := S (refs (T s t));
                excl := false; mustfree := mustfree (T s t); started := true; lend := lend (T s t) |}).
  set (m := {| val := S (val (hdm s)); view := view (hdm s); wt := t; we := get c' t |}).
  assert (HT : forall M W R l u, T {| msgs := M; Wc := W; Rc := R; live := l; ths := upd (ths s) t x' |} u
                         = if Nat.eqb u t then x' else T s u) by (intros; apply T_upd; auto).
  assert (Htot : total (upd (ths s) t x') = total (ths s) + 1).
  { pose proof (total_upd (ths s) t x' Ht). unfold T, getth in *. subst x'; cbn [refs] in *. lia. }
  assert (Hcc : cle (clk (T s t)) c') by (subst c'; pw).
  pose proof (T_le_total s t) as Hle.
  constructor; cbn [msgs Wc Rc live ths]; unfold hdm; cbn [msgs hd].
  - intros _. split; [discriminate|]. cbn [val m]. lia.
  - intros u. rewrite HT. destruct (Nat.eqb_spec u t) as [->|Hne']; cbn [refs clk x'].
    + intros _. eapply cle_trans; [apply (J2 s I t Hr) | exact Hcc].
    + apply (J2 s I u).
  - intros _ u. cbn [view m]. destruct (J3 s I Hl u) as [H3|[[h [Hh H3]]|[[h [Hm H3]]|[h [Hb H3]]]]]; [left; exact H3| | |].
    + right. left. exists h. rewrite HT. destruct (Nat.eqb_spec h t) as [->|Hne']; cbn [refs clk x']; [|auto].
      split; [lia|]. specialize (Hcc u). lia.
    + exfalso. apply (mustfree_no_refs s h t I Hm). lia.
    + right. right. right. exists h. rewrite HT. destruct (Nat.eqb_spec h t) as [->|Hne']; cbn [lend clk x']; [|auto].
      split; [exact Hb|]. specialize (Hcc u). lia.
  - intros u. rewrite HT. destruct (Nat.eqb_spec u t) as [->|Hne']; cbn [mustfree clk pend x'];
      intros Hm; [destruct (J4 s I t Hm) as (_ & H0 & _)|destruct (J4 s I u Hm) as (_ & H0 & _)]; lia.
  - intros u. rewrite HT. destruct (Nat.eqb_spec u t) as [->|Hne']; cbn [excl x']; [discriminate|].
    intros He. destruct (J5 s I u He) as (_ & H1 & Ht1 & _). pose proof (T2_le_total s u t Hne'). lia.
  - discriminate.
  - intros u p m0. rewrite HT. destruct (Nat.eqb_spec u t) as [->|Hne']; cbn [refs clk x'].
    + intros Hr' Hp Hn Hall. exfalso. destruct p as [|p]; [lia|].
      refine (unseen_own s t x' m _ _ _ p Ht _ Hall). unfold hb. cbn [wt we m clk x']. lia.
    + intros Hr' Hp Hn Hall. destruct p as [|p]; [lia|]. cbn [nth_error] in Hn.
      destruct p as [|p].
      * destruct (msgs s) as [|m1 l1] eqn:Hms; [contradiction|]. cbn in Hn. injection Hn as <-.
        unfold hdm in Hv. rewrite Hms in Hv. cbn [hd] in Hv. rewrite Hv.
        pose proof (T2_le_total s u t Hne'). lia.
      * apply (J7 s I u (S p) m0 Hr' ltac:(lia) Hn).
        refine (unseen_cons s t x' m _ _ _ u (S p) Ht _ Hcc Hne' Hall). reflexivity.
  - intros u. rewrite HT. destruct (Nat.eqb_spec u t) as [->|Hne']; cbn [started x']; [discriminate|].
    apply (J8 s I u).
  - intros _ H0. lia.
  - apply J10_upd; auto. intros (c0 & Hc0). cbn [refs excl x']. split; [lia|reflexivity].
  - apply J11_cons; auto.
    + unfold hb. cbn [wt we m clk x']. lia.
    + intros u. cbn [val m]. pose proof (total_ge (upd (ths s) t x') u) as Hg. unfold T, getth. cbn [ths]. lia.
Qed.
