From Coq Require Import List Arith Lia Bool.
Import ListNotations.
From LSConc Require Import Clock Mach Inv StepSpec Top.

(* The protocol machine carries no buffer contents.  This file adds them as a ghost over schedules whose write steps
   carry the value written, and proves that what a thread can read through a handle, a loan or the duty to free is
   determined by its own writes alone — for every schedule of the other threads, with the thread itself moving too. *)

(* thread t can reach the buffer: it holds a reference, reads through a borrowed handle, or must free it *)
Definition holds (s : st) (t : nat) : Prop :=
  refs (getth s t) > 0 \/ lend (getth s t) <> 0 \/ mustfree (getth s t) = true.

(* t can reach the buffer in every state the schedule passes through *)
Fixpoint held_through (s : st) (t : nat) (l : list (nat * act)) : Prop :=
  holds s t /\
  match l with
  | [] => True
  | (u, a) :: l' => match step s u a with Ok s' => held_through s' t l' | _ => True end
  end.

Lemma write_excludes_all s u s' : Inv s -> step s u AWrite = Ok s' -> forall t, t <> u -> ~ holds s t.
Proof.
  intros I H t Hne Hh. destruct (step_spec s u AWrite s' H) as (_ & _ & _ & _ & _ & _ & He & _). cbn in He.
  destruct Hh as [Hr|[Hl|Hm]].
  - pose proof (write_excludes_others s u s' I H t Hne). lia.
  - destruct (lend (getth s t)) as [|p] eqn:El; [contradiction|]. exact (borrower_no_excl s t p u I El He).
  - destruct (J4 s I t Hm) as (_ & H0 & _). destruct (J5 s I u He) as (_ & _ & H1 & _). lia.
Qed.

Lemma free_excludes_all s u s' : Inv s -> step s u AFree = Ok s' -> forall t, t <> u -> ~ holds s t.
Proof.
  intros I H t Hne Hh. destruct (step_spec s u AFree s' H) as (_ & _ & _ & _ & _ & _ & Hm & _). cbn in Hm.
  destruct Hh as [Hr|[Hl|Hm']].
  - pose proof (free_excludes_holders s u s' I H t). lia.
  - destruct (lend (getth s t)) as [|p] eqn:El; [contradiction|]. exact (borrower_no_mustfree s t p u I El Hm).
  - destruct (J4 s I u Hm) as (_ & _ & _ & _ & Hu). specialize (Hu t Hm'). congruence.
Qed.

(* every write, reallocation or release of the buffer that happens while t can reach it is t's own *)
Theorem writes_while_held_are_own t : forall sched s s',
  Inv s -> run s sched = Ok s' -> held_through s t sched ->
  Forall (fun ua => (snd ua = AWrite \/ snd ua = AFree) -> fst ua = t) sched.
Proof.
  induction sched as [|[u a] l IH]; intros s s' I Hrun Hh; [constructor|].
  cbn [run] in Hrun. cbn [held_through] in Hh. destruct Hh as (Hs & Hh).
  destruct (step s u a) as [s1|e|] eqn:E; try discriminate.
  constructor; [|exact (IH s1 s' (pres _ _ _ _ I E) Hrun Hh)].
  cbn [fst snd]. intros [->| ->]; destruct (Nat.eq_dec u t) as [|Hne]; auto; exfalso.
  - exact (write_excludes_all s u s1 I E t ltac:(auto) Hs).
  - exact (free_excludes_all s u s1 I E t ltac:(auto) Hs).
Qed.

(* ---------- contents as a ghost of the schedule ---------- *)
Section Data.
  Variable D : Type.
  (* a schedule whose steps carry a datum; only a write's datum matters: it is what the buffer holds afterwards *)
  Definition dstep := (nat * act * D)%type.
  Definition plain (l : list dstep) : list (nat * act) := map fst l.

  Fixpoint contents (d : D) (l : list dstep) : D :=
    match l with
    | [] => d
    | (_, AWrite, x) :: l' => contents x l'
    | _ :: l' => contents d l'
    end.
  (* what thread t alone wrote *)
  Fixpoint own_contents (t : nat) (d : D) (l : list dstep) : D :=
    match l with
    | [] => d
    | (u, AWrite, x) :: l' => own_contents t (if Nat.eqb u t then x else d) l'
    | _ :: l' => own_contents t d l'
    end.

  Lemma contents_own t : forall l d,
    Forall (fun ua => (snd ua = AWrite \/ snd ua = AFree) -> fst ua = t) (plain l) -> contents d l = own_contents t d l.
  Proof.
    induction l as [|[[u a] x] l IH]; intros d F; [reflexivity|].
    cbn [plain map fst] in F. inversion F as [|? ? H1 F']; subst. cbn [fst snd] in H1.
    destruct a; cbn [contents own_contents]; try (apply IH; exact F').
    rewrite (H1 (or_introl eq_refl)), Nat.eqb_refl. apply IH; exact F'.
  Qed.

  (* Under every schedule: from a state of the invariant, while thread t can reach the buffer, the buffer holds what
     t's own writes made of it — the steps of all other threads, in whatever order, contribute nothing *)
  Theorem contents_thread_local t l s s' d :
    Inv s -> run s (plain l) = Ok s' -> held_through s t (plain l) -> contents d l = own_contents t d l.
  Proof. intros I Hrun Hh. apply contents_own. exact (writes_while_held_are_own t (plain l) s s' I Hrun Hh). Qed.

  (* and at every point on the way (every prefix of the schedule) *)
  Lemma run_app l1 : forall l2 s s', run s (l1 ++ l2) = Ok s' -> exists s1, run s l1 = Ok s1 /\ run s1 l2 = Ok s'.
  Proof.
    induction l1 as [|[u a] l1 IH]; intros l2 s s' H; cbn [app run] in *; [eauto|].
    destruct (step s u a) as [s1|e|]; try discriminate. apply IH; exact H.
  Qed.
  Lemma held_through_app t l1 : forall l2 s, held_through s t (l1 ++ l2) -> held_through s t l1.
  Proof.
    induction l1 as [|[u a] l1 IH]; intros l2 s H; cbn [app held_through] in *.
    - destruct l2 as [|[u a] l2]; cbn [held_through] in H; tauto.
    - destruct H as (Hs & H). split; [exact Hs|]. destruct (step s u a); auto. eapply IH; exact H.
  Qed.
  Theorem contents_thread_local_prefix t l1 l2 s s' d :
    Inv s -> run s (plain (l1 ++ l2)) = Ok s' -> held_through s t (plain (l1 ++ l2)) ->
    contents d l1 = own_contents t d l1.
  Proof.
    intros I Hrun Hh. unfold plain in *. rewrite map_app in *.
    destruct (run_app _ _ _ _ Hrun) as (s1 & H1 & _).
    exact (contents_thread_local t l1 s s1 d I H1 (held_through_app t _ _ s Hh)).
  Qed.
End Data.

(* the premises are met: thread 0 writes 7, clones and hands one handle to thread 1; thread 1 cannot write (it is not
   exclusive), drops its handle; thread 0 observes uniqueness again and writes 9.  Throughout, thread 0 holds *)
Definition ex_sched : list (dstep nat) :=
  [ (0, AProbe 0, 0); (0, AWrite, 7); (0, AClone, 0); (0, ASpawn 1 1, 0); (1, ARead, 0); (1, ARelease, 0);
    (0, AProbe 0, 0); (0, AWrite, 9); (0, ARead, 0) ].
Example ex_sched_runs : is_ok (run (init 1) (plain nat ex_sched)) = true.
Proof. vm_compute. reflexivity. Qed.
Example ex_sched_contents : contents nat 0 ex_sched = 9 /\ own_contents nat 0 0 ex_sched = 9 /\ own_contents nat 1 0 ex_sched = 0.
Proof. vm_compute. auto. Qed.
Example ex_sched_held : held_through (init 1) 0 (plain nat ex_sched).
Proof. vm_compute. repeat split; auto; lia. Qed.
(* a foreign write is not a step of the machine: thread 1, holding a shared handle, cannot write *)
Example ex_foreign_write_stuck :
  run (init 1) (plain nat [ (0, AClone, 0); (0, ASpawn 1 1, 0); (1, AProbe 0, 0); (1, AWrite, 5) ]) = Stuck.
Proof. vm_compute. reflexivity. Qed.
