From Coq Require Import List Arith Lia Bool.
Import ListNotations.
From LSConc Require Import Clock Mach Inv Pres Pres2 Pres3 Pres4 Pres5 Pres6 Pres7 StepSpec Values.

Lemma pres s t a s' : Inv s -> step s t a = Ok s' -> Inv s'.
Proof.
  intros I H. destruct a;
    [eapply pres_read|eapply pres_write|eapply pres_clone|eapply pres_release|eapply pres_free|eapply pres_probe
    |eapply pres_spawn|eapply pres_join|eapply pres_fence|eapply pres_readm|eapply pres_lend|eapply pres_readb
    |eapply pres_joinb|eapply pres_cloneb]; eassumption.
Qed.

Lemma T_init n u : T (init n) u = if Nat.eqb u 0 then nth 0 (ths (init n)) dth else dth.
Proof.
  unfold T, getth, init. cbn [ths]. destruct u as [|u]; cbn [Nat.eqb nth]; [reflexivity|].
  clear. revert u. induction n as [|n IH]; intros u; cbn [repeat].
  - destruct u; reflexivity.
  - destruct u as [|u]; cbn [nth]; [reflexivity|apply IH].
Qed.

Lemma total_repeat n : total (repeat dth n) = 0.
Proof. induction n; cbn; auto. Qed.

Lemma inv_init n : Inv (init n).
Proof.
  constructor.
  - intros _. split; [discriminate|]. cbn. rewrite total_repeat. reflexivity.
  - intros t. rewrite T_init. destruct t; cbn; [intros _; apply cle_refl | lia].
  - intros u. left. unfold init; cbn [Rc]. rewrite get_nil. lia.
  - intros t. rewrite T_init. destruct t; cbn; discriminate.
  - intros t. rewrite T_init. destruct t; cbn; discriminate.
  - cbn. discriminate.
  - intros t p m _ Hp Hn. cbn in Hn. destruct p as [|p]; [lia|]. destruct p; discriminate.
  - intros t. rewrite T_init. destruct t; cbn; [discriminate|auto].
  - cbn. rewrite total_repeat. intros _ H. discriminate H.
  - intros c p. rewrite T_init. destruct c; cbn; discriminate.
  - intros t p m. rewrite T_init. destruct p as [|[|p]]; cbn [init msgs nth_error]; try discriminate.
    intros Hr [= <-] _. cbn [val]. destruct t; cbn in *; lia.
Qed.

(* every schedule, any number of threads, any (well-typed) action at each step, stale probes included *)
Theorem all_schedules_safe n (sched : list (nat * act)) :
  match run (init n) sched with Err _ => False | _ => True end.
Proof.
  assert (G : forall l s, Inv s -> match run s l with Err _ => False | _ => True end).
  { induction l as [|[t a] l IH]; intros s I; cbn [run]; [exact Logic.I|].
    destruct (step s t a) eqn:E.
    - apply IH. eapply pres; eauto.
    - exfalso. eapply safe; eauto.
    - exact Logic.I. }
  apply G, inv_init.
Qed.

(* what makes each thread's view sequential: while a thread holds a reference nobody else can modify or release the
   buffer — a write (or realloc) step is only possible for the one and only holder, a free step only when nobody holds *)
Theorem write_excludes_others s u s' : Inv s -> step s u AWrite = Ok s' -> forall t, t <> u -> refs (getth s t) = 0.
Proof.
  intros I H t Hne. destruct (StepSpec.step_spec s u AWrite s' H) as (_ & _ & _ & _ & _ & _ & He & _). cbn in He.
  destruct (J5 s I u He) as (_ & H1 & Htot & _).
  pose proof (total_ge2 (ths s) t u Hne). unfold T, getth in *. lia.
Qed.
Theorem free_excludes_holders s u s' : Inv s -> step s u AFree = Ok s' -> forall t, refs (getth s t) = 0.
Proof.
  intros I H t. destruct (StepSpec.step_spec s u AFree s' H) as (_ & _ & _ & _ & _ & _ & Hm & _). cbn in Hm.
  destruct (J4 s I u Hm) as (_ & H0 & _). pose proof (total_ge (ths s) t). unfold getth. lia.
Qed.

(* multi-step form: however the other threads are scheduled, while thread t holds a reference (and does not itself
   move) none of their successful steps is a write / realloc or a free of the buffer, and t's local state is untouched:
   what t reads through its handle is what was there when it last looked or wrote *)
Theorem no_interference_while_held t : forall sched s s',
  Inv s -> refs (getth s t) > 0 -> Forall (fun ua => fst ua <> t) sched -> run s sched = Ok s' ->
  Forall (fun ua => snd ua <> AWrite /\ snd ua <> AFree) sched /\ getth s' t = getth s t /\ Mach.live s' = true.
Proof.
  induction sched as [|[u a] l IH]; intros s s' I Hr Hne Hrun; cbn [run] in Hrun.
  - injection Hrun as <-. split; [constructor|]. split; [reflexivity|].
    destruct (Mach.live s) eqn:Hl; [reflexivity|]. destruct (J6 s I Hl) as (H0 & _).
    pose proof (total_ge (ths s) t). unfold getth in Hr. lia.
  - inversion Hne as [|? ? Hu Hne']; subst. cbn [fst] in Hu.
    destruct (step s u a) as [s1|e|] eqn:E; try discriminate.
    destruct (StepSpec.step_spec s u a s1 E) as (_ & _ & _ & _ & Hoth & Hlendt & Hspec).
    assert (Hst : started (getth s t) = true).
    { destruct (started (getth s t)) eqn:Hs; [reflexivity|]. destruct (J8 s I t Hs) as (H0 & _). unfold T in H0. lia. }
    assert (Hsame : getth s1 t = getth s t).
    { apply Hoth; [auto|]. destruct a; cbn [second]; try discriminate; intros [= ->]; cbn in E.
      - (* spawn into t: t is started *)
        cbn in Hspec. destruct Hspec as (_ & _ & Hsc & _). congruence.
      - (* lend to t: t is started *)
        unfold step in E. destruct (Nat.ltb u (length (ths s))); cbn [negb] in E; [|discriminate].
        destruct (started (getth s u)); cbn [negb] in E; [|discriminate].
        rewrite Hst in E. rewrite !orb_true_r in E. cbn [orb] in E.
        destruct (Nat.eqb t u); cbn [orb] in E; [discriminate|].
        destruct (negb (Nat.ltb t (length (ths s)))); cbn [orb] in E; discriminate.
      - (* join borrower t: t holds a reference, a joined borrower holds none *)
        unfold step in E. destruct (Nat.ltb u (length (ths s))); cbn [negb] in E; [|discriminate].
        destruct (started (getth s u)); cbn [negb] in E; [|discriminate].
        destruct (Nat.ltb_spec 0 (refs (getth s t))) as [_|Hc]; [|lia].
        rewrite !orb_true_r in E. destruct (Nat.eqb t u); cbn [orb] in E; [discriminate|].
        destruct (negb (Nat.ltb t (length (ths s)))); cbn [orb] in E; [discriminate|].
        destruct (negb (Nat.eqb (lend (getth s t)) (S u))); cbn [orb] in E; discriminate. }
    destruct (IH s1 s' (pres _ _ _ _ I E) ltac:(rewrite Hsame; exact Hr) Hne' Hrun) as (F & G & L).
    split; [|split; [congruence|exact L]]. constructor; [|exact F]. cbn [snd]. split; intros ->.
    + pose proof (write_excludes_others s u s1 I E t ltac:(auto)). lia.
    + pose proof (free_excludes_holders s u s1 I E t). lia.
Qed.

(* ---------- lending: &handle shared with a scoped thread ---------- *)
Lemma run_inv l : forall s s', Inv s -> run s l = Ok s' -> Inv s'.
Proof.
  induction l as [|[t a] l IH]; intros s s' I H; cbn [run] in H; [injection H as <-; exact I|].
  destruct (step s t a) as [s1|e|] eqn:E; try discriminate. apply (IH s1 s'); [eapply pres; eauto|exact H].
Qed.
(* in every reachable state, while some thread reads through a handle lent by p: the buffer is live, p still holds its
   reference, and no thread is exclusive (so nobody can write or reallocate) or must free *)
Theorem borrowed_buffer_protected n sched s c p :
  run (init n) sched = Ok s -> lend (getth s c) = S p ->
  Mach.live s = true /\ refs (getth s p) > 0
  /\ forall q, excl (getth s q) = false /\ mustfree (getth s q) = false.
Proof.
  intros Hrun El. pose proof (run_inv sched _ _ (inv_init n) Hrun) as I.
  split; [exact (borrower_live s c p I El)|]. destruct (J10 s I c p El) as (_ & _ & Hr & _). split; [exact Hr|].
  intros q. split.
  - destruct (excl (getth s q)) eqn:He; [exfalso; exact (borrower_no_excl s c p q I El He)|reflexivity].
  - destruct (mustfree (getth s q)) eqn:Hm; [exfalso; exact (borrower_no_mustfree s c p q I El Hm)|reflexivity].
Qed.

(* what a borrower's code does with &handle is one event each: as_str / as_bytes = a read, clone = a relaxed increment.
   Both are always enabled while the loan lasts (and, by [safe], never an error) *)
Theorem borrower_read_enabled s c : Inv s -> c < length (ths s) -> started (getth s c) = true -> lend (getth s c) <> 0 ->
  exists s', step s c AReadB = Ok s'.
Proof.
  intros I Hc Hst Hl. destruct (step s c AReadB) as [s'|e|] eqn:E; [eauto|exfalso; eapply safe; eauto|exfalso].
  unfold step in E. destruct (Nat.ltb_spec c (length (ths s))); [|lia]. cbn [negb] in E. rewrite Hst in E. cbn [negb] in E.
  destruct (Nat.eqb_spec (lend (getth s c)) 0); [contradiction|].
  destruct (Mach.live s); cbn [negb] in E; [|discriminate]. destruct (cleb _ _); discriminate.
Qed.
Theorem borrower_clone_enabled s c : Inv s -> c < length (ths s) -> started (getth s c) = true -> lend (getth s c) <> 0 ->
  exists s', step s c ACloneB = Ok s'.
Proof.
  intros I Hc Hst Hl. destruct (step s c ACloneB) as [s'|e|] eqn:E; [eauto|exfalso; eapply safe; eauto|exfalso].
  unfold step in E. destruct (Nat.ltb_spec c (length (ths s))); [|lia]. cbn [negb] in E. rewrite Hst in E. cbn [negb] in E.
  destruct (Nat.eqb_spec (lend (getth s c)) 0); [contradiction|].
  destruct (Mach.live s); discriminate.
Qed.

(* ---------- a lender and its other handles ----------
   While &h is lent the lender may go on using every OTHER handle it holds on the same buffer: clone, drop (it keeps the
   lent one: a release needs two references), and the uniqueness probe behind every &mut method — which can never
   observe 1, whichever message it reads (J11), so the lender never writes in place under a borrower. *)
Theorem lender_release_enabled s t : Inv s -> t < length (ths s) -> started (getth s t) = true ->
  2 <= refs (getth s t) -> exists s', step s t ARelease = Ok s'.
Proof.
  intros I Ht Hst H2. destruct (step s t ARelease) as [s'|e|] eqn:E; [eauto|exfalso; eapply safe; eauto|exfalso].
  unfold step in E. destruct (Nat.ltb_spec t (length (ths s))); [|lia]. cbn [negb] in E. rewrite Hst in E. cbn [negb] in E.
  destruct (Nat.ltb_spec 0 (refs (getth s t))); [|lia]. cbn [negb orb] in E.
  destruct (mustfree (getth s t)) eqn:Hm.
  - destruct (J4 s I t Hm) as (_ & Hz & _). pose proof (total_ge (ths s) t). unfold getth in H2. lia.
  - cbn [orb] in E. destruct (Nat.leb_spec (refs (getth s t)) 1); [lia|]. rewrite andb_false_r in E.
    destruct (Mach.live s); discriminate.
Qed.
Theorem lender_probe_not_exclusive s t p s' : Inv s -> lends_from s t = true -> step s t (AProbe p) = Ok s' ->
  excl (getth s' t) = false /\ refs (getth s' t) = refs (getth s t) /\ 2 <= refs (getth s t).
Proof.
  intros I Hl H. pose proof H as H0. unfold step in H0.
  destruct (Nat.ltb_spec t (length (ths s))) as [Ht|]; cbn [negb] in H0; [|discriminate].
  destruct (started (getth s t)); cbn [negb] in H0; [|discriminate].
  destruct (Nat.ltb_spec 0 (refs (getth s t))) as [Hr|]; cbn [negb orb] in H0; [|discriminate].
  rewrite Hl in H0. cbn [andb] in H0. destruct (Nat.leb_spec (refs (getth s t)) 1) as [|H2]; [discriminate|].
  destruct (StepSpec.step_spec s t (AProbe p) s' H) as (_ & _ & _ & _ & _ & _ & _ & m & Hm & Hrefs & Hex & _).
  split; [|split; [exact Hrefs|lia]]. rewrite Hex.
  assert (Hlender : exists c, lend (getth s c) = S t).
  { unfold lends_from in Hl. apply existsb_exists in Hl. destruct Hl as (x & Hin & Hx). apply Nat.eqb_eq in Hx.
    destruct (In_nth _ _ dth Hin) as (c & _ & Hc). exists c. unfold getth. rewrite Hc. exact Hx. }
  destruct Hlender as (c & Hc). destruct (J10 s I c t Hc) as (_ & _ & _ & _ & He & _). unfold T in He. rewrite He. cbn [orb].
  apply Nat.eqb_neq. pose proof (Values.probe_value_ge_refs s t p m s' I H Hm). lia.
Qed.
(* the whole life of a loan with a busy lender: two handles, one lent; the lender probes (reads 2), drops its other
   handle, the borrower clones through the loan, reads, drops the clone; the scope ends; the lender is alone again,
   observes it and writes *)
Example lender_edits_other_handle :
  is_ok (run (init 1) [ (0, AClone); (0, ALend 1); (1, AReadB); (0, AProbe 0); (0, ARelease); (1, ACloneB); (1, ARead);
                        (0, ARead); (1, ARelease); (0, AJoinB 1); (0, AProbe 0); (0, AWrite) ]) = true
  /\ run (init 1) [ (0, ALend 1); (0, ARelease) ] = Stuck      (* the lent handle itself cannot be dropped *)
  /\ run (init 1) [ (0, ALend 1); (0, AProbe 0) ] = Stuck.     (* nor probed: no &mut on a lent handle *)
Proof. vm_compute. auto. Qed.
(* ... and may move its other handles into new threads (the lent one stays): thread 0 holds two, lends one to thread 1,
   moves the other into thread 2, which edits nothing it is not entitled to and drops it; giving away the lent handle
   itself is not a step *)
Example lender_spawns_other_handle :
  is_ok (run (init 2) [ (0, AClone); (0, ALend 1); (0, ASpawn 2 1); (1, AReadB); (2, ARead); (2, AProbe 0); (2, ARelease);
                        (1, ACloneB); (1, ARelease); (0, AJoinB 1); (0, AJoin 2); (0, AProbe 0); (0, AWrite); (0, ARelease);
                        (0, AFence); (0, AFree) ]) = true
  /\ run (init 2) [ (0, ALend 1); (0, ASpawn 2 1) ] = Stuck.
Proof. vm_compute. auto. Qed.
