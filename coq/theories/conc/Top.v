From Coq Require Import List Arith Lia Bool.
Import ListNotations.
From LSConc Require Import Clock Mach Inv Pres Pres2 Pres3 Pres4 Pres5 Pres6 StepSpec.

Lemma pres s t a s' : Inv s -> step s t a = Ok s' -> Inv s'.
Proof.
  destruct a; eauto using pres_read, pres_write, pres_clone, pres_release, pres_free, pres_probe,
    pres_spawn, pres_join, pres_fence, pres_readm.
Qed.

Lemma T_init n u : T (init n) u = if Nat.eqb u 0 then nth 0 (ths (init n)) dth else dth.
Proof.
  unfold T, getth, init. cbn [ths]. destruct u as [|u]; cbn [Nat.eqb nth]; [reflexivity|].
  clear. revert u. induction n as [|n IH]; intros u; cbn [repeat].
  - destruct u; reflexivity.
  - destruct u as [|u]; cbn [nth]; [reflexivity|apply IH].
Qed.

Lemma total_repeat n : total (repeat dth n) = 0.
Proof. induction n; cbn; auto. Qed.

Lemma inv_init n : Inv (init n).
Proof.
  constructor.
  - intros _. split; [discriminate|]. cbn. rewrite total_repeat. reflexivity.
  - intros t. rewrite T_init. destruct t; cbn; [intros _; apply cle_refl | lia].
  - intros u. left. unfold init; cbn [Rc]. rewrite get_nil. lia.
  - intros t. rewrite T_init. destruct t; cbn; discriminate.
  - intros t. rewrite T_init. destruct t; cbn; discriminate.
  - cbn. discriminate.
  - intros t p m _ Hp Hn. cbn in Hn. destruct p as [|p]; [lia|]. destruct p; discriminate.
  - intros t. rewrite T_init. destruct t; cbn; [discriminate|auto].
Qed.

(* every schedule, any number of threads, any (well-typed) action at each step, stale probes included *)
Theorem all_schedules_safe n (sched : list (nat * act)) :
  match run (init n) sched with Err _ => False | _ => True end.
Proof.
  assert (G : forall l s, Inv s -> match run s l with Err _ => False | _ => True end).
  { induction l as [|[t a] l IH]; intros s I; cbn [run]; [exact Logic.I|].
    destruct (step s t a) eqn:E.
    - apply IH. eapply pres; eauto.
    - exfalso. eapply safe; eauto.
    - exact Logic.I. }
  apply G, inv_init.
Qed.

(* what makes each thread's view sequential: while a thread holds a reference nobody else can modify or release the
   buffer — a write (or realloc) step is only possible for the one and only holder, a free step only when nobody holds *)
Theorem write_excludes_others s u s' : Inv s -> step s u AWrite = Ok s' -> forall t, t <> u -> refs (getth s t) = 0.
Proof.
  intros I H t Hne. destruct (StepSpec.step_spec s u AWrite s' H) as (_ & _ & _ & _ & _ & He & _). cbn in He.
  destruct (J5 s I u He) as (_ & H1 & Htot & _).
  pose proof (total_ge2 (ths s) t u Hne). unfold T, getth in *. lia.
Qed.
Theorem free_excludes_holders s u s' : Inv s -> step s u AFree = Ok s' -> forall t, refs (getth s t) = 0.
Proof.
  intros I H t. destruct (StepSpec.step_spec s u AFree s' H) as (_ & _ & _ & _ & _ & Hm & _). cbn in Hm.
  destruct (J4 s I u Hm) as (_ & H0 & _). pose proof (total_ge (ths s) t). unfold getth. lia.
Qed.
