From Coq Require Import List Arith Lia Bool.
Import ListNotations.
From LSConc Require Import Clock Mach.

(* ---------- list helpers ---------- *)
Lemma upd_length {A} (l : list A) n x : length (upd l n x) = length l.
Proof. revert n; induction l; destruct n; cbn; auto. Qed.
Lemma nth_upd_eq {A} (l : list A) n x d : n < length l -> nth n (upd l n x) d = x.
Proof. revert n; induction l as [|y l IH]; intros [|n] H; cbn in *; try lia; auto. apply IH; lia. Qed.
Lemma nth_upd_ne {A} (l : list A) n m x d : m <> n -> nth m (upd l n x) d = nth m l d.
Proof. revert n m; induction l as [|y l IH]; intros [|n] [|m] H; cbn; try lia; auto. Qed.
Lemma total_cons x l : total (x :: l) = refs x + total l. Proof. reflexivity. Qed.
Lemma total_upd l n x : n < length l -> total (upd l n x) + refs (nth n l dth) = total l + refs x.
Proof.
  revert n; induction l as [|y l IH]; intros n Hn; [cbn in Hn; lia|].
  destruct n; cbn [upd nth]; rewrite !total_cons; [lia|].
  cbn in Hn. specialize (IH n ltac:(lia)). lia.
Qed.
Lemma total_ge l n : refs (nth n l dth) <= total l.
Proof. revert n; induction l as [|y l IH]; intros [|n]; cbn [nth]; rewrite ?total_cons; cbn; try lia. specialize (IH n). lia. Qed.
Lemma total_ge2 l n m : n <> m -> refs (nth n l dth) + refs (nth m l dth) <= total l.
Proof.
  revert n m; induction l as [|y l IH]; intros [|n] [|m] H; cbn [nth]; rewrite ?total_cons; cbn; try lia.
  - pose proof (total_ge l m). lia.
  - pose proof (total_ge l n). lia.
  - specialize (IH n m ltac:(lia)). lia.
Qed.
Lemma nth_dth_beyond (l : list th) n : length l <= n -> nth n l dth = dth.
Proof. intros; apply nth_overflow; auto. Qed.

Lemma hbb_spec m c : hbb m c = true <-> hb m c.
Proof. unfold hbb, hb. apply Nat.leb_le. Qed.
Lemma hb_mono m c d : cle c d -> hb m c -> hb m d.
Proof. unfold hb; intros H1 H2; specialize (H1 (wt m)); lia. Qed.

(* ---------- invariant ---------- *)
Definition T (s : st) (t : nat) := getth s t.

(* the messages newer than position q that neither thread u nor any thread reading through a handle lent by u has seen *)
Definition unseen (s : st) (u q : nat) : Prop :=
  forall m', In m' (firstn q (msgs s)) ->
    ~ hb m' (clk (T s u)) /\ forall c, lend (T s c) = S u -> ~ hb m' (clk (T s c)).

Record Inv (s : st) : Prop := {
  J1 : live s = true -> msgs s <> [] /\ val (hdm s) = total (ths s);
  J2 : forall t, refs (T s t) > 0 -> cle (Wc s) (clk (T s t));
  J3 : live s = true ->
       forall u, get (Rc s) u <= get (view (hdm s)) u \/
                 (exists h, refs (T s h) > 0 /\ get (Rc s) u <= get (clk (T s h)) u) \/
                 (exists h, mustfree (T s h) = true /\ get (Rc s) u <= get (clk (T s h)) u) \/
                 (exists h, lend (T s h) <> 0 /\ get (Rc s) u <= get (clk (T s h)) u);
  J4 : forall t, mustfree (T s t) = true ->
         live s = true /\ total (ths s) = 0 /\
         cle (Wc s) (join (clk (T s t)) (pend (T s t))) /\ cle (Rc s) (join (clk (T s t)) (pend (T s t))) /\
         forall u, mustfree (T s u) = true -> u = t;
  J5 : forall t, excl (T s t) = true ->
         live s = true /\ refs (T s t) = 1 /\ total (ths s) = 1 /\
         cle (Wc s) (clk (T s t)) /\ cle (Rc s) (clk (T s t));
  J6 : live s = false -> total (ths s) = 0 /\ forall t, mustfree (T s t) = false /\ excl (T s t) = false;
  J7 : forall t p m, refs (T s t) > 0 -> p > 0 -> nth_error (msgs s) p = Some m ->
         unseen s t p ->
         refs (T s t) + 1 <= val m;
  J8 : forall t, started (T s t) = false -> refs (T s t) = 0 /\ mustfree (T s t) = false /\ excl (T s t) = false;
  J9 : live s = true -> total (ths s) = 0 -> exists t, mustfree (T s t) = true;
  (* a borrower reads through a handle its lender keeps: the lender holds a reference, is not itself a borrower, has
     not observed uniqueness, and every write to the buffer happens-before the borrower *)
  J10 : forall c p, lend (T s c) = S p ->
          started (T s c) = true /\ p <> c /\ refs (T s p) > 0 /\ lend (T s p) = 0 /\ excl (T s p) = false
          /\ cle (Wc s) (clk (T s c));
  (* a message a thread may still read (nothing newer has reached it) counts at least that thread's own references *)
  J11 : forall t p m, refs (T s t) > 0 -> nth_error (msgs s) p = Some m ->
          (forall m', In m' (firstn p (msgs s)) -> ~ hb m' (clk (T s t))) -> refs (T s t) <= val m
}.

Lemma T_dth s t : length (ths s) <= t -> T s t = dth.
Proof. intros; unfold T, getth; apply nth_overflow; auto. Qed.

Lemma mustfree_no_refs s h t : Inv s -> mustfree (T s h) = true -> refs (T s t) > 0 -> False.
Proof.
  intros I Hm Hr. destruct (J4 s I h Hm) as (_ & H0 & _). pose proof (total_ge (ths s) t). unfold T, getth in Hr. lia.
Qed.

Lemma lends_from_false s p c : lends_from s p = false -> lend (T s c) <> S p.
Proof.
  unfold lends_from, T, getth. intros H E.
  destruct (Nat.lt_ge_cases c (length (ths s))) as [Hc|Hc].
  - assert (Hin : In (nth c (ths s) dth) (ths s)) by (apply nth_In; exact Hc).
    assert (existsb (fun x => Nat.eqb (lend x) (S p)) (ths s) = true).
    { apply existsb_exists. exists (nth c (ths s) dth). split; [exact Hin|]. apply Nat.eqb_eq. exact E. }
    congruence.
  - rewrite nth_overflow in E by exact Hc. cbn in E. discriminate.
Qed.
(* while somebody borrows: the buffer is live, nobody must free it, nobody is exclusive *)
Lemma borrower_live s c p : Inv s -> lend (T s c) = S p -> live s = true.
Proof.
  intros I H. destruct (J10 s I c p H) as (_ & _ & Hr & _). destruct (live s) eqn:Hl; [reflexivity|].
  destruct (J6 s I Hl) as (H0 & _). pose proof (total_ge (ths s) p). unfold T, getth in Hr. lia.
Qed.
Lemma borrower_no_excl s c p q : Inv s -> lend (T s c) = S p -> excl (T s q) = true -> False.
Proof.
  intros I H He. destruct (J10 s I c p H) as (_ & _ & Hr & _ & Hpe & _). destruct (J5 s I q He) as (_ & Hq1 & Htot & _).
  destruct (Nat.eq_dec p q) as [->|Hne]; [congruence|].
  pose proof (total_ge2 (ths s) p q Hne). unfold T, getth in *. lia.
Qed.
Lemma borrower_no_mustfree s c p q : Inv s -> lend (T s c) = S p -> mustfree (T s q) = true -> False.
Proof. intros I H Hm. destruct (J10 s I c p H) as (_ & _ & Hr & _). exact (mustfree_no_refs s q p I Hm Hr). Qed.

(* safety: an invariant state never steps to an error *)
Theorem safe s t a : Inv s -> forall e, step s t a <> Err e.
Proof.
  intros I e. unfold step.
  destruct (Nat.ltb_spec t (length (ths s))) as [Ht|Ht]; cbn [negb]; [|discriminate].
  fold (T s t).
  destruct (started (T s t)) eqn:Hst; cbn [negb]; [|discriminate].
  destruct a.
  - (* read *)
    destruct (Nat.ltb_spec 0 (refs (T s t))) as [Hr|Hr]; cbn [negb]; [|discriminate].
    destruct (live s) eqn:Hl; cbn [negb].
    + pose proof (J2 s I t Hr) as H2. apply cleb_spec in H2. rewrite H2. cbn. discriminate.
    + destruct (J6 s I Hl) as [H0 _]. pose proof (total_ge (ths s) t). unfold T, getth in Hr. lia.
  - (* write *)
    destruct (excl (T s t)) eqn:He; cbn [negb orb]; [|discriminate].
    destruct (lends_from s t); [discriminate|].
    destruct (J5 s I t He) as (Hl & _ & _ & HW & HR).
    rewrite Hl. cbn [negb]. apply cleb_spec in HW, HR. rewrite HW, HR. cbn. discriminate.
  - (* clone *)
    destruct (Nat.ltb_spec 0 (refs (T s t))) as [Hr|Hr]; cbn [negb]; [|discriminate].
    destruct (live s) eqn:Hl; cbn [negb]; [discriminate|].
    destruct (J6 s I Hl) as [H0 _]. pose proof (total_ge (ths s) t). unfold T, getth in Hr. lia.
  - (* release *)
    destruct (Nat.ltb_spec 0 (refs (T s t))) as [Hr|Hr]; cbn [negb orb]; [|discriminate].
    destruct (mustfree (T s t)); [discriminate|]. cbn [orb].
    destruct (lends_from s t && Nat.leb (refs (T s t)) 1); [discriminate|].
    destruct (live s) eqn:Hl; cbn [negb]; [discriminate|].
    destruct (J6 s I Hl) as [H0 _]. pose proof (total_ge (ths s) t). unfold T, getth in Hr. lia.
  - (* free *)
    destruct (mustfree (T s t)) eqn:Hm; cbn [negb andb]; [|discriminate].
    destruct (cleb (pend (T s t)) (clk (T s t))) eqn:Hf; cbn [negb]; [|discriminate].
    destruct (J4 s I t Hm) as (Hl & _ & HW & HR & _).
    rewrite Hl. cbn [negb].
    assert (HW' : cle (Wc s) (tick (join (clk (T s t)) (pend (T s t))) t))
      by (eapply cle_trans; [exact HW | apply cle_tick]).
    assert (HR' : cle (Rc s) (tick (join (clk (T s t)) (pend (T s t))) t))
      by (eapply cle_trans; [exact HR | apply cle_tick]).
    apply cleb_spec in HW', HR'. rewrite HW', HR'. cbn. discriminate.
  - (* probe *)
    destruct (Nat.ltb_spec 0 (refs (T s t))) as [Hr|Hr]; cbn [negb orb]; [|discriminate].
    destruct (lends_from s t && Nat.leb (refs (T s t)) 1); [discriminate|].
    destruct (live s) eqn:Hl; cbn [negb].
    + destruct (nth_error (msgs s) p); [|discriminate].
      destruct (forallb _ _); cbn; discriminate.
    + destruct (J6 s I Hl) as [H0 _]. pose proof (total_ge (ths s) t). unfold T, getth in Hr. lia.
  - destruct (_ || _ || _ || _ || _); discriminate.
  - destruct (_ || _ || _ || _); discriminate.
  - (* fence *) discriminate.
  - (* read by the freeing thread *)
    destruct (mustfree (T s t)) eqn:Hm; cbn [negb andb]; [|discriminate].
    destruct (cleb (pend (T s t)) (clk (T s t))) eqn:Hf; cbn [negb]; [|discriminate].
    destruct (J4 s I t Hm) as (Hl & _ & HW & _ & _).
    rewrite Hl. cbn [negb]. apply cleb_spec in Hf.
    assert (HW' : cle (Wc s) (clk (T s t))).
    { eapply cle_trans; [exact HW|]. apply cle_join_lub; [apply cle_refl|exact Hf]. }
    apply cleb_spec in HW'. rewrite HW'. cbn. discriminate.
  - (* lend *) destruct (_ || _ || _ || _ || _); discriminate.
  - (* read through a borrowed handle *)
    destruct (Nat.eqb_spec (lend (T s t)) 0) as [|Hl0]; [discriminate|].
    destruct (lend (T s t)) as [|p] eqn:El; [contradiction|].
    rewrite (borrower_live s t p I El). cbn [negb].
    destruct (J10 s I t p El) as (_ & _ & _ & _ & _ & HW). apply cleb_spec in HW. rewrite HW. cbn. discriminate.
  - (* join a borrower *) destruct (_ || _ || _ || _ || _); discriminate.
  - (* clone through a borrowed handle *)
    destruct (Nat.eqb_spec (lend (T s t)) 0) as [|Hl0]; [discriminate|].
    destruct (lend (T s t)) as [|p] eqn:El; [contradiction|].
    rewrite (borrower_live s t p I El). cbn [negb]. discriminate.
Qed.
