From Coq Require Import List Arith Lia Bool.
Import ListNotations.
From LSConc Require Import Clock.

Record msg := { val : nat; view : clock; wt : nat; we : nat }.
Record th := { clk : clock; pend : clock; refs : nat; excl : bool; mustfree : bool; started : bool;
                lend : nat (* 0: not borrowing; S p: reads through a &handle lent by thread p *) }.
Record st := { msgs : list msg (* newest first *); Wc : clock; Rc : clock; live : bool; ths : list th }.

Definition dth : th := {| clk := []; pend := []; refs := 0; excl := false; mustfree := false; started := false; lend := 0 |}.
Definition dmsg : msg := {| val := 0; view := []; wt := 0; we := 0 |}.
Definition getth (s : st) (t : nat) : th := nth t (ths s) dth.
Definition hdm (s : st) : msg := hd dmsg (msgs s).

Fixpoint upd {A} (l : list A) (n : nat) (x : A) : list A :=
  match l, n with
  | [], _ => []
  | _ :: l', 0 => x :: l'
  | y :: l', S n' => y :: upd l' n' x
  end.

Definition total (l : list th) : nat := fold_right (fun x a => refs x + a) 0 l.

Definition hbb (m : msg) (c : clock) : bool := Nat.leb (we m) (get c (wt m)).
Definition hb (m : msg) (c : clock) : Prop := we m <= get c (wt m).

Inductive act := ARead | AWrite | AClone | ARelease | AFree | AProbe (p : nat) | ASpawn (c k : nat) | AJoin (c : nat)
                 | AFence | AReadM
                 | ALend (c : nat) | AReadB | AJoinB (c : nat) | ACloneB.
Inductive err := Race | UAF | DoubleFree.
Inductive res := Ok (s : st) | Err (e : err) | Stuck.

Definition with_th (s : st) (t : nat) (x : th) : st :=
  {| msgs := msgs s; Wc := Wc s; Rc := Rc s; live := live s; ths := upd (ths s) t x |}.

(* does thread p currently lend its handle to some thread? *)
Definition lends_from (s : st) (p : nat) : bool := existsb (fun x => Nat.eqb (lend x) (S p)) (ths s).

Definition step (s : st) (t : nat) (a : act) : res :=
  if negb (Nat.ltb t (length (ths s))) then Stuck else
  let x := getth s t in
  if negb (started x) then Stuck else
  match a with
  | ARead =>
      if negb (Nat.ltb 0 (refs x)) then Stuck else
      if negb (live s) then Err UAF else
      if negb (cleb (Wc s) (clk x)) then Err Race else
      let c' := tick (clk x) t in
      Ok {| msgs := msgs s; Wc := Wc s; Rc := setc (Rc s) t (get c' t); live := live s;
            ths := upd (ths s) t {| clk := c'; pend := pend x; refs := refs x; excl := excl x;
                                    mustfree := mustfree x; started := true; lend := lend x |} |}
  | AWrite =>
      if negb (excl x) || lends_from s t then Stuck else
      if negb (live s) then Err UAF else
      if negb (cleb (Wc s) (clk x) && cleb (Rc s) (clk x)) then Err Race else
      let c' := tick (clk x) t in
      Ok {| msgs := msgs s; Wc := setc (Wc s) t (get c' t); Rc := Rc s; live := live s;
            ths := upd (ths s) t {| clk := c'; pend := pend x; refs := refs x; excl := excl x;
                                    mustfree := mustfree x; started := true; lend := lend x |} |}
  | AClone =>
      if negb (Nat.ltb 0 (refs x)) then Stuck else
      if negb (live s) then Err UAF else
      let c' := tick (clk x) t in
      let m := {| val := S (val (hdm s)); view := view (hdm s); wt := t; we := get c' t |} in
      Ok {| msgs := m :: msgs s; Wc := Wc s; Rc := Rc s; live := live s;
            ths := upd (ths s) t {| clk := c'; pend := join (pend x) (view (hdm s)); refs := S (refs x);
                                    excl := false; mustfree := mustfree x; started := true; lend := lend x |} |}
  | ARelease =>
      (* a lending thread keeps the handle it lent: it may drop its other handles *)
      if negb (Nat.ltb 0 (refs x)) || mustfree x || (lends_from s t && Nat.leb (refs x) 1) then Stuck else
      if negb (live s) then Err UAF else
      let c' := tick (clk x) t in
      let m := {| val := val (hdm s) - 1; view := join (view (hdm s)) c'; wt := t; we := get c' t |} in
      Ok {| msgs := m :: msgs s; Wc := Wc s; Rc := Rc s; live := live s;
            ths := upd (ths s) t {| clk := c'; pend := join (pend x) (view (hdm s)); refs := refs x - 1;
                                    excl := false; mustfree := Nat.eqb (val (hdm s)) 1; started := true; lend := lend x |} |}
  | AFree =>
      (* dealloc: only by the thread whose decrement read 1, and only after its acquire fence (pend <= clk) *)
      if negb (mustfree x && cleb (pend x) (clk x)) then Stuck else
      if negb (live s) then Err DoubleFree else
      let c' := tick (join (clk x) (pend x)) t in
      if negb (cleb (Wc s) c' && cleb (Rc s) c') then Err Race else
      Ok {| msgs := msgs s; Wc := Wc s; Rc := Rc s; live := false;
            ths := upd (ths s) t {| clk := c'; pend := pend x; refs := refs x; excl := false;
                                    mustfree := false; started := true; lend := lend x |} |}
  | AProbe p =>
      (* is_unique is reached from &mut methods only: never on a lent handle, but on the lender's other handles *)
      if negb (Nat.ltb 0 (refs x)) || (lends_from s t && Nat.leb (refs x) 1) then Stuck else
      if negb (live s) then Err UAF else
      match nth_error (msgs s) p with
      | None => Stuck
      | Some m =>
          if negb (forallb (fun m' => negb (hbb m' (clk x))) (firstn p (msgs s))) then Stuck else
          let c' := tick (join (clk x) (view m)) t in
          Ok (with_th s t {| clk := c'; pend := pend x; refs := refs x; excl := excl x || Nat.eqb (val m) 1;
                             mustfree := mustfree x; started := true; lend := lend x |})
      end
  | ASpawn c k =>
      if Nat.eqb c t || negb (Nat.ltb c (length (ths s))) || started (getth s c) || negb (Nat.leb k (refs x))
         || (lends_from s t && Nat.leb (refs x - k) 0)      (* a lender keeps the handle it has lent *)
      then Stuck else
      let cp := tick (clk x) t in
      let s1 := with_th s t {| clk := cp; pend := pend x; refs := refs x - k; excl := false;
                               mustfree := mustfree x; started := true; lend := lend x |} in
      Ok (with_th s1 c {| clk := tick cp c; pend := []; refs := k; excl := false; mustfree := false; started := true; lend := 0 |})
  | AJoin c =>
      let y := getth s c in
      if Nat.eqb c t || negb (started y) || Nat.ltb 0 (refs y) || mustfree y then Stuck else
      Ok (with_th s t {| clk := tick (join (clk x) (clk y)) t; pend := pend x; refs := refs x; excl := excl x;
                         mustfree := mustfree x; started := true; lend := lend x |})
  | AFence =>
      (* fence(Acquire): everything released by the messages this thread's relaxed/release RMWs read from becomes
         visible to it *)
      Ok (with_th s t {| clk := join (clk x) (pend x); pend := pend x; refs := refs x; excl := excl x;
                         mustfree := mustfree x; started := true; lend := lend x |})
  | AReadM =>
      (* read (of the header) by the thread that must free, after its fence and before the dealloc *)
      if negb (mustfree x && cleb (pend x) (clk x)) then Stuck else
      if negb (live s) then Err UAF else
      if negb (cleb (Wc s) (clk x)) then Err Race else
      let c' := tick (clk x) t in
      Ok {| msgs := msgs s; Wc := Wc s; Rc := setc (Rc s) t (get c' t); live := live s;
            ths := upd (ths s) t {| clk := c'; pend := pend x; refs := refs x; excl := excl x;
                                    mustfree := mustfree x; started := true; lend := lend x |} |}
  | ALend c =>
      (* a scoped thread is given &handle: it may read and clone through it; the lender keeps its reference and, while
         the loan lasts, only reads, clones, lends again, fences and joins (no &mut method: borrowck) *)
      if Nat.eqb c t || negb (Nat.ltb c (length (ths s))) || started (getth s c) || negb (Nat.ltb 0 (refs x))
         || negb (Nat.eqb (lend x) 0)
      then Stuck else
      let cp := tick (clk x) t in
      let s1 := with_th s t {| clk := cp; pend := pend x; refs := refs x; excl := false;
                               mustfree := mustfree x; started := true; lend := 0 |} in
      Ok (with_th s1 c {| clk := tick cp c; pend := []; refs := 0; excl := false; mustfree := false; started := true;
                          lend := S t |})
  | AReadB =>
      if Nat.eqb (lend x) 0 then Stuck else
      if negb (live s) then Err UAF else
      if negb (cleb (Wc s) (clk x)) then Err Race else
      let c' := tick (clk x) t in
      Ok {| msgs := msgs s; Wc := Wc s; Rc := setc (Rc s) t (get c' t); live := live s;
            ths := upd (ths s) t {| clk := c'; pend := pend x; refs := refs x; excl := excl x;
                                    mustfree := mustfree x; started := true; lend := lend x |} |}
  | AJoinB c =>
      (* the scope ends: the borrower (which has dropped every clone it made) is joined *)
      let y := getth s c in
      if Nat.eqb c t || negb (Nat.ltb c (length (ths s))) || negb (Nat.eqb (lend y) (S t)) || Nat.ltb 0 (refs y) || mustfree y
      then Stuck else
      let s1 := with_th s t {| clk := tick (join (clk x) (clk y)) t; pend := pend x; refs := refs x; excl := excl x;
                               mustfree := mustfree x; started := true; lend := lend x |} in
      Ok (with_th s1 c {| clk := clk y; pend := pend y; refs := refs y; excl := excl y; mustfree := mustfree y;
                          started := started y; lend := 0 |})
  | ACloneB =>
      (* clone(&borrowed): a relaxed increment through the lender's reference; the clone is the borrower's own *)
      if Nat.eqb (lend x) 0 then Stuck else
      if negb (live s) then Err UAF else
      let c' := tick (clk x) t in
      let m := {| val := S (val (hdm s)); view := view (hdm s); wt := t; we := get c' t |} in
      Ok {| msgs := m :: msgs s; Wc := Wc s; Rc := Rc s; live := live s;
            ths := upd (ths s) t {| clk := c'; pend := join (pend x) (view (hdm s)); refs := S (refs x);
                                    excl := false; mustfree := mustfree x; started := true; lend := lend x |} |}
  end.

(* initial state: thread 0 allocated the buffer *)
Definition init (n : nat) : st :=
  let c0 := single 0 1 in
  {| msgs := [ {| val := 1; view := c0; wt := 0; we := 1 |} ]; Wc := c0; Rc := [];
     live := true;
     ths := {| clk := c0; pend := []; refs := 1; excl := false; mustfree := false; started := true; lend := 0 |}
            :: repeat dth n |}.

Fixpoint run (s : st) (l : list (nat * act)) : res :=
  match l with
  | [] => Ok s
  | (t, a) :: l' => match step s t a with Ok s' => run s' l' | r => r end
  end.
Definition is_ok (r : res) := match r with Ok _ => true | _ => false end.
