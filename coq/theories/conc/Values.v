(* Values.v — what a thread can READ from the reference count.
   Every value an atomic operation of thread t returns — the head of the modification order for its RMWs (clone,
   release), any message a possibly stale acquire load may still read (probe) — is at least the number of references t
   itself holds.  So the count a thread reads is always "its own references + a non-negative contribution of the other
   threads": the form the thread-local (view) semantics of Cmd.run gives it ([count x + ext_now m]). *)
From Coq Require Import List Arith Lia Bool.
Import ListNotations.
From LSConc Require Import Clock Mach Inv.

Lemma firstn_forallb_unseen s t p :
  forallb (fun m' => negb (hbb m' (clk (getth s t)))) (firstn p (msgs s)) = true ->
  lends_from s t = false -> unseen s t p.
Proof.
  intros Hf Hl m' Hin. split.
  - rewrite forallb_forall in Hf. specialize (Hf m' Hin). apply negb_true_iff in Hf.
    intros Hhb. apply hbb_spec in Hhb. unfold T in Hhb. congruence.
  - intros c Hc. exfalso. exact (lends_from_false s t c Hl Hc).
Qed.

Theorem rmw_value_ge_refs s t a s' :
  Inv s -> a = AClone \/ a = ACloneB \/ a = ARelease -> step s t a = Ok s' -> refs (getth s t) <= val (hdm s).
Proof.
  intros I Ha H.
  assert (Hlive : live s = true).
  { unfold step in H.
    destruct (negb (Nat.ltb t (length (ths s)))); [discriminate|].
    destruct (negb (started (getth s t))); [discriminate|].
    destruct Ha as [-> | [-> | ->]].
    - destruct (negb (Nat.ltb 0 (refs (getth s t)))); [discriminate|]. destruct (live s); [reflexivity|discriminate].
    - destruct (Nat.eqb (lend (getth s t)) 0); [discriminate|]. destruct (live s); [reflexivity|discriminate].
    - destruct (negb (Nat.ltb 0 (refs (getth s t))) || mustfree (getth s t) || (lends_from s t && Nat.leb (refs (getth s t)) 1)); [discriminate|].
      destruct (live s); [reflexivity|discriminate]. }
  destruct (J1 s I Hlive) as (_ & ->). unfold getth. apply total_ge.
Qed.

Theorem probe_value_ge_refs s t p m s' :
  Inv s -> step s t (AProbe p) = Ok s' -> nth_error (msgs s) p = Some m -> refs (getth s t) <= val m.
Proof.
  intros I H Hm. unfold step in H.
  destruct (negb (Nat.ltb t (length (ths s)))); [discriminate|].
  destruct (negb (started (getth s t))); [discriminate|].
  destruct (Nat.ltb_spec 0 (refs (getth s t))) as [Hr|Hr]; cbn [negb orb] in H; [|discriminate].
  destruct (lends_from s t && Nat.leb (refs (getth s t)) 1); [discriminate|].
  destruct (live s) eqn:Hlive; cbn [negb] in H; [|discriminate].
  rewrite Hm in H.
  destruct (forallb (fun m' => negb (hbb m' (clk (getth s t)))) (firstn p (msgs s))) eqn:Hf; cbn [negb] in H; [|discriminate].
  (* whichever message it reads, nothing newer has reached the thread: J11 *)
  apply (J11 s I t p m Hr Hm). intros m' Hin Hhb. rewrite forallb_forall in Hf. specialize (Hf m' Hin).
  apply hbb_spec in Hhb. unfold T in Hhb. rewrite Hhb in Hf. discriminate.
Qed.
