From Coq Require Import List Arith Lia Bool.
Import ListNotations.
From LSConc Require Import Clock Mach Inv Pres Pres2.

(* ---------- AFence: the thread's clock absorbs what its RMWs read from ---------- *)
Lemma pres_fence s t s' : Inv s -> step s t AFence = Ok s' -> Inv s'.
Proof.
  intros I H. inv_step H. fold (T s t) in H.
  destruct (started (T s t)) eqn:Hst; cbn [negb] in H; [|discriminate].
  injection H as <-. unfold with_th.
  set (c' := join (clk (T s t)) (pend (T s t))).
  set (x' := {| clk := c'; pend := pend (T s t); refs := refs (T s t);
                excl := excl (T s t); mustfree := mustfree (T s t); started := true; lend := lend (T s t) |}).
  assert (HT : forall M W R l u, T {| msgs := M; Wc := W; Rc := R; live := l; ths := upd (ths s) t x' |} u
                         = if Nat.eqb u t then x' else T s u) by (intros; apply T_upd; auto).
  assert (Htot : total (upd (ths s) t x') = total (ths s)).
  { pose proof (total_upd (ths s) t x' Ht). unfold T, getth in *. subst x'; cbn [refs] in *. lia. }
  assert (Hcc : cle (clk (T s t)) c') by (subst c'; pw).
  constructor; cbn [msgs Wc Rc live ths]; unfold hdm; cbn [msgs].
  - intros Hl. destruct (J1 s I Hl) as [Hne Hv]. split; [auto|]. rewrite Htot. exact Hv.
  - intros u. rewrite HT. destruct (Nat.eqb_spec u t) as [->|Hne']; cbn [refs clk x'].
    + intros Hr. eapply cle_trans; [apply (J2 s I t Hr) | exact Hcc].
    + apply (J2 s I u).
  - intros Hl u. destruct (J3 s I Hl u) as [H3|[[h [Hh H3]]|[[h [Hm H3]]|[h [Hb H3]]]]]; [left; exact H3| | |].
    + right. left. exists h. rewrite HT. destruct (Nat.eqb_spec h t) as [->|Hne']; cbn [refs clk x']; [|auto].
      split; [lia|]. specialize (Hcc u). lia.
    + right. right. left. exists h. rewrite HT. destruct (Nat.eqb_spec h t) as [->|Hne']; cbn [mustfree clk x']; [|auto].
      split; [exact Hm|]. specialize (Hcc u). lia.
    + right. right. right. exists h. rewrite HT. destruct (Nat.eqb_spec h t) as [->|Hne']; cbn [lend clk x']; [|auto].
      split; [exact Hb|]. specialize (Hcc u). lia.
  - intros u. rewrite HT. destruct (Nat.eqb_spec u t) as [->|Hne']; cbn [mustfree clk pend x'].
    + intros Hm. destruct (J4 s I t Hm) as (Hl & H0 & HW & HR & Hu). repeat split; auto.
      * rewrite Htot; auto.
      * subst c'. pw.
      * subst c'. pw.
      * intros w. rewrite HT. destruct (Nat.eqb_spec w t); [auto|]. cbn [mustfree]. apply Hu.
    + intros Hm. destruct (J4 s I u Hm) as (Hl & H0 & HW & HR & Hu). repeat split; auto.
      * rewrite Htot; auto.
      * intros w. rewrite HT. destruct (Nat.eqb_spec w t) as [->|]; cbn [mustfree x']; apply Hu.
  - intros u. rewrite HT. destruct (Nat.eqb_spec u t) as [->|Hne']; cbn [excl refs clk x'].
    + intros He. destruct (J5 s I t He) as (Hl & H1 & Ht1 & HWc & HRc).
      repeat split; auto; try (rewrite Htot; auto).
      * eapply cle_trans; [exact HWc | exact Hcc].
      * eapply cle_trans; [exact HRc | exact Hcc].
    + intros He. destruct (J5 s I u He) as (Hl & H1 & Ht1 & HWc & HRc). repeat split; auto. rewrite Htot; auto.
  - intros Hl. destruct (J6 s I Hl) as [H0 Hall]. split; [rewrite Htot; auto|].
    intros u. rewrite HT. destruct (Nat.eqb_spec u t) as [->|]; cbn [mustfree excl x']; apply Hall.
  - apply J7_upd; auto.
  - intros u. rewrite HT. destruct (Nat.eqb_spec u t) as [->|Hne']; cbn [started x']; [discriminate|].
    apply (J8 s I u).
  - intros Hl H0. rewrite Htot in H0. destruct (J9 s I Hl H0) as (h & Hm). exists h. rewrite HT.
    destruct (Nat.eqb_spec h t) as [->|]; cbn [mustfree x']; exact Hm.
  - apply J10_upd; auto. intros (c0 & Hc0). destruct (J10 s I c0 t Hc0) as (_ & _ & Hr' & _ & He' & _). auto.
  - apply J11_upd; auto.
Qed.

(* ---------- AReadM: the freeing thread reads the header after its fence ---------- *)
Lemma pres_readm s t s' : Inv s -> step s t AReadM = Ok s' -> Inv s'.
Proof.
  intros I H. inv_step H. fold (T s t) in H.
  destruct (started (T s t)) eqn:Hst; cbn [negb] in H; [|discriminate].
  destruct (mustfree (T s t)) eqn:Hmf; cbn [negb andb] in H; [|discriminate].
  destruct (cleb (pend (T s t)) (clk (T s t))) eqn:Hfen; cbn [negb] in H; [|discriminate].
  destruct (live s) eqn:Hl; cbn [negb] in H; [|discriminate].
  destruct (cleb (Wc s) (clk (T s t))) eqn:HW; cbn [negb] in H; [|discriminate].
  injection H as <-.
  destruct (J4 s I t Hmf) as (_ & H0 & HW4 & HR4 & Huniq).
  apply cleb_spec in Hfen.
  set (c' := tick (clk (T s t)) t).
  set (x' := {| clk := c'; pend := pend (T s t); refs := refs (T s t);
                excl := excl (T s t); mustfree := true; started := true; lend := lend (T s t) |}).
  assert (HT : forall M W R l u, T {| msgs := M; Wc := W; Rc := R; live := l; ths := upd (ths s) t x' |} u
                         = if Nat.eqb u t then x' else T s u) by (intros; apply T_upd; auto).
  assert (Htot : total (upd (ths s) t x') = total (ths s)).
  { pose proof (total_upd (ths s) t x' Ht). unfold T, getth in *. subst x'; cbn [refs] in *. lia. }
  assert (Hcc : cle (clk (T s t)) c') by (subst c'; pw).
  assert (Hr0 : forall u, refs (T s u) = 0) by (intros u; pose proof (T_le_total s u); lia).
  constructor; cbn [msgs Wc Rc live ths]; unfold hdm; cbn [msgs].
  - intros _. destruct (J1 s I Hl) as [Hne Hv]. split; [auto|]. rewrite Htot. exact Hv.
  - intros u. rewrite HT. destruct (Nat.eqb_spec u t) as [->|Hne']; cbn [refs clk x']; rewrite Hr0; lia.
  - intros _ u. rewrite get_setc. destruct (Nat.eqb_spec u t) as [->|Hne'].
    + right. right. left. exists t. rewrite HT, Nat.eqb_refl. cbn [mustfree clk x']. split; [reflexivity|lia].
    + destruct (J3 s I Hl u) as [H3|[[h [Hh H3]]|[[h [Hm H3]]|[h [Hb H3]]]]]; [left; exact H3| | |].
      * rewrite Hr0 in Hh. lia.
      * right. right. left. exists h. rewrite HT. destruct (Nat.eqb_spec h t) as [->|Hne'']; cbn [mustfree clk x']; [|auto].
        split; [reflexivity|]. specialize (Hcc u). lia.
      * exfalso. destruct (lend (T s h)) as [|q] eqn:El; [contradiction|]. exact (borrower_no_mustfree s h q t I El Hmf).
  - intros u. rewrite HT. destruct (Nat.eqb_spec u t) as [->|Hne']; cbn [mustfree clk pend x'].
    + intros _. split; [reflexivity|]. split; [rewrite Htot; exact H0|]. split; [|split].
      * subst c'. pw.
      * (* the new read is the thread's own *)
        intros v. rewrite get_setc, get_join. subst c'. rewrite !get_tick.
        destruct (Nat.eqb_spec v t) as [->|Hv]; [rewrite Nat.eqb_refl; lia|]. specialize (HR4 v). rewrite get_join in HR4. lia.
      * intros w. rewrite HT. destruct (Nat.eqb_spec w t); [auto|]. apply Huniq.
    + intros Hm. specialize (Huniq u Hm). contradiction.
  - intros u. rewrite HT. destruct (Nat.eqb_spec u t) as [->|Hne']; cbn [excl refs clk x'];
      intros He; [destruct (J5 s I t He) as (_ & H1 & _)|destruct (J5 s I u He) as (_ & H1 & _)]; rewrite Hr0 in H1; lia.
  - discriminate.
  - apply J7_upd; auto.
  - intros u. rewrite HT. destruct (Nat.eqb_spec u t) as [->|Hne']; cbn [started x']; [discriminate|].
    apply (J8 s I u).
  - intros _ _. exists t. rewrite HT, Nat.eqb_refl. reflexivity.
  - apply J10_upd; auto. intros (c0 & Hc0). exfalso. exact (borrower_no_mustfree s c0 t t I Hc0 Hmf).
  - apply J11_upd; auto.
Qed.
