From Coq Require Import List Arith Lia Bool.
Import ListNotations.
From LSConc Require Import Clock Mach Inv Pres.

Lemma T_le_total s t : refs (T s t) <= total (ths s).
Proof. apply total_ge. Qed.
Lemma T2_le_total s t u : t <> u -> refs (T s t) + refs (T s u) <= total (ths s).
Proof. apply total_ge2. Qed.

(* ---------- ARelease ---------- *)
Lemma pres_release s t s' : Inv s -> step s t ARelease = Ok s' -> Inv s'.
Proof.
  intros I H. inv_step H. fold (T s t) in H.
  destruct (started (T s t)) eqn:Hst; cbn [negb] in H; [|discriminate].
  destruct (Nat.ltb_spec 0 (refs (T s t))) as [Hr|Hr]; cbn [negb orb] in H; [|discriminate].
  destruct (mustfree (T s t)) eqn:Hmf; [discriminate|]. cbn [orb] in H.
  destruct (lends_from s t && Nat.leb (refs (T s t)) 1) eqn:Hlf0; [discriminate|].
  assert (Hlf : lends_from s t = false \/ 2 <= refs (T s t)).
  { apply andb_false_iff in Hlf0. destruct Hlf0 as [H0|H0]; [left; exact H0|right; apply Nat.leb_gt in H0; lia]. }
  destruct (live s) eqn:Hl; cbn [negb] in H; [|discriminate].
  injection H as <-.
  destruct (J1 s I Hl) as [Hne Hv].
  set (c' := tick (clk (T s t)) t).
  set (x' := {| clk := c'; pend := join (pend (T s t)) (view (hdm s)); refs := refs (T s t) - 1;
                excl := false; mustfree := Nat.eqb (val (hdm s)) 1; started := true; lend := lend (T s t) |}).
  assert (Hcc : cle (clk (T s t)) c') by (subst c'; apply cle_tick).
  set (m := {| val := val (hdm s) - 1; view := join (view (hdm s)) c'; wt := t; we := get c' t |}).
  assert (HT : forall M W R l u, T {| msgs := M; Wc := W; Rc := R; live := l; ths := upd (ths s) t x' |} u
                         = if Nat.eqb u t then x' else T s u) by (intros; apply T_upd; auto).
  assert (Htot : total (upd (ths s) t x') + 1 = total (ths s)).
  { pose proof (total_upd (ths s) t x' Ht). unfold T, getth in *. subst x'; cbn [refs] in *. lia. }
  pose proof (T_le_total s t) as Hle.
  constructor; cbn [msgs Wc Rc live ths]; unfold hdm; cbn [msgs hd].
  - (* J1 *) intros _. split; [discriminate|]. cbn [val m]. lia.
  - (* J2 *) intros u. rewrite HT. destruct (Nat.eqb_spec u t) as [->|Hne']; cbn [refs clk x'].
    + intros _. pose proof (J2 s I t Hr). subst c'. pw.
    + apply (J2 s I u).
  - (* J3 *) intros _ u. cbn [view m].
    destruct (J3 s I Hl u) as [H3|[[h [Hh H3]]|[[h [Hm H3]]|[h [Hb H3]]]]].
    + left. rewrite get_join. lia.
    + destruct (Nat.eqb_spec h t) as [->|Hne'].
      * left. rewrite get_join. subst c'. rewrite get_tick. destruct (Nat.eqb_spec u t); subst; lia.
      * right. left. exists h. rewrite HT. destruct (Nat.eqb_spec h t); [contradiction|]. auto.
    + exfalso. exact (mustfree_no_refs s h t I Hm Hr).
    + right. right. right. exists h. rewrite HT. destruct (Nat.eqb_spec h t) as [->|Hne']; cbn [lend clk x']; [|auto].
      split; [exact Hb|]. specialize (Hcc u). lia.
  - (* J4 *) intros u. rewrite HT. destruct (Nat.eqb_spec u t) as [->|Hne']; cbn [mustfree clk pend x'].
    + intros Hm. apply Nat.eqb_eq in Hm.
      assert (Hall0 : forall w, w <> t -> refs (T s w) = 0).
      { intros w Hw. pose proof (T2_le_total s t w (not_eq_sym Hw)). lia. }
      split; [reflexivity|]. split; [lia|]. split; [|split].
      * pose proof (J2 s I t Hr). subst c'. pw.
      * intros v. rewrite !get_join. subst c'. rewrite get_tick.
        destruct (J3 s I Hl v) as [H3|[[h [Hh H3]]|[[h [Hm' H3]]|[h [Hb H3]]]]].
        -- destruct (Nat.eqb_spec v t); subst; lia.
        -- destruct (Nat.eqb_spec h t) as [->|Hne'']; [destruct (Nat.eqb_spec v t); subst; lia|].
           specialize (Hall0 h Hne''). lia.
        -- exfalso. exact (mustfree_no_refs s h t I Hm' Hr).
        -- (* a borrower: its lender holds a reference; all references are ours; but we are not lending *)
           exfalso. destruct (lend (T s h)) as [|p] eqn:El; [contradiction|].
           destruct (J10 s I h p El) as (_ & _ & Hrp & _).
           destruct (Nat.eq_dec p t) as [->|Hpt]; [destruct Hlf as [Hlf|H2]; [exact (lends_from_false s t h Hlf El)|lia]|].
           specialize (Hall0 p Hpt). lia.
      * intros w. rewrite HT. destruct (Nat.eqb_spec w t); [auto|]. intros Hw.
        destruct (J4 s I w Hw) as (_ & H0 & _). lia.
    + intros Hm. destruct (J4 s I u Hm) as (_ & H0 & _). lia.
  - (* J5 *) intros u. rewrite HT. destruct (Nat.eqb_spec u t) as [->|Hne']; cbn [excl x']; [discriminate|].
    intros He. destruct (J5 s I u He) as (_ & H1 & Ht1 & _).
    pose proof (T2_le_total s u t Hne'). lia.
  - discriminate.
  - (* J7 *) intros u p m0. rewrite HT. destruct (Nat.eqb_spec u t) as [->|Hne']; cbn [refs clk x'].
    + intros Hr' Hp Hn Hall. exfalso. destruct p as [|p]; [lia|].
      refine (unseen_own _ _ _ _ _ _ _ _ Ht _ Hall). unfold hb. cbn [wt we m clk x']. lia.
    + intros Hr' Hp Hn Hall. destruct p as [|p]; [lia|]. cbn [nth_error] in Hn.
      destruct p as [|p].
      * (* the old head *) destruct (msgs s) as [|m1 l1] eqn:Hms; [contradiction|]. cbn in Hn. injection Hn as <-.
        unfold hdm in Hv. rewrite Hms in Hv. cbn [hd] in Hv. rewrite Hv.
        pose proof (T2_le_total s u t Hne'). lia.
      * apply (J7 s I u (S p) m0 Hr' ltac:(lia) Hn).
        refine (unseen_cons s t x' m _ _ _ u (S p) Ht _ Hcc Hne' Hall). reflexivity.
  - (* J8 *) intros u. rewrite HT. destruct (Nat.eqb_spec u t) as [->|Hne']; cbn [started x']; [discriminate|].
    apply (J8 s I u).
  - intros _ H0. exists t. rewrite HT, Nat.eqb_refl. cbn [mustfree x']. apply Nat.eqb_eq. lia.
  - apply J10_upd; auto. intros (c & Hc). destruct Hlf as [Hlf|H2]; [exfalso; exact (lends_from_false s t c Hlf Hc)|].
    cbn [refs excl x']. split; [lia|reflexivity].
  - apply J11_cons; auto.
    + unfold hb. cbn [wt we m clk x']. lia.
    + intros u. rewrite HT. cbn [val m]. destruct (Nat.eqb_spec u t) as [->|Hne']; cbn [refs x'].
      * lia.
      * pose proof (T2_le_total s u t Hne'). lia.
Qed.
