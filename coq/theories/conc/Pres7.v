(* Pres7.v — lending &handle to a scoped thread: ALend, AReadB (read through the borrowed handle), AJoinB. *)
From Coq Require Import List Arith Lia Bool.
Import ListNotations.
From LSConc Require Import Clock Mach Inv Pres Pres2.

(* ---------- AReadB ---------- *)
Lemma pres_readb s t s' : Inv s -> step s t AReadB = Ok s' -> Inv s'.
Proof.
  intros I H. inv_step H. fold (T s t) in H.
  destruct (started (T s t)) eqn:Hst; cbn [negb] in H; [|discriminate].
  destruct (Nat.eqb_spec (lend (T s t)) 0) as [|Hl0]; [discriminate|].
  destruct (lend (T s t)) as [|p] eqn:El; [contradiction|].
  destruct (live s) eqn:Hl; cbn [negb] in H; [|discriminate].
  destruct (cleb (Wc s) (clk (T s t))) eqn:HW; cbn [negb] in H; [|discriminate].
  injection H as <-.
  destruct (J10 s I t p El) as (_ & Hpt & Hrp & Hlp & Hep & HWt).
  set (x' := {| clk := tick (clk (T s t)) t; pend := pend (T s t); refs := refs (T s t);
                excl := excl (T s t); mustfree := mustfree (T s t); started := true; lend := S p |}).
  assert (HT : forall M W R l u, T {| msgs := M; Wc := W; Rc := R; live := l; ths := upd (ths s) t x' |} u
                         = if Nat.eqb u t then x' else T s u) by (intros; apply T_upd; auto).
  assert (Htot : total (upd (ths s) t x') = total (ths s)).
  { pose proof (total_upd (ths s) t x' Ht). unfold T, getth in *. subst x'; cbn [refs] in *. lia. }
  assert (Hcc : cle (clk (T s t)) (clk x')) by (cbn [clk x']; apply cle_tick).
  constructor; cbn [msgs Wc Rc live ths]; unfold hdm; cbn [msgs].
  - intros _. destruct (J1 s I Hl) as [Hne Hv]. split; [auto|]. rewrite Htot. exact Hv.
  - intros u. rewrite HT. destruct (Nat.eqb_spec u t) as [->|Hne]; cbn [refs clk x'].
    + intros _. eapply cle_trans; [exact HWt|apply cle_tick].
    + apply (J2 s I u).
  - intros _ u. rewrite get_setc. destruct (Nat.eqb_spec u t) as [->|Hne].
    + right. right. right. exists t. rewrite HT, Nat.eqb_refl. cbn [lend clk x']. split; [discriminate|lia].
    + destruct (J3 s I Hl u) as [H3|[[h [Hh H3]]|[[h [Hm H3]]|[h [Hb H3]]]]]; [left; exact H3| | |].
      * right. left. exists h. rewrite HT. destruct (Nat.eqb_spec h t) as [->|Hne']; cbn [refs clk x']; [|auto].
        split; [lia|]. rewrite get_tick. destruct (Nat.eqb_spec u t); [lia|exact H3].
      * exfalso. exact (borrower_no_mustfree s t p h I El Hm).
      * right. right. right. exists h. rewrite HT. destruct (Nat.eqb_spec h t) as [->|Hne']; cbn [lend clk x']; [|auto].
        split; [discriminate|]. rewrite get_tick. destruct (Nat.eqb_spec u t); [lia|exact H3].
  - intros u. rewrite HT. destruct (Nat.eqb_spec u t) as [->|Hne]; cbn [mustfree x']; intros Hm; exfalso;
      exact (borrower_no_mustfree s t p _ I El Hm).
  - intros u. rewrite HT. destruct (Nat.eqb_spec u t) as [->|Hne]; cbn [excl x']; intros He; exfalso;
      exact (borrower_no_excl s t p _ I El He).
  - discriminate.
  - apply J7_upd; auto.
  - intros u. rewrite HT. destruct (Nat.eqb_spec u t) as [->|Hne]; cbn [started x']; [discriminate|]. apply (J8 s I u).
  - intros _ H0. exfalso. rewrite Htot in H0. pose proof (total_ge (ths s) p). unfold T, getth in Hrp. lia.
  - apply J10_upd; auto. intros (c & Hc). destruct (J10 s I c t Hc) as (_ & _ & Hr' & _ & He' & _). auto.
  - apply J11_upd; auto.
Qed.

(* ---------- ALend ---------- *)
Lemma pres_lend s t c s' : Inv s -> step s t (ALend c) = Ok s' -> Inv s'.
Proof.
  intros I H. inv_step H. fold (T s t) in H. fold (T s c) in H.
  destruct (started (T s t)) eqn:Hst; cbn [negb] in H; [|discriminate].
  destruct (Nat.eqb_spec c t) as [Hct|Hct]; cbn [orb] in H; [discriminate|].
  destruct (Nat.ltb_spec c (length (ths s))) as [Hc|Hc]; cbn [negb orb] in H; [|discriminate].
  destruct (started (T s c)) eqn:Hsc; cbn [orb] in H; [discriminate|].
  destruct (Nat.ltb_spec 0 (refs (T s t))) as [Hr|Hr]; cbn [negb orb] in H; [|discriminate].
  destruct (Nat.eqb_spec (lend (T s t)) 0) as [Hlt|Hlt]; cbn [negb] in H; [|discriminate].
  injection H as <-. unfold with_th. cbn [msgs Wc Rc live ths].
  destruct (J8 s I c Hsc) as (Hc0 & Hcm & Hce).
  set (cp := tick (clk (T s t)) t).
  set (xp := {| clk := cp; pend := pend (T s t); refs := refs (T s t); excl := false;
                mustfree := mustfree (T s t); started := true; lend := 0 |}).
  set (xc := {| clk := tick cp c; pend := []; refs := 0; excl := false; mustfree := false; started := true; lend := S t |}).
  assert (HT : forall M W R l u,
             T {| msgs := M; Wc := W; Rc := R; live := l; ths := upd (upd (ths s) t xp) c xc |} u
             = if Nat.eqb u c then xc else if Nat.eqb u t then xp else T s u).
  { intros. unfold T, getth. cbn [ths].
    destruct (Nat.eqb_spec u c) as [->|Hn1]; [apply nth_upd_eq; rewrite upd_length; auto|].
    rewrite nth_upd_ne by auto.
    destruct (Nat.eqb_spec u t) as [->|Hn2]; [apply nth_upd_eq; auto | apply nth_upd_ne; auto]. }
  assert (Htot : total (upd (upd (ths s) t xp) c xc) = total (ths s)).
  { pose proof (total_upd (ths s) t xp Ht) as E1.
    pose proof (total_upd (upd (ths s) t xp) c xc ltac:(rewrite upd_length; auto)) as E2.
    rewrite nth_upd_ne in E2 by auto. unfold T, getth in *. subst xp xc; cbn [refs] in *. lia. }
  assert (Hcc : cle (clk (T s t)) cp) by (subst cp; pw).
  assert (Hcc2 : cle (clk (T s t)) (tick cp c)) by (subst cp; pw).
  assert (Hlive : live s = true).
  { destruct (live s) eqn:Hl; [reflexivity|]. destruct (J6 s I Hl) as (H0 & _). pose proof (T_le_total s t). lia. }
  constructor; cbn [msgs Wc Rc live ths]; unfold hdm; cbn [msgs].
  - intros Hl. destruct (J1 s I Hl) as [Hne Hv]. split; [auto|]. rewrite Htot. exact Hv.
  - intros u. rewrite HT. destruct (Nat.eqb_spec u c) as [->|Hn1]; cbn [refs clk xc]; [lia|].
    destruct (Nat.eqb_spec u t) as [->|Hn2]; cbn [refs clk xp].
    + intros _. eapply cle_trans; [apply (J2 s I t Hr) | exact Hcc].
    + apply (J2 s I u).
  - intros Hl u. destruct (J3 s I Hl u) as [H3|[[h [Hh H3]]|[[h [Hm H3]]|[h [Hb H3]]]]]; [left; exact H3| | |].
    + right. left. exists h. rewrite HT. destruct (Nat.eqb_spec h c) as [->|Hn1]; [lia|].
      destruct (Nat.eqb_spec h t) as [->|Hn2]; cbn [refs clk xp]; [|auto]. split; [lia|]. specialize (Hcc u). lia.
    + exfalso. exact (mustfree_no_refs s h t I Hm Hr).
    + right. right. right. exists h. rewrite HT. destruct (Nat.eqb_spec h c) as [->|Hn1].
      * exfalso. destruct (lend (T s c)) as [|q] eqn:El; [contradiction|]. destruct (J10 s I c q El) as (Hstc & _). congruence.
      * destruct (Nat.eqb_spec h t) as [->|Hn2]; [contradiction|]. auto.
  - intros u. rewrite HT. destruct (Nat.eqb_spec u c) as [->|Hn1]; cbn [mustfree xc]; [discriminate|].
    intros Hm. exfalso. destruct (Nat.eqb_spec u t) as [->|Hn2]; cbn [mustfree xp] in Hm;
      exact (mustfree_no_refs s _ t I Hm Hr).
  - intros u. rewrite HT. destruct (Nat.eqb_spec u c) as [->|Hn1]; cbn [excl xc]; [discriminate|].
    destruct (Nat.eqb_spec u t) as [->|Hn2]; cbn [excl xp]; [discriminate|].
    intros He. destruct (J5 s I u He) as (Hl' & H1 & Ht1 & HWc & HRc).
    exfalso. pose proof (T2_le_total s u t Hn2). lia.
  - intros Hl. congruence.
  - intros u q m0.
    pose (s2 := {| msgs := msgs s; Wc := Wc s; Rc := Rc s; live := live s; ths := upd (upd (ths s) t xp) c xc |}).
    assert (Hclk : forall v, v <> c -> cle (clk (T s v)) (clk (T s2 v))).
    { intros v Hvc. unfold s2. rewrite HT. destruct (Nat.eqb_spec v c) as [->|]; [contradiction|].
      destruct (Nat.eqb_spec v t) as [->|]; [exact Hcc|apply cle_refl]. }
    assert (Hbc : forall v w, lend (T s w) = S v -> w <> c).
    { intros v w Hw ->. destruct (J10 s I c v Hw) as (Hx & _). congruence. }
    assert (Hlend : forall v, v <> c -> lend (T s2 v) = lend (T s v)).
    { intros v Hvc. unfold s2. rewrite HT. destruct (Nat.eqb_spec v c) as [->|]; [contradiction|].
      destruct (Nat.eqb_spec v t) as [->|]; [cbn [lend xp]; congruence|reflexivity]. }
    rewrite HT. destruct (Nat.eqb_spec u c) as [->|Hn1]; cbn [refs clk xc]; [lia|].
    intros Hr' Hq Hn0 Hall1.
    assert (Hru : refs (T s u) > 0) by (destruct (Nat.eqb_spec u t) as [->|]; cbn [refs xp] in Hr'; [exact Hr|exact Hr']).
    assert (Hgoal : refs (T s u) + 1 <= val m0).
    { apply (J7 s I u q m0 Hru Hq Hn0). apply (unseen_mono s s2 u q); [reflexivity|apply Hclk; exact Hn1| |exact Hall1].
      intros w Hw. split; [rewrite Hlend; [exact Hw|exact (Hbc u w Hw)]|apply Hclk; exact (Hbc u w Hw)]. }
    destruct (Nat.eqb_spec u t) as [->|]; cbn [refs xp]; exact Hgoal.
  - intros u. rewrite HT. destruct (Nat.eqb_spec u c) as [->|Hn1]; cbn [started xc]; [discriminate|].
    destruct (Nat.eqb_spec u t) as [->|Hn2]; cbn [started xp]; [discriminate|]. apply (J8 s I u).
  - intros _ H0. exfalso. rewrite Htot in H0. pose proof (T_le_total s t). lia.
  - intros c0 p0. rewrite !HT.
    destruct (Nat.eqb_spec c0 c) as [->|Hc0c]; cbn [lend xc started clk].
    + intros [= <-]. rewrite Nat.eqb_refl. destruct (Nat.eqb_spec t c) as [E|_]; [congruence|]. cbn [refs lend excl xp].
      split; [reflexivity|]. split; [auto|]. split; [exact Hr|]. split; [reflexivity|]. split; [reflexivity|].
      eapply cle_trans; [apply (J2 s I t Hr)|exact Hcc2].
    + destruct (Nat.eqb_spec c0 t) as [->|Hc0t]; cbn [lend xp]; [discriminate|].
      intros El. destruct (J10 s I c0 p0 El) as (Hs0 & Hp0 & Hr0 & Hl0 & He0 & HW0).
      destruct (Nat.eqb_spec p0 c) as [->|Hp0c]; [exfalso; lia|].
      destruct (Nat.eqb_spec p0 t) as [->|Hp0t]; cbn [refs lend excl xp]; repeat split; auto.
  - intros u p m. rewrite HT.
    destruct (Nat.eqb_spec u c) as [->|Hn1]; cbn [refs clk xc]; [intros; lia|].
    destruct (Nat.eqb_spec u t) as [->|Hn2]; cbn [refs clk xp]; [|apply (J11 s I u p m)].
    intros Hr' Hn Hun. apply (J11 s I t p m Hr' Hn). intros m' Hin Hhb. apply (Hun m' Hin). eapply hb_mono; [exact Hcc|exact Hhb].
Qed.

(* ---------- AJoinB ---------- *)
Lemma pres_joinb s t c s' : Inv s -> step s t (AJoinB c) = Ok s' -> Inv s'.
Proof.
  intros I H. inv_step H. fold (T s t) in H. fold (T s c) in H.
  destruct (started (T s t)) eqn:Hst; cbn [negb] in H; [|discriminate].
  destruct (Nat.eqb_spec c t) as [Hct|Hct]; cbn [orb] in H; [discriminate|].
  destruct (Nat.ltb_spec c (length (ths s))) as [Hc|Hc]; cbn [negb orb] in H; [|discriminate].
  destruct (Nat.eqb_spec (lend (T s c)) (S t)) as [Elc|Elc]; cbn [negb orb] in H; [|discriminate].
  destruct (Nat.ltb_spec 0 (refs (T s c))) as [Hrc|Hrc]; cbn [orb] in H; [discriminate|].
  destruct (mustfree (T s c)) eqn:Hmc; [discriminate|].
  injection H as <-. unfold with_th. cbn [msgs Wc Rc live ths].
  destruct (J10 s I c t Elc) as (Hstc & _ & Hr & Hlt & Het & HWc).
  set (cp := tick (join (clk (T s t)) (clk (T s c))) t).
  set (xp := {| clk := cp; pend := pend (T s t); refs := refs (T s t); excl := excl (T s t);
                mustfree := mustfree (T s t); started := true; lend := lend (T s t) |}).
  set (xc := {| clk := clk (T s c); pend := pend (T s c); refs := refs (T s c); excl := excl (T s c);
                mustfree := false; started := started (T s c); lend := 0 |}).
  assert (HT : forall M W R l u,
             T {| msgs := M; Wc := W; Rc := R; live := l; ths := upd (upd (ths s) t xp) c xc |} u
             = if Nat.eqb u c then xc else if Nat.eqb u t then xp else T s u).
  { intros. unfold T, getth. cbn [ths].
    destruct (Nat.eqb_spec u c) as [->|Hn1]; [apply nth_upd_eq; rewrite upd_length; auto|].
    rewrite nth_upd_ne by auto.
    destruct (Nat.eqb_spec u t) as [->|Hn2]; [apply nth_upd_eq; auto | apply nth_upd_ne; auto]. }
  assert (Htot : total (upd (upd (ths s) t xp) c xc) = total (ths s)).
  { pose proof (total_upd (ths s) t xp Ht) as E1.
    pose proof (total_upd (upd (ths s) t xp) c xc ltac:(rewrite upd_length; auto)) as E2.
    rewrite nth_upd_ne in E2 by auto. unfold T, getth in *. subst xp xc; cbn [refs] in *. lia. }
  assert (Hcc : cle (clk (T s t)) cp) by (subst cp; pw).
  assert (Hccc : cle (clk (T s c)) cp) by (subst cp; pw).
  constructor; cbn [msgs Wc Rc live ths]; unfold hdm; cbn [msgs].
  - intros Hl. destruct (J1 s I Hl) as [Hne Hv]. split; [auto|]. rewrite Htot. exact Hv.
  - intros u. rewrite HT. destruct (Nat.eqb_spec u c) as [->|Hn1]; cbn [refs clk xc]; [lia|].
    destruct (Nat.eqb_spec u t) as [->|Hn2]; cbn [refs clk xp].
    + intros _. eapply cle_trans; [apply (J2 s I t Hr) | exact Hcc].
    + apply (J2 s I u).
  - intros Hl u. destruct (J3 s I Hl u) as [H3|[[h [Hh H3]]|[[h [Hm H3]]|[h [Hb H3]]]]]; [left; exact H3| | |].
    + right. left. exists h. rewrite HT. destruct (Nat.eqb_spec h c) as [->|Hn1]; [lia|].
      destruct (Nat.eqb_spec h t) as [->|Hn2]; cbn [refs clk xp]; [|auto]. split; [lia|]. specialize (Hcc u). lia.
    + exfalso. exact (mustfree_no_refs s h t I Hm Hr).
    + (* a borrower covered the read: if it is the one being joined, the lender's new clock covers it *)
      destruct (Nat.eqb_spec h c) as [->|Hn1].
      * right. left. exists t. rewrite HT. destruct (Nat.eqb_spec t c) as [E|_]; [congruence|]. rewrite Nat.eqb_refl.
        cbn [refs clk xp]. split; [exact Hr|]. specialize (Hccc u). lia.
      * right. right. right. exists h. rewrite HT. destruct (Nat.eqb_spec h c) as [E|_]; [contradiction|].
        destruct (Nat.eqb_spec h t) as [->|Hn2]; cbn [lend clk xp]; [|auto]. split; [exact Hb|]. specialize (Hcc u). lia.
  - intros u. rewrite HT. destruct (Nat.eqb_spec u c) as [->|Hn1]; cbn [mustfree xc]; [congruence|].
    intros Hm. exfalso. destruct (Nat.eqb_spec u t) as [->|Hn2]; cbn [mustfree xp] in Hm;
      exact (mustfree_no_refs s _ t I Hm Hr).
  - intros u. rewrite HT. destruct (Nat.eqb_spec u c) as [->|Hn1]; cbn [excl xc];
      [intros He; exfalso; exact (borrower_no_excl s c t c I Elc He)|].
    destruct (Nat.eqb_spec u t) as [->|Hn2]; cbn [excl xp]; [congruence|].
    intros He. exfalso. exact (borrower_no_excl s c t u I Elc He).
  - intros Hl. exfalso. rewrite (borrower_live s c t I Elc) in Hl. discriminate.
  - intros u q m0.
    pose (s2 := {| msgs := msgs s; Wc := Wc s; Rc := Rc s; live := live s; ths := upd (upd (ths s) t xp) c xc |}).
    rewrite HT. destruct (Nat.eqb_spec u c) as [->|Hn1]; cbn [refs clk xc]; [lia|].
    intros Hr' Hq Hn0 Hall1.
    assert (Hru : refs (T s u) > 0) by (destruct (Nat.eqb_spec u t) as [->|]; cbn [refs xp] in Hr'; [exact Hr|exact Hr']).
    assert (Hgoal : refs (T s u) + 1 <= val m0).
    { apply (J7 s I u q m0 Hru Hq Hn0). intros m' Hin. destruct (Hall1 m' Hin) as (H1 & H2).
      assert (HTu : clk (T s2 u) = if Nat.eqb u t then cp else clk (T s u)).
      { unfold s2. rewrite HT. destruct (Nat.eqb_spec u c); [contradiction|]. destruct (Nat.eqb_spec u t); reflexivity. }
      split.
      - intros Hhb. apply H1. fold s2. rewrite HTu. destruct (Nat.eqb_spec u t) as [->|]; [eapply hb_mono; [exact Hcc|exact Hhb]|exact Hhb].
      - intros w Hw Hhb. destruct (Nat.eq_dec w c) as [->|Hwc].
        + (* the borrower being joined: the lender's new clock covers it *)
          assert (u = t) as -> by congruence.
          apply H1. fold s2. rewrite HTu, Nat.eqb_refl. eapply hb_mono; [exact Hccc|exact Hhb].
        + apply (H2 w).
          * fold s2. unfold s2. rewrite HT. destruct (Nat.eqb_spec w c); [contradiction|].
            destruct (Nat.eqb_spec w t) as [->|]; [cbn [lend xp]; exact Hw|exact Hw].
          * fold s2. unfold s2. rewrite HT. destruct (Nat.eqb_spec w c); [contradiction|].
            destruct (Nat.eqb_spec w t) as [->|]; [cbn [clk xp]; eapply hb_mono; [exact Hcc|exact Hhb]|exact Hhb]. }
    destruct (Nat.eqb_spec u t) as [->|]; cbn [refs xp]; exact Hgoal.
  - intros u. rewrite HT. destruct (Nat.eqb_spec u c) as [->|Hn1]; cbn [started xc]; [congruence|].
    destruct (Nat.eqb_spec u t) as [->|Hn2]; cbn [started xp]; [discriminate|]. apply (J8 s I u).
  - intros _ H0. exfalso. rewrite Htot in H0. pose proof (T_le_total s t). lia.
  - intros c0 p0. rewrite !HT.
    destruct (Nat.eqb_spec c0 c) as [->|Hc0c]; cbn [lend xc]; [discriminate|].
    destruct (Nat.eqb_spec c0 t) as [->|Hc0t]; cbn [lend xp started clk].
    + intros El. congruence.
    + intros El. destruct (J10 s I c0 p0 El) as (Hs0 & Hp0 & Hr0 & Hl0 & He0 & HW0).
      destruct (Nat.eqb_spec p0 c) as [->|Hp0c]; [exfalso; lia|].
      destruct (Nat.eqb_spec p0 t) as [->|Hp0t]; cbn [refs lend excl xp]; repeat split; auto.
  - intros u p m. rewrite HT.
    destruct (Nat.eqb_spec u c) as [->|Hn1]; cbn [refs clk xc]; [intros; lia|].
    destruct (Nat.eqb_spec u t) as [->|Hn2]; cbn [refs clk xp]; [|apply (J11 s I u p m)].
    intros Hr' Hn Hun. apply (J11 s I t p m Hr' Hn). intros m' Hin Hhb. apply (Hun m' Hin). eapply hb_mono; [exact Hcc|exact Hhb].
Qed.

(* ---------- ACloneB: clone through a borrowed handle ---------- *)
Lemma pres_cloneb s t s' : Inv s -> step s t ACloneB = Ok s' -> Inv s'.
Proof.
  intros I H. inv_step H. fold (T s t) in H.
  destruct (started (T s t)) eqn:Hst; cbn [negb] in H; [|discriminate].
  destruct (Nat.eqb_spec (lend (T s t)) 0) as [|Hl0]; [discriminate|].
  destruct (lend (T s t)) as [|p] eqn:El; [contradiction|].
  destruct (live s) eqn:Hl; cbn [negb] in H; [|discriminate].
  injection H as <-.
  destruct (J10 s I t p El) as (_ & Hpt & Hrp & Hlp & Hep & HWt).
  destruct (J1 s I Hl) as [Hne Hv].
  set (c' := tick (clk (T s t)) t).
  set (x' := {| clk := c'; pend := join (pend (T s t)) (view (hdm s)); refs := S (refs (T s t));
                excl := false; mustfree := mustfree (T s t); started := true; lend := S p |}).
  set (m := {| val := S (val (hdm s)); view := view (hdm s); wt := t; we := get c' t |}).
  assert (HT : forall M W R l u, T {| msgs := M; Wc := W; Rc := R; live := l; ths := upd (ths s) t x' |} u
                         = if Nat.eqb u t then x' else T s u) by (intros; apply T_upd; auto).
  assert (Htot : total (upd (ths s) t x') = total (ths s) + 1).
  { pose proof (total_upd (ths s) t x' Ht). unfold T, getth in *. subst x'; cbn [refs] in *. lia. }
  assert (Hcc : cle (clk (T s t)) c') by (subst c'; pw).
  assert (Hhbm : hb m (clk x')) by (unfold hb; cbn [wt we m clk x']; lia).
  constructor; cbn [msgs Wc Rc live ths]; unfold hdm; cbn [msgs hd].
  - intros _. split; [discriminate|]. cbn [val m]. lia.
  - intros u. rewrite HT. destruct (Nat.eqb_spec u t) as [->|Hne']; cbn [refs clk x'].
    + intros _. eapply cle_trans; [exact HWt | exact Hcc].
    + apply (J2 s I u).
  - intros _ u. cbn [view m]. destruct (J3 s I Hl u) as [H3|[[h [Hh H3]]|[[h [Hm H3]]|[h [Hb H3]]]]]; [left; exact H3| | |].
    + right. left. exists h. rewrite HT. destruct (Nat.eqb_spec h t) as [->|Hne']; cbn [refs clk x']; [|auto].
      split; [lia|]. specialize (Hcc u). lia.
    + exfalso. exact (borrower_no_mustfree s t p h I El Hm).
    + right. right. right. exists h. rewrite HT. destruct (Nat.eqb_spec h t) as [->|Hne']; cbn [lend clk x']; [|auto].
      split; [discriminate|]. specialize (Hcc u). lia.
  - intros u. rewrite HT. destruct (Nat.eqb_spec u t) as [->|Hne']; cbn [mustfree x']; intros Hm; exfalso;
      exact (borrower_no_mustfree s t p _ I El Hm).
  - intros u. rewrite HT. destruct (Nat.eqb_spec u t) as [->|Hne']; cbn [excl x']; [discriminate|].
    intros He. exfalso. exact (borrower_no_excl s t p u I El He).
  - discriminate.
  - (* J7 *) intros u q m0. rewrite HT. destruct (Nat.eqb_spec u t) as [->|Hne']; cbn [refs clk x'].
    + intros Hr' Hq Hn Hall. exfalso. destruct q as [|q]; [lia|].
      exact (unseen_own s t x' m _ _ _ q Ht Hhbm Hall).
    + intros Hr' Hq Hn Hall. destruct q as [|q]; [lia|]. cbn [nth_error] in Hn.
      destruct (Nat.eq_dec u p) as [->|Hup].
      * (* the lender: its borrower has seen the new message *)
        exfalso. refine (unseen_lender s t x' m _ _ _ p q Ht _ Hhbm Hall). reflexivity.
      * destruct q as [|q].
        -- (* the old head: the lender holds a reference too *)
           destruct (msgs s) as [|m1 l1] eqn:Hms; [contradiction|]. cbn in Hn. injection Hn as <-.
           unfold hdm in Hv. rewrite Hms in Hv. cbn [hd] in Hv. rewrite Hv.
           pose proof (T2_le_total s u p Hup). lia.
        -- apply (J7 s I u (S q) m0 Hr' ltac:(lia) Hn).
           refine (unseen_cons s t x' m _ _ _ u (S q) Ht _ Hcc Hne' Hall). cbn [lend x']. congruence.
  - intros u. rewrite HT. destruct (Nat.eqb_spec u t) as [->|Hne']; cbn [started x']; [discriminate|]. apply (J8 s I u).
  - intros _ H0. lia.
  - apply J10_upd; auto. intros (c0 & Hc0). cbn [refs excl x']. split; [lia|reflexivity].
  - apply J11_cons; auto.
    intros u. cbn [val m]. pose proof (total_ge (upd (ths s) t x') u) as Hg. unfold T, getth. cbn [ths]. lia.
Qed.
