From Coq Require Import List Arith Lia Bool.
Import ListNotations.

(* vector clocks as lists, default 0 *)
Definition clock := list nat.
Definition get (c : clock) (t : nat) : nat := nth t c 0.
Definition cle (c d : clock) : Prop := forall t, get c t <= get d t.

Fixpoint join (c d : clock) : clock :=
  match c, d with
  | [], _ => d
  | _, [] => c
  | x :: c', y :: d' => Nat.max x y :: join c' d'
  end.

Lemma get_nil t : get [] t = 0.
Proof. unfold get; destruct t; reflexivity. Qed.

Lemma get_join c d t : get (join c d) t = Nat.max (get c t) (get d t).
Proof.
  revert d t; induction c as [|x c IH]; intros d t.
  - cbn [join]. rewrite get_nil. lia.
  - destruct d as [|y d]; cbn [join].
    + rewrite get_nil. lia.
    + destruct t as [|t]; unfold get in *; cbn [nth]; [lia| apply IH].
Qed.

Fixpoint setc (c : clock) (t v : nat) : clock :=
  match t, c with
  | 0, [] => [v]
  | 0, _ :: c' => v :: c'
  | S t', [] => 0 :: setc [] t' v
  | S t', x :: c' => x :: setc c' t' v
  end.

Lemma get_setc c t v u : get (setc c t v) u = if Nat.eqb u t then v else get c u.
Proof.
  revert c u; induction t as [|t IH]; intros c u.
  - destruct c, u; unfold get; cbn; try reflexivity. destruct u; reflexivity.
  - destruct c as [|x c], u as [|u]; unfold get in *; cbn [setc nth Nat.eqb]; try reflexivity.
    + rewrite IH. destruct (Nat.eqb u t); [reflexivity|]. destruct u; reflexivity.
    + apply IH.
Qed.

Definition tick (c : clock) (t : nat) : clock := setc c t (S (get c t)).

Lemma cle_refl c : cle c c. Proof. intros t; lia. Qed.
Lemma cle_trans a b c : cle a b -> cle b c -> cle a c.
Proof. intros H1 H2 t; specialize (H1 t); specialize (H2 t); lia. Qed.
Lemma cle_join_l a b : cle a (join a b). Proof. intros t; rewrite get_join; lia. Qed.
Lemma cle_join_r a b : cle b (join a b). Proof. intros t; rewrite get_join; lia. Qed.
Lemma cle_join_lub a b c : cle a c -> cle b c -> cle (join a b) c.
Proof. intros H1 H2 t; rewrite get_join; specialize (H1 t); specialize (H2 t); lia. Qed.
Lemma cle_tick c t : cle c (tick c t).
Proof. intros u; unfold tick; rewrite get_setc; destruct (Nat.eqb_spec u t); subst; lia. Qed.

Lemma get_cons_0 x c : get (x :: c) 0 = x. Proof. reflexivity. Qed.
Lemma get_cons_S x c t : get (x :: c) (S t) = get c t. Proof. reflexivity. Qed.

Fixpoint cleb (c d : clock) : bool :=
  match c, d with
  | [], _ => true
  | x :: c', [] => Nat.eqb x 0 && cleb c' []
  | x :: c', y :: d' => Nat.leb x y && cleb c' d'
  end.

Lemma cleb_spec c d : cleb c d = true <-> cle c d.
Proof.
  revert d; induction c as [|x c IH]; intros d; cbn [cleb].
  - split; [intros _ t; rewrite get_nil; lia | reflexivity].
  - destruct d as [|y d].
    + rewrite andb_true_iff, Nat.eqb_eq, IH. split.
      * intros [-> H] [|t]; [rewrite get_cons_0; lia|].
        rewrite get_cons_S, get_nil. specialize (H t). rewrite get_nil in H. lia.
      * intros H. split; [specialize (H 0); rewrite get_cons_0, get_nil in H; lia|].
        intros t. specialize (H (S t)). rewrite get_cons_S in H. rewrite !get_nil in *. lia.
    + rewrite andb_true_iff, Nat.leb_le, IH. split.
      * intros [Hx H] [|t]; [rewrite !get_cons_0; lia| rewrite !get_cons_S; apply H].
      * intros H. split; [specialize (H 0); rewrite !get_cons_0 in H; lia|].
        intros t. specialize (H (S t)). rewrite !get_cons_S in H. exact H.
Qed.

Definition single (t v : nat) : clock := setc [] t v.
Lemma get_single t v u : get (single t v) u = if Nat.eqb u t then v else 0.
Proof. unfold single. rewrite get_setc, get_nil. reflexivity. Qed.
