(* StepSpec.v — what one machine step does to the acting thread's local state and to nobody else's. *)
From Coq Require Import List Arith Lia Bool.
Import ListNotations.
From LSConc Require Import Clock Mach Inv Pres.

Lemma getth_upd_eq l t x : t < length l -> nth t (upd l t x) dth = x.
Proof. apply nth_upd_eq. Qed.
Lemma getth_upd_ne l t u x : u <> t -> nth u (upd l t x) dth = nth u l dth.
Proof. apply nth_upd_ne. Qed.

(* the other thread an action changes, if any *)
Definition second (a : act) : option nat :=
  match a with ASpawn c _ | ALend c | AJoinB c => Some c | _ => None end.

Definition same_local (x x' : th) : Prop :=
  refs x' = refs x /\ excl x' = excl x /\ mustfree x' = mustfree x /\ pend x' = pend x /\ cle (clk x) (clk x').

Definition same_local_but_excl (x x' : th) : Prop :=
  refs x' = refs x /\ excl x' = false /\ mustfree x' = mustfree x /\ pend x' = pend x /\ cle (clk x) (clk x').

Definition act_spec (s : st) (t : nat) (a : act) (s' : st) : Prop :=
  let x := getth s t in let x' := getth s' t in
  match a with
  | ARead => (0 < refs x) /\ same_local x x'
  | AWrite => excl x = true /\ same_local x x'
  | AClone => (0 < refs x) /\ refs x' = S (refs x) /\ excl x' = false /\ mustfree x' = mustfree x
  | ARelease => (0 < refs x) /\ mustfree x = false /\ refs x' = refs x - 1 /\ excl x' = false
                /\ mustfree x' = Nat.eqb (val (hdm s)) 1
  | AFree => mustfree x = true /\ refs x' = refs x /\ excl x' = false /\ mustfree x' = false /\ pend x' = pend x
             /\ cle (clk x) (clk x')
  | AProbe p => (0 < refs x) /\ exists m, nth_error (msgs s) p = Some m /\ refs x' = refs x
                /\ excl x' = (excl x || Nat.eqb (val m) 1) /\ mustfree x' = mustfree x /\ pend x' = pend x
                /\ cle (clk x) (clk x')
  | ASpawn c k => c <> t /\ k <= refs x /\ started (getth s c) = false /\ c < length (ths s)
                  /\ refs x' = refs x - k /\ excl x' = false /\ mustfree x' = mustfree x /\ pend x' = pend x
                  /\ cle (clk x) (clk x')
                  /\ refs (getth s' c) = k /\ excl (getth s' c) = false /\ mustfree (getth s' c) = false
                  /\ pend (getth s' c) = [] /\ started (getth s' c) = true /\ lend (getth s' c) = 0
  | AJoin c => same_local x x'
  | AFence => refs x' = refs x /\ excl x' = excl x /\ mustfree x' = mustfree x /\ pend x' = pend x
              /\ cle (clk x) (clk x') /\ cle (pend x) (clk x')
  | AReadM => mustfree x = true /\ same_local x x'
  | ALend c => same_local_but_excl x x'
  | AReadB => same_local x x'
  | AJoinB c => same_local x x'
  | ACloneB => refs x' = S (refs x) /\ excl x' = false /\ mustfree x' = mustfree x
  end.

Ltac sl := unfold same_local; cbn [refs excl mustfree pend clk started]; repeat split; auto; try (apply cle_tick); try lia.

Lemma step_spec s t a s' : step s t a = Ok s' ->
  t < length (ths s) /\ started (getth s t) = true /\ started (getth s' t) = true
  /\ length (ths s') = length (ths s)
  /\ (forall u, u <> t -> second a <> Some u -> getth s' u = getth s u)
  /\ lend (getth s' t) = lend (getth s t)
  /\ act_spec s t a s'.
Proof.
  intros H. unfold step in H.
  destruct (Nat.ltb_spec t (length (ths s))) as [Ht|Ht]; cbn [negb] in H; [|discriminate].
  destruct (started (getth s t)) eqn:Hst; cbn [negb] in H; [|discriminate].
  split; [exact Ht|]. split; [reflexivity|].
  unfold act_spec. destruct a.
  - (* read *)
    destruct (Nat.ltb_spec 0 (refs (getth s t))) as [Hr|Hr]; cbn [negb] in H; [|discriminate].
    destruct (live s); cbn [negb] in H; [|discriminate].
    destruct (cleb _ _); cbn [negb] in H; [|discriminate]. injection H as <-. unfold getth; cbn [ths].
    rewrite getth_upd_eq by exact Ht. split; [reflexivity|]. split; [apply upd_length|].
    split; [intros u Hu _; apply getth_upd_ne; exact Hu|]. split; [reflexivity|]. split; [exact Hr|]. sl.
  - (* write *)
    destruct (excl (getth s t)) eqn:He; cbn [negb orb] in H; [|discriminate].
    destruct (lends_from s t); [discriminate|].
    destruct (live s); cbn [negb] in H; [|discriminate].
    destruct (_ && _); cbn [negb] in H; [|discriminate]. injection H as <-. unfold getth; cbn [ths].
    rewrite getth_upd_eq by exact Ht. split; [reflexivity|]. split; [apply upd_length|].
    split; [intros u Hu _; apply getth_upd_ne; exact Hu|]. split; [reflexivity|]. split; [reflexivity|]. sl.
  - (* clone *)
    destruct (Nat.ltb_spec 0 (refs (getth s t))) as [Hr|Hr]; cbn [negb] in H; [|discriminate].
    destruct (live s); cbn [negb] in H; [|discriminate]. injection H as <-. unfold getth; cbn [ths].
    rewrite getth_upd_eq by exact Ht. split; [reflexivity|]. split; [apply upd_length|].
    split; [intros u Hu _; apply getth_upd_ne; exact Hu|]. split; [reflexivity|]. cbn [refs excl mustfree]. auto.
  - (* release *)
    destruct (Nat.ltb_spec 0 (refs (getth s t))) as [Hr|Hr]; cbn [negb orb] in H; [|discriminate].
    destruct (mustfree (getth s t)) eqn:Hm; [discriminate|]. cbn [orb] in H.
    destruct (lends_from s t && Nat.leb (refs (getth s t)) 1); [discriminate|].
    destruct (live s); cbn [negb] in H; [|discriminate]. injection H as <-. unfold getth; cbn [ths].
    rewrite getth_upd_eq by exact Ht. split; [reflexivity|]. split; [apply upd_length|].
    split; [intros u Hu _; apply getth_upd_ne; exact Hu|]. split; [reflexivity|]. cbn [refs excl mustfree]. auto.
  - (* free *)
    destruct (mustfree (getth s t)) eqn:Hm; cbn [negb andb] in H; [|discriminate].
    destruct (cleb (pend (getth s t)) (clk (getth s t))); cbn [negb] in H; [|discriminate].
    destruct (live s); cbn [negb] in H; [|discriminate].
    destruct (_ && _); cbn [negb] in H; [|discriminate]. injection H as <-. unfold getth; cbn [ths].
    rewrite getth_upd_eq by exact Ht. split; [reflexivity|]. split; [apply upd_length|].
    split; [intros u Hu _; apply getth_upd_ne; exact Hu|]. split; [reflexivity|]. cbn [refs excl mustfree pend clk].
    repeat split; auto. eapply cle_trans; [apply cle_join_l|apply cle_tick].
  - (* probe *)
    destruct (Nat.ltb_spec 0 (refs (getth s t))) as [Hr|Hr]; cbn [negb orb] in H; [|discriminate].
    destruct (lends_from s t && Nat.leb (refs (getth s t)) 1); [discriminate|].
    destruct (live s); cbn [negb] in H; [|discriminate].
    destruct (nth_error (msgs s) p) as [m|] eqn:Hm; [|discriminate].
    destruct (forallb _ _); cbn [negb] in H; [|discriminate]. injection H as <-. unfold with_th, getth; cbn [ths].
    rewrite getth_upd_eq by exact Ht. split; [reflexivity|]. split; [apply upd_length|].
    split; [intros u Hu _; apply getth_upd_ne; exact Hu|]. split; [reflexivity|]. split; [exact Hr|]. exists m. cbn [refs excl mustfree pend clk].
    repeat split; auto. eapply cle_trans; [apply cle_join_l|apply cle_tick].
  - (* spawn *)
    destruct (Nat.eqb_spec c t) as [Hct|Hct]; cbn [orb] in H; [discriminate|].
    destruct (Nat.ltb_spec c (length (ths s))) as [Hc|Hc]; cbn [negb orb] in H; [|discriminate].
    destruct (started (getth s c)) eqn:Hsc; cbn [orb] in H; [discriminate|].
    destruct (Nat.leb_spec k (refs (getth s t))) as [Hk|Hk]; cbn [negb orb] in H; [|discriminate].
    destruct (lends_from s t && Nat.leb (refs (getth s t) - k) 0); [discriminate|].
    injection H as <-. unfold with_th, getth; cbn [ths].
    rewrite (getth_upd_ne _ c t) by auto. rewrite getth_upd_eq by exact Ht.
    rewrite getth_upd_eq by (rewrite upd_length; exact Hc).
    split; [reflexivity|]. split; [rewrite !upd_length; reflexivity|].
    split.
    { intros u Hu Hc'. assert (Huc : u <> c) by (intros ->; apply Hc'; reflexivity).
      rewrite getth_upd_ne by exact Huc. apply getth_upd_ne; exact Hu. }
    split; [reflexivity|].
    cbn [refs excl mustfree pend clk started]. fold (getth s t) (getth s c).
    repeat split; auto. apply cle_tick.
  - (* join *)
    destruct (_ || _ || _ || _); [discriminate|]. injection H as <-. unfold with_th, getth; cbn [ths].
    rewrite getth_upd_eq by exact Ht. split; [reflexivity|]. split; [apply upd_length|].
    split; [intros u Hu _; apply getth_upd_ne; exact Hu|]. split; [reflexivity|]. sl.
    eapply cle_trans; [apply cle_join_l|apply cle_tick].
  - (* fence *)
    injection H as <-. unfold with_th, getth; cbn [ths].
    rewrite getth_upd_eq by exact Ht. split; [reflexivity|]. split; [apply upd_length|].
    split; [intros u Hu _; apply getth_upd_ne; exact Hu|]. split; [reflexivity|]. cbn [refs excl mustfree pend clk].
    repeat split; auto; [apply cle_join_l|apply cle_join_r].
  - (* read by the freeing thread *)
    destruct (mustfree (getth s t)) eqn:Hm; cbn [negb andb] in H; [|discriminate].
    destruct (cleb (pend (getth s t)) (clk (getth s t))); cbn [negb] in H; [|discriminate].
    destruct (live s); cbn [negb] in H; [|discriminate].
    destruct (cleb _ _); cbn [negb] in H; [|discriminate]. injection H as <-. unfold getth; cbn [ths].
    rewrite getth_upd_eq by exact Ht. split; [reflexivity|]. split; [apply upd_length|].
    split; [intros u Hu _; apply getth_upd_ne; exact Hu|]. split; [reflexivity|]. split; [reflexivity|]. sl.
  - (* lend *)
    destruct (Nat.eqb_spec c t) as [Hct|Hct]; cbn [orb] in H; [discriminate|].
    destruct (Nat.ltb_spec c (length (ths s))) as [Hc|Hc]; cbn [negb orb] in H; [|discriminate].
    destruct (started (getth s c)); cbn [orb] in H; [discriminate|].
    destruct (negb (Nat.ltb 0 (refs (getth s t)))); cbn [orb] in H; [discriminate|].
    destruct (Nat.eqb_spec (lend (getth s t)) 0) as [Hl0|Hl0]; cbn [negb] in H; [|discriminate].
    injection H as <-. unfold with_th, getth; cbn [ths].
    rewrite (getth_upd_ne _ c t) by auto. rewrite getth_upd_eq by exact Ht.
    split; [reflexivity|]. split; [rewrite !upd_length; reflexivity|].
    split.
    { intros u Hu Hc'. assert (Huc : u <> c) by (intros ->; apply Hc'; reflexivity).
      rewrite getth_upd_ne by exact Huc. apply getth_upd_ne; exact Hu. }
    split; [cbn [lend]; unfold getth in Hl0; rewrite Hl0; reflexivity|].
    unfold same_local_but_excl. cbn [refs excl mustfree pend clk]. repeat split; auto. apply cle_tick.
  - (* read through a borrowed handle *)
    destruct (Nat.eqb (lend (getth s t)) 0); [discriminate|].
    destruct (live s); cbn [negb] in H; [|discriminate].
    destruct (cleb _ _); cbn [negb] in H; [|discriminate]. injection H as <-. unfold getth; cbn [ths].
    rewrite getth_upd_eq by exact Ht. split; [reflexivity|]. split; [apply upd_length|].
    split; [intros u Hu _; apply getth_upd_ne; exact Hu|]. split; [reflexivity|]. sl.
  - (* join a borrower *)
    destruct (Nat.eqb_spec c t) as [Hct|Hct]; cbn [orb] in H; [discriminate|].
    destruct (Nat.ltb_spec c (length (ths s))) as [Hc|Hc]; cbn [negb orb] in H; [|discriminate].
    destruct (_ || _ || _) eqn:Hg; [discriminate|].
    injection H as <-. unfold with_th, getth; cbn [ths].
    rewrite (getth_upd_ne _ c t) by auto. rewrite getth_upd_eq by exact Ht.
    split; [reflexivity|]. split; [rewrite !upd_length; reflexivity|].
    split.
    { intros u Hu Hc'. assert (Huc : u <> c) by (intros ->; apply Hc'; reflexivity).
      rewrite getth_upd_ne by exact Huc. apply getth_upd_ne; exact Hu. }
    split; [reflexivity|].
    sl. eapply cle_trans; [apply cle_join_l|apply cle_tick].
  - (* clone through a borrowed handle *)
    destruct (Nat.eqb (lend (getth s t)) 0); [discriminate|].
    destruct (live s); cbn [negb] in H; [|discriminate]. injection H as <-. unfold getth; cbn [ths].
    rewrite getth_upd_eq by exact Ht. split; [reflexivity|]. split; [apply upd_length|].
    split; [intros u Hu _; apply getth_upd_ne; exact Hu|]. split; [reflexivity|]. cbn [refs excl mustfree]. auto.
Qed.

(* ---------- the other thread of a loan ---------- *)
Lemma lend_spec s t c s' : step s t (ALend c) = Ok s' ->
  c <> t /\ c < length (ths s) /\ started (getth s c) = false
  /\ started (getth s' c) = true /\ refs (getth s' c) = 0 /\ excl (getth s' c) = false /\ mustfree (getth s' c) = false
  /\ lend (getth s' c) = S t.
Proof.
  intros H. unfold step in H.
  destruct (Nat.ltb_spec t (length (ths s))) as [Ht|Ht]; cbn [negb] in H; [|discriminate].
  destruct (started (getth s t)) eqn:Hst; cbn [negb] in H; [|discriminate].
  destruct (Nat.eqb_spec c t) as [Hct|Hct]; cbn [orb] in H; [discriminate|].
  destruct (Nat.ltb_spec c (length (ths s))) as [Hc|Hc]; cbn [negb orb] in H; [|discriminate].
  destruct (started (getth s c)) eqn:Hsc; cbn [orb] in H; [discriminate|].
  destruct (negb (Nat.ltb 0 (refs (getth s t)))); cbn [orb] in H; [discriminate|].
  destruct (Nat.eqb_spec (lend (getth s t)) 0) as [Hl0|Hl0]; cbn [negb] in H; [|discriminate].
  injection H as <-. unfold with_th, getth; cbn [ths].
  rewrite getth_upd_eq by (rewrite upd_length; exact Hc). cbn [started refs excl mustfree lend].
  repeat split; auto.
Qed.

Lemma joinb_spec s t c s' : step s t (AJoinB c) = Ok s' ->
  c <> t /\ c < length (ths s)
  /\ refs (getth s' c) = refs (getth s c) /\ excl (getth s' c) = excl (getth s c)
  /\ mustfree (getth s' c) = mustfree (getth s c) /\ pend (getth s' c) = pend (getth s c)
  /\ clk (getth s' c) = clk (getth s c) /\ started (getth s' c) = started (getth s c).
Proof.
  intros H. unfold step in H.
  destruct (Nat.ltb_spec t (length (ths s))) as [Ht|Ht]; cbn [negb] in H; [|discriminate].
  destruct (started (getth s t)) eqn:Hst; cbn [negb] in H; [|discriminate].
  destruct (Nat.eqb_spec c t) as [Hct|Hct]; cbn [orb] in H; [discriminate|].
  destruct (Nat.ltb_spec c (length (ths s))) as [Hc|Hc]; cbn [negb orb] in H; [|discriminate].
  destruct (_ || _ || _) eqn:Hg; [discriminate|].
  injection H as <-. unfold with_th, getth; cbn [ths].
  rewrite getth_upd_eq by (rewrite upd_length; exact Hc). cbn [started refs excl mustfree lend pend clk].
  repeat split; auto.
Qed.
Lemma joinb_lend s t c s' : step s t (AJoinB c) = Ok s' -> lend (getth s' c) = 0.
Proof.
  intros H. unfold step in H.
  destruct (Nat.ltb_spec t (length (ths s))) as [Ht|Ht]; cbn [negb] in H; [|discriminate].
  destruct (started (getth s t)) eqn:Hst; cbn [negb] in H; [|discriminate].
  destruct (Nat.eqb_spec c t) as [Hct|Hct]; cbn [orb] in H; [discriminate|].
  destruct (Nat.ltb_spec c (length (ths s))) as [Hc|Hc]; cbn [negb orb] in H; [|discriminate].
  destruct (_ || _ || _) eqn:Hg; [discriminate|].
  injection H as <-. unfold with_th, getth; cbn [ths].
  rewrite getth_upd_eq by (rewrite upd_length; exact Hc). reflexivity.
Qed.
